"""C10 - sync words decode to TTL lines and fronts recover every event.

1. TLC: spec/lib/SyncBits.tla (all 65536 words through the steps of split_sync => line k = bit k; read_sync
   rows = digital lines, then thresholded analog lines) and spec/lib/TTL.tla (every 0/1 train of a box,
   1-D and both 2-D orientations: fronts / rises / falls as the code computes them => exactly the events).
2. code -> spec: the real split_sync on all 65536 words, the real Reader.read_sync on real recordings
   (3B imec, nidq with analog lines around the threshold above per-line floors) validated by
   spec/trace/SyncBitsTrace.tla; real recordings with random event trains read back and run through the
   real fronts / rises / falls validated end to end by spec/trace/TTLTrace.tla.
3. spec -> code: every train exported by TLC with its ground-truth events is written into the sync channel
   of real recordings (lines mapped on random subsets of the 16 digital and the analog lines), read back,
   and fronts / rises / falls (1-D, 2-D both axes, dtypes, analog=True) compared with the exported events.
4. binding self-tests: corrupted records must be rejected, perturbed expectations must be flagged.

Input / history dimensions generated on purpose (audit after round e; each judged by the clauses above):
  words handed to split_sync as int16 / uint16 / wider integers / float32 (what Reader.read returns) / column / strided,
  reversed and read-only views; recordings of every probe kind and stream (3A, 3B1, 3B2, NP2.1, NP2.4 four shanks, NPultra;
  ap and lf), flat and compressed (.cbin, several chunks), opened from the binary, a str, the metadata file, with sort=False,
  open=False + context manager; nidq layouts (MN / MA / XA counts, 0..8 analog lines, other full-scale ranges, samples *below*
  the floor); every reading API (read_sync, read_sync_digital, Reader.read positional / with a channel selection / default
  arguments, read_samples, spikeglx.read) interleaved on one Reader object; selectors (steps, negative steps, negative and
  past-the-end bounds, unsorted / duplicated index arrays, lists); threshold positional, floor_percentile=0; fronts / rises /
  falls on every axis spelling (0 / -1 / -2 / 1), single-line 2-D arrays, non-contiguous / Fortran / read-only arguments used
  twice in both call orders, idle levels other than 0 (DC baseline), float amplitudes and steps, analog=True on 1-D / either
  axis / float32 / integers.
Robustness (exit 2 is not a detection): every value that comes back from the real code is read through `cells` / `matrix` / `vec` /
`pair` / `events3` / `events2` (never through int() / indexing / unpacking of the harness's own): a result of another type, shape or
dtype, None, NaN / inf, fractions, complex numbers, strings, numbers beyond TLC's integers become readings (99, NOINDEX, [], NOFRONT)
on which the clause that speaks about them is false; exceptions (SystemExit included) escaping a call are the `Raised:<type>` verdict.
Left out because the unchanged code does not handle them (reported by the audit, not repaired): an empty sample
selection and an integer sample on nidq files with analog lines, nidq files with 0 or 2 digital words, index arrays on
.cbin (mtscomp), unsigned / boolean arrays and lists handed to falls.
"""
import copy
import json
import logging
import random
from pathlib import Path

import numpy as np

from vkit import metagen, tlc, tracecheck

THR12 = [5, 1, 6, 5, 32768]     # range 5 V, threshold 1.2 V (the default), max int 32768
THR125 = [5, 1, 5, 4, 32768]    # threshold 1.25 V: exactly representable -> "at threshold" class
# raw - floor of an analog sample by level and threshold (5 V / 32768 per count: 1.2 V = 7864.32, 1.25 V = 8192)
# thresholds below 1 V and above 2 V at exactly representable levels: a sample exactly at the threshold must read as 1
# whatever the threshold (a value left un-thresholded would be cast to 0 below 1 V and to 2 above 2 V)
THR0625 = [5, 1, 5, 8, 32768]   # 0.625 V = 4096 counts
THR25 = [5, 1, 5, 2, 32768]     # 2.5 V = 16384 counts
DIFFS = {"1.2": {0: [0, 0, 3, 41, 7864], 1: [7865, 7866, 12000]},
         "1.25": {0: [0, 0, 5, 8191], 1: [8192, 8193, 11000]},
         "0.625": {0: [0, 0, 5, 4095], 1: [4096, 4096, 4097, 9000]},
         "2.5": {0: [0, 0, 5, 16383], 1: [16384, 16384, 16385, 20000]}}
THRS = {"1.2": THR12, "1.25": THR125, "0.625": THR0625, "2.5": THR25}
THR_ORDER = ["1.2", "0.625", "2.5", "1.25"]
NIDQ = dict(mn=2, ma=1, xa=2, dw=1)
# other channel layouts of a nidq stream (one digital word each): up to 8 analog sync lines, none, no MN / MA in front
# (the MN / MA gains of the metadata do not concern the analog sync lines)
LAYOUTS = [NIDQ, dict(mn=0, ma=0, xa=8, dw=1, ma_gain=4), dict(mn=0, ma=0, xa=1, dw=1, mn_gain=100, ma_gain=2),
           dict(mn=3, ma=2, xa=4, dw=1, ma_gain=8)]
LAYOUTS_READ = LAYOUTS + [dict(mn=1, ma=0, xa=0, dw=1), dict(mn=0, ma=2, xa=3, dw=1, ma_gain=5, mn_gain=50)]
# forms of an imec recording: (kind, stream, saved data channels, shanks, samples per .cbin chunk or 0 for a flat file)
IMEC_FORMS = [dict(kind="3B2", stream="ap", nch=8, nshank=1, cbin=0), dict(kind="3B2", stream="ap", nch=8, nshank=1, cbin=1000),
              dict(kind="NP2.4", stream="ap", nch=100, nshank=4, cbin=0), dict(kind="3B2", stream="lf", nch=8, nshank=1, cbin=0)]
WORD_FORMS = ["uint16", "int32", "int64u", "float32", "column", "strided", "reversed", "readonly"]


def thr_for(thr_name, range_max=5):
    """<<rn, rd, tn, td, maxint>> of SyncBits.tla for a threshold name and a full-scale range (5, 10 or 2.5 V)"""
    t = list(THRS[thr_name])
    t[0], t[1] = {5: (5, 1), 10: (10, 1), 2.5: (5, 2)}[range_max]
    return t


def classes(thr):
    """raw - floor values by level: far below, just below, exactly at (when representable), just above the threshold"""
    for name, t in THRS.items():
        if list(thr) == t:
            return DIFFS[name]
    rn, rd, tn, td, mx = thr
    b = -(-(tn * mx * rd) // (td * rn))          # smallest count with count * range / maxint >= threshold
    return {0: [0, 0, 3, 41, b - 1], 1: [b, b, b + 1, b + 4000]}


def default_thr(thr):
    return list(thr[2:4]) == [6, 5]


# ------------------------------------------------------------------------------------------------
# defensive observation of what the real code hands back.  Nothing it returns may stop the harness: whatever is not what the
# property promises (None, another shape, NaN / inf, a fraction, a complex number, a string, an object, a number beyond TLC's
# integers) is recorded as a value on which the clause concerned is false; the harness never does arithmetic on returned values
# ------------------------------------------------------------------------------------------------
NOTINT = 99          # reading of a returned value that is not a whole number of moderate size (lines are 0 / 1, fronts +-1..3)
NOINDEX = -7         # reading of a returned index that is not a whole number of moderate size (no sample, no line)
LIBEXC = (Exception, SystemExit)      # what a call of the real code may end with instead of returning
BIG = 2 ** 30


def as_array(x):
    """np.asarray that cannot fail: None if x is None or not array-like (ragged)"""
    if x is None:
        return None
    try:
        return np.asarray(x)
    except Exception:
        return None


def cell(v, bad=NOTINT):
    """one returned value as the integer the specifications speak about, `bad` if it is not one"""
    if isinstance(v, np.ndarray) and v.ndim == 0:
        v = v[()]
    if isinstance(v, (bool, np.bool_)):
        return int(v)
    if isinstance(v, (int, np.integer)):
        return int(v) if -BIG < int(v) < BIG else bad
    if isinstance(v, (float, np.floating)):
        return int(v) if np.isfinite(v) and -BIG < v < BIG and v == int(v) else bad
    if isinstance(v, (complex, np.complexfloating)):
        return cell(v.real, bad) if v.imag == 0 else bad
    return bad


def cells(x, bad=NOTINT):
    """a returned array as nested lists of Python ints of the same shape (None if it is not an array)"""
    a = as_array(x)
    if a is None:
        return None
    k = a.dtype.kind
    if a.ndim == 1 and a.size <= 64 and k in "biuf":         # the index vectors of short trains: plain Python is quicker
        if k == "f":
            return [int(v) if v == v and -BIG < v < BIG and v == int(v) else bad for v in a.tolist()]
        return [int(v) if -BIG < v < BIG else bad for v in a.tolist()]
    if k == "O":
        return np.array([cell(v, bad) for v in a.reshape(-1)], dtype=np.int64).reshape(a.shape).tolist()
    if k not in "biufc":
        return np.full(a.shape, bad, dtype=np.int64).tolist()
    r = a.real if k == "c" else a
    with np.errstate(all="ignore"):
        if k == "b":
            ok = np.ones(a.shape, dtype=bool)
        elif k in "iu":
            ok = (r < BIG) & (r > -BIG)
        else:
            ok = np.isfinite(r) & (r == np.rint(r)) & (r < BIG) & (r > -BIG)
        if k == "c":
            ok = ok & (a.imag == 0)
    out = np.full(a.shape, bad, dtype=np.int64)
    out[ok] = r[ok].astype(np.int64)
    return out.tolist()


def matrix(x, bad=NOTINT):
    """a returned 2-D array as list of rows of ints; [] if it is not a 2-D array"""
    a = as_array(x)
    return cells(a, bad) if a is not None and a.ndim == 2 else []


def vec(x, bad=NOINDEX):
    """a returned vector as list of ints; None if it is not a 1-D array"""
    a = as_array(x)
    return cells(a, bad) if a is not None and a.ndim == 1 else None


def raw_vec(x):
    """a returned vector as list of its values as they are (fronts' values may be fractions of a unit); None if not 1-D"""
    a = as_array(x)
    try:
        return a.tolist() if a is not None and a.ndim == 1 else None
    except Exception:
        return None


def pair(ret, n=2):
    """a returned pair (n-tuple) -> its members; Nones if it is not one"""
    if isinstance(ret, (tuple, list)) and len(ret) == n:
        return tuple(ret)
    return (None,) * n


def val(c, unit=1):
    """a value of fronts in units of the amplitude; 99 if it is not a whole multiple (or not a number)"""
    try:
        return cell(c / unit)
    except Exception:
        return NOTINT


# ------------------------------------------------------------------------------------------------
# real recordings
# ------------------------------------------------------------------------------------------------
def to_cbin(binfile, nc, fs, chunk):
    """the same recording as .cbin / .ch next to its .meta, `chunk` samples per chunk; the flat file is removed"""
    import mtscomp
    mtscomp.tqdm = lambda it=None, **k: it          # progress bars off (cosmetic)
    out = binfile.with_suffix(".cbin")
    mtscomp.compress(binfile, out=out, outmeta=binfile.with_suffix(".ch"), sample_rate=fs, n_channels=nc, dtype=np.int16,
                     chunk_duration=chunk / fs, n_threads=1, check_after_compress=False)
    binfile.unlink()
    return out


def make_imec(folder, stem, words, rng, nch=8, kind="3B2", stream="ap", nshank=1, cbin=0):
    """imec recording (any probe kind, ap or lf stream, flat or compressed) whose sync channel carries `words` (uint16)"""
    ns = len(words)
    sites = metagen.dense_sites(kind, nshank=nshank)[:nch]
    text, info = metagen.make_meta(kind, sites, ns=ns, nsync=1, stream=stream)
    data = metagen.random_int16(rng, ns, nch + 1)
    data[:, -1] = np.asarray(words, dtype=np.uint16).view(np.int16)
    f = metagen.write_recording(folder, stem, text, data, suffix="." + stream)
    return to_cbin(f, nch + 1, info["fs"], cbin) if cbin else f


def make_nidq(folder, stem, words, araw, rng, lay=NIDQ, range_max=5, cbin=0):
    """nidq recording: MN, MA, XA (analog sync, raw int16 `araw` [ns, xa]), DW (digital word)"""
    ns = len(words)
    text, info = metagen.make_nidq_meta(ns=ns, range_max=range_max, **lay)
    data = metagen.random_int16(rng, ns, info["nc"])
    a0 = lay["mn"] + lay["ma"]
    data[:, a0:a0 + lay["xa"]] = araw
    data[:, -1] = np.asarray(words, dtype=np.uint16).view(np.int16)
    f = metagen.write_recording(folder, stem, text, data, suffix=".nidq")
    return to_cbin(f, info["nc"], info["fs"], cbin) if cbin else f


def analog_from_levels(levels, thr, rng, prefix):
    """levels [n, xa] in {0,1} -> (diffs [prefix+n, xa], floors [xa]); `thr` = threshold name or tuple. `prefix` samples are
    put in front so that the 10th percentile of every column is exactly its floor: most of them sit at the floor, about 3 %
    of all samples lie *below* it (the floor of a real trace is not its minimum)"""
    n, xa = levels.shape
    cl = classes(THRS[thr] if isinstance(thr, str) else thr)
    d = np.zeros((prefix + n, xa), dtype=np.int64)
    for c in range(xa):
        for t in range(n):
            d[prefix + t, c] = rng.choice(cl[int(levels[t, c])])
    k = min(int(0.03 * (prefix + n)), max(prefix - 1, 0))
    for c in range(xa):
        if k:
            d[rng.permutation(prefix)[:k], c] = rng.choice([-1, -300, -5000], size=k)
    floors = rng.integers(-20000, 10000, size=xa)
    return d, floors


def floor_is_exact(d):
    """d [m, xa] = raw - floor of the samples of one read: True when np.percentile(raw, 10, axis=0) is the floor exactly
    (the two order statistics around the 10 % position are both samples at the floor)"""
    d = np.asarray(d)
    m = d.shape[0]
    if m == 0:
        return False
    lo, hi = int(np.floor(0.1 * (m - 1))), int(np.ceil(0.1 * (m - 1)))
    neg, zero = (d < 0).sum(axis=0), (d == 0).sum(axis=0)
    return bool(np.all(neg <= lo) and np.all(hi <= neg + zero - 1))


def need_prefix(n):
    # count(diff == 0) >= 0.1 * (prefix + n) + 2  guarantees percentile(., 10) == floor
    return int(np.ceil((0.1 * n + 2) / 0.9)) + 1


# ------------------------------------------------------------------------------------------------
# code -> spec records
# ------------------------------------------------------------------------------------------------
def word_argument(words_signed, form):
    """the words as a caller may hold them -> (argument of split_sync, the value of each word as it was handed over)"""
    ws = np.asarray(words_signed, dtype=np.int64)
    i16 = ws.astype(np.int16)
    if form == "int16":
        return i16, ws
    if form == "uint16":                 # the unsigned reading of the same 16 bits
        return (ws % 65536).astype(np.uint16), ws % 65536
    if form == "int32":
        return ws.astype(np.int32), ws
    if form == "int64u":
        return ws % 65536, ws % 65536
    if form == "float32":                # the sync column of Reader.read: float32 holding the int16 value
        return ws.astype(np.float32), ws
    if form == "column":                 # [n, 1]: what the Reader hands over
        return i16[:, None], ws
    if form == "strided":                # a column of a sample-major array: not contiguous
        big = np.zeros((len(ws), 3), dtype=np.int16)
        big[:, 1] = i16
        return big[:, 1], ws
    if form == "reversed":               # negative stride
        return np.ascontiguousarray(i16[::-1])[::-1], ws
    if form == "readonly":
        i16.setflags(write=False)
        return i16, ws
    raise ValueError(form)


def word_records(words_signed, form="int16"):
    """one vector call of the real split_sync, one record per word"""
    import spikeglx
    recs = []
    arg, given = word_argument(words_signed, form)
    try:
        out = spikeglx.split_sync(arg)
    except LIBEXC as e:
        return [{"kind": "word", "w": int(w), "lines": [], "exc": type(e).__name__, "form": form} for w in given]
    rows = matrix(out)                  # [] unless 2-D; a cell that is not a whole number reads as 99
    ok = len(rows) == len(given)
    for i, w in enumerate(given):
        recs.append({"kind": "word", "w": int(w), "lines": rows[i] if ok else [], "exc": "", "form": form})
    return recs


class Shared:
    """one Reader object for a sequence of reads: calls of different kinds are interleaved on the same object.
    `via`: how the caller names the recording"""

    def __init__(self, binfile, via="path"):
        self.binfile, self.exc, self.sr, self.cm = binfile, "", None, None
        try:
            import spikeglx
            if via == "path":
                self.sr = spikeglx.Reader(binfile)
            elif via == "str":
                self.sr = spikeglx.Reader(str(binfile))
            elif via == "meta":          # the metadata file stands for the recording next to it
                self.sr = spikeglx.Reader(Path(binfile).with_suffix(".meta"))
            elif via == "unsorted":
                self.sr = spikeglx.Reader(binfile, sort=False)
            elif via == "with":          # constructed closed, opened by the context manager
                self.cm = spikeglx.Reader(binfile, open=False)
                self.sr = self.cm.__enter__()
            else:
                raise ValueError(via)
        except LIBEXC as e:
            self.exc = type(e).__name__

    def close(self):
        try:
            if self.cm is not None:
                self.cm.__exit__(None, None, None)
            elif self.sr is not None:
                self.sr.close()
        except LIBEXC:
            pass


def picked(ns, sel):
    """the sample indices a selector (slice / list / index array) picks, as NumPy picks them"""
    return np.arange(ns)[sel]


def read_record(binfile, words, diffs, thr, how="read_sync", sl=None, shared=None):
    """the real Reader on a real file -> one `read` record. words uint16 [n], diffs [n, xa] (raw - floor): what was written at
    the samples that `sl` selects, in the order it selects them. `shared`: a Reader that served other calls before"""
    import spikeglx
    words = np.asarray(words, dtype=np.uint16)
    rec = {"kind": "read", "file": Path(binfile).name, "how": how,
           "words": [int(v) for v in words.view(np.int16)], "diffs": [[int(v) for v in r] for r in diffs],
           "thr": list(thr), "rows": [], "exc": "", "sel": repr(sl)[:80]}
    own = shared is None
    sh = Shared(binfile) if own else shared
    try:
        if sh.exc:
            raise RuntimeError(sh.exc)
        sr = sh.sr
        sl = slice(None) if sl is None else sl
        kw = {} if default_thr(thr) else {"threshold": thr[2] / thr[3]}
        if how == "read_sync":
            rows = sr.read_sync(sl, **kw)
        elif how == "default":        # no argument at all: the first 10000 samples
            rows = sr.read_sync(**kw)
        elif how == "thr_pos":        # the threshold handed over positionally
            rows = sr.read_sync(sl, thr[2] / thr[3])
        elif how == "fp0":            # no floor removal: the voltage itself is thresholded (diffs = raw counts)
            rows = sr.read_sync(sl, floor_percentile=0, **kw)
        elif how == "read":           # the sync returned alongside the data by Reader.read
            rows = pair(sr.read(nsel=sl, csel=slice(None), sync=True))[1]
        elif how == "read_pos":       # positional selection, channel selection and sync left at their defaults
            rows = pair(sr.read(sl))[1]
        elif how == "read_csel":      # a channel selection concerns the data half only
            rows = pair(sr.read(nsel=sl, csel=[1, 0], sync=True))[1]
        elif how == "read_default":
            rows = pair(sr.read())[1]
        elif how == "samples":
            rows = pair(sr.read_samples(sl.start, sl.stop))[1]
        elif how == "module":         # the module-level function opens a Reader of its own
            rows = pair(spikeglx.read(binfile, sl.start, sl.stop), 3)[1]      # data, sync, metadata
        elif how == "digital":
            rows = sr.read_sync_digital(sl)
        else:
            raise tlc.TLCError(f"unknown read api {how}")
        # whatever came back: [] unless it is a 2-D array (then no row per sample); a cell that is not 0 / 1 / a whole number reads
        # as 99 (not a line level)
        rec["rows"] = matrix(rows)
        rec["nonint"] = any(NOTINT in r for r in rec["rows"])
    except tlc.TLCError:
        raise
    except LIBEXC as e:
        rec["exc"] = sh.exc or type(e).__name__
    finally:
        if own:
            sh.close()
    if how == "digital":
        rec["diffs"] = [[] for _ in words]
    return rec


class IndexShape(Exception):
    """the index array returned for a 2-D input is not [2, number of events]: args[0] = the clause that speaks about it"""


NOFRONT = [[NOINDEX, NOINDEX, 0]]        # reading of a result of fronts that is not (index array, values): no event of any train
NOEDGE = [[NOINDEX, NOINDEX]]            # the same for rises / falls


def tl_of(ind, what, time_axis_first):
    """index array [2, n] returned for a 2-D input -> (sample indices, 1-based lines) as lists of ints; an entry that is not a
    whole number reads as NOINDEX"""
    ind = as_array(ind)
    if ind is None or ind.ndim != 2 or ind.shape[0] != 2:
        raise IndexShape(what)
    if ind.dtype.kind in "iu" and ind.size <= 128:       # the usual case, short trains: plain Python is quicker
        a, b = ([v if -BIG < v < BIG else NOINDEX for v in r] for r in ind.tolist())
    else:
        a, b = cells(ind[0], NOINDEX), cells(ind[1], NOINDEX)
    t, l = (a, b) if time_axis_first else (b, a)
    return t, [v + 1 if v != NOINDEX else NOINDEX for v in l]


def kept(t, l, want):
    """events on the lines looked at; an event whose index is not an index is nobody's: kept"""
    return want is None or l in want or NOINDEX in (t, l)


def events3(ret, time_axis_first, want=None, unit=1):
    """what fronts returned for a 2-D input -> [[t, l, v]] on the lines `want` (NOFRONT if it is not index array + values)"""
    try:
        ind, sign = pair(ret)
        t, l = tl_of(ind, "Fronts", time_axis_first)
        sign = raw_vec(sign)
        if sign is None or len(sign) != len(t):       # one value per event
            raise IndexShape("Fronts")
    except IndexShape:
        return [list(r) for r in NOFRONT]
    return [[a, b, val(c, unit)] for a, b, c in zip(t, l, sign) if kept(a, b, want)]


def events2(ret, what, time_axis_first, want=None):
    """what rises / falls returned for a 2-D input -> [[t, l]] on the lines `want` (NOEDGE if it is not an index array)"""
    try:
        t, l = tl_of(ret, what, time_axis_first)
    except IndexShape:
        return [list(r) for r in NOEDGE]
    return [[a, b] for a, b in zip(t, l) if kept(a, b, want)]


def fronts_on(arr, axis, step, lines, time_axis_first, unit=1, falls_first=False):
    """real fronts / rises / falls on a 2-D array -> lists of [t, l(1-based), v] restricted to `lines`.
    `unit`: amplitude the values of fronts are expressed in (a value that is not a whole multiple reads as 99);
    `falls_first`: the three functions are called on the same array object in the opposite order.
    A result that is not of the documented form reads as NOFRONT / NOEDGE (no clause holds on it)"""
    from ibldsp import utils
    want = set(lines)

    def f_fronts():
        return events3(utils.fronts(arr, axis=axis, step=step), time_axis_first, want, unit)

    def f_rises():
        return events2(utils.rises(arr, axis=axis, step=step), "Rises", time_axis_first, want)

    def f_falls():
        return events2(utils.falls(arr, axis=axis, step=-step), "Falls", time_axis_first, want)
    if falls_first:
        fa, ri, fr = f_falls(), f_rises(), f_fronts()
    else:
        fr, ri, fa = f_fronts(), f_rises(), f_falls()
    return fr, ri, fa


def is_matrix(rows, n):
    """what a read returned is a 2-D array with one row per sample read"""
    a = as_array(rows)
    return a is not None and a.ndim == 2 and a.shape[0] == n


def ttl_record_from_file(binfile, words, aux, lines, sl=None, how="read_sync"):
    """end to end: real recording -> read_sync -> fronts/rises/falls on the returned matrix.
    words / aux: what was written at the samples read (`sl`)"""
    import spikeglx
    words = np.asarray(words, dtype=np.uint16)
    rec = {"words": [int(v) for v in words], "aux": [[int(v) for v in r] for r in aux], "lines": sorted(lines),
           "amp": 1, "step": 1, "fronts": [], "rises": [], "falls": [], "exc": "", "file": Path(binfile).name}
    try:
        sr = spikeglx.Reader(binfile)
        try:
            sl = slice(None) if sl is None else sl
            rows = sr.read_sync(sl) if how == "read_sync" else pair(sr.read(nsel=sl, sync=True))[1]
        finally:
            sr.close()
        if is_matrix(rows, len(words)):
            rec["fronts"], rec["rises"], rec["falls"] = fronts_on(rows, 0, 1, lines, True)
        else:       # nothing fronts could be run on: no event of the train is recovered
            rec["fronts"], rec["rises"], rec["falls"] = NOFRONT, NOEDGE, NOEDGE
    except LIBEXC as e:
        rec["exc"] = type(e).__name__
    return rec


def ttl_record_direct(levels, amp, step, variant):
    """direct call on an array built from abstract levels [n, nl]; lines 1..nl <-> bits 0..nl-1 of `words`.
    `variant` picks element type, orientation and axis spelling, the idle level of the lines (a DC baseline: a front is a
    change, whatever the level it starts from), a float amplitude (amp and step in units of 0.5) and the memory layout"""
    levels = np.asarray(levels)
    n, nl = levels.shape
    words = (levels * (1 << np.arange(nl))).sum(axis=1)
    rec = {"words": [int(v) for v in words], "aux": [[] for _ in range(n)], "lines": list(range(1, nl + 1)),
           "amp": amp, "step": step, "fronts": [], "rises": [], "falls": [], "exc": "", "variant": variant}
    dt = [np.int8, np.float64, np.int32, np.float32, np.int64][variant % 5]
    base = [0, 5, -3, 0, 40][(variant // 10) % 5]
    unit = 0.5 if (np.issubdtype(dt, np.floating) and (variant // 50) % 2 == 1) else 1
    arr = ((levels * amp + base) * unit).astype(dt)
    view = (variant // 7) % 3           # 0 contiguous, 1 non-contiguous view, 2 read-only
    try:
        if variant % 2 == 0:
            if view == 1:
                arr = np.asfortranarray(arr)
            a = arr
            ax = [0, -2][(variant // 2) % 2]
            tf = True
        else:
            a = arr.T if view == 1 else np.ascontiguousarray(arr.T)
            ax = [-1, 1][variant % 3 == 0]
            tf = False
        if view == 2:
            a.setflags(write=False)
        rec["fronts"], rec["rises"], rec["falls"] = fronts_on(a, ax, step * unit, rec["lines"], tf, unit=unit,
                                                             falls_first=(variant // 3) % 2 == 1)
    except LIBEXC as e:
        rec["exc"] = type(e).__name__
    return rec


def ttl_nstates(t):
    return 3


# ------------------------------------------------------------------------------------------------
# spec -> code: replay of TLC's trains
# ------------------------------------------------------------------------------------------------
def expected_sets(ev, lmap):
    """TLC's ground truth <<t, l, pol>> with abstract lines mapped on real (1-based) lines"""
    F = {(t, lmap[l - 1], p) for t, l, p in ev}
    R = {(t, l) for t, l, p in F if p == 1}
    D = {(t, l) for t, l, p in F if p == -1}
    return F, R, D


def compare(obs, exp, what):
    """obs = (fronts list, rises list, falls list) from the real code; exp = sets from TLC.
    returns the name of the first property-layer clause that is false, or ''"""
    fr, ri, fa = obs
    F, R, D = exp

    for evs in (fr, ri, fa):
        if len(set(map(tuple, evs))) != len(evs):
            # entries that are not events at all (NOINDEX) are judged by the clause of their list below
            real = [tuple(e) for e in evs if NOINDEX not in e[:2]]
            if len(set(real)) != len(real):
                return "NoDuplicate"
    if set(map(tuple, fr)) != F:
        return "Fronts"
    if set(map(tuple, ri)) != R:
        return "Rises"
    if set(map(tuple, fa)) != D:
        return "Falls"
    return ""


def direct_calls(levels, ev, idx):
    """1-D per line, 2-D both orientations / every axis spelling, several dtypes, memory layouts, idle levels and amplitudes,
    analog=True on voltages around a step. `idx` rotates the variants over the trains.
    returns (label, clause) for every failing comparison (an exception of the real code is the clause `Raised:<type>`)"""
    from ibldsp import utils
    levels = np.asarray(levels)
    n, nl = levels.shape
    ident = list(range(1, nl + 1))
    F, R, D = expected_sets(ev, ident)
    out = []

    def add(label, f, exp=None):
        try:
            obs = f()
        except IndexShape as e:
            out.append((label, e.args[0]))
        except LIBEXC as e:
            out.append((label, "Raised:" + type(e).__name__))
        else:
            out.append((label, compare(obs, exp or (F, R, D), "")))

    def per_line(l):
        return {f for f in F if f[1] == l + 1}, {r for r in R if r[1] == l + 1}, {d for d in D if d[1] == l + 1}

    def edges_1d(ret, l):
        """what rises / falls returned for a vector -> [[t, l]]; NOEDGE if it is not a vector of indices"""
        t = vec(ret)
        return [[a, l + 1] for a in t] if t is not None else [list(r) for r in NOEDGE]

    def one_d(x, l, unit=1, step=None, **kw):
        """fronts / rises / falls on a vector; step None = the functions' own defaults"""
        ks = {} if step is None else {"step": step}
        kf = {} if step is None else {"step": -step}
        ind, sign = pair(utils.fronts(x, **kw, **ks))
        ind, sign = vec(ind), raw_vec(sign)
        ok = ind is not None and sign is not None and len(ind) == len(sign)
        fr = [[t, l + 1, val(v, unit)] for t, v in zip(ind, sign)] if ok else [[-1, -1, 0]]
        ri = edges_1d(utils.rises(x, **kw, **ks), l)
        fa = edges_1d(utils.falls(x, **kw, **kf), l)
        return fr, ri, fa

    # 0 / 1 trains as callers hold them: signed and floating types, and the unsigned / boolean ones np.unpackbits or a comparison
    # give (their differences must not wrap around)
    dts = [np.int8, np.float64, np.int16, np.float32, np.int64, np.uint8, np.bool_]
    dt = dts[idx % 7]
    a = levels.astype(dt)
    # 2-D, time along axis 0 (what read_sync returns; spelt 0 or -2) and along the last axis
    add("2d-axis0-" + dt.__name__, lambda: fronts_on(a, 0, 1, ident, True))
    if idx % 2 == 0:
        add("2d-axis-2-" + dt.__name__, lambda: fronts_on(a, -2, 1, ident, True, falls_first=idx % 4 == 2))
    at = np.ascontiguousarray(a.T)
    add("2d-axis-1-" + dt.__name__, lambda: fronts_on(at, -1, 1, ident, False))
    add("2d-axis1-" + dt.__name__, lambda: fronts_on(at, 1, 1, ident, False))

    # defaults (axis=-1, step=1 / -1) as a caller would write them
    def defaults():
        return events3(utils.fronts(at), False), events2(utils.rises(at), "Rises", False), events2(utils.falls(at), "Falls", False)
    add("2d-defaults-" + dt.__name__, defaults)
    # 1-D, line by line
    for l in range(nl):
        x = a[:, l].copy()
        add(f"1d-line{l + 1}-" + dt.__name__, lambda: one_d(x, l), per_line(l))

    # analog=True: voltages just below / just above the step (rises: > step, falls: < step), far below / above
    rs = np.random.default_rng(idx)
    s = [1.2, 3.0, 0.5, 2.5][idx % 4]
    lo = np.array([np.nextafter(s, -np.inf), s - 0.7, s - 1e-3, -4.0])
    hi = np.array([np.nextafter(s, np.inf), s + 0.7, s + 1e-3, 9.0])
    v = np.where(levels == 1, rs.choice(hi, size=levels.shape), rs.choice(lo, size=levels.shape))
    Fl = [[t, l, p] for t, l, p in F]

    def analog_tl(v, s):
        ri = events2(utils.rises(v, axis=0, step=s, analog=True), "Rises", True)
        fa = events2(utils.falls(v, axis=0, step=s, analog=True), "Falls", True)
        return Fl, ri, fa
    add(f"analog-step{s}", lambda: analog_tl(v, s))

    # ---- rotating: the forms in which a caller may hold the same lines
    r = idx % 8
    if r == 0:
        # memory layouts: transposed view (not contiguous); each array object serves two rounds of calls in opposite orders
        # (an argument is the caller's: what the second round sees is what the first was given)
        av = levels.astype(dt)
        for rnd in (0, 1):
            add(f"2d-view-T-round{rnd}", lambda: fronts_on(av.T, -1, 1, ident, False, falls_first=rnd == 1))
    elif r == 1:
        # Fortran order, read-only
        af = np.asfortranarray(levels.astype(dt))
        af.setflags(write=False)
        for rnd in (0, 1):
            add(f"2d-fortran-readonly-round{rnd}", lambda: fronts_on(af, 0, 1, ident, True, falls_first=rnd == 0))
    elif r == 2:
        av = levels.astype(dt)
        for l in range(nl):
            xv = av[:, l]                               # strided view of a column; the axis of a vector spelt out
            add(f"1d-view-line{l + 1}-axis0", lambda: one_d(xv, l, axis=0), per_line(l))
            add(f"1d-view-line{l + 1}-axis-1", lambda: one_d(xv, l, axis=-1, step=1), per_line(l))
    elif r == 3:
        # lines that idle at another level than 0 and switch by another amount than 1 (integers)
        base, amp = [(-7, 1), (12, 3), (1000, 2), (5, 1)][(idx // 8) % 4]
        di = [np.int16, np.int32, np.int64][(idx // 32) % 3]
        ab = (base + amp * levels).astype(di)
        st = [1, amp][(idx // 16) % 2]
        add(f"2d-base{base}-amp{amp}-step{st}-axis0", lambda: fronts_on(ab, 0, st, ident, True, unit=amp))
        abt = np.ascontiguousarray(ab.T)
        add(f"2d-base{base}-amp{amp}-step{st}-axis-1", lambda: fronts_on(abt, -1, st, ident, False, unit=amp))
        for l in range(nl):
            xb = ab[:, l].copy()
            add(f"1d-base{base}-amp{amp}-line{l + 1}", lambda: one_d(xb, l, unit=amp, step=st), per_line(l))
    elif r == 4:
        # the same in volts: float amplitudes and steps (all exactly representable), float64 and float32
        base, amp = [(3.25, 0.5), (-2.0, 5.0), (100.0, 2.5), (0.75, 0.25)][(idx // 8) % 4]
        df = [np.float64, np.float32][(idx // 32) % 2]
        ab = (base + amp * levels).astype(df)
        st = [amp, amp / 2][(idx // 16) % 2]
        add(f"2d-base{base}-amp{amp}-step{st}-axis0", lambda: fronts_on(ab, 0, st, ident, True, unit=amp))
        add(f"2d-base{base}-amp{amp}-step{st}-axis1", lambda: fronts_on(ab.T, 1, st, ident, False, unit=amp))
        for l in range(nl):
            xb = ab[:, l]
            add(f"1d-base{base}-amp{amp}-line{l + 1}", lambda: one_d(xb, l, unit=amp, step=st), per_line(l))
    elif r == 5:
        # analog=True in the other forms: lines x time along the last axis (spelt -1 or 1), vectors
        vt = np.ascontiguousarray(v.T)
        ax = [-1, 1][(idx // 8) % 2]

        def analog_lt():
            ri = events2(utils.rises(vt, axis=ax, step=s, analog=True), "Rises", False)
            fa = events2(utils.falls(vt, axis=ax, step=s, analog=True), "Falls", False)
            return Fl, ri, fa
        add(f"analog-step{s}-axis{ax}", analog_lt)
        for l in range(nl):
            xl = v[:, l]
            Fq, Rq, Dq = per_line(l)

            def analog_1d():
                return ([[t, q, p] for t, q, p in Fq], edges_1d(utils.rises(xl, step=s, analog=True), l),
                        edges_1d(utils.falls(xl, step=s, analog=True), l))
            add(f"analog-step{s}-1d-line{l + 1}", analog_1d, (Fq, Rq, Dq))
    elif r == 6:
        # analog=True on float32 and on integers
        v32 = np.where(levels == 1, s + 0.7, s - 1e-3).astype(np.float32)
        add(f"analog-step{s}-float32", lambda: analog_tl(v32, s))
        vi = (levels * 3 + 1).astype(np.int16)            # 1 / 4 around an integer step 2: (x > 2)
        add("analog-step2-int16", lambda: analog_tl(vi, 2))
    return [(lab, c) for lab, c in out if c]


class Batch:
    """many TLC trains in one pair of real recordings (imec + nidq), each train in its own segment.
    `cfg` picks the form of the imec recording (IMEC_FORMS) and the channel layout of the nidq one (LAYOUTS; compressed for
    the last)"""

    def __init__(self, cases, seed, thr_name, cfg=0):
        self.cases = cases
        self.rng = np.random.default_rng(seed)
        self.thr_name = thr_name
        self.thr = THRS[thr_name]
        self.cfg = cfg % 4
        self.lay = LAYOUTS[self.cfg]
        self.imec = IMEC_FORMS[self.cfg]
        self.seg = []

    def build(self, folder, stem):
        rng = self.rng
        xa = self.lay["xa"]
        wi, wn, an = [], [], []
        pos_i = pos_n = 0
        for c in self.cases:
            lev = np.asarray(c["x"])
            n, nl = lev.shape
            # imec: abstract lines -> random distinct digital lines, background on the others
            m_i = [int(v) + 1 for v in rng.permutation(16)[:nl]]
            bg = rng.integers(0, 65536, size=n).astype(np.int64)
            for k, l in enumerate(m_i):
                bg = (bg & ~(1 << (l - 1))) | (lev[:, k].astype(np.int64) << (l - 1))
            wi.append(bg)
            # nidq: random distinct lines among 16 digital + analog ones (at least one analog when possible)
            pool = [int(v) + 1 for v in rng.permutation(16)]
            m_n = pool[:nl]
            ana = [int(v) for v in rng.permutation(xa)[:rng.integers(1, min(nl, xa) + 1)]]
            for j, aidx in enumerate(ana):
                m_n[j] = 17 + aidx
            pre = need_prefix(n)
            bgn = rng.integers(0, 65536, size=pre + n).astype(np.int64)
            alev = rng.integers(0, 2, size=(n, xa))
            for k, l in enumerate(m_n):
                if l <= 16:
                    bgn[pre:] = (bgn[pre:] & ~(1 << (l - 1))) | (lev[:, k].astype(np.int64) << (l - 1))
                else:
                    alev[:, l - 17] = lev[:, k]
            # background analog lines must keep >= 10 % of samples at the floor too: their prefix does that
            # every segment rests on a floor of its own (DC drift along the recording): each read finds its floor anew
            d, fl = analog_from_levels(alev, self.thr_name, rng, pre)
            wn.append(bgn)
            an.append(d + fl[None, :])
            self.seg.append({"i": (pos_i, pos_i + n), "n": (pos_n, pos_n + pre + n), "pre": pre, "mi": m_i, "mn": m_n,
                             "alev": alev})
            pos_i += n
            pos_n += pre + n
        self.wi = np.concatenate(wi).astype(np.uint16)
        self.wn = np.concatenate(wn).astype(np.uint16)
        self.f_imec = make_imec(folder, stem, self.wi, rng, **self.imec)
        self.f_nidq = make_nidq(folder, stem, self.wn, np.concatenate(an), rng, lay=self.lay, cbin=700 if self.cfg == 3 else 0)

    def run(self, ctx, key_prefix):
        bad = []
        xa = self.lay["xa"]
        shi, shn = Shared(self.f_imec), Shared(self.f_nidq)
        sri, srn = shi.sr, shn.sr
        kw = {} if self.thr_name == "1.2" else {"threshold": self.thr[2] / self.thr[3]}
        try:
            for j, (c, s) in enumerate(zip(self.cases, self.seg)):
                lev = np.asarray(c["x"])
                n, nl = lev.shape
                # ---- imec (every third train through Reader.read, the others through read_sync)
                # the harness compares its own integer reading of what came back (`matrix`); the real fronts get the object itself
                try:
                    if shi.exc:
                        raise RuntimeError
                    rows = pair(sri.read(nsel=slice(*s["i"]), sync=True))[1] if j % 3 == 2 else sri.read_sync(slice(*s["i"]))
                    cl = layout_clause(rows, n, 16) or lines_clause(matrix(rows), lev, s["mi"])
                    if not cl:
                        cl = compare(fronts_on(rows, 0, 1, s["mi"], True), expected_sets(c["ev"], s["mi"]), "")
                except IndexShape as e:
                    cl = e.args[0]
                except LIBEXC as e:
                    cl = "Raised:" + (shi.exc or type(e).__name__)
                if cl:
                    bad.append(("imec", cl, c, s))
                # ---- nidq (floor prefix read with the train: the percentile is taken over the slice)
                try:
                    if shn.exc:
                        raise RuntimeError
                    rows = srn.read_sync(slice(*s["n"]), **kw)
                    cl = layout_clause(rows, s["pre"] + n, 16 + xa)
                    if not cl:
                        m = np.array(matrix(rows), dtype=np.int64).reshape(s["pre"] + n, 16 + xa)
                        if np.any(m[:s["pre"], 16:] != 0):
                            cl = "AnalogThreshold"
                    if not cl:
                        rows = as_array(rows)[s["pre"]:]
                        cl = lines_clause(m[s["pre"]:], lev, s["mn"])
                    if not cl:
                        cl = compare(fronts_on(rows, 0, 1, s["mn"], True), expected_sets(c["ev"], s["mn"]), "")
                except IndexShape as e:
                    cl = e.args[0]
                except LIBEXC as e:
                    cl = "Raised:" + (shn.exc or type(e).__name__)
                if cl:
                    bad.append(("nidq", cl, c, s))
                ctx.count(2, key=(key_prefix, json.dumps(c["x"])) if len(c["ev"]) > 0 else None)
        finally:
            shi.close()
            shn.close()
        return bad


def layout_clause(rows, n, ncol):
    rows = as_array(rows)
    if rows is None or rows.ndim != 2 or rows.shape[0] != n:
        return "OneRowPerSample"
    if rows.shape[1] != ncol:
        return "RowLayout"
    return ""


def lines_clause(rows, lev, lmap):
    """the lines the train was written on read back as the train; rows = the harness's integer reading (`matrix`) of the matrix
    returned (a value that is not a whole number reads as 99: not the level written)"""
    rows = np.asarray(rows, dtype=np.int64).reshape(len(lev), -1)
    for k, l in enumerate(lmap):
        if not np.array_equal(rows[:, l - 1], lev[:, k]):
            return "DigitalFirst" if l <= 16 else "AnalogThreshold"
    return ""


# ------------------------------------------------------------------------------------------------
def run_models(ctx):
    runs = [("mc/MC_SyncBits.tla", "mc/SyncBits_quick.cfg" if ctx.quick else "mc/SyncBits_thorough.cfg", None),
            ("mc/MC_SyncBits.tla", "mc/SyncBits_read12.cfg", None),
            ("mc/MC_SyncBits.tla", "mc/SyncBits_read125.cfg", None),
            ("mc/MC_SyncBits.tla", "mc/SyncBits_read0625.cfg", None),
            ("mc/MC_SyncBits.tla", "mc/SyncBits_read25.cfg", None),
            ("mc/MC_TTL.tla", "mc/TTL_steps.cfg", None)]
    exports = []
    if ctx.quick:
        runs.append(("mc/MC_TTL.tla", "mc/TTL_quick.cfg", "ttl2.json"))
    else:
        runs += [("mc/MC_TTL.tla", "mc/TTL_thorough.cfg", None), ("mc/MC_TTL.tla", "mc/TTL_export2.cfg", "ttl2.json")]
    runs.append(("mc/MC_TTL.tla", "mc/TTL_export3.cfg", "ttl3.json"))
    runs.append(("mc/MC_TTL.tla", "mc/TTL_export1.cfg", "ttl1.json"))      # one line: 2-D arrays [n, 1] and [1, n]
    from concurrent.futures import ThreadPoolExecutor

    def one(r):
        mod, cfg, out = r
        env = {"OUT_FILE": str(ctx.scratch / out)} if out else {"OUT_FILE": str(ctx.scratch / "unused.json")}
        return r, tlc.run(mod, cfg, workers=2 if "thorough" not in cfg else 4, timeout=2400, env=env)
    with ThreadPoolExecutor(max_workers=3) as ex:
        for (mod, cfg, out), res in ex.map(one, runs):
            ctx.tlc(res, cfg)
            if not res.ok:
                # the implementation layer mirrors the code: a counterexample is a finding only once reproduced
                raise tlc.TLCError(f"{cfg}: model violates {res.invariant_violated} - not reproduced on the real code "
                                   f"(the traces and replays below decide about the code)\n{res.out[-2000:]}")
            if out and "POSTCONDITION" in (tlc.SPEC / cfg).read_text():
                exports.append(ctx.scratch / out)
    cases = []
    for f in exports:
        cases += json.loads(f.read_text())
    return cases


def run(ctx):
    ctx.level = "model_checking"
    logging.getLogger("ibllib").setLevel(logging.ERROR)      # nidq files have no geometry: expected warning
    rng = np.random.default_rng(ctx.seed)
    cases = run_models(ctx)
    if len(cases) < 1000:
        raise tlc.TLCError(f"TLC exported only {len(cases)} trains")

    # ---------------- code -> spec : decoding -------------------------------------------------
    allw = rng.permutation(np.arange(-32768, 32768))
    recs = word_records(allw)
    for r in recs:
        ctx._distinct.add(("word", r["w"]))
    # the same words as other callers hold them (sign bit, byte boundaries and a seeded sample; all of them in the thorough tier)
    edge = [-32768, -32767, -256, -255, -2, -1, 0, 1, 127, 128, 255, 256, 257, 32767, 21845, -21846]
    for k, form in enumerate(WORD_FORMS):
        nf = 500 if ctx.quick else 8192
        recs += word_records(edge + [int(v) for v in allw[k * nf:(k + 1) * nf]], form)
    ctx.count(len(recs))
    folder = ctx.scratch / "rec"
    reads = read_cases(ctx, folder, rng)
    # the reads are dealt over the four batches of words (each batch is one JVM)
    q = -(-len(recs) // 4)
    groups = [[], [], [], []]
    for r in sorted(reads, key=lambda r: -len(r["words"])):
        min(groups, key=lambda g: sum(len(t["words"]) for t in g)).append(r)
    allrecs = []
    for k in range(4):
        allrecs += recs[k * q:(k + 1) * q] + groups[k]
    verd = tracecheck.validate(ctx, "trace/SyncBitsTrace.tla", "trace/SyncBitsTrace.cfg", allrecs, label="syncbits",
                               jvms=4, workers=2, nstates=lambda t: 3)
    for v in verd:
        t = allrecs[v["index"]]
        report_sync(ctx, t, v)
    ctx.sample({"word": recs[0]["w"], "lines": recs[0]["lines"]})
    ctx.sample({"read": reads[-1]["file"], "how": reads[-1]["how"], "row0": reads[-1]["rows"][:1], "word0": reads[-1]["words"][:1],
                "diffs0": reads[-1]["diffs"][:1]})

    # ---------------- spec -> code : TLC's trains on real recordings and on arrays -----------
    nfile = 1500 if ctx.quick else 12000
    order = list(range(len(cases)))
    random.Random(ctx.seed).shuffle(order)
    filecases = [cases[i] for i in order[:nfile]]
    nb = 0
    for b0 in range(0, len(filecases), 500):
        # thresholds and recording forms rotate at different rates: (4 thresholds) x (4 forms) over the thorough tier
        bt = Batch(filecases[b0:b0 + 500], ctx.seed * 1000 + nb, THR_ORDER[nb % 4], cfg=(nb + nb // 4) % 4)
        bt.build(folder, f"trains{nb}")
        for kind, cl, c, s in bt.run(ctx, "file"):
            ctx.violation(f"ttl:{cl}", f"train {c['x']} written on lines {s['mi'] if kind == 'imec' else s['mn']} of a real "
                          f"{kind} recording ({bt.f_imec.name if kind == 'imec' else bt.f_nidq.name}, nidq layout {bt.lay}): "
                          f"clause {cl} false on what read_sync / fronts returned",
                          {"kind": "train", "x": c["x"], "ev": c["ev"], "seed": ctx.seed * 1000 + nb, "thr": bt.thr_name,
                           "cfg": bt.cfg})
        nb += 1
    for idx, c in enumerate(cases):
        for lab, cl in direct_calls(c["x"], c["ev"], idx):
            ctx.violation(f"ttl:{cl}", f"train {c['x']} as array ({lab}): clause {cl} false on fronts/rises/falls",
                          {"kind": "array", "x": c["x"], "ev": c["ev"], "idx": idx})
        ctx.count(1, key=("arr", json.dumps(c["x"])) if c["ev"] else None)
    ctx.sample({"train": cases[order[0]]["x"], "events": cases[order[0]]["ev"]})

    # ---------------- code -> spec : end to end, random long trains + amplitude / step variants ---
    second_long_reads(ctx, folder, np.random.default_rng(ctx.seed + 4242))
    ttl = long_train_records(ctx, folder, rng)
    k = 0
    for c in [cases[i] for i in order[:(300 if ctx.quick else 3000)]]:
        for amp, step in [(1, 1), (2, 1), (2, 2), (2, 3), (3, 2), (1, 2), (3, 3), (3, 4)]:
            if (k + amp + step) % 4 == 0 or (amp, step) == (1, 1):
                ttl.append(ttl_record_direct(c["x"], amp, step, k))
            k += 1
    ctx.count(len(ttl))
    verd = tracecheck.validate(ctx, "trace/TTLTrace.tla", "trace/TTLTrace.cfg", ttl, label="ttl", jvms=4, workers=2,
                               nstates=ttl_nstates, timeout=1800)
    for v in verd:
        t = ttl[v["index"]]
        if v["prop"]:
            ctx.violation("ttl:" + v["prop"].split(":")[0], f"recording/array with {len(t['words'])} samples, lines {t['lines']}, "
                          f"amp {t['amp']}, step {t['step']}: clause {v['prop']} false ({v['pos']} true events)",
                          {"kind": "ttltrace", "trace": t})
    selftest(ctx, allrecs, ttl, cases)
    ctx.cov["rule"] = ("model: all 65536 words through split_sync's steps; every 0/1 train of the box (1-3 lines x length) x array "
                       "orientation x axis spelling; traces: the real split_sync on all 65536 words (and in 8 other argument forms), "
                       "rows of every reading API of the real Reader on real recordings (all probe kinds, ap / lf, flat / .cbin, nidq "
                       "layouts with 0-8 analog lines, selectors), real fronts/rises/falls on what read_sync returned; replay: every "
                       "exported train on arrays (layouts, idle levels, amplitudes, analog), a seeded subset written into real "
                       "recordings of rotating forms; non-trivial = a train with at least one event / a distinct word")
    ctx.cov["exhaustive"] = True
    ctx.assumptions += ["nidq analog values are exact in float32 (5 V / 32768 per count, floor = a raw count held by > 10 % of the "
                        "samples of the slice read): thresholding is decided in integer arithmetic by the spec",
                        "one digital sync word per sample (snsMnMaXaDw DW = 1; with 0 or 2 words read_sync raises on the unchanged "
                        "code); at least one sample selected, by a slice / list / index array (an empty selection and a bare integer "
                        "raise on nidq files with analog lines); lines handed to fronts / rises / falls as signed integers or floats",
                        "falls/rises(analog=True) are exercised just below / just above the step, not exactly at it (the two "
                        "functions document different conventions there)"]


def report_sync(ctx, t, v):
    if v["prop"]:
        if t["kind"] == "word":
            ctx.violation("sync:" + v["prop"].split(":")[0], f"split_sync(word {t['w']} = {t['w'] % 65536:#06x}, handed over as "
                          f"{t.get('form', 'int16')}) returned {t['lines']}: clause {v['prop']} false",
                          {"kind": "word", "w": t["w"], "form": t.get("form", "int16")})
        else:
            ctx.violation("sync:" + v["prop"].split(":")[0], f"Reader.{t['how']} on {t['file']} (samples {t.get('sel')}, "
                          f"{t.get('gen')}): clause {v['prop']} false at row {v['pos'] - 1}",
                          {"kind": "read", "trace": {k: t[k] for k in t if k != "rows"}, "gen": t.get("gen")})
    elif v["impl"]:
        ctx.spec_drift(f"{t['kind']} record: {v['impl']} differs from the implementation layer, property layer holds")


def read_cases(ctx, folder, rng):
    """real recordings read through the Reader -> `read` records"""
    out = []

    def emit(f, gen, sh, words, diffs, thr, how, sl):
        r = read_record(f, words, diffs, thr, how, sl=sl, shared=sh)
        r["gen"] = gen
        out.append(r)

    # ---- all 65536 words through a real 3B recording (8 saved channels + sync): one Reader object serves every call, the
    # first with no argument at all (samples 0..10000), the others in slices through every reading API in turn
    w = rng.permutation(65536).astype(np.uint16)
    f = make_imec(folder, "allwords", w, rng)
    sh = Shared(f)
    emit(f, {"file": "allwords", "a": 0}, sh, w[:10000], [[]] * 10000, THR12, "default", None)
    apis = ["read_sync", "digital", "read", "read_pos", "read_csel", "samples", "module"]
    for k, a in enumerate(range(10000, 65536, 4096)):
        b = min(a + 4096, 65536)
        emit(f, {"file": "allwords", "a": a}, sh, w[a:b], [[]] * (b - a), THR12, apis[k % len(apis)], slice(a, b))
    sh.close()

    # ---- every probe kind and stream at full size (3A sync is the 385th channel as well), named in every way
    ns = 300 if ctx.quick else 2000
    vias = ["path", "str", "meta", "unsorted", "with"]
    for k, (kind, stream, nshank) in enumerate([("3B2", "ap", 1), ("3A", "ap", 1), ("3B1", "ap", 1), ("NP2.1", "ap", 1),
                                                ("NP2.4", "ap", 4), ("NPultra", "ap", 1), ("3B2", "lf", 1), ("3A", "lf", 1)]):
        w = rng.integers(0, 65536, size=ns).astype(np.uint16)
        f = make_imec(folder, "full" + kind.replace(".", "") + stream, w, rng, nch=384, kind=kind, stream=stream, nshank=nshank)
        sh = Shared(f, via=vias[k % len(vias)])
        for how in ("read_sync", ["read", "read_csel", "read_default", "read_pos"][k % 4]):
            emit(f, {"file": "full", "kind": kind, "stream": stream, "via": vias[k % len(vias)]}, sh, w, [[]] * ns, THR12, how, None)
        sh.close()

    # ---- selectors, on a flat file and on the same recording compressed in several chunks (bounds inside, on and across
    # chunk borders; steps; backwards; negative and past-the-end bounds); index arrays and lists on the flat file
    ns, ck = (1200, 400) if ctx.quick else (6000, 1000)
    w = rng.integers(0, 65536, size=ns).astype(np.uint16)
    sels = [slice(None), slice(ck - 10, ck + 10), slice(ck - 1, 2 * ck + 1), slice(0, ns, 3), slice(ns - 200, 40, -7),
            slice(None, None, -2), slice(-10, None), slice(ns - 10, ns + 800), slice(ck, 2 * ck), slice(5, -5, 2 * ck - 1)]
    arrs = [np.array([ns - 1, 0, ck, ck, 7]), [3, 2, 1], np.sort(rng.integers(0, ns, size=50)), rng.integers(-ns, ns, size=40),
            np.arange(ck - 5, ck + 5, dtype=np.int32), rng.permutation(ns)[:60].astype(np.uint16)]
    hows = ["read_sync", "read", "digital", "read_pos", "read_csel"]
    for form, cbin in (("flat", 0), ("cbin", ck)):
        f = make_imec(folder, "sel" + form, w, rng, cbin=cbin)
        sh = Shared(f)
        for k, sl in enumerate(sels + (arrs if not cbin else [])):
            ws = w[sl] if isinstance(sl, slice) else w[picked(ns, sl)]
            emit(f, {"file": "sel", "form": form, "k": k}, sh, ws, [[]] * len(ws), THR12, hows[(k + (cbin > 0)) % len(hows)], sl)
        sh.close()

    # ---- nidq: channel layouts, full-scale ranges, thresholds; analog lines around the threshold above per-line floors
    nrec = 8 if ctx.quick else 48
    for i in range(nrec):
        lay = LAYOUTS_READ[i % len(LAYOUTS_READ)]
        xa = lay["xa"]
        range_max = [5, 5, 10, 5, 5, 2.5, 10, 5][i % 8]
        thr_name = THR_ORDER[i % 4] if range_max != 2.5 else ["1.2", "0.625"][(i // 8) % 2]
        thr = thr_for(thr_name, range_max)
        n = int(rng.integers(20, 400))
        lev = rng.integers(0, 2, size=(n, xa))
        if i % 3 == 0 and xa:
            lev[:, 0] = (np.arange(n) // max(1, n // 7)) % 2       # slow square wave
        pre = need_prefix(n)
        d, floors = analog_from_levels(lev, thr, rng, pre)
        w = rng.integers(0, 65536, size=pre + n).astype(np.uint16)
        f = make_nidq(folder, f"nidq{i}", w, d + floors[None, :], rng, lay=lay, range_max=range_max, cbin=97 if i % 8 == 3 else 0)
        gen = {"file": "nidq", "i": i, "layout": lay, "range": range_max, "thr": thr_name}
        sh = Shared(f)
        emit(f, gen, sh, w, d, thr, "read_sync" if i % 2 == 0 else "thr_pos", None)
        # a second look at the same recording through a selector: the floor is that of the samples selected
        m = pre + n
        cands = [slice(0, m, 2), slice(m - 1, None, -1), np.r_[rng.permutation(pre), pre + np.sort(rng.permutation(n)[:n // 2])],
                 slice(0, pre + n // 2)]
        sl = cands[i % 4]
        if isinstance(sl, np.ndarray) and f.suffix == ".cbin":
            sl = cands[0]
        idx = picked(m, sl)
        if xa == 0 or floor_is_exact(d[idx]):
            how = "read_sync" if not default_thr(thr) else ["read_csel", "read_pos", "read", "read_sync"][(i // 4) % 4]
            if how == "read_csel" and lay["mn"] + lay["ma"] + xa < 2:
                how = "read"
            emit(f, gen, sh, w[idx], d[idx], thr, how, sl)
        sh.close()

    # ---- nidq with floor_percentile=0: nothing is subtracted, the voltage itself is compared with the threshold
    for i in range(2 if ctx.quick else 8):
        lay = LAYOUTS[(i + 1) % 4]
        thr_name = THR_ORDER[i % 4]
        thr = THRS[thr_name]
        n = int(rng.integers(30, 200))
        lev = rng.integers(0, 2, size=(n, lay["xa"]))
        bnd = classes(thr)[1][0]
        raw = np.where(lev == 1, rng.choice([bnd, bnd + 1, bnd + 300], size=lev.shape),
                       rng.choice([bnd - 1, bnd - 2, bnd - 500], size=lev.shape))     # lows far above zero volts
        w = rng.integers(0, 65536, size=n).astype(np.uint16)
        f = make_nidq(folder, f"nidqfp{i}", w, raw, rng, lay=lay)
        emit(f, {"file": "nidqfp", "i": i, "layout": lay, "thr": thr_name, "floor_percentile": 0}, None, w, raw, thr, "fp0", None)
    ctx.count(sum(len(r["words"]) for r in out))
    return out


def second_long_reads(ctx, folder, rng):
    """one read longer than a second of samples (the default read is 10000 rows; whole-file reads are common): the analog
    line rests high for almost all of the first second, then carries short pulses - over the whole read more than 10 % of
    the samples sit at the floor, so the line must read back exactly as written (nothing may be estimated on the beginning
    of a read only).  Judged directly (the trace specification is not made for 10^5 rows per record): digital lines = the
    bits of the words, analog line = the written levels, fronts recover every event."""
    import spikeglx
    from ibldsp import utils
    for k in range(1 if ctx.quick else 4):
        lay = dict(mn=0, ma=0, xa=1, dw=1) if k % 2 == 0 else NIDQ
        text, info = metagen.make_nidq_meta(ns=10, **lay)
        fs = int(round(info["fs"]))
        n = int(fs * (2.2 + 0.4 * k)) + 7
        lev = np.zeros((n, lay["xa"]), dtype=np.int64)
        lev[int(0.02 * fs):int(0.97 * fs), 0] = 1                         # high for 95 % of the first second
        t = int(1.05 * fs)
        while t < n - 400:
            lev[t:t + int(rng.integers(40, 300)), 0] = 1                  # short pulses afterwards
            t += int(rng.integers(2000, 6000))
        if lay["xa"] > 1:
            lev[int(0.5 * fs)::int(0.37 * fs), 1] = 1
        diffs = np.where(lev == 1, 12000, 0)
        floors = rng.integers(-20000, 10000, size=lay["xa"])
        words = rng.integers(0, 65536, size=n).astype(np.uint16)
        f = make_nidq(folder, f"second{k}", words, diffs + floors[None, :], rng, lay=lay)
        what = f"read_sync of the whole of a {n}-sample nidq recording (fs = {fs}, {lay})"
        sc = {"kind": "second", "k": k, "seed": ctx.seed}
        ctx.count(1, key=("second-long-read", k, n))
        try:
            sr = spikeglx.Reader(f)
            try:
                rows = sr.read_sync(slice(0, n))
            finally:
                sr.close()
        except LIBEXC as e:
            ctx.violation("sync:Raised:" + type(e).__name__, f"{what} raised {type(e).__name__}: {e}"[:300], sc)
            continue
        if layout_clause(rows, n, 16 + lay["xa"]):
            shape = getattr(as_array(rows), "shape", None)
            ctx.violation("sync:OneRowPerSample", f"{what}: shape {shape}", sc)
            continue
        # the harness's integer reading of the matrix returned (a value that is not a whole number reads as 99)
        rows = np.array(matrix(rows), dtype=np.int64).reshape(n, 16 + lay["xa"])
        bits = ((words[:, None].astype(np.int64) >> np.arange(16)[None, :]) & 1)
        if not np.array_equal(rows[:, :16], bits):
            ctx.violation("sync:DigitalFirst", f"{what}: the digital lines are not the bits of the words", sc)
        elif not np.array_equal(rows[:, 16:], lev):
            bad = np.flatnonzero(np.any(rows[:, 16:] != lev, axis=1))
            try:        # for the message only
                nrec = len(vec(pair(utils.fronts(rows[:, 16].astype(np.int8)))[0]) or [])
            except LIBEXC as e:
                nrec = f"fronts raised {type(e).__name__}"
            ctx.violation("ttl:AnalogThreshold", f"{what}: the analog lines differ from the levels written at {bad.size} samples, first "
                          f"at {bad[:3].tolist()} ({int(np.sum(np.diff(lev[:, 0]) != 0))} fronts written on the first line, "
                          f"{nrec} recovered)", sc)


def long_train_records(ctx, folder, rng):
    """random long event trains on random line subsets, end to end through real files (imec forms and nidq layouts in turn)"""
    out = []
    ntr, ns = (24, 1500) if ctx.quick else (200, 10000)
    for i in range(ntr):
        nl = int(rng.integers(1, 6))
        use_nidq = i % 2 == 1
        lay = LAYOUTS[(i // 2) % 4]
        xa = lay["xa"]
        pool = 16 + (xa if use_nidq else 0)
        lines = sorted(int(v) + 1 for v in rng.permutation(pool)[:nl])
        if use_nidq and not any(l > 16 for l in lines):
            lines[-1] = 17 + int(rng.integers(0, xa))
            lines = sorted(set(lines))
        nev = int(rng.integers(1, 60))
        lev = np.zeros((ns, pool), dtype=np.int64)
        for l in range(pool):
            # lines not looked at toggle too (background)
            k = nev if (l + 1) in lines else int(rng.integers(0, 200))
            tt = np.sort(rng.choice(np.arange(1, ns), size=min(k, ns - 1), replace=False))
            # include adjacent toggles (single-sample pulses) and a toggle at the last sample
            if len(tt) > 3:
                tt[1] = min(ns - 1, tt[0] + 1)
                tt[-1] = ns - 1
            tog = np.zeros(ns, dtype=np.int64)
            tog[np.unique(tt)] = 1
            lev[:, l] = (int(rng.integers(0, 2)) + np.cumsum(tog)) % 2
        words = (lev[:, :16] * (1 << np.arange(16))).sum(axis=1).astype(np.uint16)
        how = "read_sync" if i % 3 else "read"
        if use_nidq:
            alev = lev[:, 16:]
            # every analog line must rest at its floor for > 10 % of the samples read
            pre = need_prefix(ns)
            d, floors = analog_from_levels(alev, "1.2", rng, pre)
            wfull = np.r_[np.zeros(pre, dtype=np.uint16), words]
            f = make_nidq(folder, f"long{i}", wfull, d + floors[None, :], rng, lay=lay, cbin=600 if (i // 2) % 4 == 3 else 0)
            aux = np.r_[np.zeros((pre, xa), dtype=np.int64), alev]
            out.append(ttl_record_from_file(f, wfull, aux, lines, how=how))
        else:
            f = make_imec(folder, f"long{i}", words, rng, **IMEC_FORMS[(i // 2) % 4])
            # some recordings are read from a later sample on: the events are those inside what was read
            sl = slice(137, ns - 5) if (i // 2) % 3 == 1 else None
            ws = words if sl is None else words[sl]
            out.append(ttl_record_from_file(f, ws, [[] for _ in range(len(ws))], lines, sl=sl, how=how))
        for g in f.parent.glob(f.name.split(".")[0] + ".*"):
            g.unlink()
    return out


# ------------------------------------------------------------------------------------------------
def trec_levels():
    return [[0, 0], [1, 0], [1, 1], [0, 1], [0, 1]]


def trec_events():
    return [[1, 1, 1], [2, 2, 1], [3, 1, -1]]


def gold_records(seed):
    """records built from the definitions (not from the code under test): accepted by construction"""
    rng = np.random.default_rng(seed)
    words = [int(v) for v in rng.integers(-32768, 32768, size=8)] + [-32768, 255, 256, -2]
    wrec = [{"kind": "word", "w": w, "lines": [((w % 65536) >> k) & 1 for k in range(16)], "exc": ""} for w in words]
    rrec = []
    for thr_name, thr in (("1.2", THR12), ("1.25", THR125), ("0.625", THR0625), ("2.5", THR25)):
        n = 30
        lev = rng.integers(0, 2, size=(n, 2))
        d, _ = analog_from_levels(lev, thr_name, rng, 0)
        ws = [int(v) for v in rng.integers(-32768, 32768, size=n)]
        rows = [[((w % 65536) >> k) & 1 for k in range(16)] + [int(v) for v in lev[t]] for t, w in enumerate(ws)]
        rrec.append({"kind": "read", "file": "gold", "how": "read_sync", "words": ws, "diffs": [[int(v) for v in r] for r in d],
                     "thr": thr, "rows": rows, "exc": ""})
    trec = []
    for j in range(12):
        n, nl = 40, 3
        lev = rng.integers(0, 2, size=(n, nl))
        lev[:5, 0] = [0, 1, 1, 0, 1]
        words = (lev * (1 << np.arange(nl))).sum(axis=1)
        d = np.diff(lev, axis=0)
        fr = [[int(t) + 1, int(l) + 1, int(d[t, l])] for t, l in zip(*np.nonzero(d))]
        trec.append({"words": [int(v) for v in words], "aux": [[] for _ in range(n)], "lines": [1, 2, 3], "amp": 1, "step": 1,
                     "fronts": fr, "rises": [f[:2] for f in fr if f[2] == 1], "falls": [f[:2] for f in fr if f[2] == -1],
                     "exc": ""})
    return wrec, rrec, trec


def selftest(ctx, syncrecs, ttl, cases):
    """records that are correct by construction must be accepted; the same records with one field corrupted /
    one event dropped must be rejected; perturbed expectations must be flagged"""
    keep = ctx.cov["traces_validated_against_impl"]
    wrec, rrec, trec = gold_records(ctx.seed)
    mut = []
    for j, r in enumerate(wrec):
        t = copy.deepcopy(r)
        if j % 4 == 0:
            t["lines"][j % 16] ^= 1                       # one bit wrong
        elif j % 4 == 1:
            t["lines"] = t["lines"][8:] + t["lines"][:8]   # bytes swapped
            if t["lines"] == r["lines"]:
                t["lines"][0] ^= 1
        elif j % 4 == 2:
            t["lines"] = t["lines"][::-1]                  # bit order reversed
            if t["lines"] == r["lines"]:
                t["lines"][0] ^= 1
        else:
            t["lines"] = t["lines"][:15]                   # a line dropped
        mut.append(t)
    for j, r in enumerate(rrec):
        t = copy.deepcopy(r)
        if j == 0:
            t["rows"] = [row[16:] + row[:16] for row in t["rows"]]     # analog before digital
        elif j == 1:
            t["rows"][7][16] ^= 1                                       # one thresholded value wrong
        else:
            del t["rows"][len(t["rows"]) // 2]                          # a row dropped
        mut.append(t)
    t = copy.deepcopy(rrec[0])
    t["rows"][-1][3] ^= 1
    mut.append(t)
    gold = wrec + rrec
    v = tracecheck.validate(ctx, "trace/SyncBitsTrace.tla", "trace/SyncBitsTrace.cfg", gold + mut, label="selftest_sync", jvms=1,
                            nstates=lambda t: 3)
    flagged = {x["index"] for x in v if x["prop"]}
    if flagged != set(range(len(gold), len(gold) + len(mut))):
        raise tlc.TLCError(f"binding self-test (SyncBitsTrace): flagged {sorted(flagged)}, expected exactly the "
                           f"{len(mut)} corrupted records after {len(gold)} correct ones")
    n1 = len(mut)
    mut = []
    for j, r in enumerate(trec):
        t = copy.deepcopy(r)
        k = j % 6
        if k == 0:
            del t["fronts"][1]                 # an event dropped
        elif k == 1:
            t["fronts"][1][0] -= 1             # index without the +1
        elif k == 2:
            t["fronts"][0][2] = -t["fronts"][0][2]   # polarity
        elif k == 3:
            t["rises"], t["falls"] = t["falls"], t["rises"]
        elif k == 4:
            t["fronts"].append(list(t["fronts"][0]))  # duplicate
        else:
            t["words"][len(t["words"]) // 2] ^= 1     # what was written differs from what was detected
        mut.append(t)
    v = tracecheck.validate(ctx, "trace/TTLTrace.tla", "trace/TTLTrace.cfg", trec + mut, label="selftest_ttl", jvms=1,
                            nstates=ttl_nstates)
    flagged = {x["index"] for x in v if x["prop"]}
    if flagged != set(range(len(trec), len(trec) + len(mut))):
        raise tlc.TLCError(f"binding self-test (TTLTrace): flagged {sorted(flagged)}, expected exactly the "
                           f"{len(mut)} corrupted traces after {len(trec)} correct ones")
    ctx.cov["traces_validated_against_impl"] = keep
    # replay direction: a perturbed expectation must be flagged by the comparator on the real output
    n3 = 0
    withev = [c for c in cases if len(c["ev"]) >= 2][:50]
    for j, c in enumerate(withev):
        ev = copy.deepcopy(c["ev"])
        if j % 3 == 0:
            ev[0][0] += 1
        elif j % 3 == 1:
            ev[0][2] = -ev[0][2]
        else:
            del ev[-1]
        if direct_calls(c["x"], ev, j):
            n3 += 1
    if direct_calls(trec_levels(), trec_events(), 0) and not ctx.violations:
        raise tlc.TLCError("binding self-test (replay): the comparator flags a correct expectation")
    if n3 != len(withev) or not withev:
        raise tlc.TLCError(f"binding self-test (replay): {n3}/{len(withev)} perturbed expectations flagged")
    ctx.cov["selftest_corrupted_rejected"] = n1 + len(mut) + n3


# ------------------------------------------------------------------------------------------------
def replay(ctx, sc):
    logging.getLogger("ibllib").setLevel(logging.ERROR)
    kind = sc.get("kind")
    if kind == "word":
        recs = word_records([sc["w"] if sc["w"] < 32768 else sc["w"] - 65536], sc.get("form", "int16"))
        verd = tracecheck.validate(ctx, "trace/SyncBitsTrace.tla", "trace/SyncBitsTrace.cfg", recs, label="replay", jvms=1,
                                   nstates=lambda t: 3)
        for v in verd:
            report_sync(ctx, recs[v["index"]], v)
    elif kind == "array":
        for lab, cl in direct_calls(sc["x"], sc["ev"], sc["idx"]):
            ctx.violation(f"ttl:{cl}", f"replay train {sc['x']} ({lab}): clause {cl}", sc)
    elif kind == "train":
        bt = Batch([{"x": sc["x"], "ev": sc["ev"]}], sc["seed"], sc["thr"], cfg=sc.get("cfg", 0))
        bt.build(ctx.scratch / "rec", "replay")
        for k, cl, c, s in bt.run(ctx, "replay"):
            ctx.violation(f"ttl:{cl}", f"replay train {sc['x']} on a real {k} recording: clause {cl}", sc)
    elif kind == "ttltrace":
        t = sc["trace"]
        if "file" in t:      # regenerate from what was written
            rng = np.random.default_rng(0)
            words = np.asarray(t["words"], dtype=np.uint16)
            if t["aux"] and t["aux"][0]:
                aux = np.asarray(t["aux"])
                xa = aux.shape[1]
                d = np.where(aux == 1, 12000, 0)
                # keep the floor prefix that the original recording had (aux rows of the prefix are zero)
                lay = next((y for y in LAYOUTS if y["xa"] == xa), dict(mn=0, ma=0, xa=xa, dw=1))
                f = make_nidq(ctx.scratch / "rec", "replay", words,
                              d + np.array([100, -300, 50, 7, -1000, 2000, 0, -40])[None, :xa], rng, lay=lay)
                recs = [ttl_record_from_file(f, words, aux, t["lines"])]
            else:
                f = make_imec(ctx.scratch / "rec", "replay", words, rng)
                recs = [ttl_record_from_file(f, words, [[] for _ in words], t["lines"])]
        else:
            lev = np.array([[(w >> k) & 1 for k in range(len(t["lines"]))] for w in t["words"]])
            recs = [ttl_record_direct(lev, t["amp"], t["step"], t.get("variant", 0))]
        verd = tracecheck.validate(ctx, "trace/TTLTrace.tla", "trace/TTLTrace.cfg", recs, label="replay", jvms=1,
                                   nstates=ttl_nstates)
        for v in verd:
            if v["prop"]:
                ctx.violation("ttl:" + v["prop"].split(":")[0], f"replay: clause {v['prop']}", sc)
    elif kind == "read":
        # regenerate the whole family of recordings with the run's seed and re-validate
        rng = np.random.default_rng(ctx.seed)
        rng.permutation(np.arange(-32768, 32768))
        reads = read_cases(ctx, ctx.scratch / "rec", rng)
        verd = tracecheck.validate(ctx, "trace/SyncBitsTrace.tla", "trace/SyncBitsTrace.cfg", reads, label="replay", jvms=2,
                                   nstates=lambda t: 3)
        for v in verd:
            report_sync(ctx, reads[v["index"]], v)
