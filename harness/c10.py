"""C10 - sync words decode to TTL lines and fronts recover every event.

1. TLC: spec/lib/SyncBits.tla (all 65536 words through the steps of split_sync => line k = bit k; read_sync
   rows = digital lines, then thresholded analog lines) and spec/lib/TTL.tla (every 0/1 train of a box,
   1-D and both 2-D orientations: fronts / rises / falls as the code computes them => exactly the events).
2. code -> spec: the real split_sync on all 65536 words, the real Reader.read_sync on real recordings
   (3B imec, nidq with analog lines around the threshold above per-line floors) validated by
   spec/trace/SyncBitsTrace.tla; real recordings with random event trains read back and run through the
   real fronts / rises / falls validated end to end by spec/trace/TTLTrace.tla.
3. spec -> code: every train exported by TLC with its ground-truth events is written into the sync channel
   of real recordings (lines mapped on random subsets of the 16 digital and the analog lines), read back,
   and fronts / rises / falls (1-D, 2-D both axes, dtypes, analog=True) compared with the exported events.
4. binding self-tests: corrupted records must be rejected, perturbed expectations must be flagged.
"""
import copy
import json
import logging
import random
from pathlib import Path

import numpy as np

from vkit import metagen, tlc, tracecheck

THR12 = [5, 1, 6, 5, 32768]     # range 5 V, threshold 1.2 V (the default), max int 32768
THR125 = [5, 1, 5, 4, 32768]    # threshold 1.25 V: exactly representable -> "at threshold" class
# raw - floor of an analog sample by level and threshold (5 V / 32768 per count: 1.2 V = 7864.32, 1.25 V = 8192)
# thresholds below 1 V and above 2 V at exactly representable levels: a sample exactly at the threshold must read as 1
# whatever the threshold (a value left un-thresholded would be cast to 0 below 1 V and to 2 above 2 V)
THR0625 = [5, 1, 5, 8, 32768]   # 0.625 V = 4096 counts
THR25 = [5, 1, 5, 2, 32768]     # 2.5 V = 16384 counts
DIFFS = {"1.2": {0: [0, 0, 3, 41, 7864], 1: [7865, 7866, 12000]},
         "1.25": {0: [0, 0, 5, 8191], 1: [8192, 8193, 11000]},
         "0.625": {0: [0, 0, 5, 4095], 1: [4096, 4096, 4097, 9000]},
         "2.5": {0: [0, 0, 5, 16383], 1: [16384, 16384, 16385, 20000]}}
THRS = {"1.2": THR12, "1.25": THR125, "0.625": THR0625, "2.5": THR25}
THR_ORDER = ["1.2", "0.625", "2.5", "1.25"]
NIDQ = dict(mn=2, ma=1, xa=2, dw=1)


# ------------------------------------------------------------------------------------------------
# real recordings
# ------------------------------------------------------------------------------------------------
def make_imec(folder, stem, words, rng, nch=8, kind="3B2"):
    """3B imec AP recording whose sync channel carries `words` (uint16); nch data channels"""
    ns = len(words)
    sites = metagen.dense_sites(kind)[:nch]
    text, info = metagen.make_meta(kind, sites, ns=ns, nsync=1)
    data = metagen.random_int16(rng, ns, nch + 1)
    data[:, -1] = np.asarray(words, dtype=np.uint16).view(np.int16)
    return metagen.write_recording(folder, stem, text, data, suffix=".ap")


def make_nidq(folder, stem, words, araw, rng):
    """nidq recording: MN, MA, XA (analog sync, raw int16 `araw` [ns, xa]), DW (digital word)"""
    ns = len(words)
    text, info = metagen.make_nidq_meta(ns=ns, range_max=5, **NIDQ)
    data = metagen.random_int16(rng, ns, info["nc"])
    a0 = NIDQ["mn"] + NIDQ["ma"]
    data[:, a0:a0 + NIDQ["xa"]] = araw
    data[:, -1] = np.asarray(words, dtype=np.uint16).view(np.int16)
    return metagen.write_recording(folder, stem, text, data, suffix=".nidq")


def analog_from_levels(levels, thr_name, rng, prefix):
    """levels [n, xa] in {0,1} -> (diffs [prefix+n, xa], floors [xa]); `prefix` samples exactly at the floor
    are put in front so that the 10th percentile of every column is its floor"""
    n, xa = levels.shape
    d = np.zeros((prefix + n, xa), dtype=np.int64)
    for c in range(xa):
        for t in range(n):
            d[prefix + t, c] = rng.choice(DIFFS[thr_name][int(levels[t, c])])
    floors = rng.integers(-20000, 10000, size=xa)
    return d, floors


def need_prefix(n):
    # count(diff == 0) >= 0.1 * (prefix + n) + 2  guarantees percentile(., 10) == floor
    return int(np.ceil((0.1 * n + 2) / 0.9)) + 1


# ------------------------------------------------------------------------------------------------
# code -> spec records
# ------------------------------------------------------------------------------------------------
def word_records(words_signed):
    """one vector call of the real split_sync, one record per word"""
    import spikeglx
    recs = []
    try:
        out = spikeglx.split_sync(np.asarray(words_signed, dtype=np.int16))
        out = np.asarray(out)
        ok = out.ndim == 2 and out.shape[0] == len(words_signed)
        for i, w in enumerate(words_signed):
            recs.append({"kind": "word", "w": int(w), "lines": [int(v) for v in out[i]] if ok else [], "exc": ""})
    except Exception as e:
        recs = [{"kind": "word", "w": int(w), "lines": [], "exc": type(e).__name__} for w in words_signed]
    return recs


def read_record(binfile, words, diffs, thr, how="read_sync", sl=None):
    """the real Reader on a real file -> one `read` record. words uint16 [ns], diffs [ns, xa] (raw - floor)"""
    import spikeglx
    words = np.asarray(words, dtype=np.uint16)
    rec = {"kind": "read", "file": Path(binfile).name, "how": how,
           "words": [int(v) for v in words.view(np.int16)], "diffs": [[int(v) for v in r] for r in diffs],
           "thr": thr, "rows": [], "exc": ""}
    try:
        sr = spikeglx.Reader(binfile)
        try:
            sl = slice(None) if sl is None else sl
            if how == "read_sync":
                kw = {} if thr == THR12 else {"threshold": thr[2] / thr[3]}
                rows = sr.read_sync(sl, **kw)
            elif how == "read":           # the sync returned alongside the data by Reader.read
                rows = sr.read(nsel=sl, csel=slice(None), sync=True)[1]
            elif how == "digital":
                rows = sr.read_sync_digital(sl)
            rec["rows"] = [[int(v) for v in r] for r in np.asarray(rows)]
            rec["nonint"] = bool(np.any(np.asarray(rows) != np.round(np.asarray(rows))))
        finally:
            sr.close()
    except Exception as e:
        rec["exc"] = type(e).__name__
    if how == "digital":
        rec["diffs"] = [[] for _ in words]
    return rec


def fronts_on(arr, axis, step, lines, time_axis_first):
    """real fronts / rises / falls on a 2-D array -> lists of [t, l(1-based), v] restricted to `lines`"""
    from ibldsp import utils
    want = set(lines)

    def tl(ind):
        ind = np.asarray(ind)
        t, l = (ind[0], ind[1]) if time_axis_first else (ind[1], ind[0])
        return t, l + 1
    ind, sign = utils.fronts(arr, axis=axis, step=step)
    t, l = tl(ind)
    fr = [[int(a), int(b), int(c)] for a, b, c in zip(t, l, sign) if int(b) in want]
    t, l = tl(utils.rises(arr, axis=axis, step=step))
    ri = [[int(a), int(b)] for a, b in zip(t, l) if int(b) in want]
    t, l = tl(utils.falls(arr, axis=axis, step=-step))
    fa = [[int(a), int(b)] for a, b in zip(t, l) if int(b) in want]
    return fr, ri, fa


def ttl_record_from_file(binfile, words, aux, lines, sl=None):
    """end to end: real recording -> read_sync -> fronts/rises/falls on the returned matrix"""
    import spikeglx
    words = np.asarray(words, dtype=np.uint16)
    rec = {"words": [int(v) for v in words], "aux": [[int(v) for v in r] for r in aux], "lines": sorted(lines),
           "amp": 1, "step": 1, "fronts": [], "rises": [], "falls": [], "exc": "", "file": Path(binfile).name}
    try:
        sr = spikeglx.Reader(binfile)
        try:
            rows = sr.read_sync(slice(None) if sl is None else sl)
        finally:
            sr.close()
        rec["fronts"], rec["rises"], rec["falls"] = fronts_on(rows, 0, 1, lines, True)
    except Exception as e:
        rec["exc"] = type(e).__name__
    return rec


def ttl_record_direct(levels, amp, step, variant):
    """direct call on an array built from abstract levels [n, nl]; lines 1..nl <-> bits 0..nl-1 of `words`"""
    levels = np.asarray(levels)
    n, nl = levels.shape
    words = (levels * (1 << np.arange(nl))).sum(axis=1)
    rec = {"words": [int(v) for v in words], "aux": [[] for _ in range(n)], "lines": list(range(1, nl + 1)),
           "amp": amp, "step": step, "fronts": [], "rises": [], "falls": [], "exc": "", "variant": variant}
    dt = [np.int8, np.float64, np.int32, np.float32, np.int64][variant % 5]
    arr = (levels * amp).astype(dt)
    try:
        if variant % 2 == 0:
            rec["fronts"], rec["rises"], rec["falls"] = fronts_on(arr, 0, step, rec["lines"], True)
        else:
            rec["fronts"], rec["rises"], rec["falls"] = fronts_on(np.ascontiguousarray(arr.T), [-1, 1][variant % 3 == 0],
                                                                 step, rec["lines"], False)
    except Exception as e:
        rec["exc"] = type(e).__name__
    return rec


def ttl_nstates(t):
    return 3


# ------------------------------------------------------------------------------------------------
# spec -> code: replay of TLC's trains
# ------------------------------------------------------------------------------------------------
def expected_sets(ev, lmap):
    """TLC's ground truth <<t, l, pol>> with abstract lines mapped on real (1-based) lines"""
    F = {(t, lmap[l - 1], p) for t, l, p in ev}
    R = {(t, l) for t, l, p in F if p == 1}
    D = {(t, l) for t, l, p in F if p == -1}
    return F, R, D


def compare(obs, exp, what):
    """obs = (fronts list, rises list, falls list) from the real code; exp = sets from TLC.
    returns the name of the first property-layer clause that is false, or ''"""
    fr, ri, fa = obs
    F, R, D = exp
    if len(set(map(tuple, fr))) != len(fr) or len(set(map(tuple, ri))) != len(ri) or len(set(map(tuple, fa))) != len(fa):
        return "NoDuplicate"
    if set(map(tuple, fr)) != F:
        return "Fronts"
    if set(map(tuple, ri)) != R:
        return "Rises"
    if set(map(tuple, fa)) != D:
        return "Falls"
    return ""


def direct_calls(levels, ev, idx):
    """1-D per line, 2-D both orientations / axes, several dtypes, analog=True on voltages around a step.
    yields (label, clause) for every failing comparison"""
    from ibldsp import utils
    levels = np.asarray(levels)
    n, nl = levels.shape
    ident = list(range(1, nl + 1))
    F, R, D = expected_sets(ev, ident)
    out = []
    dts = [np.int8, np.float64, np.int16, np.float32, np.int64]
    dt = dts[idx % 5]
    a = levels.astype(dt)
    # 2-D, time along axis 0 (what read_sync returns) and along the last axis
    out.append(("2d-axis0-" + dt.__name__, compare(fronts_on(a, 0, 1, ident, True), (F, R, D), "")))
    at = np.ascontiguousarray(a.T)
    out.append(("2d-axis-1-" + dt.__name__, compare(fronts_on(at, -1, 1, ident, False), (F, R, D), "")))
    out.append(("2d-axis1-" + dt.__name__, compare(fronts_on(at, 1, 1, ident, False), (F, R, D), "")))
    # defaults (axis=-1, step=1 / -1) as a caller would write them
    ind, sign = utils.fronts(at)
    fr = [[int(t), int(l) + 1, int(s)] for l, t, s in zip(ind[0], ind[1], sign)]
    ri = [[int(t), int(l) + 1] for l, t in zip(*utils.rises(at))]
    fa = [[int(t), int(l) + 1] for l, t in zip(*utils.falls(at))]
    out.append(("2d-defaults-" + dt.__name__, compare((fr, ri, fa), (F, R, D), "")))
    # 1-D, line by line
    for l in range(nl):
        x = a[:, l].copy()
        ind, sign = utils.fronts(x)
        ok = np.asarray(ind).ndim == 1
        fr = [[int(t), l + 1, int(s)] for t, s in zip(ind, sign)] if ok else [[-1, -1, 0]]
        ri = [[int(t), l + 1] for t in utils.rises(x)]
        fa = [[int(t), l + 1] for t in utils.falls(x)]
        Fl = {f for f in F if f[1] == l + 1}
        out.append((f"1d-line{l + 1}-" + dt.__name__, compare((fr, ri, fa), (Fl, {r for r in R if r[1] == l + 1},
                                                                            {d for d in D if d[1] == l + 1}), "")))
    # analog=True: voltages just below / just above the step (rises: > step, falls: < step), far below / above
    rs = np.random.default_rng(idx)
    s = [1.2, 3.0, 0.5, 2.5][idx % 4]
    lo = np.array([np.nextafter(s, -np.inf), s - 0.7, s - 1e-3, -4.0])
    hi = np.array([np.nextafter(s, np.inf), s + 0.7, s + 1e-3, 9.0])
    v = np.where(levels == 1, rs.choice(hi, size=levels.shape), rs.choice(lo, size=levels.shape))
    ri = [[int(t), int(l) + 1] for t, l in zip(*utils.rises(v, axis=0, step=s, analog=True))]
    fa = [[int(t), int(l) + 1] for t, l in zip(*utils.falls(v, axis=0, step=s, analog=True))]
    out.append((f"analog-step{s}", compare(([[t, l, p] for t, l, p in F], ri, fa), (F, R, D), "")))
    return [(lab, c) for lab, c in out if c]


class Batch:
    """many TLC trains in one pair of real recordings (3B imec + nidq), each train in its own segment"""

    def __init__(self, cases, seed, thr_name):
        self.cases = cases
        self.rng = np.random.default_rng(seed)
        self.thr_name = thr_name
        self.thr = THRS[thr_name]
        self.seg = []

    def build(self, folder, stem):
        rng = self.rng
        wi, wn, an, fl = [], [], [], None
        pos_i = pos_n = 0
        floors = rng.integers(-20000, 10000, size=NIDQ["xa"])
        for c in self.cases:
            lev = np.asarray(c["x"])
            n, nl = lev.shape
            # imec: abstract lines -> random distinct digital lines, background on the others
            m_i = [int(v) + 1 for v in rng.permutation(16)[:nl]]
            bg = rng.integers(0, 65536, size=n).astype(np.int64)
            for k, l in enumerate(m_i):
                bg = (bg & ~(1 << (l - 1))) | (lev[:, k].astype(np.int64) << (l - 1))
            wi.append(bg)
            # nidq: random distinct lines among 16 digital + analog ones (at least one analog when possible)
            pool = [int(v) + 1 for v in rng.permutation(16)]
            m_n = pool[:nl]
            ana = [int(v) for v in rng.permutation(NIDQ["xa"])[:rng.integers(1, min(nl, NIDQ["xa"]) + 1)]]
            for j, aidx in enumerate(ana):
                m_n[j] = 17 + aidx
            pre = need_prefix(n)
            bgn = rng.integers(0, 65536, size=pre + n).astype(np.int64)
            alev = rng.integers(0, 2, size=(n, NIDQ["xa"]))
            for k, l in enumerate(m_n):
                if l <= 16:
                    bgn[pre:] = (bgn[pre:] & ~(1 << (l - 1))) | (lev[:, k].astype(np.int64) << (l - 1))
                else:
                    alev[:, l - 17] = lev[:, k]
            # background analog lines must keep >= 10 % of samples at the floor too: their prefix does that
            d, _ = analog_from_levels(alev, self.thr_name, rng, pre)
            wn.append(bgn)
            an.append(d)
            self.seg.append({"i": (pos_i, pos_i + n), "n": (pos_n, pos_n + pre + n), "pre": pre, "mi": m_i, "mn": m_n,
                             "alev": alev})
            pos_i += n
            pos_n += pre + n
        self.wi = np.concatenate(wi).astype(np.uint16)
        self.wn = np.concatenate(wn).astype(np.uint16)
        self.diffs = np.concatenate(an)
        self.floors = floors
        self.f_imec = make_imec(folder, stem, self.wi, rng)
        self.f_nidq = make_nidq(folder, stem, self.wn, self.diffs + floors[None, :], rng)

    def run(self, ctx, key_prefix):
        import spikeglx
        bad = []
        sri = spikeglx.Reader(self.f_imec)
        srn = spikeglx.Reader(self.f_nidq)
        kw = {} if self.thr_name == "1.2" else {"threshold": self.thr[2] / self.thr[3]}
        try:
            for c, s in zip(self.cases, self.seg):
                lev = np.asarray(c["x"])
                n, nl = lev.shape
                # ---- imec
                rows = sri.read_sync(slice(*s["i"]))
                cl = layout_clause(rows, n, 16) or lines_clause(rows, lev, s["mi"])
                if not cl:
                    cl = compare(fronts_on(rows, 0, 1, s["mi"], True), expected_sets(c["ev"], s["mi"]), "")
                if cl:
                    bad.append(("imec", cl, c, s))
                # ---- nidq (floor prefix read with the train: the percentile is taken over the slice)
                rows = srn.read_sync(slice(*s["n"]), **kw)
                cl = layout_clause(rows, s["pre"] + n, 16 + NIDQ["xa"])
                if not cl and np.any(rows[:s["pre"], 16:] != 0):
                    cl = "AnalogThreshold"
                if not cl:
                    rows = rows[s["pre"]:]
                    cl = lines_clause(rows, lev, s["mn"])
                if not cl:
                    cl = compare(fronts_on(rows, 0, 1, s["mn"], True), expected_sets(c["ev"], s["mn"]), "")
                if cl:
                    bad.append(("nidq", cl, c, s))
                ctx.count(2, key=(key_prefix, json.dumps(c["x"])) if len(c["ev"]) > 0 else None)
        finally:
            sri.close()
            srn.close()
        return bad


def layout_clause(rows, n, ncol):
    rows = np.asarray(rows)
    if rows.ndim != 2 or rows.shape[0] != n:
        return "OneRowPerSample"
    if rows.shape[1] != ncol:
        return "RowLayout"
    return ""


def lines_clause(rows, lev, lmap):
    """the lines the train was written on read back as the train"""
    for k, l in enumerate(lmap):
        if not np.array_equal(np.asarray(rows)[:, l - 1], lev[:, k]):
            return "DigitalFirst" if l <= 16 else "AnalogThreshold"
    return ""


# ------------------------------------------------------------------------------------------------
def run_models(ctx):
    runs = [("mc/MC_SyncBits.tla", "mc/SyncBits_quick.cfg" if ctx.quick else "mc/SyncBits_thorough.cfg", None),
            ("mc/MC_SyncBits.tla", "mc/SyncBits_read12.cfg", None),
            ("mc/MC_SyncBits.tla", "mc/SyncBits_read125.cfg", None),
            ("mc/MC_SyncBits.tla", "mc/SyncBits_read0625.cfg", None),
            ("mc/MC_SyncBits.tla", "mc/SyncBits_read25.cfg", None),
            ("mc/MC_TTL.tla", "mc/TTL_steps.cfg", None)]
    exports = []
    if ctx.quick:
        runs.append(("mc/MC_TTL.tla", "mc/TTL_quick.cfg", "ttl2.json"))
    else:
        runs += [("mc/MC_TTL.tla", "mc/TTL_thorough.cfg", None), ("mc/MC_TTL.tla", "mc/TTL_export2.cfg", "ttl2.json")]
    runs.append(("mc/MC_TTL.tla", "mc/TTL_export3.cfg", "ttl3.json"))
    from concurrent.futures import ThreadPoolExecutor

    def one(r):
        mod, cfg, out = r
        env = {"OUT_FILE": str(ctx.scratch / out)} if out else {"OUT_FILE": str(ctx.scratch / "unused.json")}
        return r, tlc.run(mod, cfg, workers=2 if "thorough" not in cfg else 4, timeout=2400, env=env)
    with ThreadPoolExecutor(max_workers=3) as ex:
        for (mod, cfg, out), res in ex.map(one, runs):
            ctx.tlc(res, cfg)
            if not res.ok:
                # the implementation layer mirrors the code: a counterexample is a finding only once reproduced
                raise tlc.TLCError(f"{cfg}: model violates {res.invariant_violated} - not reproduced on the real code "
                                   f"(the traces and replays below decide about the code)\n{res.out[-2000:]}")
            if out and "POSTCONDITION" in (tlc.SPEC / cfg).read_text():
                exports.append(ctx.scratch / out)
    cases = []
    for f in exports:
        cases += json.loads(f.read_text())
    return cases


def run(ctx):
    ctx.level = "model_checking"
    logging.getLogger("ibllib").setLevel(logging.ERROR)      # nidq files have no geometry: expected warning
    rng = np.random.default_rng(ctx.seed)
    cases = run_models(ctx)
    if len(cases) < 1000:
        raise tlc.TLCError(f"TLC exported only {len(cases)} trains")

    # ---------------- code -> spec : decoding -------------------------------------------------
    allw = rng.permutation(np.arange(-32768, 32768))
    recs = word_records(allw)
    ctx.count(len(recs))
    for r in recs:
        ctx._distinct.add(("word", r["w"]))
    folder = ctx.scratch / "rec"
    reads = read_cases(ctx, folder, rng)
    verd = tracecheck.validate(ctx, "trace/SyncBitsTrace.tla", "trace/SyncBitsTrace.cfg", recs + reads, label="syncbits",
                               jvms=4, workers=2, nstates=lambda t: 3)
    allrecs = recs + reads
    for v in verd:
        t = allrecs[v["index"]]
        report_sync(ctx, t, v)
    ctx.sample({"word": recs[0]["w"], "lines": recs[0]["lines"]})
    ctx.sample({"read": reads[-1]["file"], "how": reads[-1]["how"], "row0": reads[-1]["rows"][:1], "word0": reads[-1]["words"][:1],
                "diffs0": reads[-1]["diffs"][:1]})

    # ---------------- spec -> code : TLC's trains on real recordings and on arrays -----------
    nfile = 1500 if ctx.quick else 12000
    order = list(range(len(cases)))
    random.Random(ctx.seed).shuffle(order)
    filecases = [cases[i] for i in order[:nfile]]
    nb = 0
    for b0 in range(0, len(filecases), 500):
        bt = Batch(filecases[b0:b0 + 500], ctx.seed * 1000 + nb, THR_ORDER[nb % 4])
        bt.build(folder, f"trains{nb}")
        for kind, cl, c, s in bt.run(ctx, "file"):
            ctx.violation(f"ttl:{cl}", f"train {c['x']} written on lines {s['mi'] if kind == 'imec' else s['mn']} of a real "
                          f"{kind} recording: clause {cl} false on what read_sync / fronts returned",
                          {"kind": "train", "x": c["x"], "ev": c["ev"], "seed": ctx.seed * 1000 + nb, "thr": bt.thr_name})
        nb += 1
    for idx, c in enumerate(cases):
        for lab, cl in direct_calls(c["x"], c["ev"], idx):
            ctx.violation(f"ttl:{cl}", f"train {c['x']} as array ({lab}): clause {cl} false on fronts/rises/falls",
                          {"kind": "array", "x": c["x"], "ev": c["ev"], "idx": idx})
        ctx.count(1, key=("arr", json.dumps(c["x"])) if c["ev"] else None)
    ctx.sample({"train": cases[order[0]]["x"], "events": cases[order[0]]["ev"]})

    # ---------------- code -> spec : end to end, random long trains + amplitude / step variants ---
    ttl = long_train_records(ctx, folder, rng)
    k = 0
    for c in [cases[i] for i in order[:(300 if ctx.quick else 3000)]]:
        for amp, step in [(1, 1), (2, 1), (2, 2), (2, 3), (3, 2), (1, 2), (3, 3), (3, 4)]:
            if (k + amp + step) % 4 == 0 or (amp, step) == (1, 1):
                ttl.append(ttl_record_direct(c["x"], amp, step, k))
            k += 1
    ctx.count(len(ttl))
    verd = tracecheck.validate(ctx, "trace/TTLTrace.tla", "trace/TTLTrace.cfg", ttl, label="ttl", jvms=4, workers=2,
                               nstates=ttl_nstates, timeout=1800)
    for v in verd:
        t = ttl[v["index"]]
        if v["prop"]:
            ctx.violation("ttl:" + v["prop"].split(":")[0], f"recording/array with {len(t['words'])} samples, lines {t['lines']}, "
                          f"amp {t['amp']}, step {t['step']}: clause {v['prop']} false ({v['pos']} true events)",
                          {"kind": "ttltrace", "trace": t})
    selftest(ctx, allrecs, ttl, cases)
    ctx.cov["rule"] = ("model: all 65536 words through split_sync's steps; every 0/1 train of the box (lines x length) x array "
                       "orientation; traces: the real split_sync on all 65536 words, real Reader.read_sync rows of real 3B/nidq "
                       "recordings, real fronts/rises/falls on what read_sync returned; replay: every exported train on arrays, a "
                       "seeded subset written into real recordings; non-trivial = a train with at least one event / a distinct word")
    ctx.cov["exhaustive"] = True
    ctx.assumptions += ["nidq analog values are exact in float32 (5 V / 32768 per count, floor = a raw count held by > 10 % of the "
                        "samples of the slice read): thresholding is decided in integer arithmetic by the spec",
                        "one digital sync word per sample (snsMnMaXaDw DW = 1)",
                        "falls/rises(analog=True) are exercised just below / just above the step, not exactly at it (the two "
                        "functions document different conventions there)"]


def report_sync(ctx, t, v):
    if v["prop"]:
        if t["kind"] == "word":
            ctx.violation("sync:" + v["prop"].split(":")[0], f"split_sync(word {t['w']} = {t['w'] % 65536:#06x}) returned {t['lines']}: "
                          f"clause {v['prop']} false", {"kind": "word", "w": t["w"]})
        else:
            ctx.violation("sync:" + v["prop"].split(":")[0], f"Reader.{t['how']} on {t['file']}: clause {v['prop']} false at sample "
                          f"{v['pos'] - 1}", {"kind": "read", "trace": {k: t[k] for k in t if k != "rows"}, "gen": t.get("gen")})
    elif v["impl"]:
        ctx.spec_drift(f"{t['kind']} record: {v['impl']} differs from the implementation layer, property layer holds")


def read_cases(ctx, folder, rng):
    """real recordings read through the Reader -> `read` records"""
    out = []
    # all 65536 words through a real 3B recording (8 saved channels + sync), read in slices
    w = rng.permutation(65536).astype(np.uint16)
    f = make_imec(folder, "allwords", w, rng)
    for a in range(0, 65536, 4096):
        r = read_record(f, w[a:a + 4096], [[]] * 4096, THR12, "read_sync" if (a // 4096) % 2 == 0 else "digital",
                        sl=slice(a, a + 4096))
        r["gen"] = {"file": "allwords", "a": a}
        out.append(r)
    # full-size 385-channel 3B and 3A-style (3A sync is the 385th channel as well)
    for kind, n in [("3B2", 384), ("3A", 384), ("3B1", 384)]:
        ns = 300 if ctx.quick else 2000
        w = rng.integers(0, 65536, size=ns).astype(np.uint16)
        f = make_imec(folder, "full" + kind.replace(".", ""), w, rng, nch=n, kind=kind)
        for how in ("read_sync", "read"):
            r = read_record(f, w, [[]] * ns, THR12, how)
            r["gen"] = {"file": "full", "kind": kind}
            out.append(r)
    # nidq with analog lines around the threshold above per-line floors
    nrec = 6 if ctx.quick else 40
    for i in range(nrec):
        thr_name = THR_ORDER[i % 4]
        thr = THRS[thr_name]
        n = int(rng.integers(20, 400))
        lev = rng.integers(0, 2, size=(n, NIDQ["xa"]))
        if i % 3 == 0:
            lev[:, 0] = (np.arange(n) // max(1, n // 7)) % 2       # slow square wave
        pre = need_prefix(n)
        d, floors = analog_from_levels(lev, thr_name, rng, pre)
        w = rng.integers(0, 65536, size=pre + n).astype(np.uint16)
        f = make_nidq(folder, f"nidq{i}", w, d + floors[None, :], rng)
        r = read_record(f, w, d, thr, "read_sync")
        r["gen"] = {"file": "nidq", "i": i}
        out.append(r)
    ctx.count(sum(len(r["words"]) for r in out))
    return out


def long_train_records(ctx, folder, rng):
    """random long event trains on random line subsets, end to end through real files"""
    out = []
    ntr, ns = (24, 1500) if ctx.quick else (200, 10000)
    for i in range(ntr):
        nl = int(rng.integers(1, 6))
        use_nidq = i % 2 == 1
        pool = 16 + (NIDQ["xa"] if use_nidq else 0)
        lines = sorted(int(v) + 1 for v in rng.permutation(pool)[:nl])
        if use_nidq and not any(l > 16 for l in lines):
            lines[-1] = 17 + int(rng.integers(0, NIDQ["xa"]))
            lines = sorted(set(lines))
        nev = int(rng.integers(1, 60))
        lev = np.zeros((ns, pool), dtype=np.int64)
        for l in range(pool):
            # lines not looked at toggle too (background)
            k = nev if (l + 1) in lines else int(rng.integers(0, 200))
            tt = np.sort(rng.choice(np.arange(1, ns), size=min(k, ns - 1), replace=False))
            # include adjacent toggles (single-sample pulses) and a toggle at the last sample
            if len(tt) > 3:
                tt[1] = min(ns - 1, tt[0] + 1)
                tt[-1] = ns - 1
            tog = np.zeros(ns, dtype=np.int64)
            tog[np.unique(tt)] = 1
            lev[:, l] = (int(rng.integers(0, 2)) + np.cumsum(tog)) % 2
        words = (lev[:, :16] * (1 << np.arange(16))).sum(axis=1).astype(np.uint16)
        if use_nidq:
            alev = lev[:, 16:]
            # every analog line must rest at its floor for > 10 % of the samples read
            pre = need_prefix(ns)
            d, floors = analog_from_levels(alev, "1.2", rng, pre)
            wfull = np.r_[np.zeros(pre, dtype=np.uint16), words]
            f = make_nidq(folder, f"long{i}", wfull, d + floors[None, :], rng)
            aux = np.r_[np.zeros((pre, NIDQ["xa"]), dtype=np.int64), alev]
            out.append(ttl_record_from_file(f, wfull, aux, lines))
        else:
            f = make_imec(folder, f"long{i}", words, rng)
            out.append(ttl_record_from_file(f, words, [[] for _ in range(ns)], lines))
        f.unlink()
    return out


# ------------------------------------------------------------------------------------------------
def trec_levels():
    return [[0, 0], [1, 0], [1, 1], [0, 1], [0, 1]]


def trec_events():
    return [[1, 1, 1], [2, 2, 1], [3, 1, -1]]


def gold_records(seed):
    """records built from the definitions (not from the code under test): accepted by construction"""
    rng = np.random.default_rng(seed)
    words = [int(v) for v in rng.integers(-32768, 32768, size=8)] + [-32768, 255, 256, -2]
    wrec = [{"kind": "word", "w": w, "lines": [((w % 65536) >> k) & 1 for k in range(16)], "exc": ""} for w in words]
    rrec = []
    for thr_name, thr in (("1.2", THR12), ("1.25", THR125), ("0.625", THR0625), ("2.5", THR25)):
        n = 30
        lev = rng.integers(0, 2, size=(n, 2))
        d, _ = analog_from_levels(lev, thr_name, rng, 0)
        ws = [int(v) for v in rng.integers(-32768, 32768, size=n)]
        rows = [[((w % 65536) >> k) & 1 for k in range(16)] + [int(v) for v in lev[t]] for t, w in enumerate(ws)]
        rrec.append({"kind": "read", "file": "gold", "how": "read_sync", "words": ws, "diffs": [[int(v) for v in r] for r in d],
                     "thr": thr, "rows": rows, "exc": ""})
    trec = []
    for j in range(12):
        n, nl = 40, 3
        lev = rng.integers(0, 2, size=(n, nl))
        lev[:5, 0] = [0, 1, 1, 0, 1]
        words = (lev * (1 << np.arange(nl))).sum(axis=1)
        d = np.diff(lev, axis=0)
        fr = [[int(t) + 1, int(l) + 1, int(d[t, l])] for t, l in zip(*np.nonzero(d))]
        trec.append({"words": [int(v) for v in words], "aux": [[] for _ in range(n)], "lines": [1, 2, 3], "amp": 1, "step": 1,
                     "fronts": fr, "rises": [f[:2] for f in fr if f[2] == 1], "falls": [f[:2] for f in fr if f[2] == -1],
                     "exc": ""})
    return wrec, rrec, trec


def selftest(ctx, syncrecs, ttl, cases):
    """records that are correct by construction must be accepted; the same records with one field corrupted /
    one event dropped must be rejected; perturbed expectations must be flagged"""
    keep = ctx.cov["traces_validated_against_impl"]
    wrec, rrec, trec = gold_records(ctx.seed)
    mut = []
    for j, r in enumerate(wrec):
        t = copy.deepcopy(r)
        if j % 4 == 0:
            t["lines"][j % 16] ^= 1                       # one bit wrong
        elif j % 4 == 1:
            t["lines"] = t["lines"][8:] + t["lines"][:8]   # bytes swapped
            if t["lines"] == r["lines"]:
                t["lines"][0] ^= 1
        elif j % 4 == 2:
            t["lines"] = t["lines"][::-1]                  # bit order reversed
            if t["lines"] == r["lines"]:
                t["lines"][0] ^= 1
        else:
            t["lines"] = t["lines"][:15]                   # a line dropped
        mut.append(t)
    for j, r in enumerate(rrec):
        t = copy.deepcopy(r)
        if j == 0:
            t["rows"] = [row[16:] + row[:16] for row in t["rows"]]     # analog before digital
        elif j == 1:
            t["rows"][7][16] ^= 1                                       # one thresholded value wrong
        else:
            del t["rows"][len(t["rows"]) // 2]                          # a row dropped
        mut.append(t)
    t = copy.deepcopy(rrec[0])
    t["rows"][-1][3] ^= 1
    mut.append(t)
    gold = wrec + rrec
    v = tracecheck.validate(ctx, "trace/SyncBitsTrace.tla", "trace/SyncBitsTrace.cfg", gold + mut, label="selftest_sync", jvms=1,
                            nstates=lambda t: 3)
    flagged = {x["index"] for x in v if x["prop"]}
    if flagged != set(range(len(gold), len(gold) + len(mut))):
        raise tlc.TLCError(f"binding self-test (SyncBitsTrace): flagged {sorted(flagged)}, expected exactly the "
                           f"{len(mut)} corrupted records after {len(gold)} correct ones")
    n1 = len(mut)
    mut = []
    for j, r in enumerate(trec):
        t = copy.deepcopy(r)
        k = j % 6
        if k == 0:
            del t["fronts"][1]                 # an event dropped
        elif k == 1:
            t["fronts"][1][0] -= 1             # index without the +1
        elif k == 2:
            t["fronts"][0][2] = -t["fronts"][0][2]   # polarity
        elif k == 3:
            t["rises"], t["falls"] = t["falls"], t["rises"]
        elif k == 4:
            t["fronts"].append(list(t["fronts"][0]))  # duplicate
        else:
            t["words"][len(t["words"]) // 2] ^= 1     # what was written differs from what was detected
        mut.append(t)
    v = tracecheck.validate(ctx, "trace/TTLTrace.tla", "trace/TTLTrace.cfg", trec + mut, label="selftest_ttl", jvms=1,
                            nstates=ttl_nstates)
    flagged = {x["index"] for x in v if x["prop"]}
    if flagged != set(range(len(trec), len(trec) + len(mut))):
        raise tlc.TLCError(f"binding self-test (TTLTrace): flagged {sorted(flagged)}, expected exactly the "
                           f"{len(mut)} corrupted traces after {len(trec)} correct ones")
    ctx.cov["traces_validated_against_impl"] = keep
    # replay direction: a perturbed expectation must be flagged by the comparator on the real output
    n3 = 0
    withev = [c for c in cases if len(c["ev"]) >= 2][:50]
    for j, c in enumerate(withev):
        ev = copy.deepcopy(c["ev"])
        if j % 3 == 0:
            ev[0][0] += 1
        elif j % 3 == 1:
            ev[0][2] = -ev[0][2]
        else:
            del ev[-1]
        if direct_calls(c["x"], ev, j):
            n3 += 1
    if direct_calls(trec_levels(), trec_events(), 0) and not ctx.violations:
        raise tlc.TLCError("binding self-test (replay): the comparator flags a correct expectation")
    if n3 != len(withev) or not withev:
        raise tlc.TLCError(f"binding self-test (replay): {n3}/{len(withev)} perturbed expectations flagged")
    ctx.cov["selftest_corrupted_rejected"] = n1 + len(mut) + n3


# ------------------------------------------------------------------------------------------------
def replay(ctx, sc):
    logging.getLogger("ibllib").setLevel(logging.ERROR)
    kind = sc.get("kind")
    if kind == "word":
        recs = word_records([sc["w"]])
        verd = tracecheck.validate(ctx, "trace/SyncBitsTrace.tla", "trace/SyncBitsTrace.cfg", recs, label="replay", jvms=1,
                                   nstates=lambda t: 3)
        for v in verd:
            report_sync(ctx, recs[v["index"]], v)
    elif kind == "array":
        for lab, cl in direct_calls(sc["x"], sc["ev"], sc["idx"]):
            ctx.violation(f"ttl:{cl}", f"replay train {sc['x']} ({lab}): clause {cl}", sc)
    elif kind == "train":
        bt = Batch([{"x": sc["x"], "ev": sc["ev"]}], sc["seed"], sc["thr"])
        bt.build(ctx.scratch / "rec", "replay")
        for k, cl, c, s in bt.run(ctx, "replay"):
            ctx.violation(f"ttl:{cl}", f"replay train {sc['x']} on a real {k} recording: clause {cl}", sc)
    elif kind == "ttltrace":
        t = sc["trace"]
        if "file" in t:      # regenerate from what was written
            rng = np.random.default_rng(0)
            words = np.asarray(t["words"], dtype=np.uint16)
            if t["aux"] and t["aux"][0]:
                aux = np.asarray(t["aux"])
                pre = 0
                d = np.where(aux == 1, 12000, 0)
                # keep the floor prefix that the original recording had (aux rows of the prefix are zero)
                f = make_nidq(ctx.scratch / "rec", "replay", words, d + np.array([100, -300])[None, :aux.shape[1]], rng)
                recs = [ttl_record_from_file(f, words, aux, t["lines"])]
            else:
                f = make_imec(ctx.scratch / "rec", "replay", words, rng)
                recs = [ttl_record_from_file(f, words, [[] for _ in words], t["lines"])]
        else:
            lev = np.array([[(w >> k) & 1 for k in range(len(t["lines"]))] for w in t["words"]])
            recs = [ttl_record_direct(lev, t["amp"], t["step"], t.get("variant", 0))]
        verd = tracecheck.validate(ctx, "trace/TTLTrace.tla", "trace/TTLTrace.cfg", recs, label="replay", jvms=1,
                                   nstates=ttl_nstates)
        for v in verd:
            if v["prop"]:
                ctx.violation("ttl:" + v["prop"].split(":")[0], f"replay: clause {v['prop']}", sc)
    elif kind == "read":
        # regenerate the whole family of recordings with the run's seed and re-validate
        rng = np.random.default_rng(ctx.seed)
        rng.permutation(np.arange(-32768, 32768))
        reads = read_cases(ctx, ctx.scratch / "rec", rng)
        verd = tracecheck.validate(ctx, "trace/SyncBitsTrace.tla", "trace/SyncBitsTrace.cfg", reads, label="replay", jvms=2,
                                   nstates=lambda t: 3)
        for v in verd:
            report_sync(ctx, reads[v["index"]], v)
