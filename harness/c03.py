"""C03 - NP2.4 shank splitting is lossless and reconstruction is its exact inverse  (also the engine of C12).

1. TLC: spec/sys/NP2Split.tla (extends Windows): for every (length, window) of a box - with RATIO 3 / overlap 12 and
   with the real constants 12 / 576 - the AP stream is the identity sequence of tokens, the LF stream is
   0, R, 2R, ... of length ceil(ns/R), no LF sample comes from a tapered margin.
   spec/lib/ShankCols.tla: for every assignment of channels to shanks: run-length form of the channel list parses back,
   scatter(split) = identity.
2. code -> spec: real NP2Converter runs on synthesised NP2.4 recordings (arbitrary shank maps, every gain setting,
   lengths not aligned with the window, all 65536 sample values present, sync column = sample counter);
   `_ind2save` is wrapped and every run is validated by spec/trace/NP2SplitTrace.tla together with projections of the
   files on disk (bytes of every shank file vs the original columns, reconstructed file and metadata vs the original).
3. the same clauses on runs that use what the API offers and that do not start from a clean slate (`variants`, `run_variant`,
   `reconstruct`): init_params(nsamples / extra / nshank), nwindow as float / NumPy integers / not given at all, windows barely
   longer than the overlap (588, 600, 1152), the recording handed in as .cbin, paths as str, metadata with snsGeomMap and with
   imDatPrb_type 2013, a probe recorded from one shank other than 0, NP2Converter(compress=True) (reconstruction from compressed
   shank files, several compression chunks) and post_check=True (the constructor's defaults), NP2Reconstructor(compress=True),
   a reconstructor object constructed before the conversion / used twice / used again after a failed attempt, shank folders
   holding other files, split folders of a sibling probe next to them, longer leftovers of another recording under every output
   name (fresh converter with overwrite, or one converter that first declines and is then forced).
"""
import copy
import json
import shutil
from pathlib import Path

import numpy as np

import np2common as n2
from vkit import apalache, tlc, tracecheck

C03_CLAUSES = ("InRange", "Cover", "Overlap", "Count", "APPrefix", "APComplete", "APFile", "Reconstruct", "Abnormal")
C12_CLAUSES = ("LFTokens", "LFComplete", "LFEdges", "LFFile", "Abnormal", "Count")


def observe(sc, root, binf, d, info, conv, w, do_recon=True, lf_numeric=False, rc_early=None):
    """projection of the files a finished run left on disk. `d` is the original content; when only a part of it was converted
    (init_params nsamples, NP2.1 offset) the clauses are judged against that part."""
    import spikeglx
    off = int(sc.get("offset") or 0)
    ns = int(sc.get("nsamples") or sc["ns"])
    d = d[off:off + ns]
    nap = d.shape[1] - 1
    fin = {"ap_rows_ok": True, "ap_tokens_ok": True, "ap_bytes_ok": True, "ap_meta_ok": True, "recon_bytes_ok": True,
           "recon_meta_ok": True, "lf_rows": -1, "lf_sync_ok": True, "lf_meta_ok": True, "lf_interior_lsb": 0,
           "lf_window_lsb": 0, "detail": {}}
    shank_of = np.array([s[0] for s in info["sites"]])
    lf_rows = set()
    lf_data = {}
    want = wanted_shanks(sc, info)
    named = outputs(sc, binf, info, conv, fin)
    got = sorted(named)
    if want is not None and not set(want) <= set(got):
        # a shank that had to be written has no file at all: its rows are missing
        fin["ap_rows_ok"] = False
        lf_rows.add(-3)
        fin["detail"]["shanks"] = [want, got]
    for sh, si in named.items():
        chns = np.arange(nap + 1) if sc.get("lf_whole") else np.r_[np.flatnonzero(shank_of == sh), nap]
        if "ap_file" in si:
            observe_ap(fin, si, sh, chns, ns, d)
        lff = Path(si["lf_file"])
        try:
            b = n2.read_int16(lff)
        except n2.LIB_EXC as e:      # the file the run names as its output cannot be read at all
            fin["detail"]["lf_read_exc"] = f"{lff.name}: {type(e).__name__}: {e}"[:160]
            b = np.zeros(0, dtype=np.int16)
        if b.size % len(chns) or not b.size:
            lf_rows.add(-2)
            continue
        b = b.reshape(-1, len(chns))
        lf_rows.add(int(b.shape[0]))
        if not np.array_equal(b[:, -1], d[::n2.RATIO, -1][: b.shape[0]]) or b.shape[0] != d[::n2.RATIO].shape[0]:
            fin["lf_sync_ok"] = False
        try:
            sr = spikeglx.Reader(lff, sort=False)
            ok = bool(sr.shape == b.shape and sr.fs == 2500 and sr.type == "lf" and sr.nsync == 1)
            what = f"{sr.shape} {b.shape} {sr.fs} {sr.type}"
            sr.close()
            if not ok:
                fin["lf_meta_ok"] = False
                fin["detail"]["lf_meta"] = what
        except n2.LIB_EXC as e:
            fin["lf_meta_ok"] = False
            fin["detail"]["lf_meta_exc"] = f"{type(e).__name__}: {e}"[:160]
        lf_data[sh] = (b, chns)
    fin["lf_rows"] = lf_rows.pop() if len(lf_rows) == 1 else -1
    if lf_numeric and lf_data:
        import scipy.signal
        sos = scipy.signal.butter(N=2, Wn=1000 / 2500 / 2, btype="lowpass", output="sos")
        worst = 0.0
        for sh, (b, chns) in lf_data.items():
            ref = scipy.signal.sosfiltfilt(sos, d[:, chns[:-1]].astype(np.float64).T).T[::n2.RATIO]
            if b.shape[0] == ref.shape[0] and b.shape[0] > 100:
                dev = np.abs(b[40:-40, :-1].astype(np.float64) - ref[40:-40])
                worst = max(worst, float(dev.max()))
        fin["lf_interior_dev"] = worst
        fin["lf_interior_lsb"] = int(np.ceil(worst - 1e-6)) if worst > 0 else 0
    fin["_lf"] = {sh: v[0] for sh, v in lf_data.items()}
    if do_recon:
        reconstruct(sc, binf, d, fin, rc_early, info.get("meta_text"))
    return fin


def named_outputs(conv):
    """what the converter object says it wrote (`shank_info`) as {shank: {"lf_file": Path, "ap_file": Path (where one was written)}};
    (None, reason) when the attribute is not there or not of the form verified here"""
    try:
        out = {}
        for key, v in conv.shank_info.items():
            if not (isinstance(key, str) and key.startswith("shank")):
                raise ValueError(f"key {key!r}")
            e = {"lf_file": Path(v["lf_file"])}
            if "ap_file" in v:
                e["ap_file"] = Path(v["ap_file"])
            out[int(key[5:])] = e
        return out, ""
    except n2.LIB_EXC as e:
        return None, f"{type(e).__name__}: {e}"[:120]


def outputs(sc, binf, info, conv, fin):
    """the files a finished run left, per shank. They are taken from the converter object; when it does not name them (attribute
    renamed, other keys, entries without paths - reported as drift) they are looked up where the naming convention puts them:
    <label><a..d><extra>/<name>.ap|lf.bin|cbin for a split, <name>.lf.bin|cbin next to the recording for the LF of a whole file.
    The clauses are about the files: shanks without files have no rows (APFile:rows / LFFile:rows)."""
    named, why = named_outputs(conv)
    if named is not None:
        return named
    n2.UNBOUND.add("NP2Converter.shank_info: " + why)
    fin["detail"]["outputs_by_convention"] = why
    binf = Path(binf)
    bname = binf.with_suffix(".bin").name
    lfname = bname.replace("ap", "lf")

    def pick(f):     # the .bin or the .cbin, whichever is there (the one the options ask for first)
        c = [f.with_suffix(".cbin"), f] if sc.get("compress") else [f, f.with_suffix(".cbin")]
        return next((x for x in c if x.exists()), c[0])
    want = wanted_shanks(sc, info)
    if want is None:
        return {0: {"lf_file": pick(binf.parent / lfname)}}
    out = {}
    for sh in want:
        folder = binf.parent.parent / (binf.parent.name + chr(97 + sh) + (sc.get("extra") or ""))
        if folder.is_dir():
            out[sh] = {"ap_file": pick(folder / bname), "lf_file": pick(folder / lfname)}
    return out


def wanted_shanks(sc, info):
    """shank numbers the run has to write: all the shanks the site table uses, or the ones picked with init_params(nshank=...)"""
    if sc.get("kind", "NP2.4") != "NP2.4" or sc.get("lf_whole"):
        return None
    present = sorted({int(s[0]) for s in info["sites"]})
    pick = sc.get("nshank_pick")
    return present if not pick else {"last": present[-1:], "first": present[:1], "ends": sorted({present[0], present[-1]})}[pick]


def extra_files(stem, tag):
    """names a shank folder of a real session may hold next to the AP / LF files; none of them is an AP binary or its metadata.
    Which entry a directory listing yields first depends on the names, so some of them carry a per-scenario tag."""
    return ["_spikeglx_sync.times.probe.npy", "_iblqc_ephysTimeRmsAP.rms.npy", "notes_ap.txt", f"{stem}.wiring.json",
            f"{stem}.ap.meta.bak", f"{stem}.ap.meta.{tag}", f"{stem}.ap.bin.sha1", f"{stem}.ap.bin.{tag}", f"{stem}.ap.cbin.{tag}",
            f"{stem}.ap.{tag}", f"{tag}_ap.bin.txt"]


def reconstruct(sc, binf, d, fin, rc_early=None, ref_meta=None):
    """NP2Reconstructor on the shank folders the conversion left; judged against the original content `d` (not against the
    original file: a conversion must not have touched it, and it may have been handed in compressed)"""
    import spikeglx
    import neuropixel
    binf = Path(binf)
    label = binf.parent.name
    raw = binf.parent.parent
    pdir = raw / label
    orig = raw / "orig"
    bname = binf.with_suffix(".bin").name
    mname = binf.with_suffix(".meta").name
    # NP2Reconstructor writes into <raw>/<pname>/ : move the original out of the way first
    if rc_early is None and pdir.is_dir():
        shutil.move(str(pdir), str(orig))
    else:               # the reconstructor object exists already (it made sure the folder exists): only the files leave
        orig.mkdir()    # (or the conversion did away with the folder of the original: nothing to move)
        for f in list(pdir.iterdir()) if pdir.is_dir() else []:
            shutil.move(str(f), str(orig / f.name))
    # what the destination folder holds before the reconstruction: nothing; the metadata of another (shorter) recording
    # under the output's name, with or without a longer binary; the original's own metadata (kept when the size matches)
    dest = ["fresh", "stale_meta", "stale_both", "orig_meta"][int(sc.get("seed", 0) + sc["ns"]) % 4]
    fin["detail"]["recon_dest"] = dest
    try:
        mtxt = (orig / mname).read_text()
    except (OSError, ValueError):       # the conversion removed / mangled the metadata of the original: the text as synthesised
        mtxt = ref_meta or ""
    nbytes = int(d.size) * 2
    if dest != "fresh":
        pdir.mkdir(parents=True, exist_ok=True)
        if dest == "orig_meta":
            (pdir / mname).write_text(mtxt)
        else:
            stale = mtxt.replace(f"fileSizeBytes={nbytes}", f"fileSizeBytes={nbytes // 2}") + "staleLeftover=1\n"
            (pdir / mname).write_text(stale)
            if dest == "stale_both":
                (pdir / bname).write_bytes(b"\x5a" * (nbytes + 770))
    folders = sorted(f for f in raw.glob(f"{label}*") if f != pdir and f.is_dir())
    if sc.get("extras_in_shank"):
        # files and a folder that a shank folder of a real session also holds next to the AP pair
        for f in folders:
            for nm in extra_files(bname[:-len(".ap.bin")], f"{int(sc.get('seed', 0)) % 65536:04x}{f.name[-1]}"):
                (f / nm).write_bytes(b"not a recording\n")
            (f / "ap_bin_backup").mkdir(exist_ok=True)
    rcomp = bool(sc.get("recon_compress"))
    mode = sc.get("recon_obj", "fresh")
    fin["detail"]["recon_obj"] = [mode, rcomp]
    out = None
    try:
        with n2.time_limit(n2.RUN_LIMIT_S, "NP2Reconstructor run", 4 * nbytes):
            rc = rc_early if rc_early is not None else neuropixel.NP2Reconstructor(str(raw) if sc.get("path_type") == "str" else raw, label,
                                                                                  compress=rcomp)
            if mode == "failed_then" and folders:
                # a first attempt while one shank folder is not there (declines or raises), then the same object once it is back
                hidden = raw / "away"
                shutil.move(str(folders[-1]), str(hidden))
                try:
                    st0 = rc.process()
                except n2.LIB_EXC as e:  # noqa
                    st0 = type(e).__name__
                fin["detail"]["recon_first"] = str(st0)[:60]
                shutil.move(str(hidden), str(folders[-1]))
            st = rc.process()
            if mode == "twice":
                st = rc.process()
        out = pdir / (Path(bname).with_suffix(".cbin").name if rcomp else bname)
        if n2.norm_status(st)[0] != 1 or not out.exists() or n2.read_int16(out).tobytes() != np.ascontiguousarray(d).tobytes():
            fin["recon_bytes_ok"] = False
            fin["detail"]["recon_out"] = [str(st)[:60], out.name, out.exists()]
    except n2.LIB_EXC as e:
        fin["recon_bytes_ok"] = False
        fin["detail"]["recon_exc"] = f"{type(e).__name__}: {e}"[:200]
        if out is None:     # the reconstruction itself did not come to its end: there is no metadata to judge
            return
    try:
        # the reference is the metadata text as synthesised, not what the folder of the original holds after the conversion
        (orig / "_reference.meta").write_text(ref_meta if ref_meta is not None else mtxt)
        m0 = spikeglx.read_meta_data(orig / "_reference.meta")
    except n2.LIB_EXC as e:     # the reader of the code under test does not read the synthesised text: no reference to compare with
        fin["recon_meta_ok"] = False
        fin["detail"]["recon_meta_exc"] = f"reference: {type(e).__name__}: {e}"[:200]
        return
    try:
        m1 = spikeglx.read_meta_data(out.with_suffix(".meta"))
        # only a part of the recording was converted (init_params nsamples): the size field describes that part
        diff = [x for x in meta_diff(m0, m1) if not (sc.get("nsamples") and x[0] == "fileSizeBytes" and m1.get("fileSizeBytes") == nbytes)]
        if diff:
            fin["recon_meta_ok"] = False
            fin["detail"]["recon_meta"] = diff[:6]
    except n2.LIB_EXC as e:     # the metadata file of the reconstruction is not there / not readable / not a table of fields
        fin["recon_meta_ok"] = False
        fin["detail"]["recon_meta_exc"] = f"{type(e).__name__}: {e}"[:200]


def observe_ap(fin, si, sh, chns, ns, d):
    import spikeglx
    apf = Path(si["ap_file"])
    try:
        a = n2.read_int16(apf)
    except n2.LIB_EXC as e:      # the file the run names as its output cannot be read at all
        fin["detail"][f"ap_read_exc_{sh}"] = f"{apf.name}: {type(e).__name__}: {e}"[:160]
        a = np.zeros(0, dtype=np.int16)
    if a.size % len(chns) or a.size // len(chns) != ns:
        fin["ap_rows_ok"] = False
        fin["detail"][f"ap_rows_{sh}"] = [int(a.size), len(chns), ns]
        return
    a = a.reshape(ns, len(chns))
    if not np.array_equal(a[:, -1], d[:, -1]):
        fin["ap_tokens_ok"] = False
    if not np.array_equal(a, d[:, chns]):
        fin["ap_bytes_ok"] = False
        bad = np.argwhere(a != d[:, chns])
        fin["detail"][f"ap_bytes_{sh}"] = {"n_bad": int(bad.shape[0]), "first": [int(x) for x in bad[0]],
                                          "got": int(a[tuple(bad[0])]), "want": int(d[:, chns][tuple(bad[0])])}
    try:
        sr = spikeglx.Reader(apf, sort=False)
        ok = bool(sr.shape == (ns, len(chns)) and sr.meta.get("NP2.4_shank") == sh and sr.type == "ap"
                  and np.array_equal(sr.geometry["shank"], np.zeros(len(chns) - 1) + sh))
        sr.close()
        if not ok:
            fin["ap_meta_ok"] = False
    except n2.LIB_EXC as e:
        fin["ap_meta_ok"] = False
        fin["detail"]["ap_meta_exc"] = f"{type(e).__name__}: {e}"[:160]


def meta_diff(m0, m1):
    """field by field, apart from the provenance flag the splitter adds"""
    out = []
    for k in sorted(set(m0) | set(m1)):
        if k == "original_meta":
            continue
        a, b = m0.get(k, "<absent>"), m1.get(k, "<absent>")
        same = (list(a) == list(b)) if isinstance(a, list) and isinstance(b, list) else (a == b)
        if not same:
            out.append([k, str(a)[:60], str(b)[:60]])
    return out


VARIANT_KEYS = ("input", "w_type", "nsamples", "extra", "nshank_pick", "compress", "post_check", "recon_compress", "recon_obj", "extras_in_shank",
                "sibling", "pre", "path_type", "offset", "lf_whole", "label")
EMPTY_FINAL = {"ap_rows_ok": True, "ap_tokens_ok": True, "ap_bytes_ok": True, "ap_meta_ok": True, "recon_bytes_ok": True,
               "recon_meta_ok": True, "lf_rows": -1, "lf_sync_ok": True, "lf_meta_ok": True, "lf_interior_lsb": 0,
               "lf_window_lsb": 0, "detail": {}}


def typed(x, how):
    """the same number handed over as another numeric type (the repository's own tests pass nwindow=0.3 * 30000)"""
    return {"float": float, "np32": np.int32, "np64": np.int64}.get(how, int)(x)


def run_variant(sc, binf, d, info):
    """a conversion that does not start from a clean slate and / or uses the options of the constructor and of init_params:
    returns (status, events, conv, exc, rc_early)"""
    import neuropixel
    binf = Path(binf)
    raw, label = binf.parent.parent, binf.parent.name
    kind = sc.get("kind", "NP2.4")
    extra = sc.get("extra") or ""
    mtxt = binf.with_suffix(".meta").read_text()
    frame = d.shape[1] * 2
    if sc.get("sibling"):
        # the split folders (and the folder) of another probe of the same session, holding a shorter recording
        other = "probe01" if label != "probe01" else "probe00"
        for nm in (other, other + "a", other + "b" + extra):
            (raw / nm).mkdir()
            (raw / nm / binf.name).write_bytes(d[:10].tobytes())
            (raw / nm / binf.with_suffix(".meta").name).write_text(mtxt.replace(f"fileSizeBytes={d.shape[0] * frame}", f"fileSizeBytes={10 * frame}"))
    apf = binf
    if sc.get("input") == "cbin":          # the recording is handed in compressed (no .bin next to it); compressed with the library
        import mtscomp
        apf = binf.with_suffix(".cbin")
        mtscomp.compress(binf, out=apf, outmeta=binf.with_suffix(".ch"), sample_rate=30000, n_channels=d.shape[1], dtype=np.int16)
        binf.unlink()
    if sc.get("pre") and sc["pre"] != "twice_force":
        # leftovers of an earlier run on ANOTHER recording under every name this run writes: longer binaries, stale metadata
        stale = mtxt + "staleLeftover=1\n"
        junk = b"\x5a" * (d.shape[0] * frame + 770)
        lfname = binf.name.replace("ap", "lf")
        if kind == "NP2.4" and not sc.get("lf_whole"):
            # "partial": only some of the shank folders are there (seed round i: `already_exists` told of the last shank only) - all
            # but the last one; the run is made WITHOUT overwrite: it declines (nothing to judge), or it converts - then every shank
            # file it names must be right, the ones that were there before included
            for sh in (wanted_shanks(sc, info)[:-1] if sc["pre"] == "partial" else wanted_shanks(sc, info)):
                f = raw / (label + chr(97 + sh) + extra)
                f.mkdir()
                (f / binf.name).write_bytes(junk)
                (f / lfname).write_bytes(junk[: len(junk) // 3])
                (f / binf.with_suffix(".meta").name).write_text(stale)
                (f / Path(lfname).with_suffix(".meta").name).write_text(stale)
        else:
            (binf.parent / lfname).write_bytes(junk[: len(junk) // 3])
            (binf.parent / Path(lfname).with_suffix(".meta").name).write_text(stale)
    rc_early = None
    if sc.get("recon_obj") == "early":     # constructed before there is anything to reconstruct, used afterwards
        try:
            rc_early = neuropixel.NP2Reconstructor(raw, label, compress=bool(sc.get("recon_compress")))
        except n2.LIB_EXC as e:  # noqa
            return None, [], None, f"NP2Reconstructor(): {type(e).__name__}: {e}", None
    wt = sc.get("w_type", "int")
    init = {}
    if wt != "default":
        init["nwindow"] = typed(sc["w"], wt)
    if sc.get("nsamples"):
        init["nsamples"] = typed(sc["nsamples"], "float" if wt == "float" else "np64" if wt == "np64" else "int")
    if extra:
        init["extra"] = extra
    if sc.get("nshank_pick"):
        init["nshank"] = wanted_shanks(sc, info)
    if wt == "default" and not init:
        init = None
    np21 = None
    if sc.get("offset") or sc.get("lf_whole"):
        np21 = {}
        if sc.get("offset"):
            np21["offset"] = int(sc["offset"])
        if sc.get("lf_whole"):
            np21["assert_shanks"] = False
    # the run's own verification (the constructor's default) compares ALL columns: not when only some of the shanks are written
    pchk = bool(sc.get("post_check")) and (not sc.get("nshank_pick") or wanted_shanks(sc, info) == wanted_shanks(dict(sc, nshank_pick=None), info))
    status, events, conv, exc, first = n2.convert_opts(str(apf) if sc.get("path_type") == "str" else apf, init, compress=bool(sc.get("compress")),
                                                       post_check=pchk, overwrite=bool(sc.get("pre")) and sc.get("pre") != "partial", decline_first=sc.get("pre") == "decline_force", np21=np21,
                                                       twice=sc.get("pre") == "twice_force", **bounds(sc, d))
    if sc.get("pre") == "partial" and status == 0 and not exc:
        return "skipped", [], conv, "", rc_early            # declined: what a run that finds output of an earlier run does
    if sc.get("pre") == "decline_force" and first != 0 and not exc:
        exc = f"process() returned {first} although every output folder existed"
    if sc.get("pre") == "twice_force" and first != 1 and not exc:
        exc = f"the first process() of the object returned {first} on a fresh folder"
    return status, events, conv, exc, rc_early


def bounds(sc, d):
    """what stops a run that does not stop by itself: calls of the per-window hook, size of any file it writes"""
    return {"max_events": n2.event_cap(sc["ns"], min(sc["w"], sc.get("reuse_first_w") or sc["w"])), "max_bytes": 8 * int(d.nbytes)}


def one_run(ctx, sc, idx, keep_lf=False):
    rng = np.random.default_rng(sc["seed"])
    root = Path(ctx.scratch) / f"np2_{idx}"
    n2.rm(root)
    kind = sc.get("kind", "NP2.4")
    sites = n2.shank_map(sc["map"], sc["n"], rng, sc["nshank"]) if kind == "NP2.4" else None
    binf, d, info = n2.make_recording(root, sc["ns"], rng, kind=kind, n=sc["n"], sites=sites, gainset=tuple(sc["gain"]),
                                      content=sc.get("content", "random"), label=sc.get("label", "probe00"),
                                      encoding=sc.get("encoding"), ptype=sc.get("ptype"), fname=sc.get("fname"))
    info["meta_text"] = Path(binf).with_suffix(".meta").read_text()
    rc_early = None
    if any(sc.get(k) for k in VARIANT_KEYS):
        status, events, conv, exc, rc_early = run_variant(sc, binf, d, info)
    elif sc.get("reuse_first_w"):
        status, events, conv, exc = n2.convert_reuse(binf, sc["reuse_first_w"], sc["w"], first_nsamples=sc.get("reuse_first_ns"),
                                                     **bounds(sc, d))
    else:
        status, events, conv, exc = n2.convert(binf, sc["w"], **bounds(sc, d))
    if status == "skipped":     # the scenario needs a private entry point that this code does not have (reported as drift)
        n2.rm(root)
        return None
    tr = {"ns": int(sc.get("nsamples") or sc["ns"]), "w": sc["w"], "status": status if status is not None else -9, "exc": str(exc)[:120],
          "wins": n2.window_events(events, lambda e: e["first"]), "final": None}
    if status == 1 and not exc:
        whole = not sc.get("nshank_pick") or wanted_shanks(sc, info) == wanted_shanks(dict(sc, nshank_pick=None), info)
        fin = observe(sc, root, binf, d, info, conv, sc["w"], do_recon=sc.get("recon", True) and kind == "NP2.4" and whole
                      and not sc.get("lf_whole"), lf_numeric=sc.get("lf_numeric", False), rc_early=rc_early)
        lf = fin.pop("_lf")
        tr["final"] = fin
        if keep_lf:
            tr["_lf"] = lf
    else:
        if exc and status == 1:
            tr["status"] = -8
        tr["final"] = copy.deepcopy(EMPTY_FINAL)
    n2.rm(root)
    return tr


def nstates(t):
    return 3 if t["status"] != 1 or not t["wins"] else len(t["wins"]) + 4


def scenarios(ctx):
    scs = []
    seed = ctx.seed * 100000
    maps = ["dense4", "blocks", "interleaved", "random", "singleton", "noshank0", "gap"]
    ws = [1200, 2400, 3612]
    lens_small = [600, 1199, 1200, 1201, 1825, 2399, 2401, 3000, 3613, 4037, 5000]
    if not ctx.quick:
        # thorough: two more windows; every residue mod 12 just above one window and around whole strides of each window
        ws = [1200, 2400, 3612, 1812, 6000]
        lens_small = sorted(set(lens_small) | {577, 1153} | {1200 + r for r in range(1, 13)}
                            | {w + k * (w - 576) + d for w in (1200, 1812) for k in (1, 2, 3) for d in (-1, 0, 1, 5, 11)})
    # 8-channel recordings: volume (every map kind x gain x window x awkward lengths)
    k = 0
    for m in maps[1:]:
        for g in n2.GAINSETS:
            for w in ws:
                for ns in (lens_small if not ctx.quick else lens_small[k % 3::3]):
                    k += 1
                    scs.append({"n": 8, "nshank": 1 + k % 4, "map": m, "gain": list(g), "w": w, "ns": ns, "seed": seed + k})
    if ctx.quick:
        scs = scs[::3]
    # full size: 384 channels, all 65536 values present, every gain setting
    big = []
    for j, g in enumerate(n2.GAINSETS):
        for m in (["dense4", "random", "noshank0"] if ctx.quick else maps):
            k += 1
            big.append({"n": 384, "nshank": 4, "map": m, "gain": list(g), "w": ws[(j + k) % 3], "ns": [2999, 4037, 3613][k % 3],
                        "seed": seed + k})
    if not ctx.quick:
        for j in range(16):      # more full-size runs: lengths over every residue mod 12, all windows
            k += 1
            big.append({"n": 384, "nshank": 4, "map": maps[j % len(maps)], "gain": list(n2.GAINSETS[j % 4]), "w": ws[j % len(ws)],
                        "ns": 2400 + 97 * j + j % 12, "seed": seed + k})
    # recordings longer than the reconstructor's own (hard-wired) window of 60000 samples: several windows on the way back too
    for j, ns in enumerate([61234, 120000] if ctx.quick else [60001, 61234, 119999, 120000, 125017, 180001]):
        k += 1
        big.append({"n": 8, "nshank": 2 + j % 3, "map": maps[1 + j % 6], "gain": list(n2.GAINSETS[j % 4]), "w": [30000, 23988][j % 2], "ns": ns,
                    "seed": seed + k})
    # the same converter object re-parameterised and re-run with overwrite (process(overwrite) is a method argument)
    reuse = [dict(s, reuse_first_w=[2400, 3612, 1200][i % 3], seed=s["seed"] + 50000, **({"reuse_first_ns": (s["ns"] * 5 // 8) | 1} if i % 2 else {}))
             for i, s in enumerate(scs[:: max(1, len(scs) // 6)][:6])]
    return scs + big + reuse + variants(ctx, seed + 70000)


# options of the constructor / of init_params / of the reconstructor, forms of the input, and what a run can find on disk
FEATURES = [("input", "cbin"), ("encoding", "geom"), ("ptype", 2013), ("w_type", "float"), ("w_type", "np32"), ("w_type", "np64"),
            ("w_type", "default"), ("nsamples", True), ("extra", "_x1"), ("nshank_pick", "last"), ("nshank_pick", "ends"),
            ("compress", True), ("post_check", True), ("recon_compress", True), ("recon_obj", "early"), ("recon_obj", "twice"), ("recon_obj", "failed_then"),
            ("extras_in_shank", True), ("sibling", True), ("pre", "stale_force"), ("pre", "decline_force"), ("pre", "partial"), ("label", "probe01"),
            ("path_type", "str"), ("map", "only"), ("fname", "rec_g0_t0_imec0_ap"), ("fname", "snap_g0_t1.imec1.ap"), ("w", 588), ("w", 600), ("w", 1152)]


def variants(ctx, seed):
    """one scenario per feature value (quick) / six per value with other bases (thorough); every other feature is switched on
    with probability 1/4, so that the options also meet each other"""
    rng = np.random.default_rng(seed)
    maps = ["blocks", "interleaved", "random", "singleton", "noshank0", "gap", "only"]
    out = []
    for rnd in range(1 if ctx.quick else 6):
        for i, (name, val) in enumerate(FEATURES):
            k = rnd * len(FEATURES) + i
            sc = {"n": 8, "nshank": 2 + int(rng.integers(0, 3)), "map": maps[int(rng.integers(0, len(maps)))],
                  "gain": list(n2.GAINSETS[int(rng.integers(0, 4))]), "w": [1200, 2400, 3612][int(rng.integers(0, 3))],
                  "ns": [1825, 2999, 3613, 4037, 5000, 7229][int(rng.integers(0, 6))], "seed": seed + k}
            opts = {name: val}
            for n2_, v2 in FEATURES:
                # (the window of stride 12 makes hundreds of windows: only where it is the scenario's own feature)
                if n2_ not in opts and v2 != 588 and rng.random() < 0.25 / sum(1 for a, _ in FEATURES if a == n2_):
                    opts[n2_] = v2
            if "w" in opts and opts.get("w_type") == "default":
                opts.pop("w" if name != "w" else "w_type")
            if opts.get("w_type") == "default":
                opts["w"] = 60000
            if opts.get("w", 9999) <= 600:
                sc["ns"] = min(sc["ns"], 1825 if ctx.quick else 2999)   # keep the number of windows (states of the trace) moderate
            if opts.pop("nsamples", None):
                opts["nsamples"] = int(sc["ns"] * 0.62) | 1      # odd: never a multiple of 12
            if name == "compress" or (opts.get("compress") and k % 3 == 0 and name not in ("w", "nsamples")):
                sc["ns"] = 61234 + k                    # several compression chunks per shank file (1 s = 30000 AP / 2500 LF rows)
                opts.pop("nsamples", None)
                if opts.get("w", sc["w"]) < 20000:
                    opts["w"] = 23988
            sc.update(opts)
            if sc["map"] == "only":
                sc["nshank"] = 1
            out.append(sc)
    # all 65536 values (quick: 32 channels, thorough: full size): compressed input, the constructor's defaults (verification,
    # compressed shank files), compressed reconstruction, geometry map, probe type 2013
    for j in range(1 if ctx.quick else 3):
        out.append({"n": 32 if ctx.quick else 384, "nshank": 4, "map": ["random" if ctx.quick else "dense4", "random", "noshank0"][j],
                    "gain": list(n2.GAINSETS[(j + 1) % 4]), "w": [2400, 3612, 1200][j], "ns": [3613, 4037, 2999][j], "seed": seed + 900 + j, "input": "cbin", "compress": True, "post_check": True,
                    "recon_compress": True, "encoding": "geom", "ptype": 2013, "w_type": ["float", "np64", "int"][j],
                    "extras_in_shank": True, "sibling": j != 1})
    return out


def quiet(ctx=None):
    import logging
    import mtscomp
    logging.getLogger("ibllib").setLevel(logging.CRITICAL)
    logging.getLogger("mtscomp").setLevel(logging.ERROR)
    mtscomp.tqdm = lambda it=None, **k: it          # progress bars off (cosmetic)
    if ctx is not None:
        # the compression library starts one thread per core for every file (tens of ms each, for files of one to three chunks):
        # its own configuration file says one thread; the bytes it writes are the same
        cfg = Path(ctx.scratch) / "mtscomp_config.json"
        cfg.write_text(json.dumps({"n_threads": 1}))
        mtscomp.CONFIG_PATH = cfg


def run(ctx, clauses=C03_CLAUSES, pid="C03", extra_scenarios=None, post=None):
    quiet(ctx)
    ctx.level = "model_checking"
    for cfg in (["mc/NP2Split_quick.cfg", "mc/NP2Split_real.cfg"] if ctx.quick else
                ["mc/NP2Split_thorough.cfg", "mc/NP2Split_real.cfg", "mc/NP2Split_realsmall.cfg"]):
        r = tlc.run("mc/MC_NP2Split.tla", cfg, workers=4, timeout=1800, coverage=True)
        ctx.tlc(r, cfg)
        if r.ok:
            tlc.require_all_actions_taken(r)
        if not r.ok:
            raise tlc.TLCError(f"NP2Split model violates {r.invariant_violated} ({cfg}):\n{r.out[-2000:]}")
    # unbounded: inductive invariant of the window loop over token positions, for ALL lengths / window sizes / tapers that pass the
    # asserts of init_params (spec/apalache/NP2SplitInd.tla), discharged by Apalache
    ob = [("Init", "IndInv", 0), ("IndInit", "IndInvAndSafety", 1)]
    done = [apalache.check("apalache/NP2SplitInd.tla", i, v, n) for i, v, n in ob]
    if not all(done):
        raise tlc.TLCError(f"inductive invariant of spec/apalache/NP2SplitInd.tla not established: {done}")
    ctx.cov["inductive_invariant"] = {"tool": "apalache-mc 0.58", "obligations": len(ob), "discharged": sum(done),
                                      "statement": "Init => IndInv; IndInv /\\ Next => IndInv' /\\ APPrefix /\\ APComplete /\\ LFTokens /\\ "
                                                   "LFComplete /\\ LFEdges for unbounded ns, window = 12 wq, taper = 12 tq, overlap = 4 tapers"}
    if pid == "C03":
        cfg = "mc/ShankCols_quick.cfg" if ctx.quick else "mc/ShankCols_thorough.cfg"
        out = Path(ctx.scratch) / "shankcols.json"
        r = tlc.run("lib/ShankCols.tla", cfg, workers=4, timeout=1800, env={"OUT_FILE": str(out)})
        ctx.tlc(r, cfg)
        if not r.ok:
            raise tlc.TLCError(f"ShankCols model violates {r.invariant_violated}:\n{r.out[-2000:]}")
        replay_shankcols(ctx, json.loads(out.read_text()))
    scs = scenarios(ctx) if extra_scenarios is None else extra_scenarios(ctx)
    traces = [one_run(ctx, sc, i, keep_lf=post is not None) for i, sc in enumerate(scs)]
    scs, traces = [sc for sc, t in zip(scs, traces) if t is not None], [t for t in traces if t is not None]   # None: see run_variant
    if post:
        post(ctx, scs, traces)
    for t in traces:
        t.pop("_lf", None)
    for sc, t in zip(scs, traces):
        ctx.count(1, key=(sc["n"], sc["map"], tuple(sc["gain"]), sc["w"], sc["ns"], sc["nshank"]) + variant_sig(sc))
    verdicts = validate(ctx, traces, "np2split")
    report(ctx, scs, traces, verdicts, clauses, pid)
    report_unbound(ctx)
    for sc, t in list(zip(scs, traces))[:2] + list(zip(scs, traces))[-1:]:
        ctx.sample({"scenario": sc, "nwin": t["wins"][0]["nwin"] if t["wins"] else None,
                    "windows": [[x["first"], x["last"], x["iw"], x["ap"][:2], x["lf"][:2]] for x in t["wins"][:4]],
                    "final": {k: v for k, v in t["final"].items() if k != "detail"}})
    selftest(ctx, traces, {v["index"] for v in verdicts}, clauses)
    ctx.cov["rule"] = ("model: every (length, window) of the box; real runs: map kind x gain setting x window x length (8-channel "
                       "volume + 384-channel runs with all 65536 values); distinct = distinct (channels, map, gain, window, length)")
    ctx.assumptions += ["tokens are read off the sync column (sample counter, lengths < 32000)",
                        "a file is 'equal' iff byte-identical to the expected columns of the synthesised original"]


def variant_sig(sc):
    return tuple((k, str(sc[k])) for k in VARIANT_KEYS + ("encoding", "ptype", "kind") if sc.get(k))


def replay_shankcols(ctx, cases):
    """spec -> code: every shank map of the model: the run-length string the code writes and the list it parses back"""
    try:
        import spikeglx
        import neuropixel
        rc = neuropixel.NP2Reconstructor.__new__(neuropixel.NP2Reconstructor)
        missing = [nm for nm, ok in (("spikeglx._get_savedChans_subset", hasattr(spikeglx, "_get_savedChans_subset")),
                                     ("NP2Reconstructor._get_chans", hasattr(rc, "_get_chans"))) if not ok]
    except n2.LIB_EXC as e:     # the modules do not import / the class is not there: every conversion below reports it (Abnormal)
        missing = [f"neuropixel.NP2Reconstructor ({type(e).__name__}: {e})"[:160]]
    if not missing:
        import inspect
        for nm, fn, arg in (("spikeglx._get_savedChans_subset", spikeglx._get_savedChans_subset, np.arange(3)),
                            ("NP2Reconstructor._get_chans", rc._get_chans, {})):
            try:
                inspect.signature(fn).bind(arg)
            except TypeError as e:      # another signature: not callable the way the replay calls it
                missing.append(f"{nm}(one argument): {e}")
            except ValueError:          # not introspectable: called as verified
                pass
    if missing:
        # private helpers: when they are renamed or inlined, the round trip of the channel list is still exercised end to end by the
        # reconstruction of every converted recording (clauses Reconstruct:bytes / Reconstruct:meta)
        ctx.spec_drift(f"{', '.join(missing)} not found (or not callable as verified): spec/lib/ShankCols.tla is not replayed function by function")
        return
    n = 0
    for c in cases:
        for sh in c["shanks"]:
            n += 1
            chns = np.array(sh["chns"])
            try:
                got = spikeglx._get_savedChans_subset(chns)
                back = np.atleast_1d(rc._get_chans({"snsSaveChanSubset_orig": got})).tolist()
            except n2.LIB_EXC as e:
                got, back = f"{type(e).__name__}: {e}", None
            if back != sh["chns"]:
                ctx.violation("split:SubsetRoundTrip", f"channel list {sh['chns']} -> '{str(got)[:80]}' -> {str(back)[:80]}", {"chns": sh["chns"]})
            elif sh.get("subset") is not None and got != sh["subset"]:
                ctx.spec_drift(f"_get_savedChans_subset({sh['chns']}) = '{got}', spec Format gives '{sh['subset']}' (parses back correctly)")
    ctx.count(n, key=("shankcols", n))
    ctx.cov["shankcol_cases"] = n


def strip(t):
    t = {k: v for k, v in t.items() if not k.startswith("_")}
    t["final"] = {k: v for k, v in t["final"].items() if k not in ("detail", "lf_interior_dev")}
    return n2.tlc_safe(t)


def validate(ctx, traces, label):
    return tracecheck.validate(ctx, "trace/NP2SplitTrace.tla", "trace/NP2SplitTrace.cfg", [strip(t) for t in traces],
                               label=label, nstates=nstates, jvms=4, workers=2)


def report(ctx, scs, traces, verdicts, clauses, pid):
    for v in verdicts:
        sc, t = scs[v["index"]], traces[v["index"]]
        desc = f"n={sc['n']} map={sc['map']}/{sc['nshank']} gain={sc['gain']} w={sc['w']} ns={sc['ns']}" + (
            f" (same converter object, after a first process() with nwindow={sc['reuse_first_w']})" if sc.get("reuse_first_w") else "") + (
            " " + " ".join(f"{k}={v}" for k, v in variant_sig(sc)) if variant_sig(sc) else "")
        mine = [c for c in v["prop"].split("|") if c and c.split(":")[0] in clauses
                and not (sc.get("kind") == "NP2.1" and c.split(":")[0] in ("APPrefix", "APComplete", "APFile"))]
        if mine:
            head = mine[0].split(":")[0]
            ctx.violation("split:" + (mine[0] if head != "Abnormal" else "Abnormal"),
                          f"NP2Converter({desc}): clause(s) {'|'.join(mine)} false (window {v['pos']}) "
                          f"{json.dumps(t['final'].get('detail', {}), default=str)[:300]}", {"scenario": sc})
        elif v["impl"].startswith("unbound") and not v["prop"]:
            pass    # reported once per run, below
        elif v["impl"] and not v["prop"]:
            ctx.spec_drift(f"NP2Converter({desc}): step {v['impl']} at window {v['pos']} is not a step of spec/sys/NP2Split.tla")


def report_unbound(ctx):
    seen = set()
    for name in sorted(n2.UNBOUND):
        if name.endswith("_process_NP21"):
            ctx.spec_drift(f"entry point {name} does not exist in this code: the scenarios that pass offset / assert_shanks to the NP2.1 "
                           "path (process() does not forward them) are skipped")
            continue
        if ": " in name:        # the point is there but not in the form the binding reads (np2common.Recorder, c03.outputs)
            point, why = name.split(": ", 1)
            if point not in seen:       # one line per point (the first reason; there is one entry per distinct reason)
                n = sum(1 for x in n2.UNBOUND if x.startswith(point + ": "))
                ctx.spec_drift(f"{point} is not of the form verified ({why}{f'; {n - 1} more such reasons' if n > 1 else ''}): " + (
                    "the files are looked up by the naming convention" if point.endswith("shank_info") else
                    "the window loop of such a run is not bound, the run is judged on the files it leaves (black box)"))
            seen.add(point)
            continue
        ctx.spec_drift(f"instrumentation point {name} does not exist in this code: the window loop of spec/sys/NP2Split.tla is not bound, "
                       "the runs are judged on the files they leave (black box)")


def selftest(ctx, traces, bad, clauses):
    if "NP2Converter._ind2save" in n2.UNBOUND:
        return   # black-box mode: there are no window events to corrupt (already reported as drift)
    good = [i for i, t in enumerate(traces) if i not in bad and t["status"] == 1 and len(t["wins"]) >= 3][:6]
    if len(good) < 3:
        if any(x.startswith("NP2Converter._ind2save: ") for x in n2.UNBOUND) and not any(t["wins"] for t in traces):
            return   # the hook is there but none of its calls could be read: black-box mode as above (already reported as drift)
        raise tlc.TLCError("selftest: not enough accepted multi-window traces")
    mut = []
    for j, i in enumerate(good):
        t = copy.deepcopy(strip(traces[i]))
        kind = j % 3
        if kind == 0:   # one row lost at a window seam
            t["wins"][1]["ap"][0] += 1
            t["wins"][1]["lf"][0] += n2.RATIO
        elif kind == 1:  # decimation phase off by one / window dropped
            del t["wins"][1]
        else:           # file content differs although the tokens are right
            t["final"]["ap_bytes_ok"] = False
            t["final"]["lf_sync_ok"] = False
        mut.append(t)
    keep = ctx.cov["traces_validated_against_impl"]
    v = tracecheck.validate(ctx, "trace/NP2SplitTrace.tla", "trace/NP2SplitTrace.cfg", mut, label="selftest", nstates=nstates, jvms=1)
    ctx.cov["traces_validated_against_impl"] = keep
    flagged = {x["index"] for x in v if any(c.split(":")[0] in clauses for c in x["prop"].split("|") if c)}
    if len(flagged) != len(mut):
        raise tlc.TLCError(f"binding self-test: only {len(flagged)}/{len(mut)} corrupted traces were rejected")
    ctx.cov["selftest_corrupted_traces_rejected"] = len(flagged)


def replay(ctx, sc, clauses=C03_CLAUSES, pid="C03"):
    quiet(ctx)
    if "chns" in sc:        # a channel list of spec/lib/ShankCols.tla (replay_shankcols)
        replay_shankcols(ctx, [{"shanks": [{"chns": sc["chns"], "subset": None}]}])
        return
    s = sc["scenario"]
    t = one_run(ctx, s, 0)
    if t is None:
        report_unbound(ctx)
        return
    report(ctx, [s], [t], validate(ctx, [t], "replay"), clauses, pid)
