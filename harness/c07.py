"""C07 - Fourier time shift is an exact, composable delay.

1. TLC: spec/lib/Shift.tla through spec/mc/MC_Shift.tla (1-D box and 2-D box): on the impulse basis, followed
   in the frequency domain as the code does it (phase ramps as integer numerators), integer shift = circular
   roll, zero = identity, successive shifts add, the reshape/broadcast of a shift vector reaches the right
   trace along either axis; three-point parabolic interpolation and the 'same'-correlation centre as
   assumptions over all small integer vectors.  TLC also exports expected index maps / interpolation results.
2. spec -> code: the exported cases are replayed on fourier.fshift (token comparison on random arrays) and on
   utils.parabolic_max.
3. code -> spec: experiments on the real fshift (full impulse basis, sub-Nyquist signals, one or two calls,
   scalar and per-trace shifts, both axes, float32/float64) and on wave_shift_corrmax / shift_waveform are
   recorded and validated by spec/trace/ShiftTrace.tla (property layer evaluated on the observed values).
4. binding self-tests: corrupted records / perturbed expectations must be flagged.

Every experiment and replay is also a draw from the ways a caller may hold and hand over the same arguments (make_var, _store,
replay_roll_case, _model_waveforms): data read-only / strided / Fortran-ordered / a window of a larger buffer, one array object
refilled between calls, the axis positional / defaulted / negative, `s=` and `ns=` keywords, the frequency-domain form
(rfft in, ns given), shifts as Python / NumPy integer and float32 scalars, zero-dimensional, integer-dtype, read-only or strided
vectors in flat / row / column layout, 2-D arrays with a single trace or with more traces than samples, lengths drawn from the
whole of 2..2048, a signal with a mean; waveforms in volts / microvolts / unit amplitude, float32 and float64, the same array
passed twice, clusters of one trace or of a handful of spikes.  The judgement is the property layer's in every case.

Decided by projection on the real output, NOT by TLC: that an output is "an impulse at j" (max error 1e-5 for
float32, 1e-10 for float64), "a pure delay by m/D" (relative residual against the analytically delayed
sub-Nyquist signal, same thresholds), the 0.05-sample accuracy of the delay estimate and the re-alignment
residual (5 %).  TLC compares the resulting integers / classes with the specification.
"""
import copy
import json
import random
from concurrent.futures import ThreadPoolExecutor
from fractions import Fraction
from multiprocessing import get_context

import numpy as np

from vkit import tlc, tracecheck

TOL = {"f4": 1e-5, "f8": 1e-10}
NPDT = {"f4": np.float32, "f8": np.float64}
DTNAME = {np.dtype(np.float32): "f4", np.dtype(np.float64): "f8"}
BIG = [509, 1024, 2048]


# ----------------------------------------------------------------------------------------------
# experiments on fourier.fshift -> trace records
# ----------------------------------------------------------------------------------------------

def _rle_map(m):
    """[j0, j1, ...] -> segments [i0, j0, len] of unit slope (or j = -1 runs)"""
    segs = []
    for i, j in enumerate(m):
        if segs:
            s = segs[-1]
            if (j < 0 and s[1] < 0) or (j >= 0 and s[1] >= 0 and j == s[1] + (i - s[0])):
                s[2] += 1
                continue
        segs.append([i, int(j), 1])
    return segs


def _layout(n, ntr, axis):
    if ntr == 0:
        return (n,)
    return (n, ntr) if axis == 0 else (ntr, n)


def _traces_view(a, ntr, axis):
    """(ntraces, n) view of an array laid out as in _layout"""
    if ntr == 0:
        return a[np.newaxis, :]
    return a.T if axis == 0 else a


def _svalue(call, D, form):
    """the `s` argument handed to fshift"""
    if call["scalar"]:
        v = Fraction(call["s"][0], D)
        if form % 3 == 0 and v.denominator == 1:
            return int(v)
        if form % 3 == 1:
            return np.float64(float(v))
        return float(v)
    vec = np.array([float(Fraction(x, D)) for x in call["s"]])
    if form % 2 == 1:
        vec = vec.astype(np.float32) if all(Fraction(x, D).denominator in (1, 2, 4, 16) for x in call["s"]) else vec
    return vec


# The ways a caller may hold / hand over the same values (audit round e: "arguments always had one dtype, were always fresh
# C-contiguous writable arrays, the axis always a keyword"); the judgement is the property layer's, whatever the variant.
#   w=   storage of the data array of the first call: ro (read-only), strided (every second element of a larger buffer,
#        along every axis), f (Fortran order; 1-D: negative stride), offset (window into a larger buffer)
#   call= pos (axis positional), default (no axis argument when the shift axis is the last one, as voltage.decompress_destripe_cbin
#        calls it), skw (s= keyword), ns (ns=n given for a real array), freq (the documented frequency-domain form: rfft of the
#        data and ns=n in, spectrum out; the spectrum handed over is a scratch copy - only a *real* input is promised untouched)
#   s=   npint (NumPy integer scalar / integer-dtype vector when every shift is a whole number), f4 (float32 scalar when exact),
#        0d (zero-dimensional array for a single trace), ro / strided (storage of the shift vector), near (float64 one or two
#        units in the last place off the value, towards / away from zero with k)
#   dc=  the sub-Nyquist test signal has a non-zero mean, different on every trace
W_STORE = ("c", "ro", "strided", "f", "offset", "be")
CALL_FORMS = ("kw", "pos", "default", "skw", "ns", "freq")
S_FORMS = ("", "npint", "f4", "0d", "ro", "strided", "near")


def make_var(rng):
    """one variant, drawn so that about half of the experiments keep the plain form of each dimension"""
    pick = lambda opts: opts[0] if rng.random() < 0.5 else rng.choice(opts[1:])  # noqa
    return f"w={pick(W_STORE)},call={pick(CALL_FORMS)},s={pick(S_FORMS)},dc={int(rng.random() < 0.7)},k={rng.randint(0, 5)}"


def _parse_var(var):
    d = {"w": "c", "call": "kw", "s": "", "dc": "0", "k": "0"}
    for item in (var or "").split(","):
        if "=" in item:
            k, v = item.split("=", 1)
            d[k] = v
    return d


def _filler(x):
    return np.nan if x.dtype.kind == "f" else np.iinfo(x.dtype).max


def _store(x, how):
    """(array holding the values of x the way `how` says, the buffer it lives in or None)"""
    if how == "ro":
        y = x.copy()
        y.setflags(write=False)
        return y, None
    if how == "strided":
        big = np.full(tuple(2 * k + 1 for k in x.shape), _filler(x), dtype=x.dtype)  # NaN between the elements: reading a
        sl = tuple(slice(1, None, 2) for _ in x.shape)                               # neighbour, or writing one, shows
        big[sl] = x
        return big[sl], big
    if how == "offset":
        big = np.full(tuple(k + 3 for k in x.shape), _filler(x), dtype=x.dtype)
        sl = tuple(slice(2 - i % 2, 2 - i % 2 + k) for i, k in enumerate(x.shape))
        big[sl] = x
        return big[sl], big
    if how == "f":
        if x.ndim == 1:
            return x[::-1].copy()[::-1], None
        return np.asfortranarray(x), None
    if how == "be":
        return x.astype(x.dtype.newbyteorder("S")), None      # the other byte order (data mapped from a big-endian file)
    return x, None


def _svariant(sa, call, D, ntr, v, k):
    """the shift argument `sa` of _svalue in the variant v['s'] (same value)"""
    how = v["s"]
    whole = all(x % D == 0 for x in call["s"])
    if how == "near":
        # a shift that is a rounding error away from its value (what -(0.29 * 100) or -2.3 + 0.3 hand over): the same shift within
        # any tolerance the property can mean, on whichever side of the value it falls
        f = np.asarray(sa, dtype=np.float64) * (1 + (3e-16 if k % 2 else -3e-16))
        return f if isinstance(sa, np.ndarray) else float(f)
    if not isinstance(sa, np.ndarray):
        if how == "npint" and whole:
            return (np.int64, np.int32, np.int16)[k % 3](call["s"][0] // D)
        if how == "f4" and Fraction(call["s"][0], D).denominator in (1, 2, 4, 16):
            return np.float32(float(Fraction(call["s"][0], D)))
        if how == "0d" and ntr <= 1:
            return np.array(float(Fraction(call["s"][0], D)))
        return sa
    if how == "npint" and whole:
        return np.array([x // D for x in call["s"]], dtype=(np.int64, np.int32, np.int16)[k % 3])
    return sa


# ---- defensive observation of what the real code returned -----------------------------------------------------------------------
# Whatever comes back from the library is looked at through these: a value that is not what the property promises (None, a list,
# a string, an object / string / complex array, NaN, another shape) becomes the negative observation of the clause it belongs to
# (odtype / oshape for "shape and dtype are preserved", map -1 / "blurred" for the roll and delay clauses, 99900 / "bad" for the
# estimate clauses) - never an exception of the harness.

def _oshape(out):
    """the shape of a returned value as a list of integers; [-1] if it has none (a ragged list, say)"""
    try:
        return [int(x) for x in np.shape(out)]
    except Exception:  # noqa
        return [-1]


def _odtype(out, like=None):
    """the name the trace records for the element type of a returned value: 'f4' / 'f8' for float32 / float64 *arrays*, else a
    description that equals no dtype name (the property promises an array of the dtype of the input). `like`: the dtype of the
    array handed in - its byte order is part of it (seed round i: float32 read from a big-endian file came back little-endian)"""
    if not isinstance(out, np.ndarray):
        return "not an ndarray (" + type(out).__name__[:40].replace('"', "").replace("\\", "") + ")"
    if like is not None and out.dtype != like and out.dtype.newbyteorder("=") == like.newbyteorder("="):
        return f"byte order changed: {out.dtype.str} for {like.str}".replace('"', "")
    return DTNAME.get(out.dtype.newbyteorder("=")) or str(out.dtype).replace('"', "").replace("\\", "")[:60]


def _values(out, shape):
    """float64 copy of a returned value if it has the promised shape and real, numeric contents - else None (not measurable)"""
    try:
        a = np.asarray(out)
        if a.shape != tuple(shape) or not np.isrealobj(a):
            return None
        return a.astype(np.float64)
    except Exception:  # noqa  an object / string array that does not convert
        return None


def _resid(a, ref):
    """relative residual |a - ref| / |ref| of a returned waveform against the expected one; 9.0 when it cannot be measured
    (another shape, contents that are not numbers, not finite)"""
    try:
        a = np.asarray(a)
        if a.shape != ref.shape:
            return 9.0
        if a.dtype.kind == "O":
            a = a.astype(np.float64)
        elif a.dtype.kind not in "fiubc":       # strings, bytes, dates: not a waveform
            return 9.0
        r = float(np.linalg.norm(a - ref) / np.linalg.norm(ref))
        return r if np.isfinite(r) else 9.0
    except Exception:  # noqa
        return 9.0


def _centi(x):
    """a returned delay in 1/100 sample as an integer TLC can hold; 99900 (= 999 samples, the marker the records always used for
    'no estimate') when it is not a finite real number; clamped to +-99900 (the applied delays are within +-3 samples)"""
    try:
        x = float(x)
    except Exception:  # noqa
        return 99900
    if not np.isfinite(x):
        return 99900
    return int(max(-99900, min(99900, round(x * 100))))


def fshift_experiment(n, ntr, axis, dt, D, calls, form=0, basis=True, seed=0, var=""):
    """run one experiment on the real code; returns the trace record"""
    from ibldsp.fourier import fshift
    import scipy.fft
    rng = np.random.default_rng(seed)
    v = _parse_var(var)
    shape = _layout(n, ntr, axis)
    nt = max(ntr, 1)
    # the axis argument in one of its equivalent spellings
    if ntr == 0:
        ax_arg = [0, -1][form % 2]
    else:
        ax_arg = [axis, axis - 2][form % 2]
    last = ntr == 0 or axis == 1
    rec = {"kind": "fshift", "n": n, "ntr": ntr, "axis": axis, "D": D, "dtype": dt, "form": form, "var": var or "",
           "calls": [], "est": [], "shape_ok": True}
    obs = [{"scalar": c["scalar"], "s": list(c["s"]), "oshape": list(shape), "odtype": dt, "untouched": True,
            "maps": [], "md": [0] * nt, "q": ["none"] * nt} for c in calls]
    sargs = [_svariant(_svalue(c, D, form), c, D, ntr, v, int(v["k"]) + ic) for ic, c in enumerate(calls)]
    # "each trace can receive its own shift": the layout of the shift array is the caller's (flat, one column / one row matching the
    # data, the other orientation, a one-element array for a single trace) - the result has the shape of the data whatever it is
    sbufs = [None] * len(calls)
    for ic, sa in enumerate(sargs):
        lay = (form // 2 + ic) % 3
        if isinstance(sa, np.ndarray) and sa.ndim and ntr > 0 and lay:
            sargs[ic] = sa.reshape((1, -1) if (axis == 0) == (lay == 1) else (-1, 1))
        elif not isinstance(sa, np.ndarray) and ntr == 0 and form >= 4 and v["s"] in ("", "ro", "strided"):
            sargs[ic] = np.array([float(sa)])
        if isinstance(sargs[ic], np.ndarray) and sargs[ic].ndim and v["s"] in ("ro", "strided"):
            sargs[ic], sbufs[ic] = _store(sargs[ic], v["s"])

    def call(cur, ic):
        sa = sargs[ic]
        how = v["call"]
        if how == "freq":
            W = scipy.fft.rfft(cur, axis=axis)
            out = fshift(W, sa, axis=ax_arg, ns=n)
            back = scipy.fft.irfft(out, n, axis=axis)       # the transforms are the harness's: so is the byte order of their result
            return back.astype(cur.dtype, copy=False) if back.dtype.newbyteorder("=") == cur.dtype.newbyteorder("=") else back
        if how == "pos":
            return fshift(cur, sa, ax_arg)
        if how == "default" and last:
            return fshift(cur, sa)
        if how == "skw":
            return fshift(cur, s=sa) if (last and (int(v["k"]) + ic) % 2) else fshift(cur, s=sa, axis=ax_arg)
        if how == "ns":
            return fshift(cur, sa, axis=ax_arg, ns=n)
        if ntr == 0 and form % 2 == 0 and ic == 0:
            return fshift(cur, sa)      # default axis
        return fshift(cur, sa, axis=ax_arg)

    def run(arr):
        outs = []
        cur, buf = _store(arr, v["w"])
        for ic, c in enumerate(calls):
            keep = cur.copy()
            bkeep = None if buf is None else buf.copy()
            skeep = sargs[ic].copy() if isinstance(sargs[ic], np.ndarray) else sargs[ic]
            sbkeep = None if sbufs[ic] is None else sbufs[ic].copy()
            try:
                out = call(cur, ic)
            except Exception as ex:  # noqa  the property says the call returns the shifted array
                for jc in range(ic, len(calls)):
                    obs[jc]["oshape"] = [-1]
                    obs[jc]["odtype"] = "raised " + type(ex).__name__
                break
            if not (np.array_equal(cur, keep) and cur.dtype == keep.dtype):
                obs[ic]["untouched"] = False
            if bkeep is not None and not np.array_equal(buf, bkeep, equal_nan=True):       # nor what surrounds a view
                obs[ic]["untouched"] = False
            if isinstance(skeep, np.ndarray) and not (np.array_equal(skeep, sargs[ic]) and skeep.dtype == sargs[ic].dtype):
                obs[ic]["untouched"] = False
            if sbkeep is not None and not np.array_equal(sbufs[ic], sbkeep, equal_nan=True):
                obs[ic]["untouched"] = False
            if _oshape(out) != list(shape) and obs[ic]["oshape"] == list(shape):      # sticky once wrong
                obs[ic]["oshape"] = _oshape(out)
            if _odtype(out, keep.dtype) != dt and obs[ic]["odtype"] == dt:
                obs[ic]["odtype"] = _odtype(out, keep.dtype)
            outs.append(out)
            if not isinstance(out, np.ndarray):
                break           # nothing a caller could hand to the next call as "the shifted array" (recorded above)
            cur, buf = out, None
        return outs

    # (a) the full impulse basis: run b puts e_((t+b)%n) on trace t
    if basis:
        maps = [np.full((nt, n), -1, dtype=np.int64) for _ in calls]
        arr = np.zeros(shape, dtype=NPDT[dt])       # one array object, refilled by its owner between the calls
        for b in range(n):
            arr[...] = 0
            tv = _traces_view(arr, ntr, axis)
            where = (np.arange(nt) + b) % n
            tv[np.arange(nt), where] = 1
            outs = run(arr)
            for ic, out in enumerate(outs):
                out = _values(out, shape)
                if out is None:
                    continue
                ov = _traces_view(out, ntr, axis)
                j = np.argmax(ov, axis=1)
                ideal = np.zeros_like(ov)
                ideal[np.arange(nt), j] = 1
                good = np.max(np.abs(ov - ideal), axis=1) <= TOL[dt]
                maps[ic][np.arange(nt), where] = np.where(good, j, -1)
        for ic in range(len(calls)):
            obs[ic]["maps"] = [_rle_map(maps[ic][t]) for t in range(nt)]
    # (b) a signal strictly below Nyquist, different on every trace: measured delay and purity
    ks = np.arange(1, (n - 1) // 2 + 1)
    if ks.size:
        if ks.size > 24:
            ks = np.unique(np.r_[1, 2, ks[-1], ks[-2], rng.choice(ks, 20, replace=False)])
        amp = rng.uniform(0.5, 1.5, size=(nt, ks.size))
        amp[:, 0] = 2.0
        phi = rng.uniform(0, 2 * np.pi, size=(nt, ks.size))
        # a constant is a signal below Nyquist too: its delayed copy is itself
        dc = rng.uniform(-3, 3, size=nt) if v["dc"] == "1" else np.zeros(nt)
        m = np.arange(n)

        def sig(delay):     # delay: (nt,) in samples -> (nt, n) analytic
            arg = 2 * np.pi * ks[np.newaxis, :, np.newaxis] * (m[np.newaxis, np.newaxis, :] - delay[:, np.newaxis, np.newaxis]) / n
            return np.sum(amp[:, :, np.newaxis] * np.cos(arg + phi[:, :, np.newaxis]), axis=1) + dc[:, np.newaxis]

        x64 = sig(np.zeros(nt))
        arr = np.zeros(shape, dtype=NPDT[dt])
        _traces_view(arr, ntr, axis)[...] = x64
        x_in = _traces_view(arr, ntr, axis).astype(np.float64)
        outs = run(arr)
        X1 = np.fft.rfft(x_in, axis=1)[:, 1]
        for ic, out in enumerate(outs):
            out = _values(out, shape)
            if out is None:
                obs[ic]["q"] = ["blurred"] * nt
                continue
            y = _traces_view(out, ntr, axis)
            with np.errstate(all="ignore"):
                Y1 = np.fft.rfft(y, axis=1)[:, 1]
                d = -np.angle(Y1 / X1) * n / (2 * np.pi)
                mdr = np.round(d * D)
                meas = np.isfinite(mdr)             # NaN / inf in the output: no delay to measure, "blurred"
                mdr = np.where(meas, mdr, 0)
                sharp = meas & (np.abs(d * D - mdr) <= 1e-3 * D)
                ref = sig(mdr / D)
                # the input was rounded to dtype: compare with the delayed analytic signal, tolerance relative
                res = np.linalg.norm(y - ref, axis=1) / np.linalg.norm(x_in, axis=1)
            tol = TOL[dt]
            for t in range(nt):
                obs[ic]["md"][t] = int(mdr[t]) % (n * D)
                obs[ic]["q"][t] = "pure" if (sharp[t] and res[t] <= tol) else "blurred"
    rec["calls"] = obs
    return rec


def _shift_programs(rng, n, ntr, quick):
    """call sequences (D, calls) for one (n, ntr): integer, zero, pairs, fractional, per-trace"""
    R = lambda lo, hi: rng.randint(lo, hi)  # noqa
    progs = []
    sc = lambda D, *nums: (D, [{"scalar": True, "s": [x]} for x in nums])  # noqa
    progs += [sc(1, 0), sc(1, 1), sc(1, -1), sc(1, n - 1), sc(1, 1 - n), sc(1, R(1 - n, n - 1))]
    progs += [sc(1, R(1 - n, n - 1), R(1 - n, n - 1)), sc(1, n - 1, 1 - n), sc(2, 1, 1), sc(4, R(-4 * n + 1, 4 * n - 1), R(-4 * n + 1, 4 * n - 1))]
    for D in (13, 16, 100):
        progs.append(sc(D, R(1 - n * D, n * D - 1)))
        progs.append(sc(D, R(1 - n * D, n * D - 1), R(1 - n * D, n * D - 1)))
    progs.append(sc(100, R(1, 99), 0))
    if ntr:
        vec = lambda D: {"scalar": False, "s": [R(1 - n * D, n * D - 1) for _ in range(ntr)]}  # noqa
        progs += [(1, [vec(1)]), (1, [{"scalar": False, "s": list(range(ntr))}]), (1, [vec(1), vec(1)]),
                  (1, [vec(1), {"scalar": True, "s": [R(1 - n, n - 1)]}]), (1, [{"scalar": False, "s": [0] * ntr}]),
                  (13, [vec(13)]), (16, [vec(16), vec(16)]), (100, [vec(100)]), (4, [{"scalar": True, "s": [R(-9, 9)]}, vec(4)])]
    if quick and n > 24:
        progs = rng.sample(progs, 6 if ntr else 5)
    return progs


def fshift_plan(ctx):
    rng = random.Random(ctx.seed)
    rngv = random.Random(ctx.seed + 7)          # variants and extra layouts: the stream of the shift programs stays as it was
    # lengths of the whole range 2..2048, not only the three large ones that happen to be prime / powers of two
    extra = sorted(rngv.sample(range(257, 2048), 4 if ctx.quick else 24))
    lens = list(range(2, 65 if ctx.quick else 257)) + sorted(set(BIG + extra))
    plan = []

    def add(n, ntr, axis, D, calls, r):
        dts = ("f4", "f8")
        if n > 300 or (ctx.quick and n > 32):
            dts = (r.choice(dts),)
        for dt in dts:
            allint = all(x % D == 0 for c in calls for x in c["s"])
            basis = n <= 64 or allint
            if n > 300 and (not allint or r.random() < 0.6):
                basis = False
            plan.append((n, ntr, axis, dt, D, calls, r.randint(0, 5), basis, r.randint(0, 2 ** 31 - 1), make_var(rngv)))

    for n in lens:
        for ntr, axis in ((0, 0), (3, 0), (3, 1), (2, 1)):
            if ntr == 2 and n > 12:
                continue
            for D, calls in _shift_programs(rng, n, ntr, ctx.quick):
                add(n, ntr, axis, D, calls, rng)
        # a 2-D array with a single trace (column / row), and more traces than three (also more traces than samples)
        for ntr, axis in ((1, 0), (1, 1), (rngv.choice([4, 5, 7, 8]), rngv.randint(0, 1))):
            progs = _shift_programs(rngv, n, ntr, ctx.quick)
            for D, calls in rngv.sample(progs, min(len(progs), 3 if (ctx.quick or n > 300) else 6)):
                add(n, ntr, axis, D, calls, rngv)
    # whole-sample shifts that arrive as the result of float arithmetic (seed round g: -(0.29 * 100) = -28.999999999999996 taken
    # for a whole shift and truncated to -28): both signs, both sides of the whole number, scalar and per-trace
    rn = random.Random(ctx.seed + 11)
    for n in rn.sample([x for x in lens if x >= 4], 16 if ctx.quick else 80):
        for ntr, axis in ((0, 0), (3, rn.randint(0, 1))):
            for k in (0, 1):
                a = rn.randint(1, n - 1) * rn.choice([-1, 1])
                calls = [{"scalar": True, "s": [a]}] if (ntr == 0 or rn.random() < 0.6) else \
                    [{"scalar": False, "s": [rn.randint(1, n - 1) * rn.choice([-1, 1]) for _ in range(ntr)]}]
                if rn.random() < 0.3:
                    calls.append({"scalar": True, "s": [-a]})
                plan.append((n, ntr, axis, rn.choice(("f4", "f8")), 1, calls, rn.randint(0, 5), n <= 300, rn.randint(0, 2 ** 31 - 1),
                             f"w=c,call={rn.choice(('kw', 'pos', 'ns'))},s=near,dc={rn.randint(0, 1)},k={k}"))
    return plan


# ----------------------------------------------------------------------------------------------
# delay estimation: wave_shift_corrmax, shift_waveform
# ----------------------------------------------------------------------------------------------

# units a waveform comes in: normalised, volts (what spikeglx.Reader returns), microvolts
SCALES = (1.0, 1e-6, 2.5e-5, 80.0)


def _model_waveforms(rng, k):
    """single-trace waveforms from neurowaveforms.model: (label, 1-D float array)"""
    from neurowaveforms.model import generate_waveform
    out = []
    for i in range(k):
        sxy = np.array([rng.choice([11.0, 27.0, 43.0, 59.0]), rng.uniform(1800, 2100), rng.uniform(0, 30)])
        wav = generate_waveform(sxy=sxy, vertical_velocity_mps=rng.uniform(1, 6), decay_exponent=rng.uniform(2, 3.5))
        pk = np.argsort(-np.max(np.abs(wav), axis=1))
        for tr in (pk[0], pk[rng.randint(1, 5)]):
            w = wav[tr] / np.max(np.abs(wav[tr]))
            form = rng.randint(0, 3)
            if form == 1:
                w = w[:-1]                  # even length
            elif form == 2:
                w = np.r_[np.zeros(4), w, np.zeros(5)] * -1.0    # padded, inverted polarity
            elif form == 3:
                w = w.astype(np.float32)
            # every residue of the length modulo 4 (and so every rounding case of the correlation centre n/2)
            pad = len(out) % 4
            w = np.r_[w, np.zeros(pad, dtype=w.dtype)]
            out.append((f"model{i}/trace{int(tr)}/form{form}/len{w.size}", w))
    # the same waveforms as a caller holds them: other units, float32, read-only, a strided view (drawn after the loop: the
    # waveforms themselves are the ones of earlier rounds)
    res = []
    for j, (label, w) in enumerate(out):
        sc = SCALES[(j + rng.randint(0, 3)) % 4] if j else 1.0
        dt = w.dtype if rng.random() < 0.6 else (np.float32 if w.dtype == np.float64 else np.float64)
        hold = rng.choice(("c", "c", "ro", "strided", "f"))
        w = (w.astype(np.float64) * sc).astype(dt)
        res.append((f"{label}/x{sc:g}/{np.dtype(dt).name}/{hold}", w, hold))
    return res


def estimate_records(ctx):
    from ibldsp.fourier import fshift
    from ibldsp.waveforms import wave_shift_corrmax, shift_waveform
    from neurowaveforms.model import generate_waveform
    rng = random.Random(ctx.seed + 1)
    rngv = random.Random(ctx.seed + 11)
    recs = []
    base = {"kind": "estimate", "n": 0, "ntr": 0, "axis": 0, "D": 1, "dtype": "f8", "form": 0, "var": "", "calls": []}
    for label, w0, hold in _model_waveforms(rng, 3 if ctx.quick else 12):
        est = []
        ok = True
        w, wbuf = _store(w0, hold)
        wkeep, wbkeep = w.copy(), (None if wbuf is None else wbuf.copy())
        for d10 in range(-30, 31):
            d = d10 / 10
            try:
                w2, w2buf = _store(fshift(w, d), hold if d10 % 2 else "c")
                if d10 == 0 and hold != "c":
                    w2, w2buf = w, wbuf                   # the same array passed twice
                k2, kb2 = w2.copy(), (None if w2buf is None else w2buf.copy())
                resync, sc = wave_shift_corrmax(w, w2)
                sc = float(sc)
                # neither waveform is the callee's to change (nor what surrounds a view of it)
                ok = ok and np.array_equal(w, wkeep) and np.array_equal(w2, k2)
                ok = ok and (wbuf is None or np.array_equal(wbuf, wbkeep, equal_nan=True))
                ok = ok and (w2buf is None or np.array_equal(w2buf, kb2, equal_nan=True))
            except Exception:  # noqa
                resync, sc = np.zeros(0), 999.0
            ok = ok and _oshape(resync) == list(w.shape)
            r = _resid(resync, wkeep)
            est.append([d10 * 10, _centi(sc), "ok" if r <= 0.05 else "bad"])
            ctx.count(1, key=("est", label, d10))
        recs.append(dict(base, fn="wave_shift_corrmax", label=label, n=int(w.size), est=est, shape_ok=bool(ok)))
    # shift_waveform: a cluster of copies of one multi-trace waveform, a minority of them shifted
    for i in range(3 if ctx.quick else 10):
        wav = generate_waveform(sxy=np.array([43.0, rng.uniform(1850, 2050), 0.0]), vertical_velocity_mps=rng.uniform(1, 6))
        sel = np.argsort(-np.max(np.abs(wav), axis=1))[:rng.randint(2, 6)]
        wav = wav[np.sort(sel)]                                     # (trace, time)
        nsp = rng.randint(9, 21)
        shifts = [0.0] * nsp
        for j in rng.sample(range(nsp), (nsp - 1) // 2 - 1):
            shifts[j] = rng.randint(-30, 30) / 10
        # the cluster as a caller holds it: units, float32, one trace only, a few spikes, strided / Fortran / windowed storage
        sc = SCALES[(i + rngv.randint(0, 3)) % 4] if i else 1.0
        dt = np.float64 if (i + rngv.randint(0, 1)) % 2 == 0 else np.float32
        # (not read-only: shift_waveform goes through waveforms._validate_arr_in, which assigns 0 to the NaNs of the caller's
        # array in place and so refuses a read-only one - reported as an observation, the property does not speak about it)
        hold = rngv.choice(("c", "strided", "f", "offset")) if i else "c"
        # quick: clusters 1 and 2 are the single-trace one and the one with few spikes (which is which depends on the seed)
        mode = 0 if not i else (2 + (i + ctx.seed) % 2 if i <= 2 else (i + ctx.seed) % 4)
        if mode == 3:
            wav = wav[[int(np.argmax(np.max(np.abs(wav), axis=1)))]]        # (1, time)
        if mode == 2:
            nsp = rngv.randint(5, 8)
            shifts = [0.0] * nsp
            shifts[rngv.randrange(nsp)] = rngv.randint(-30, 30) / 10
        label = f"cluster{i}" + (f"/x{sc:g}/{np.dtype(dt).name}/{hold}/tr{wav.shape[0]}/sp{nsp}" if i else "")
        try:
            cluster = np.stack([fshift(wav, s, axis=-1) for s in shifts])   # (spike, trace, time)
            cluster, cbuf = _store((cluster * sc).astype(dt), hold)
            wav = wav * sc
            keep, bkeep = cluster.copy(), (None if cbuf is None else cbuf.copy())
            out, applied = shift_waveform(cluster)
            ok = _oshape(out) == list(cluster.shape) and np.array_equal(cluster, keep)
            ok = ok and (cbuf is None or np.array_equal(cbuf, bkeep, equal_nan=True))
        except Exception:  # noqa
            out, applied, ok = None, [0.0] * nsp, False
        try:
            # one applied shift per spike, as finite numbers; anything else (None, a scalar, a shorter vector, strings) is recorded
            # as "no estimate" (99900) for every spike
            applied = np.asarray(applied, dtype=np.float64).reshape(-1)
            if applied.size != nsp:
                raise ValueError("not one shift per spike")
            ok = ok and bool(np.all(np.isfinite(applied)))
            out = np.asarray(out) if ok else None
        except Exception:  # noqa
            out, applied, ok = None, [np.nan] * nsp, False
        est = []
        for j in range(nsp):
            r = _resid(out[j], wav) if ok else 9.0
            # shift_waveform reports the shift it applied to undo the delay: minus the delay
            est.append([int(round(shifts[j] * 100)), _centi(-applied[j]), "ok" if r <= 0.05 else "bad"])
            ctx.count(1, key=("cluster", label, j))
        recs.append(dict(base, fn="shift_waveform", label=label, n=int(wav.shape[1]), est=est, shape_ok=bool(ok)))
    return recs


# ----------------------------------------------------------------------------------------------
# spec -> code replay of TLC-exported expectations
# ----------------------------------------------------------------------------------------------

def replay_roll_case(c, dt, seed=0):
    """returns None if the real fshift reproduces the token map computed by TLC, else a description"""
    from ibldsp.fourier import fshift
    import scipy.fft
    rng = np.random.default_rng(seed)
    shape = tuple(c["shape"])
    x = rng.permutation(int(np.prod(shape))).reshape(shape).astype(NPDT[dt]) + 1
    s = int(c["s"][0]) if c["scalar"] else np.array(c["s"], dtype=float)
    # the caller's way of holding the arguments (see make_var): integer-dtype shift vectors / NumPy integer scalars, a
    # zero-dimensional shift for a single trace, stored data (read-only, strided, Fortran order, window of a buffer)
    k = seed // 3
    if not c["scalar"] and k % 4 == 1:
        s = s.astype((np.int64, np.int32, np.int16, np.int8)[(k // 4) % 4])
    elif c["scalar"] and k % 4 == 1:
        s = (np.int64, np.int32, np.int16, np.int8)[(k // 4) % 4](s)
    elif c["scalar"] and k % 4 == 2 and int(np.prod(shape)) == shape[c["axis"]]:
        s = np.array(float(s))
    if not c["scalar"] and len(shape) == 2 and seed % 3:
        s = s.reshape((1, -1) if (c["axis"] % 2 == 0) == (seed % 3 == 1) else (-1, 1))     # column / row layouts of the shift vector
    elif c["scalar"] and len(shape) == 1 and seed % 3 == 1 and not isinstance(s, (np.ndarray, np.generic)):
        s = np.array([float(s)])
    if isinstance(s, np.ndarray) and s.ndim and k % 5 == 3:
        s = _store(s, "strided" if k % 2 else "ro")[0]
    wst = W_STORE[(seed // 2) % 7] if (seed // 2) % 7 < len(W_STORE) else "c"
    x, buf = _store(x, wst)
    keep = x.copy()
    bkeep = None if buf is None else buf.copy()
    skeep = s.copy() if isinstance(s, np.ndarray) else s
    how = (seed // 5) % 6
    last = c["axis"] == len(shape) - 1
    held = (f" [data held as '{wst}', call form {how}, shift passed as {type(s).__name__}"
            + (f" {s.dtype}{list(s.shape)}]" if isinstance(s, np.ndarray) else "]"))
    try:
        if how == 1 and last:
            y = fshift(x, s)                                  # default axis: the last one
        elif how == 2:
            y = fshift(x, s=s, axis=c["axis"] - len(shape))
        elif how == 3:
            y = fshift(x, s, c["axis"], shape[c["axis"]])     # positional axis and ns
        elif how == 4:                                        # frequency-domain form
            y = scipy.fft.irfft(fshift(scipy.fft.rfft(x, axis=c["axis"]), s, axis=c["axis"], ns=shape[c["axis"]]),
                                shape[c["axis"]], axis=c["axis"])
            y = y.astype(x.dtype, copy=False) if y.dtype.newbyteorder("=") == x.dtype.newbyteorder("=") else y   # the transforms are the harness's
        else:
            y = fshift(x, s, axis=c["axis"])
    except Exception as ex:  # noqa
        return f"raised {type(ex).__name__}: {ex}" + held
    if not isinstance(y, np.ndarray) or y.shape != shape or y.dtype != x.dtype:
        return f"shape/dtype {_oshape(y)}/{getattr(y, 'dtype', type(y).__name__)}" + held
    if not np.array_equal(x, keep) or (bkeep is not None and not np.array_equal(buf, bkeep, equal_nan=True)):
        return "input array modified" + held
    if isinstance(skeep, np.ndarray) and not (np.array_equal(s, skeep) and s.dtype == skeep.dtype):
        return "shift array modified" + held
    exp = x.reshape(-1)[np.array(c["src"])].reshape(shape)
    err = float(np.max(np.abs(y.astype(np.float64) - exp)) / np.max(np.abs(exp)))
    if not err <= TOL[dt] * 10:
        return f"output is not the expected rearrangement of the input (rel. err {err:.3g})" + held
    return None


def replay_parabolic(cases):
    """returns list of (case, observed) where utils.parabolic_max differs from the spec's rational result"""
    from ibldsp.utils import parabolic_max
    bad = []
    bylen = {}
    dts = (np.float64, np.float32, np.int64, np.int16)       # the vectors are small integers: exact in every one of them
    for k, c in enumerate(cases):
        v0 = np.array(c["v"], dtype=float)
        # the caller's element type and storage (read-only, strided, window of a buffer); the argument stays as it was
        v, buf = _store(v0.astype(dts[k % 4]), W_STORE[(k // 4) % 5])
        keep, bkeep = v.copy(), (None if buf is None else buf.copy())
        e = c["exp"]
        want = (e[0] / e[1], e[2] / e[3])
        try:
            ip, mx = parabolic_max(v) if v.size > 1 else (0, v[0])
            got = (float(ip), float(mx))
            if not (np.array_equal(v, keep) and (buf is None or np.array_equal(buf, bkeep, equal_nan=True))):
                got = ("argument modified",) * 2
        except Exception as ex:  # noqa
            got = (type(ex).__name__,) * 2
        if not (isinstance(got[0], float) and abs(got[0] - want[0]) <= 1e-9 and abs(got[1] - want[1]) <= 1e-9):
            bad.append((c, got + (np.dtype(dts[k % 4]).name, W_STORE[(k // 4) % 5])))
        bylen.setdefault(v.size, []).append((v0, want, c))
    for ln, lst in bylen.items():       # 2-D form: one row per vector
        if ln < 2:
            continue
        for dt, how in ((np.float64, "c"), (np.float32, "ro"), (np.int32, "f"), (np.float64, "strided")):
            x = _store(np.stack([x[0] for x in lst]).astype(dt), how)[0]
            try:
                ip, mx = parabolic_max(x)
            except Exception as ex:  # noqa
                bad.append((lst[0][2], (type(ex).__name__, "2d", np.dtype(dt).name, how)))
                continue
            try:        # one interpolated index and one maximum per row
                ip, mx = np.asarray(ip, dtype=np.float64), np.asarray(mx, dtype=np.float64)
                if ip.shape != (len(lst),) or mx.shape != (len(lst),):
                    raise ValueError(f"results of shape {ip.shape}, {mx.shape} for {len(lst)} rows")
            except Exception as ex:  # noqa
                bad.append((lst[0][2], (f"{type(ex).__name__}: {ex}"[:120], "2d", np.dtype(dt).name, how)))
                continue
            for k, (v, want, c) in enumerate(lst):
                if not (abs(ip[k] - want[0]) <= 1e-9 and abs(mx[k] - want[1]) <= 1e-9):
                    bad.append((c, (float(ip[k]), float(mx[k]), "2d", np.dtype(dt).name, how)))
    return bad


# ----------------------------------------------------------------------------------------------

def nstates(t):
    return (len(t["calls"]) if t["kind"] == "fshift" else 1) + 2


def _clause_key(prop):
    p = prop.lower()
    if p.startswith("estimate") or p.startswith("realign"):
        return "estimate:" + p
    return "shift:" + p.replace(":", "-")


def _validate(ctx, recs, label, jvms=4):
    return tracecheck.validate(ctx, "trace/ShiftTrace.tla", "trace/ShiftTrace.cfg", recs, label=label,
                               jvms=jvms, workers=2, nstates=nstates, timeout=1500)


def _describe(t):
    if t["kind"] == "fshift":
        calls = "; ".join(("s=" if c["scalar"] else "s[]=") + ",".join(f"{x}/{t['D']}" for x in c["s"]) for c in t["calls"])
        return f"fshift {t['dtype']} shape={_layout(t['n'], t['ntr'], t['axis'])} axis={t['axis']} [{t.get('var', '')}] {calls}"
    return f"{t['fn']} {t['label']} n={t['n']}"


def run_model(ctx):
    out = ctx.scratch / "shift_cases.json"
    tier = "quick" if ctx.quick else "thorough"
    jobs = [(f"mc/Shift_{tier}.cfg", {}), (f"mc/Shift2D_{tier}.cfg", {"OUT_FILE": str(out)})]
    with ThreadPoolExecutor(2) as ex:
        res = list(ex.map(lambda j: tlc.run("mc/MC_Shift.tla", j[0], workers=3, timeout=2400, env=j[1], heap="6g"), jobs))
    for (cfg, _), r in zip(jobs, res):
        ctx.tlc(r, cfg)
        if not r.ok:
            # the model mirrors the code: a counterexample here is a finding only once reproduced on the code;
            # none is expected - treat as machinery failure so that it is looked at
            raise tlc.TLCError(f"{cfg}: TLC reports {r.invariant_violated or 'an error'}\n{r.out[-2500:]}")
    return json.loads(out.read_text())


def run(ctx):
    ctx.level = "model_checking"
    # the model runs while the experiments on the real code are made (it is needed for the replay only)
    bg = ThreadPoolExecutor(1)
    model = bg.submit(run_model, ctx)
    plan = fshift_plan(ctx)
    with get_context("fork").Pool(4) as pool:
        recs = pool.starmap(fshift_experiment, plan, chunksize=32)
    for p in plan:
        ctx.count(1, key=("fshift", p[0], p[1], p[2], p[3], p[4], json.dumps(p[5])))
    cases = model.result()
    bg.shutdown()
    # ---- spec -> code -------------------------------------------------------------------------
    nbad = 0
    for k, c in enumerate(cases["roll"]):
        for dt in ("f4", "f8"):
            why = replay_roll_case(c, dt, seed=ctx.seed + k)
            ctx.count(1, key=("roll", tuple(c["shape"]), c["axis"], tuple(c["s"])) if any(c["s"]) else None)
            if why:
                nbad += 1
                key = "shift:roll" if c["scalar"] else "shift:pertrace-roll"
                ctx.violation(key, f"fshift(x{tuple(c['shape'])} {dt}, s={c['s']}, axis={c['axis']}): {why}; expected "
                              f"element map computed by TLC from spec/lib/Shift.tla", {"type": "roll", "case": c, "dtype": dt, "seed": ctx.seed + k})
    badp = replay_parabolic(cases["parabolic"])
    ctx.count(len(cases["parabolic"]))
    for c, got in badp[:5]:
        # not a clause of the property: the interpolation is the mechanism behind the estimate
        ctx.spec_drift(f"utils.parabolic_max({c['v']}) = {got}, spec/lib/Shift.tla!Parabolic gives {c['exp']} "
                       f"(the delay-estimate clauses are checked on their own)")
    ctx.cov["replayed_roll_cases"] = 2 * len(cases["roll"])
    ctx.cov["replayed_parabolic_cases"] = len(cases["parabolic"])
    # ---- code -> spec -------------------------------------------------------------------------
    try:
        erecs = estimate_records(ctx)
    except Exception as ex:  # noqa  neurowaveforms.model.generate_waveform itself goes through fshift
        if not ctx.violations and not any(v["prop"] for v in _validate(ctx, recs[:400], "probe", jvms=2)):
            raise
        ctx.log(f"estimator experiments skipped: building the test waveforms raised {type(ex).__name__} (fshift is already failing)")
        erecs = []
    allrecs = recs + erecs
    order = list(range(len(allrecs)))
    random.Random(ctx.seed).shuffle(order)
    shuffled = [allrecs[i] for i in order]
    verdicts = _validate(ctx, shuffled, "shift")
    for v in verdicts:
        t = shuffled[v["index"]]
        if v["prop"]:
            ctx.violation(_clause_key(v["prop"]), f"{_describe(t)}: property-layer clause {v['prop']} false "
                          f"(call {v['pos']})", {"type": "trace", "seed": ctx.seed, "tier": ctx.tier, "record": _strip(t)})
        elif v["impl"]:
            ctx.spec_drift(f"{_describe(t)}: {v['impl']}")
    for t in recs[:2] + erecs[:1]:
        ctx.sample(_strip(t, short=True))
    selftest(ctx, shuffled, {v["index"] for v in verdicts}, cases)
    ctx.cov["rule"] = ("model: every (n, D, basis vector, one or two shifts in (-n,n)) of the box, 1-D and 2-D/both axes; "
                       "replay: every TLC-exported (shape, axis, shift vector) token map x dtype; traces: one experiment = "
                       "(n, layout incl. single-trace and many-trace 2-D, dtype, call sequence, argument variant: storage of the "
                       "data / call form incl. frequency-domain / kind of the shift argument) with the full impulse basis and a "
                       "sub-Nyquist multi-sine with or without a mean; estimator: model waveform (units, dtype, storage) x shift "
                       "-3..3 step 0.1, clusters incl. one trace / few spikes")
    ctx.cov["exhaustive"] = True
    ctx.cov["numeric_postconditions"] = ("impulse / pure-delay classification (1e-5 f32, 1e-10 f64), delay estimate "
                                         "within 0.05 sample, re-alignment residual <= 5 %: measured on the real output, "
                                         "not decided by TLC")
    ctx.assumptions += ["even length: additivity / integer-total claims are made for integer shifts on the full basis and for "
                        "any shifts on the sub-Nyquist subspace (a real even-length signal's Nyquist bin has no fractional delay)",
                        "circular time base: 'analytically delayed' means the periodic band-limited interpolation"]


def _strip(t, short=False):
    t = copy.deepcopy(t)
    if short:
        for c in t["calls"]:
            c["maps"] = c["maps"][:1]
        t["est"] = t["est"][:4]
    return t


def selftest(ctx, recs, bad, cases):
    keep = ctx.cov["traces_validated_against_impl"]
    mut = []
    kinds = []

    def pick(pred, k):
        return [copy.deepcopy(t) for i, t in enumerate(recs) if i not in bad and pred(t)][:k]

    intcall = lambda t: t["kind"] == "fshift" and t["n"] >= 4 and t["calls"][0]["maps"] and all(  # noqa
        x % t["D"] == 0 for c in t["calls"] for x in c["s"])
    for t in pick(intcall, 3):                   # one index of the observed map moved
        seg = t["calls"][-1]["maps"][0][0]
        seg[1] = (seg[1] + 1) % t["n"]
        mut.append(t); kinds.append("map")
    for t in pick(lambda t: t["kind"] == "fshift" and t["calls"][0]["q"][0] == "pure", 3):   # measured delay off by one
        c = t["calls"][-1]
        c["md"][-1] = (c["md"][-1] + 1) % (t["n"] * t["D"])
        mut.append(t); kinds.append("delay")
    for t in pick(lambda t: t["kind"] == "fshift" and t["ntr"] >= 2 and not t["calls"][0]["scalar"]
                  and len(set(t["calls"][0]["s"])) > 1 and t["calls"][0]["q"][0] == "pure", 3):   # traces swapped
        c = t["calls"][0]
        s = c["s"]
        i = next(k for k in range(1, len(s)) if s[k] != s[0])
        c["md"][0], c["md"][i] = c["md"][i], c["md"][0]
        if c["md"][0] != c["md"][i]:
            mut.append(t); kinds.append("swap")
    for t in pick(lambda t: t["kind"] == "fshift", 2):
        t["calls"][0]["odtype"] = "f8" if t["dtype"] == "f4" else "f4"
        mut.append(t); kinds.append("dtype")
    for t in pick(lambda t: t["kind"] == "fshift", 2):
        t["calls"][0]["untouched"] = False
        mut.append(t); kinds.append("untouched")
    for t in pick(lambda t: t["kind"] == "fshift" and len(t["calls"]) == 2 and t["calls"][1]["q"][0] == "pure"
                  and t["calls"][1]["s"][0] % (t["n"] * t["D"]) != 0, 2):      # second call dropped from the record
        t["calls"][1]["md"] = list(t["calls"][0]["md"])
        t["calls"][1]["maps"] = []
        mut.append(t); kinds.append("additive")
    for t in pick(lambda t: t["kind"] == "estimate", 2):
        t["est"][3][1] += 7
        mut.append(t); kinds.append("estimate")
    for t in pick(lambda t: t["kind"] == "estimate", 1):
        t["est"][0][2] = "bad"
        mut.append(t); kinds.append("realign")
    if len(set(kinds)) < 8:
        if not ctx.violations:
            raise tlc.TLCError(f"selftest: could not build every kind of corrupted record ({sorted(set(kinds))})")
        ctx.cov["selftest_note"] = f"only {sorted(set(kinds))}: too few accepted records on this (violating) tree"
    v = _validate(ctx, mut, "selftest", jvms=1)
    ctx.cov["traces_validated_against_impl"] = keep
    flagged = {x["index"] for x in v if x["prop"]}
    if len(flagged) != len(mut):
        miss = [kinds[i] for i in range(len(mut)) if i not in flagged]
        raise tlc.TLCError(f"binding self-test: corrupted records not rejected: {miss}")
    # perturb one TLC expectation: the replay must notice
    c = copy.deepcopy(next(c for c in cases["roll"] if not c["scalar"] and len(c["src"]) >= 6))
    c["src"][0], c["src"][1] = c["src"][1], c["src"][0]
    if replay_roll_case(c, "f8") is None:
        raise tlc.TLCError("binding self-test: perturbed expected token map was not noticed by the replay")
    p = copy.deepcopy(next(c for c in cases["parabolic"] if len(c["v"]) == 5 and c["exp"][1] > 1))
    p["exp"][0] += 1
    if not replay_parabolic([p]):
        raise tlc.TLCError("binding self-test: perturbed parabolic expectation was not noticed")
    ctx.cov["selftest_corrupted_records_rejected"] = len(flagged) + 2


def replay(ctx, sc):
    if sc["type"] == "roll":
        why = replay_roll_case(sc["case"], sc["dtype"], seed=sc.get("seed", 0))
        if why:
            ctx.violation("shift:roll" if sc["case"]["scalar"] else "shift:pertrace-roll", f"replay: {why}", sc)
        return
    t = sc["record"]
    if t["kind"] == "fshift":
        calls = [{"scalar": c["scalar"], "s": c["s"]} for c in t["calls"]]
        recs = [fshift_experiment(t["n"], t["ntr"], t["axis"], t["dtype"], t["D"], calls, form=t.get("form", 0),
                                  basis=bool(t["calls"][0]["maps"]), seed=k, var=t.get("var", "")) for k in range(3)]
    else:
        # estimator records are regenerated from the seeded plan
        ctx.seed, ctx.tier = sc.get("seed", ctx.seed), sc.get("tier", ctx.tier)
        recs = [r for r in estimate_records(ctx) if r["label"] == t["label"] and r["fn"] == t["fn"]]
    for v in _validate(ctx, recs, "replay", jvms=1):
        if v["prop"]:
            ctx.violation(_clause_key(v["prop"]), f"replay {_describe(recs[v['index']])}: {v['prop']}", sc)
