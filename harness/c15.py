"""C15 - bad-channel repair touches only bad channels; detection finds injected faults; file-level
labels are the per-channel mode over the batches.

Specification: spec/lib/BadChannels.tla (operators, two layers), spec/mc/MC_BadInterp.tla (the repair loop as
a state machine, any order, repeated calls with one label vector object), spec/mc/MC_BadLabels.tla (label rule / mode / detection skeleton),
spec/trace/BadChannelsTrace.tla (code -> spec).

1. TLC (exhaustive boxes): implementation layer => property layer.
2. constants: the cut-off D2Cut and the weight table of the spec are re-derived with NumPy, the model
   geometries are compared with neuropixel.trace_header.
3. spec -> code: TLC exports every label vector of a small box on six geometries with the expected
   untouched set / support sets / zero case; each is replayed on the real interpolate_bad_channels.
4. code -> spec: real executions reduced to discrete observables and validated by the trace spec
     interp : label vectors tiled / embedded / clustered / random on the NP1, NP2, NP2.4, NPultra headers
     detect : synthetic AP-band recordings with a coherent background and injected faults
     file   : detect_bad_channels_cbin on .bin/.cbin files, detect_bad_channels wrapped (per-batch labels)
   The same values are handed over in the forms a caller has them (drawn per case from its own seed, interp_form /
   detect_form): label vectors of other element types, read-only or strided; x / y as float32 / int32 / int16, read-only or
   strided; the data matrix in Fortran order, as the transpose of a [ns, nc] array, as rows / columns of a larger buffer;
   x, y positional; the SAME label / x / y objects used for earlier calls on other recordings (as destripe does per batch);
   channel order that is not probe order. Detection: float32 / transposed / read-only batches, fs as float / NumPy scalar /
   measured rate / keyword, thresholds spelled out, channel counts 64..383 and odd batch lengths, the caller's batch looked
   at again after the call. Files: str paths, default arguments, recordings without sync channel, NP2.1 / NP2.4 / 3B1,
   measured sampling rate, a Reader that served an earlier call, the same file scanned twice, a second recording in the
   folder, a file exactly one batch long.
5. binding self-test: corrupted traces / perturbed expectations must be flagged.

Decided by TLC: which channels change, support sets (integer squared distances), zero case, order
independence, label rule (top block, precedence), mode / tie rule, and - on the abstract coherence
classes - what the 11-point median detrend does to every fault scenario.
Decided by a projection on the real output (NOT by TLC): hull membership at every sample (1e-12 relative
in float64, 1e-5 in float32), reproduction of constants, and that the numeric features of the synthetic
recordings cross the thresholds (observed as the label vector itself).
"""
import os

os.environ.setdefault("OMP_NUM_THREADS", "1")
os.environ.setdefault("OPENBLAS_NUM_THREADS", "1")
os.environ.setdefault("MKL_NUM_THREADS", "1")

import copy  # noqa: E402
import json  # noqa: E402
import random  # noqa: E402
import shutil  # noqa: E402
from concurrent.futures import ProcessPoolExecutor, ThreadPoolExecutor  # noqa: E402
from pathlib import Path  # noqa: E402

import numpy as np  # noqa: E402
import scipy.signal  # noqa: E402

from vkit import tlc, tracecheck, metagen  # noqa: E402

FS = 30000
NPROC = 4
TRACE = ("trace/BadChannelsTrace.tla", "trace/BadChannelsTrace.cfg")


# ------------------------------------------------------------------------------------------------
# geometry
# ------------------------------------------------------------------------------------------------
def headers():
    """the geometries of neuropixel.trace_header (+ NPultra dense layout), as the code hands them out"""
    import neuropixel
    hs = {}
    for name, (ver, nsh) in {"np1": (1, 1), "np2": (2, 1), "np24": (2, 4)}.items():
        h = neuropixel.trace_header(version=ver, nshank=nsh)
        hs[name] = (np.asarray(h["x"]), np.asarray(h["y"]))
    h = neuropixel.dense_layout(version="NPultra")
    hs["ultra"] = (np.asarray(h["x"]), np.asarray(h["y"]))
    return hs


def _ints(v):
    v = np.asarray(v, dtype=float)
    if not np.all(v == np.round(v)):
        raise tlc.TLCError("non-integer site coordinates: the integer-distance model does not apply")
    return [int(a) for a in v]


# ------------------------------------------------------------------------------------------------
# interpolate_bad_channels: one execution -> discrete observables
# ------------------------------------------------------------------------------------------------
C1, C2, AMP = 137.5, -52.25, 1000.0


LABDT = {"float": "float64", "int": "int64"}


def _handover(a, how, rng):
    """the same values in another storage: 'plain' | 'readonly' | 'strided' (every other element of a longer buffer)"""
    a = np.asarray(a)
    if how == "strided":
        buf = rng.integers(0, 4, 2 * len(a) + 1).astype(a.dtype)
        buf[1::2] = a
        a = buf[1::2]
        assert not a.flags.c_contiguous or len(a) < 2
    elif how == "readonly":
        a = a.copy()
        a.setflags(write=False)
    return a


def _layout(data0, how, rng):
    """the same matrix as the caller may hold it: C / Fortran order, the data rows of a larger buffer (a sync row
    follows), a window of columns of a longer recording, every other column of a buffer"""
    nc, ns = data0.shape
    if how == "F":
        return np.asfortranarray(data0.copy())
    if how == "rows":
        buf = rng.normal(0, 50, (nc + 1, ns)).astype(data0.dtype)
        buf[:nc] = data0
        return buf[:nc]
    if how == "cols":
        buf = rng.normal(0, 50, (nc, ns + 7)).astype(data0.dtype)
        buf[:, 3:3 + ns] = data0
        return buf[:, 3:3 + ns]
    if how == "strided":
        buf = rng.normal(0, 50, (nc, 2 * ns)).astype(data0.dtype)
        buf[:, ::2] = data0
        return buf[:, ::2]
    if how == "T":                       # the transpose of a [ns, nc] array, as Reader[...].T hands it over
        return np.ascontiguousarray(data0.T).T
    return data0.copy()


def observe_interp(x, y, lab, dtype="float64", seed=0, labtype="float", supports=None, form=None):
    """Runs the real function on data built so that the discrete facts are readable from the output:
    columns 0,1 constants across channels; columns 2..2+nc the identity (channel j alone is non-zero in
    column 2+j); then random columns, two with a large common offset.
    supports: optional {channel(1-based): [channels]} to measure the hull against (spec -> code replay);
    otherwise the oracle's own reading of the property text (weight >= 0.005, not dead/noisy).
    form: how the arguments are handed over (all optional; the values are the same):
      labdt   element type of the label vector            labform / xyform   plain | readonly | strided
      xydt    element type of x and y (None: as given)    layout  storage of the data matrix (see _layout)
      call    "kw" | "pos" (x, y positional as destripe does)
      prior   number of earlier calls with the SAME label / x / y objects on other recordings (destripe hands one
              label vector and one header to every batch of a file); the judged call is the last one"""
    from ibldsp import voltage
    form = form or {}
    rng = np.random.default_rng(seed)
    nc = len(lab)
    cols = [np.full((nc, 1), C1), np.full((nc, 1), C2), np.eye(nc) * AMP, rng.normal(0, 50, (nc, 6)),
            1e4 + rng.normal(0, 1, (nc, 2)), rng.integers(-500, 500, (nc, 2)).astype(float)]
    # two more samples at which channels that are no source of any repair hold NaN / inf (a dead channel normalised by its own
    # zero deviation; a clipped sample far away): a repaired channel is a combination of its sources only, so it stays finite
    bad0 = np.isin(np.asarray(lab), (1, 2))
    xs0, ys0 = np.array(x, dtype=float), np.array(y, dtype=float)
    srcs = np.zeros(nc, dtype=bool)
    for i in np.where(bad0)[0]:
        if supports is None:
            srcs |= (np.exp(-(np.hypot(xs0 - xs0[i], ys0 - ys0[i]) / 20.0) ** 1.3) >= 0.005) & ~bad0
        else:
            srcs[np.asarray(supports[int(i) + 1], dtype=int) - 1] = True
    poison = rng.normal(0, 50, (nc, 2))
    free = np.where(~srcs & ~bad0)[0]
    poison[bad0, 0] = np.nan
    if free.size:
        poison[free[rng.integers(0, free.size)], 0] = np.nan
        poison[free[rng.integers(0, free.size)], 1] = np.inf
    cols.append(poison)
    data0 = np.ascontiguousarray(np.hstack(cols).astype(dtype))
    frng = np.random.default_rng(seed + 1)
    labels = _handover(np.asarray(lab, dtype=form.get("labdt") or LABDT.get(labtype, labtype)), form.get("labform", "plain"), frng)
    xa, ya = np.asarray(x), np.asarray(y)
    if form.get("xydt"):
        xa, ya = xa.astype(form["xydt"]), ya.astype(form["xydt"])
    xa, ya = _handover(xa, form.get("xyform", "plain"), frng), _handover(ya, form.get("xyform", "plain"), frng)
    rec = {"kind": "interp", "exc": "", "g": [list(p) for p in zip(_ints(x), _ints(y))], "lab": [int(v) for v in lab],
           "same": [], "rows": []}

    def call(d):
        if form.get("call") == "pos":
            return voltage.interpolate_bad_channels(d, labels, xa, ya)
        return voltage.interpolate_bad_channels(d, labels, x=xa, y=ya)
    try:
        with np.errstate(all="ignore"):
            for k in range(form.get("prior", 0)):
                other = frng.normal(0, 50, (nc, 5 + k)).astype(dtype)
                call(other)
            out = call(_layout(data0, form.get("layout", "C"), frng))
        out = np.asarray(out)
        if out.shape != data0.shape or out.dtype != data0.dtype:
            raise ValueError("shape or dtype of the returned array")
        out = np.ascontiguousarray(out)
    except Exception as e:  # the property says the call returns the repaired array
        rec["exc"] = type(e).__name__
        return rec
    bits = np.uint64 if data0.dtype.itemsize == 8 else np.uint32
    ov, dv = out.view(bits), data0.view(bits)
    rec["same"] = [i + 1 for i in range(nc) if np.array_equal(ov[i], dv[i])]
    bad = np.isin(np.asarray(lab), (1, 2))
    xs, ys = xs0, ys0           # the sites as they were handed over (copies taken before the call: x / y are the caller's objects)
    # single-precision coordinates make single-precision weights: the float32 tolerance applies there as well
    single = dtype != "float64" or form.get("xydt") == "float32"
    tol = (1e-5 if single else 1e-12) * max(1.0, float(np.abs(data0[np.isfinite(data0)]).max()))
    for i in np.where(bad)[0]:
        if supports is None:
            w = np.exp(-(np.hypot(xs - xs[i], ys - ys[i]) / 20.0) ** 1.3)
            hset = np.where((w >= 0.005) & ~bad)[0]
        else:
            hset = np.asarray(supports[int(i) + 1], dtype=int) - 1
        row = out[i].astype(float)
        zero = not bool(np.any(row != 0))
        src = np.where(row[2:2 + nc] != 0)[0]
        unit = bool(abs(row[0] - C1) <= tol and abs(row[1] - C2) <= tol)
        if hset.size:
            lo, hi = data0[hset].astype(float).min(0), data0[hset].astype(float).max(0)
            hull = bool(np.all(row >= lo - tol) and np.all(row <= hi + tol))
        else:
            hull = zero
        rec["rows"].append({"i": int(i) + 1, "zero": zero, "src": (src + 1).tolist(), "unit": unit, "hull": hull,
                            "hset": (hset + 1).tolist()})
    return rec


def interp_cases(ctx, hs):
    """label vectors on the real headers and on sub-selections of them: (geometry name, channel subset or None,
    label vector, dtype, label dtype)"""
    rnd = random.Random(ctx.seed + 15)
    nprng = np.random.default_rng(ctx.seed + 15)
    cases = []
    names = list(hs)
    nfull = 10 if ctx.quick else 60

    def add(name, lab, sel=None):
        cases.append({"geom": name, "sel": sel, "lab": [int(v) for v in lab],
                      "dtype": rnd.choice(["float64", "float64", "float32"]), "labtype": rnd.choice(["float", "int"]),
                      "seed": rnd.randrange(1 << 30)})
        cases[-1]["form"] = interp_form(cases[-1]["seed"])

    for name in names:
        nc = len(hs[name][0])
        # every 8-vector class appears tiled over the probe for some of the windows; sampled
        for _ in range(nfull):
            v = [rnd.randrange(4) for _ in range(8)]
            add(name, np.tile(v, nc // 8))
        # a window embedded at the tip / at the top / in the middle, background clear, outside or mixed
        for _ in range(nfull):
            v = [rnd.choice([1, 2, 1, 2, 0, 3]) for _ in range(8)]
            bg = rnd.choice(["clear", "outside", "mixed"])
            lab = np.zeros(nc, dtype=int) if bg == "clear" else (np.full(nc, 3) if bg == "outside"
                                                               else nprng.choice([0, 3], nc))
            pos = rnd.choice([0, nc - 8, rnd.randrange(8, nc - 16)])
            lab[pos:pos + 8] = v
            add(name, lab)
        # clusters of adjacent bad channels at both ends and inside
        for ln in (1, 2, 3, 5, 8, 13, 21, 40, 97):
            for pos in (0, nc - ln, rnd.randrange(1, nc - ln - 1)):
                lab = nprng.choice([0, 0, 0, 3], nc)
                lab[pos:pos + ln] = nprng.choice([1, 2], ln)
                add(name, lab)
                if ctx.quick:
                    break
        # random densities; all bad; all bad but one; none bad
        for p in (0.05, 0.3, 0.7, 0.95):
            lab = np.where(nprng.random(nc) < p, nprng.choice([1, 2], nc), nprng.choice([0, 3], nc))
            add(name, lab)
        add(name, nprng.choice([1, 2], nc))
        lab = nprng.choice([1, 2], nc)
        lab[rnd.randrange(nc)] = rnd.choice([0, 3])
        add(name, lab)
        add(name, nprng.choice([0, 3], nc))
    # a whole shank dead on the four-shank header
    import neuropixel
    sh = np.asarray(neuropixel.trace_header(version=2, nshank=4)["shank"])
    add("np24", np.where(sh == 1, 1, 0))
    # sub-selections (saved-channel subsets): 6..40 sites of a header in probe order, random labels
    nsmall = 300 if ctx.quick else 4000
    for _ in range(nsmall):
        name = rnd.choice(names)
        nc = len(hs[name][0])
        k = rnd.randrange(6, 41)
        if rnd.random() < 0.5:   # a contiguous stretch
            s0 = rnd.randrange(0, nc - k)
            sel = list(range(s0, s0 + k))
        else:                    # a spread-out selection: isolated sites occur
            sel = sorted(rnd.sample(range(nc), k))
        p = rnd.choice([0.1, 0.3, 0.5, 0.8])
        lab = [rnd.choice([1, 2]) if rnd.random() < p else rnd.choice([0, 0, 3]) for _ in range(k)]
        add(name, lab, sel)
    # channel order that is not probe order (a Reader opened with sort=False, a hand-made selection): reversed and
    # shuffled selections of 6..60 sites, and each full header once reversed / once shuffled with a cluster of bad channels
    prnd = random.Random(ctx.seed + 1515)
    for _ in range(120 if ctx.quick else 1500):
        name = prnd.choice(names)
        nc = len(hs[name][0])
        k = prnd.randrange(6, 61)
        s0 = prnd.randrange(0, nc - k)
        sel = list(range(s0, s0 + k)) if prnd.random() < 0.6 else sorted(prnd.sample(range(nc), k))
        if prnd.random() < 0.3:
            sel = sel[::-1]
        else:
            prnd.shuffle(sel)
        p = prnd.choice([0.1, 0.3, 0.5, 0.8])
        add(name, [prnd.choice([1, 2]) if prnd.random() < p else prnd.choice([0, 0, 3]) for _ in range(k)], sel)
    for name in names:
        nc = len(hs[name][0])
        for how in ("reversed", "shuffled"):
            sel = list(range(nc))[::-1]
            if how == "shuffled":
                prnd.shuffle(sel)
            lab = np.array([prnd.choice([0, 0, 0, 3]) for _ in range(nc)])
            for _ in range(3):                                   # clusters in space, scattered in index
                c0, ln = prnd.randrange(nc - 25), prnd.randrange(1, 25)
                for j, ch in enumerate(sel):
                    if c0 <= ch < c0 + ln:
                        lab[j] = prnd.choice([1, 2])
            add(name, lab, sel)
    return cases


def interp_form(seed):
    """how one case hands its arguments over (drawn from the case's own seed: the case list itself is unchanged)"""
    r = random.Random(seed ^ 0xC15)
    return {"labdt": r.choice([None, None, None, "float32", "int8", "uint8", "int32", "int16"]),
            "labform": r.choice(["plain", "plain", "readonly", "strided"]),
            "xydt": r.choice([None, None, None, "float32", "int32", "int16", "float64"]),
            "xyform": r.choice(["plain", "plain", "readonly", "strided"]),
            "layout": r.choice(["C", "C", "F", "rows", "cols", "strided", "T"]),
            "call": r.choice(["kw", "pos"]),
            "prior": r.choice([0, 0, 1, 2])}


def run_interp_case(hs, c):
    x, y = hs[c["geom"]]
    if c["sel"] is not None:
        x, y = x[c["sel"]], y[c["sel"]]
    return observe_interp(x, y, c["lab"], dtype=c["dtype"], seed=c["seed"], labtype=c["labtype"], form=c.get("form"))


# ------------------------------------------------------------------------------------------------
# detect_bad_channels on synthetic fault scenarios
# ------------------------------------------------------------------------------------------------
def synth(sc):
    """AP-band recording [n, ns] in volts: a coherent broadband background on every channel + independent
    noise; sc["dead"] silent, sc["noisy"] with strong broadband noise, the top sc["top"] channels without
    the common signal (1-based channel numbers, 0 = none)."""
    rng = np.random.default_rng(sc["seed"])
    n, ns = sc["n"], sc["ns"]
    c = rng.standard_normal(ns + 2000)
    sos = scipy.signal.butter(3, [20 / FS * 2, 6000 / FS * 2], btype="bandpass", output="sos")
    c = scipy.signal.sosfiltfilt(sos, c)[1000:-1000]
    c = c / c.std() * sc["amp"]
    gain = 1 + 0.03 * np.sin(2 * np.pi * np.arange(n) / n)          # slow change of the coupling with depth
    raw = gain[:, None] * c[None, :] + rng.standard_normal((n, ns)) * sc["sig"]
    if sc["top"]:
        raw[n - sc["top"]:] = rng.standard_normal((sc["top"], ns)) * sc["sig"] * 2
    if sc["dead"]:
        raw[sc["dead"] - 1] = 0 if sc["silent"] == "zeros" else rng.standard_normal(ns) * 3e-7
    if sc["noisy"]:
        if sc.get("nrep", 0):                               # noise instead of the signal (floating input)
            raw[sc["noisy"] - 1] = 0
        raw[sc["noisy"] - 1] += rng.standard_normal(ns) * sc["nsig"]
    if sc.get("dc"):
        # per-channel DC offsets as a raw AP file has them (uniform within +- dc volts): they carry no information
        raw = raw + np.random.default_rng(sc["seed"] + 77).uniform(-sc["dc"], sc["dc"], (n, 1))
    return raw


def synth_multi(m):
    """several faults at once (outside the property's scenarios; used to bind the label rule only):
    silent channels, noisy channels, blocks without the common signal anywhere"""
    sc = dict(m, dead=0, noisy=0, top=0)
    raw = synth(sc)
    rng = np.random.default_rng(m["seed"] + 1)
    for a, b in m["blocks"]:
        raw[a - 1:b] = rng.standard_normal((b - a + 1, m["ns"])) * m["sig"] * 2
    for d in m["deads"]:
        raw[d - 1] = 0
    for q in m["noisies"]:
        raw[q - 1] += rng.standard_normal(m["ns"]) * m["nsig"]
    return raw


def detect_form(seed):
    """how a detection scenario hands its arguments over (drawn from the scenario's own seed: the scenario list is
    unchanged). The property speaks of the recording, not of its storage: a batch comes out of a Reader as the
    transpose of a float32 [ns, nc] array, fs as the float of the metadata (30000.0 or a measured rate)."""
    r = random.Random(seed ^ 0xDE7)
    return {"dt": r.choice(["float64", "float64", "float32"]),
            "layout": r.choice(["C", "C", "T", "rows", "readonly", "F"]),
            "fs": r.choice(["int", "float", "npfloat", "measured", "kw"]),
            "thr": r.choice([None, None, "tuple", "list", "array", "psd"])}


def call_detect(raw, form):
    """detect_bad_channels(raw, fs) with the arguments in the given form; the caller's array is looked at again
    afterwards: if the call changed it, the caller who goes on using it (a second look at the same batch) is the
    execution that is judged"""
    from ibldsp import voltage
    form = form or {}
    rng = np.random.default_rng(5)
    raw = raw.astype(form.get("dt", "float64"))
    how = form.get("layout", "C")
    if how == "readonly":
        arr = raw.copy()
        arr.setflags(write=False)
    else:
        arr = _layout(raw, how, rng)
    fs = {"int": FS, "float": float(FS), "npfloat": np.float64(FS), "measured": 30000.27, "kw": float(FS)}[form.get("fs", "int")]
    kw = {}
    if form.get("thr") == "tuple":
        kw["similarity_threshold"] = (-0.5, 1)
    elif form.get("thr") == "list":
        kw["similarity_threshold"] = [-0.5, 1.0]
    elif form.get("thr") == "array":
        kw["similarity_threshold"] = np.array([-0.5, 1.0])
    elif form.get("thr") == "psd":
        kw.update(psd_hf_threshold=0.02, display=False)

    def call():
        if form.get("fs") == "kw":
            return voltage.detect_bad_channels(arr, fs=fs, **kw)
        return voltage.detect_bad_channels(arr, fs, **kw)
    labels, xf = call()
    if how != "readonly" and not np.array_equal(arr, raw):
        labels, xf = call()
    return labels, xf


def run_rule(m):
    rec = {"kind": "rule", "exc": "", "n": m["n"], "labels": [], "fdead": [], "fnoisy": [], "fcand": []}
    try:
        with np.errstate(all="ignore"):
            labels, xf = call_detect(synth_multi(m), m.get("form"))
        rec["labels"] = _labels_int(labels)
        rec.update(flags_of(xf))
    except Exception as e:
        rec["exc"] = type(e).__name__
    return rec


def rule_cases(ctx):
    rnd = random.Random(ctx.seed + 77)
    out = []
    for _ in range(12 if ctx.quick else 120):
        n = 384
        m = scenario(rnd, n, 0, 0, 0)
        m["kind"] = "rule"
        blocks = []
        for _ in range(rnd.randrange(0, 4)):
            a = rnd.randrange(1, n - 30)
            blocks.append([a, a + rnd.randrange(5, 30)])
        if rnd.random() < 0.7:
            blocks.append([n - rnd.randrange(0, 30), n])
        if rnd.random() < 0.3:
            blocks.append([1, rnd.randrange(6, 20)])
        m["blocks"] = blocks
        m["deads"] = sorted(rnd.sample(range(1, n + 1), rnd.randrange(0, 8)))
        m["noisies"] = sorted(rnd.sample(range(1, n + 1), rnd.randrange(0, 8)))
        out.append(m)
    return out


def _labels_int(v):
    """a label vector as the library returned it -> integers TLC can read. Labels are 0..3: an entry that is no whole number of
    moderate size (NaN, inf, 2.5, 10^12 - TLC integers are 32-bit) reads -1, which is no label; something that is no vector of
    numbers at all (None, a string, a ragged list, a dictionary) reads as the vector <<-1>>, which has no probe's length"""
    try:
        vec = np.asarray(v)
        if vec.dtype.kind == "c":
            vec = np.where(vec.imag == 0, vec.real, np.nan)
        vec = np.asarray(vec, dtype=float).ravel()
    except Exception:  # noqa
        return [-1]
    return [int(a) if np.isfinite(a) and abs(a) < 1000 and a == int(a) else -1 for a in vec]


def flags_of(xf):
    """the returned features through the thresholds of the code (implementation-layer observation)"""
    return {"fdead": (np.where(xf["xcor_hf"] < -0.5)[0] + 1).tolist(),
            "fnoisy": (np.where((xf["psd_hf"] > 0.02) | (xf["xcor_hf"] > 1))[0] + 1).tolist(),
            "fcand": (np.where(xf["xcor_lf"] < -0.75)[0] + 1).tolist()}


def run_detect(sc):
    rec = {"kind": "detect", "exc": "", "n": sc["n"], "dead": sc["dead"], "noisy": sc["noisy"], "nrep": sc.get("nrep", 0),
           "top": sc["top"], "labels": [], "fdead": [], "fnoisy": [], "fcand": []}
    try:
        with np.errstate(all="ignore"):
            labels, xf = call_detect(synth(sc), sc.get("form"))
        rec["labels"] = _labels_int(labels)
        if len(rec["labels"]) != sc["n"]:
            raise ValueError("length of the label vector")
        rec.update(flags_of(xf))
    except Exception as e:
        rec["exc"] = type(e).__name__
    return rec


def scenario(rnd, n, dead, noisy, top, ns=3000):
    # noise instead of the signal only when the two faults are separate (more than a median window apart)
    # (and not within the median window below the block: a noise-only channel has coherence 0 +- 0.15 with the
    #  median trace, too close to call where it is the deciding 6th value of a window)
    nrep = 1 if (noisy and rnd.random() < 0.4 and (not dead or abs(dead - noisy) > 10)
                 and not (n - top - 6 < noisy <= n - top + 6)) else 0      # ... on either side of the block boundary
    sc = {"kind": "detect", "n": n, "dead": dead, "noisy": noisy, "nrep": nrep, "top": top, "ns": ns,
          "seed": rnd.randrange(1 << 30),
          "amp": rnd.choice([40e-6, 60e-6, 80e-6]), "sig": rnd.choice([3e-6, 4e-6, 5e-6]),
          "nsig": rnd.choice([150e-6, 300e-6]), "silent": rnd.choice(["zeros", "zeros", "hum"])}
    if top and noisy and noisy > n - top - 6:
        sc["nsig"] = 150e-6     # the strongest noise inside / next to the block sits at the decision threshold of the block edge
    sc["dc"] = rnd.choice([0, 0, 0.3e-3, 0.9e-3])
    sc["form"] = detect_form(sc["seed"])
    return sc


def scenario_dcnoise(rnd, n, top):
    """a weak coherent background under stronger independent noise, on channels with large DC offsets; one silent channel
    in the interior"""
    sc = scenario(rnd, n, rnd.randrange(13, n - top - 12), 0, top)
    sc.update({"amp": rnd.choice([3e-6, 4e-6, 10e-6]), "sig": rnd.choice([6e-6, 7e-6]), "dc": rnd.choice([0.6e-3, 0.9e-3]),
               "nrep": 0})
    if sc["top"] and sc["amp"] < 10e-6:
        # a background weaker than the channel noise leaves the first channel of an outside-brain block at the decision
        # threshold of the block edge (measured on the unchanged tree: 3 uV under 7 uV labels it clear in 10 % of the draws,
        # 4 uV under 7 uV in 1 %; seed 12 of the quick tier reported it): such recordings have no block here
        sc["top"] = 0
    return sc


def detect_scenarios(ctx):
    rnd = random.Random(ctx.seed + 1500)
    n = 384
    out = []

    def interior(top, avoid=()):
        while True:
            p = rnd.randrange(13, n - top - 12)
            if all(abs(p - a) > 12 for a in avoid if a):
                return p

    # every top-block size 0..40
    for rep in range(1 if ctx.quick else 4):
        for top in range(0, 41):
            d = interior(top) if rnd.random() < 0.7 else 0
            q = interior(top, (d,)) if rnd.random() < 0.7 else 0
            out.append(scenario(rnd, n, d, q, top))
    # fault positions at the tip, at the top, around the block boundary
    tops = (0, 1, 3, 7, 40) if ctx.quick else (0, 1, 2, 3, 5, 6, 7, 11, 12, 20, 40)
    for top in tops:
        last = n - top                      # last in-brain channel
        edge = [1, 2, 3, 6, 7, 12] + [last - k for k in (13, 12, 7, 6)] + [last, n]
        if top:
            edge += [last + 1, rnd.randrange(last + 1, n + 1)]
        for p in sorted(set(e for e in edge if 1 <= e <= n)):
            out.append(scenario(rnd, n, p, 0, top))                                   # silent channel there
            out.append(scenario(rnd, n, 0, p, top))                                   # noisy channel there
        # the known class: silent 1..5 below the last in-brain channel
        if top:
            for k in ((2, 5) if ctx.quick else (1, 2, 3, 4, 5)):
                out.append(scenario(rnd, n, last - k, 0, top))
    for _ in range(8 if ctx.quick else 60):
        out.append(scenario_dcnoise(rnd, n, rnd.choice([0, 0, 3, 10, 20, 40])))
    # both faults, anywhere (thorough: every position of the probe once as silent and once as noisy)
    if ctx.quick:
        for _ in range(24):
            top = rnd.choice([0, 0, rnd.randrange(1, 41)])
            d = rnd.randrange(1, n - top - 6)
            q = rnd.choice([p for p in range(1, n + 1) if p != d])
            out.append(scenario(rnd, n, d, q, top))
    else:
        for p in range(1, n + 1):
            top = rnd.choice([0, rnd.randrange(1, 41)])
            q = rnd.choice([v for v in range(1, n + 1) if v != p])
            out.append(scenario(rnd, n, p, q, top))
            top = rnd.choice([0, rnd.randrange(1, 41)])
            d = rnd.choice([v for v in range(1, n + 1) if v != p])
            out.append(scenario(rnd, n, d, p, top))
        # other probe lengths (saved subsets), longer batches
        for _ in range(40):
            m = rnd.choice([96, 192, 276])
            top = rnd.randrange(0, 20)
            out.append(scenario(rnd, m, rnd.randrange(1, m - top - 6), rnd.randrange(m - top - 5, m + 1), top,
                                ns=rnd.choice([3000, 9000])))
    out += detect_other_sizes(ctx)
    return out


def detect_other_sizes(ctx):
    """channel counts other than 384 (saved subsets, odd counts) and batch lengths that are odd / no round number, in
    both tiers (own random stream: the scenarios above stay what they were)"""
    rnd = random.Random(ctx.seed + 1501)
    out = []
    for _ in range(12 if ctx.quick else 80):
        m = rnd.choice([64, 96, 127, 192, 277, 383])
        top = rnd.randrange(0, min(20, m // 6))
        ns = rnd.choice([2999, 3001, 3333, 4097])
        if rnd.random() < 0.5:          # both faults in the interior, more than a median window apart
            d = rnd.randrange(13, m - top - 12)
            q = rnd.choice([p for p in range(13, m - top - 12) if abs(p - d) > 12])
        else:                           # silent anywhere below the block, noisy next to / inside the block or at the top
            d = rnd.randrange(1, m - top - 6)
            q = rnd.randrange(m - top - 5, m + 1)
        out.append(scenario(rnd, m, d, q, top, ns=ns))
    return out


# ------------------------------------------------------------------------------------------------
# detect_bad_channels_cbin: files, detect_bad_channels wrapped to record what it returned per batch
# ------------------------------------------------------------------------------------------------
def run_file(job):
    """job: {folder, segs: [scenario]*nb | None, stub: nb x nc label matrix | None, nc, ns_seg, compress, reader}
    optional: probe (metagen kind, default 3B2), nshank, nsync (0: a recording saved without its sync channel), fs (rate written to
    the metadata), path ("str": the file name as a string), defaults (n_batches / batch_duration left to the function: 10 x 0.3 s),
    again (an earlier call with that many batches on the same Reader object / file before the judged one), decoy (another
    recording with other dimensions in the same folder)
    returns (file record, [detect records per batch])"""
    import spikeglx
    from ibldsp import voltage
    folder = Path(job["folder"])
    nb, nc, ns_seg = job["nb"], job["nc"], job["ns_seg"]
    ns = job.get("ns") or nb * ns_seg + job.get("extra", 0)
    rng = np.random.default_rng(job["seed"])
    probe, nsync, fs = job.get("probe", "3B2"), job.get("nsync", 1), job.get("fs", FS)
    meta, info = metagen.make_meta(probe, metagen.dense_sites(probe, n=nc, nshank=job.get("nshank", 1)), ns=ns, nsync=nsync, fs=fs)
    s2v = 0.5 / 8192 / 80 if probe.startswith("NP2") else 0.6 / 512 / 500
    if job["segs"] is not None:
        volts = np.concatenate([synth(sc) for sc in job["segs"]], axis=1)
        if job.get("extra", 0):
            volts = np.concatenate([volts, volts[:, :job["extra"]]], axis=1)
        want = np.clip(np.round(volts.T / s2v), -32768, 32767).astype(np.int16)
    else:
        want = rng.integers(-40, 40, size=(ns, nc)).astype(np.int16)
    rec = {"kind": "file", "exc": "", "nc": nc, "nb": nb, "batches": [], "result": [], "ns": ns, "d": ns_seg,
           "starts": [], "lens": []}
    drecs = []
    try:
        # the Reader returns the channels sorted by geometry: put intended channel i where column i is read from
        disk = np.zeros((ns, nc + nsync), dtype=np.int16)
        if nsync:
            disk[:, nc:] = rng.integers(0, 64, size=(ns, nsync))          # sync words: no part of the answer
        if job.get("decoy"):
            dmeta, _ = metagen.make_meta("3B2", metagen.dense_sites("3B2", n=nc + 3), ns=211)
            metagen.write_recording(folder, job["stem"] + "_g1", dmeta, rng.integers(-9, 9, size=(211, nc + 4)).astype(np.int16))
        b = metagen.write_recording(folder, job["stem"], meta, disk)
        with spikeglx.Reader(b) as sr0:
            ind = np.asarray(sr0.geometry["ind"]).astype(int)
        disk[:, ind] = want
        b = metagen.write_recording(folder, job["stem"], meta, disk)
        with spikeglx.Reader(b) as sr0:
            if not np.array_equal(np.round(sr0[:, :nc] / s2v).astype(np.int16), want):
                raise tlc.TLCError("harness: channel placement in the synthetic file is not what the Reader returns")
            if job["compress"]:
                b = sr0.compress_file(keep_original=False)
    except tlc.TLCError:
        raise
    except Exception as e:
        raise tlc.TLCError(f"harness: could not write the synthetic recording: {type(e).__name__}: {e}")

    real_detect = voltage.detect_bad_channels
    real_getitem = spikeglx.Reader.__getitem__
    slices = []
    calls = []

    def wrapped(raw, fs, *a, **kw):
        k = len(calls)
        if job["stub"] is not None:
            labels, xf = np.asarray(job["stub"][k % nb], dtype=float), {"ind": np.arange(nc)}
        else:
            labels, xf = real_detect(raw, fs, *a, **kw)
        calls.append((_labels_int(labels), np.asarray(raw).shape, flags_of(xf) if "xcor_hf" in xf else None, float(fs)))
        return labels, xf

    def getitem(self, item):
        if isinstance(item, tuple) and isinstance(item[0], slice):
            slices.append((item[0].start, item[0].stop))
        return real_getitem(self, item)

    voltage.detect_bad_channels = wrapped
    spikeglx.Reader.__getitem__ = getitem
    target = str(b) if job.get("path") == "str" else b
    kw = {} if job.get("defaults") else {"n_batches": nb, "batch_duration": ns_seg / FS}
    try:
        with np.errstate(all="ignore"):
            if job["reader"]:
                with spikeglx.Reader(target, sort=True) as sr:
                    if job.get("again"):
                        sr[5:9, :2]                                                   # the caller has used the Reader before
                        voltage.detect_bad_channels_cbin(sr, n_batches=job["again"], batch_duration=ns_seg / FS)
                        del calls[:], slices[:]
                        if _reader_closed(sr):      # reading on would end the interpreter: the caller's next call cannot return
                            raise ReaderClosed("the call closed the Reader it was given")
                    res = voltage.detect_bad_channels_cbin(sr, **kw)
            else:
                if job.get("again"):
                    voltage.detect_bad_channels_cbin(target, n_batches=job["again"], batch_duration=ns_seg / FS)
                    del calls[:], slices[:]
                res = voltage.detect_bad_channels_cbin(target, **kw)
        rec["result"] = _labels_int(res)
        rec["batches"] = [c[0] for c in calls]
        rec["nb"] = nb
        rec["starts"] = [int(s[0]) for s in slices[:len(calls)]]
        rec["lens"] = [int(c[1][1]) for c in calls]
        if len(calls) != nb or len(slices) < nb or any(c[1][0] != nc for c in calls):
            raise BatchesHanded("number of batches / channels handed to detect_bad_channels")
        # one label per data channel, from every batch and for the file (None, a scalar, a vector one channel short, the labels of
        # one batch broadcast from a single value: the trace specification indexes both by channel)
        if len(rec["result"]) != nc or any(len(c[0]) != nc for c in calls):
            raise LabelsShape(f"{len(rec['result'])} file-level labels, {sorted({len(c[0]) for c in calls})} per batch for {nc} channels")
        if job["segs"] is not None:
            for k, sc in enumerate(job["segs"]):
                d = {"kind": "detect", "exc": "", "n": nc, "dead": sc["dead"], "noisy": sc["noisy"], "nrep": sc["nrep"],
                     "top": sc["top"], "labels": calls[k][0]}
                d.update(calls[k][2])
                drecs.append(d)
    except Exception as e:
        rec["exc"] = type(e).__name__
    finally:
        voltage.detect_bad_channels = real_detect
        spikeglx.Reader.__getitem__ = real_getitem
    shutil.rmtree(folder, ignore_errors=True)       # whatever the call left there (files, folders)
    return rec, drecs


class LabelsShape(Exception):
    """the answer (or what the wrapped detector returned for a batch) is not one label per data channel"""


class BatchesHanded(Exception):
    """the detector was not handed nb batches of the nc data channels"""


class ReaderClosed(Exception):
    """the call closed the Reader object of its caller"""


def _reader_closed(sr):
    """a Reader on a .bin whose memory map was closed (is_open keeps saying True). Private attributes, with a fallback: when
    they are not there the question is not asked"""
    mm = getattr(getattr(sr, "_raw", None), "_mmap", None)
    return bool(getattr(mm, "closed", False))


def file_jobs(ctx):
    rnd = random.Random(ctx.seed + 150)
    jobs = []
    n = 384

    def job(**kw):
        j = {"folder": str(ctx.scratch / "files" / f"rec{len(jobs)}"), "stem": f"rec{len(jobs)}", "segs": None, "stub": None, "nc": n,
             "ns_seg": 3000, "compress": False, "reader": False, "seed": rnd.randrange(1 << 30), "extra": 0}
        j.update(kw)
        j["kind"] = "file"
        jobs.append(j)

    # (a) real detection on crafted segments: faults present in some batches only, so that the per-channel mode
    #     has majorities, ties (2:2) and minorities
    nreal = 3 if ctx.quick else 14
    for r in range(nreal):
        nb = rnd.choice([3, 4, 5]) if r else 4
        dch, qch = rnd.randrange(20, 150), rnd.randrange(170, 320)
        dch2 = rnd.randrange(20, 150)
        top = rnd.randrange(3, 30)
        segs = []
        for k in range(nb):
            sc = scenario(rnd, n, dch if k < (nb + 1) // 2 else (dch2 if k == nb - 1 else 0),
                          qch if k % 2 == 0 else 0, top if k >= nb // 2 else 0)
            sc["amp"], sc["sig"] = 80e-6, 5e-6          # int16 files: 2.34 uV per bit
            segs.append(sc)
        # ... on a four-shank file (compressed), on a recording saved without its sync channel (through a Reader)
        job(segs=segs, nb=nb, compress=(r % 3 == 1), reader=(r % 3 == 2),
            **({"probe": "NP2.4", "nshank": 4} if r % 3 == 1 else {"nsync": 0, "again": 2 if r % 2 else 0} if r % 3 == 2 else {}))
    # (b) every column of labels over nb batches at once: channel c gets the base-4 digits of c (stubbed detector)
    for nb in (1, 2, 3, 4):
        nc = 4 ** nb
        stub = [[(c // 4 ** k) % 4 for c in range(nc)] for k in range(nb)]
        job(stub=stub, nb=nb, nc=nc, ns_seg=300)
    for nb in ((5, 10) if ctx.quick else (5, 6, 7, 10, 10, 11, 20)):
        stub = [[rnd.choice([0, 0, 1, 2, 3]) for _ in range(n)] for _ in range(nb)]
        job(stub=stub, nb=nb, nc=n, ns_seg=300, compress=(nb == 10), extra=rnd.choice([0, 123]))
    # (c) what the call finds and how it is called (stubbed detector): arguments left to their defaults (10 batches of 0.3 s,
    #     overlapping on a short file), the file name as a string, recordings without sync channel, other probe kinds, a measured
    #     sampling rate, a Reader that served an earlier call, the same file scanned twice, a second recording in the folder,
    #     a file exactly one batch long
    def stubs(nb, nc):
        return [[rnd.choice([0, 0, 1, 2, 3]) for _ in range(nc)] for _ in range(nb)]
    job(stub=stubs(10, 24), nb=10, nc=24, ns_seg=9000, ns=rnd.choice([21000, 30011]), defaults=True, path="str")
    job(stub=stubs(10, 17), nb=10, nc=17, ns_seg=9000, ns=rnd.choice([9000, 12345]), defaults=True, reader=True, nsync=0, probe="NP2.1")
    job(stub=stubs(3, n), nb=3, nc=n, ns_seg=300, nsync=0, decoy=True)
    job(stub=stubs(4, n), nb=4, nc=n, ns_seg=300, probe="NP2.4", nshank=4, reader=True, again=2, compress=True, extra=41)
    job(stub=stubs(5, 96), nb=5, nc=96, ns_seg=300, probe="NP2.1", nsync=0, path="str", again=4, decoy=True, compress=True)
    job(stub=stubs(5, 40), nb=5, nc=40, ns_seg=300, fs=30000.27, extra=77, reader=True, again=3)
    job(stub=stubs(3, 32), nb=3, nc=32, ns_seg=300, ns=300, path="str")
    if not ctx.quick:
        for _ in range(12):
            nb = rnd.randrange(1, 9)
            nc = rnd.choice([8, 33, 96, 384])
            job(stub=stubs(nb, nc), nb=nb, nc=nc, ns_seg=rnd.choice([300, 450]), extra=rnd.choice([0, 1, 299]),
                probe=rnd.choice(["3B2", "3B1", "NP2.1", "NP2.4"]), nsync=rnd.choice([0, 1]), reader=rnd.random() < 0.5,
                compress=rnd.random() < 0.4, again=rnd.choice([0, 0, 1, 3]), path=rnd.choice(["path", "str"]),
                decoy=rnd.random() < 0.3, fs=rnd.choice([FS, FS, 30000.27, 29999.91]))
    return jobs


# ------------------------------------------------------------------------------------------------
# the check
# ------------------------------------------------------------------------------------------------
def nstates(t):
    return 3


def _key(prop):
    return prop if ":" in prop else "c15:" + prop


def check_constants(ctx, exp, hs):
    dcut = 20.0 * (-np.log(0.005)) ** (1 / 1.3)
    if exp["d2cut"] != int(np.floor(dcut ** 2)):
        raise tlc.TLCError(f"spec constant D2Cut={exp['d2cut']} but the weight formula gives {dcut ** 2:.3f}")
    for d2, w in exp["microw"]:
        ref = 1e6 * np.exp(-(np.sqrt(d2) / 20.0) ** 1.3)
        if abs(ref - w) > 0.5 + 1e-6:
            raise tlc.TLCError(f"spec weight table: MicroW[{d2}]={w}, NumPy gives {ref:.3f}")
    for name, sel in (("np1", None), ("np2", None), ("ultra", None), ("np24", [0, 1, 48, 49, 2, 3, 50, 51])):
        g = exp["geoms"][name]
        x, y = hs[name]
        sel = list(range(len(g))) if sel is None else sel[:len(g)]
        if [list(p) for p in zip(_ints(x[sel]), _ints(y[sel]))] != [list(p) for p in g]:
            raise tlc.TLCError(f"model geometry {name} is not made of the sites of the real header")
    ctx.cov["constants_checked"] = {"D2Cut": exp["d2cut"], "weights": len(exp["microw"]), "geometries": 4}


def replay_cases(ctx, exp):
    """spec -> code: each TLC-exported (geometry, label vector) with its expected support sets on the real code"""
    rnd = random.Random(ctx.seed)
    nviol = 0
    for c in exp["cases"]:
        g = exp["geoms"][c["g"]]
        x, y = np.array([p[0] for p in g]), np.array([p[1] for p in g], dtype=float)
        supp = {i + 1: s for i, s in enumerate(c["supp"])}
        seed = rnd.randrange(1 << 30)
        dtype = "float64" if rnd.random() < 0.8 else "float32"
        form = interp_form(seed)
        rec = observe_interp(x, y, c["lab"], dtype=dtype, seed=seed, supports=supp, form=form)
        nb = len(c["bad"])
        ctx.count(1, key=("replay", c["g"], tuple(c["lab"])) if nb else None)
        bad = compare_case(c, rec)
        if bad and nviol < 20:
            nviol += 1
            ctx.violation("interp:" + bad[0], f"interpolate_bad_channels on geometry {c['g']} labels {c['lab']}{_form_text(form, INTERP_PLAIN)}: {bad[1]}",
                          {"kind": "replay-case", "geoms": {c["g"]: g}, "case": c, "dtype": dtype, "seed": seed, "form": form})
    ctx.cov["replayed_tlc_cases"] = len(exp["cases"])


def compare_case(c, rec):
    """property-layer expectation exported by TLC vs the observation; returns (clause, text) or None"""
    if rec["exc"]:
        return ("raised", f"raised {rec['exc']}")
    n = len(c["lab"])
    good = [i for i in range(1, n + 1) if i not in c["bad"]]
    miss = [i for i in good if i not in rec["same"]]
    if miss:
        return ("untouched", f"channels {miss} (labels {[c['lab'][i - 1] for i in miss]}) are not returned bit-identical")
    rows = {r["i"]: r for r in rec["rows"]}
    if sorted(rows) != sorted(c["bad"]):
        return ("rows", "observation does not cover the dead/noisy channels")
    for i in c["bad"]:
        s, r = c["supp"][i - 1], rows[i]
        if not s:
            if not r["zero"]:
                return ("zero-case", f"channel {i} has no usable neighbour but is not zero")
            continue
        if r["zero"]:
            return ("zeroed", f"channel {i} has neighbours {s} but was zeroed")
        if not set(r["src"]) <= set(s) or not r["src"]:
            return ("foreign-source", f"channel {i} is built from {r['src']}, allowed {s}")
        if not r["unit"]:
            return ("unit-sum", f"channel {i}: a constant across channels is not reproduced (weights do not sum to one)")
        if not r["hull"]:
            return ("hull", f"channel {i} leaves the range of channels {s} at some sample")
    return None


def run_models(ctx):
    """TLC: implementation layer => property layer on the exhaustive boxes; returns the exported cases"""
    out = ctx.scratch / "cases.json"
    jobs = [("mc/MC_BadInterp.tla", "mc/BadInterp_quick.cfg" if ctx.quick else "mc/BadInterp_thorough.cfg", {"OUT_FILE": out}),
            ("mc/MC_BadLabels.tla", "mc/BadLabels_quick.cfg" if ctx.quick else "mc/BadLabels_thorough.cfg", {})]
    if not ctx.quick:
        jobs.append(("mc/MC_BadInterp.tla", "mc/BadInterp_thorough8.cfg", {}))

    def one(j):
        return j, tlc.run(j[0], j[1], workers=3 if ctx.quick else 4, timeout=3000, env=j[2], heap="6g")
    with ThreadPoolExecutor(max_workers=2) as ex:
        res = list(ex.map(one, jobs))
    for j, r in res:
        ctx.tlc(r, j[1])
        if not r.ok:
            st = r.error_trace[-1] if r.error_trace else {}
            raise ModelCex(j[1], r.invariant_violated, {k: v for k, v in st.items() if not k.startswith("_")}, r.out[-1500:])
    # model-level sanity (thorough): the implementation layer of the tree before the fix: commits must break
    # the property layer - the invariants are not vacuous
    if not ctx.quick:
        for mod, cfg, inv in (("mc/MC_BadInterp.tla", "mc/BadInterp_orig.cfg", "Repaired"),
                              ("mc/MC_BadLabels.tla", "mc/BadLabels_orig.cfg", "DetectOK")):
            r = tlc.run(mod, cfg, workers=2, timeout=600)
            if r.ok or r.invariant_violated != inv:
                raise tlc.TLCError(f"{cfg}: the model of the unrepaired code should violate {inv}, TLC says "
                                   f"{r.invariant_violated}")
        # ... and the what-if "the loop marks repaired channels in the caller's label vector": invisible in the first call,
        # the property layer breaks in the second call with the same vector
        r = tlc.run("mc/MC_BadInterp.tla", "mc/BadInterp_marks.cfg", workers=2, timeout=600)
        last = r.error_trace[-1] if r.error_trace else {}
        if r.ok or r.invariant_violated != "Repaired" or str(last.get("ncall")) != "2":
            raise tlc.TLCError(f"BadInterp_marks.cfg: the what-if model should violate Repaired in the second call, TLC says "
                               f"{r.invariant_violated} at call {last.get('ncall')}")
        ctx.cov["orig_models_violate"] = ["Repaired", "DetectOK", "Repaired (second call, what-if marks)"]
    return json.loads(out.read_text())


class ModelCex(Exception):
    def __init__(self, cfg, inv, state, tail):
        super().__init__(f"{cfg}: {inv}")
        self.cfg, self.inv, self.state, self.tail = cfg, inv, state, tail


def validate(ctx, recs, label):
    return tracecheck.validate(ctx, TRACE[0], TRACE[1], recs, label=label, jvms=4, workers=1, nstates=nstates, timeout=1500)


INTERP_PLAIN = {"labdt": None, "labform": "plain", "xydt": None, "xyform": "plain", "layout": "C", "call": "kw", "prior": 0}
DETECT_PLAIN = {"dt": "float64", "layout": "C", "fs": "int", "thr": None}


def _form_text(form, plain):
    """the hand-over form of a case, only what differs from the plain one"""
    d = {k: v for k, v in (form or {}).items() if plain.get(k) != v}
    return (", handed over as " + str(d)) if d else ""


def describe(meta, rec):
    if meta["kind"] == "filebatch":
        return f"batch {meta['batch']} of {describe(meta['job'], {})}: " + describe(meta["job"]["segs"][meta["batch"]], rec)
    if meta["kind"] == "interp":
        nb = sum(1 for v in meta["lab"] if v in (1, 2))
        return f"interpolate_bad_channels on {meta['geom']}{'' if meta['sel'] is None else ' subset ' + str(meta['sel'][:6]) + '..'} " \
               f"({len(meta['lab'])} channels, {nb} dead/noisy, {meta['dtype']}{_form_text(meta.get('form'), INTERP_PLAIN)})"
    if meta["kind"] == "rule":
        return (f"detect_bad_channels n={meta['n']} silent={meta['deads']} noisy={meta['noisies']} incoherent blocks={meta['blocks']} "
                f"seed={meta['seed']}")
    if meta["kind"] == "detect":
        lab = rec.get("labels", [])
        seen = {i + 1: v for i, v in enumerate(lab) if v}
        few = dict(list(seen.items())[:8])
        return (f"detect_bad_channels n={meta['n']} silent={meta['dead']} noisy={meta['noisy']}{'(noise only)' if meta.get('nrep') else ''} "
                f"top-block={meta['top']} ns={meta.get('ns', 3000)}"
                f"{_form_text(meta.get('form'), DETECT_PLAIN)} "
                f"seed={meta['seed']}: non-zero labels {few}{'..' if len(seen) > 8 else ''}")
    how = {k: meta[k] for k in ("probe", "nshank", "nsync", "fs", "path", "defaults", "again", "decoy", "ns") if k in meta}
    return f"detect_bad_channels_cbin nb={meta['nb']} nc={meta['nc']} {'cbin' if meta['compress'] else 'bin'}" \
           f"{' through a Reader' if meta.get('reader') else ''}{' ' + str(how) if how else ''}" \
           f"{' stubbed detector' if meta['stub'] is not None else ''}"


CONFIRM_MAX = 30


def systematic(ctx, m, prop):
    """The detection clauses rest on numeric features crossing thresholds. A scenario that fails is re-run with two other
    background seeds (same faults, same amplitudes): a slip in the code fails all of them, a draw that merely sits at a
    threshold does not. Only a majority (>= 2 of 3) is reported; the rest is counted as numerically marginal."""
    if m.get("kind") != "detect" or _key(prop) == "detect:dead-below-top-block":
        return True
    again = [dict(m, seed=(m["seed"] + 7919 * k) % (1 << 30)) for k in (1, 2)]
    recs = [run_detect(sc) for sc in again]
    keep = ctx.cov["traces_validated_against_impl"]
    vs = validate(ctx, recs, "confirm")
    ctx.cov["traces_validated_against_impl"] = keep
    fails = 1 + sum(1 for v in vs if v["prop"] and _key(v["prop"]) == _key(prop))
    if fails >= 2:
        return True
    ctx.cov.setdefault("numerically_marginal_detect_scenarios", []).append(
        {k: m[k] for k in ("dead", "noisy", "top", "seed", "amp", "sig", "nsig") if k in m})
    return False


def report(ctx, verdicts, metas, recs):
    # the confirmation runs of `systematic` are bounded (each is two executions and a JVM): a clause already confirmed on three
    # scenarios, or failing on more scenarios than CONFIRM_MAX could be re-measured, is systematic - a code under test on which
    # every scenario fails (the detector raises, returns None) must end in its verdict, not in the time limit of the check
    confirmed, reruns = {}, 0
    for v in verdicts:
        m, r = metas[v["index"]], recs[v["index"]]
        if v["prop"]:
            key = _key(v["prop"])
            if confirmed.get(key, 0) < 3 and reruns < CONFIRM_MAX:
                reruns += 1 if (m.get("kind") == "detect" and key != "detect:dead-below-top-block") else 0
                if not systematic(ctx, m, v["prop"]):
                    continue
            confirmed[key] = confirmed.get(key, 0) + 1
            ctx.violation(key, f"{describe(m, r)}: property-layer clause {v['prop']} false", m)
        elif v["impl"] == "interp:oracle-support":
            raise tlc.TLCError(f"the oracle's support sets differ from the spec's on {describe(m, r)}")
        elif v["impl"]:
            ctx.spec_drift(f"{describe(m, r)}: {v['impl']} is not what spec/lib/BadChannels.tla (implementation layer) "
                           f"does; all property-layer formulas hold")


def run(ctx):
    ctx.level = "model_checking"
    hs = headers()
    # the site tables as the library handed them out, kept aside: the arrays in `hs` are the caller's objects of every interp case
    # below (a call that writes into its x / y arguments is judged there, by the cases that use them again), the comparison of the
    # model geometries with the real header is about the header
    hs_asis = {k: (v[0].copy(), v[1].copy()) for k, v in hs.items()}
    with ThreadPoolExecutor(max_workers=1) as bg:
        fut = bg.submit(run_models, ctx)               # TLC in the background while the real code runs
        # ---- code -> spec: executions of the real code -------------------------------------------------
        icases = interp_cases(ctx, hs)
        irecs = [run_interp_case(hs, c) for c in icases]
        for c in icases:
            nb = sum(1 for v in c["lab"] if v in (1, 2))
            ctx.count(1, key=("interp", c["geom"], c["seed"]) if nb else None)
        scs = detect_scenarios(ctx)
        fjobs = file_jobs(ctx)
        rcases = rule_cases(ctx)
        with ProcessPoolExecutor(max_workers=NPROC) as pool:
            drecs = list(pool.map(run_detect, scs, chunksize=4))
            fres = list(pool.map(run_file, fjobs))
            rrecs = list(pool.map(run_rule, rcases, chunksize=2))
        for sc in scs:
            ctx.count(1, key=("detect", sc["dead"], sc["noisy"], sc["top"], sc["seed"]))
        try:
            exp = fut.result()
        except ModelCex as e:
            model_cex(ctx, e, hs)
            return
    check_constants(ctx, exp, hs_asis)
    # ---- spec -> code ----------------------------------------------------------------------------------
    replay_cases(ctx, exp)
    # ---- validation of the recorded executions by the trace spec ------------------------------------------
    metas = [dict(c, kind="interp") for c in icases] + scs + rcases
    recs = irecs + drecs + rrecs
    ctx.count(len(rcases))
    for j, (frec, dr) in zip(fjobs, fres):
        ctx.count(1, key=("file", j["stem"]))
        metas.append(j)
        recs.append(frec)
        for k, d in enumerate(dr):                      # each batch of a real file is a detection scenario too
            metas.append({"kind": "filebatch", "job": j, "batch": k})
            recs.append(d)
    order = list(range(len(recs)))
    random.Random(ctx.seed).shuffle(order)              # balance the batches (full-size interp traces are the heavy ones)
    verdicts = validate(ctx, [recs[i] for i in order], "c15")
    for v in verdicts:
        v["index"] = order[v["index"]]
    report(ctx, verdicts, metas, recs)
    bad = {v["index"] for v in verdicts if v["prop"]}
    for i in (0, len(icases) - 1, len(icases), len(icases) + 50, len(recs) - 1):
        if i < len(recs):
            r = recs[i]
            ctx.sample({"what": describe(metas[i], r), "observed": {k: (v if not isinstance(v, list) or len(v) < 12 else
                                                                      str(v[:12]) + "..") for k, v in r.items() if k != "g"}})
    keys = {}
    for v in ctx.violations:
        if v:
            keys[v["key"]] = keys.get(v["key"], 0) + 1
    ctx.cov["violation_keys"] = keys
    # ---- binding self-test ---------------------------------------------------------------------------
    selftest(ctx, recs, bad, exp)
    ctx.cov["rule"] = ("model: every label vector over {0,1,2,3} on 6-8 sites of six geometries x every repair order; "
                       "every flag triple / label matrix / fault scenario of the boxes. code: one real execution per case; "
                       "non-trivial = at least one dead/noisy channel (interp), every scenario (detect), every file")
    ctx.cov["exhaustive"] = True
    ctx.cov["numeric_postconditions"] = ["hull membership at every sample (tolerance 1e-12 x scale in float64, 1e-5 in float32)",
                                         "constants across channels reproduced (weights sum to one)",
                                         "feature thresholds crossed on synthetic AP-band recordings (observed as labels)"]
    ctx.cov["traces"] = {"interp": len(irecs), "detect": len(drecs) + sum(len(d) for _, d in fres), "file": len(fjobs),
                         "rule": len(rrecs)}
    ctx.assumptions += ["site coordinates are integers (true for all Neuropixels site tables): Near <=> d^2 <= 5201",
                        "a silent channel inside / directly below the top block or at the top channel may be labelled dead "
                        "or outside (both clauses of the property apply to it)",
                        "abstract coherence classes {0,1} stand for the regression coefficient on the median trace; that the "
                        "real features fall into them is observed, not derived"]


def model_cex(ctx, e, hs):
    """the model (which mirrors the code) violates the property layer: a finding about the code only once the
    counterexample is reproduced on the real code"""
    st = e.state
    if "gname" in st:
        name = tlc.parse_value(st["gname"])
        lab = tlc.parse_value(st["lab0"] if "lab0" in st else st["lab"])      # the labels the caller wrote
        prior = max(int(tlc.parse_value(st["ncall"])) - 1, 0) if "ncall" in st else 0
        g = {"np1": "np1", "np2": "np2", "np24": "np24", "ultra": "ultra"}.get(name)
        if g is None:
            x = np.array([27, 27, 27, 59, 27, 27, 59, 59][:len(lab)]) if name == "np2x" else None
            y = np.array([65, 50, 80, 65, 35, 95, 125, 170][:len(lab)], dtype=float) if name == "np2x" else None
            if x is None:
                raise tlc.TLCError(f"model violates {e.inv} on {name} {lab}\n{e.tail}")
        else:
            x, y = hs[g][0][:len(lab)], hs[g][1][:len(lab)]
        rec = observe_interp(x, y, lab, form={"prior": prior})
        v = validate(ctx, [rec], "cex")
        if v and v[0]["prop"]:
            ctx.violation(_key(v[0]["prop"]), f"model counterexample ({e.inv}) reproduced on interpolate_bad_channels, geometry "
                          f"{name}, labels {lab}: {v[0]['prop']}", {"kind": "interp-raw", "x": _ints(x), "y": _ints(y), "lab": lab, "form": {"prior": prior}})
            return
    elif "inp" in st and "sc |->" in st["inp"]:
        inp = tlc.parse_value(st["inp"])
        sc0 = inp["sc"]
        sc = scenario(random.Random(ctx.seed), sc0["n"], sc0["dead"], sc0["noisy"], sc0["top"])
        rec = run_detect(sc)
        v = validate(ctx, [rec], "cex")
        if v and v[0]["prop"]:
            ctx.violation(_key(v[0]["prop"]), f"model counterexample ({e.inv}) reproduced: {describe(sc, rec)}", sc)
            return
    raise tlc.TLCError(f"model {e.cfg} violates {e.inv} but this is not reproduced on the real code: the model is wrong\n{e.tail}")


def selftest(ctx, recs, bad, exp):
    """corrupt one recorded field / drop one observation of accepted traces, perturb one exported expectation:
    every corruption has to be flagged"""
    def pick(kind, cond, n):
        return [copy.deepcopy(r) for i, r in enumerate(recs) if i not in bad and r["kind"] == kind and not r["exc"] and cond(r)][:n]

    mut, want = [], []
    its = pick("interp", lambda r: len(r["rows"]) >= 2 and any(x["src"] for x in r["rows"]) and len(r["same"]) >= 2
               and len(r["lab"]) <= 60, 12)
    for j, t in enumerate(its):
        rows = [x for x in t["rows"] if x["src"]]
        kind = j % 6
        if kind == 0:
            t["same"].remove(next(i for i in t["same"] if t["lab"][i - 1] not in (1, 2)))   # a good channel was altered
            want.append("interp:untouched")
        elif kind == 1:
            rows[0]["src"] = sorted(set(rows[0]["src"]) | {rows[0]["i"]})    # the channel's own content leaks in
            want.append("interp:foreign-source")
        elif kind == 2:
            rows[0]["unit"] = False
            want.append("interp:unit-sum")
        elif kind == 3:
            rows[0]["hull"] = False
            want.append("interp:hull")
        elif kind == 4:
            rows[0]["zero"], rows[0]["src"] = True, []
            want.append("interp:zeroed")
        else:
            t["rows"] = t["rows"][1:]                                  # an observation dropped
            want.append("interp:rows")
        mut.append(t)
    zs = pick("interp", lambda r: any(x["zero"] for x in r["rows"]), 2)
    for t in zs:
        z = [x for x in t["rows"] if x["zero"]][0]
        z["zero"] = False
        mut.append(t)
        want.append("interp:zero-case")
    ds = pick("detect", lambda r: r["dead"] and r["top"] and r["dead"] < r["n"] - r["top"] - 12 and r["dead"] > 12
              and r["noisy"] != r["n"] - r["top"] + 1, 6)
    for j, t in enumerate(ds):
        kind = j % 3
        if kind == 0:
            t["labels"][t["dead"] - 1] = 0
            want.append("detect:silent-channel")
        elif kind == 1:
            t["labels"][t["n"] - t["top"]] = 0                          # first channel of the block
            want.append("detect:top-block")
        else:
            c = t["dead"] + 3 if t["dead"] + 3 != t["noisy"] else t["dead"] + 4
            t["labels"][c - 1] = 3
            want.append("detect:clear-channel")
        mut.append(t)
    fs = pick("file", lambda r: r["nb"] >= 3, 4)
    for t in fs:
        c = next(i for i in range(t["nc"]) if len({b[i] for b in t["batches"]}) < 4)
        t["result"][c] = next(v for v in range(4) if v not in {b[c] for b in t["batches"]})
        mut.append(t)
        want.append("file:mode")
    short = [k for k, ok in (("interp", len(its) >= 6 and zs), ("detect", len(ds) >= 3), ("file", fs)) if not ok]
    # a kind without enough accepted traces is acceptable only when this run reports violations of that kind
    # (the code under test is broken there); never let the self-test mask those verdicts
    def explained(kind):
        keys = [v["key"] for v in ctx.violations if v] + list(ctx.known_hits)
        return any(k.startswith(kind) and k != "detect:dead-below-top-block" for k in keys)
    unexplained = [k for k in short if not explained(k)]
    if unexplained:
        raise tlc.TLCError(f"binding self-test: not enough accepted traces to corrupt for {unexplained} "
                           f"({len(its)}, {len(zs)}, {len(ds)}, {len(fs)})")
    ctx.cov["selftest_kinds_skipped"] = short
    if not mut:
        return
    keep = ctx.cov["traces_validated_against_impl"]
    v = tracecheck.validate(ctx, TRACE[0], TRACE[1], mut, label="selftest", jvms=1, workers=2, nstates=nstates)
    ctx.cov["traces_validated_against_impl"] = keep
    got = {x["index"]: x["prop"] for x in v}
    wrong = [(i, w, got.get(i, "")) for i, w in enumerate(want) if got.get(i, "") != w]
    if wrong:
        raise tlc.TLCError(f"binding self-test: corrupted traces not flagged as expected (index, expected, got): {wrong[:5]}")
    # spec -> code: perturb one exported expectation per clause
    n = 0
    for c in exp["cases"]:
        if n >= 3:
            break
        full = [i for i in c["bad"] if len(c["supp"][i - 1]) >= 2]
        if not full:
            continue
        g = exp["geoms"][c["g"]]
        x, y = np.array([p[0] for p in g]), np.array([p[1] for p in g], dtype=float)
        c2 = copy.deepcopy(c)
        c2["supp"][full[0] - 1] = c2["supp"][full[0] - 1][1:]            # one support channel withheld from the expectation
        rec = observe_interp(x, y, c2["lab"], supports={i + 1: s for i, s in enumerate(c2["supp"])})
        if compare_case(c, observe_interp(x, y, c["lab"], supports={i + 1: s for i, s in enumerate(c["supp"])})) is not None:
            continue
        if compare_case(c2, rec) is None:
            raise tlc.TLCError("binding self-test: a perturbed expected support set was not noticed by the replay comparison")
        n += 1
    if n == 0 and not explained("interp"):
        raise tlc.TLCError("binding self-test: no exported case could be perturbed")
    ctx.cov["selftest_corruptions_flagged"] = len(mut) + n


def replay(ctx, sc):
    hs = headers()
    kind = sc.get("kind")
    if kind == "replay-case":
        c = sc["case"]
        g = sc["geoms"][c["g"]]
        x, y = np.array([p[0] for p in g]), np.array([p[1] for p in g], dtype=float)
        rec = observe_interp(x, y, c["lab"], dtype=sc["dtype"], seed=sc["seed"], supports={i + 1: s for i, s in enumerate(c["supp"])},
                             form=sc.get("form"))
        bad = compare_case(c, rec)
        if bad:
            ctx.violation("interp:" + bad[0], f"replay {c['g']} {c['lab']}: {bad[1]}", sc)
        return
    if kind == "interp":
        rec = run_interp_case(hs, sc)
    elif kind == "interp-raw":
        rec = observe_interp(np.array(sc["x"]), np.array(sc["y"], dtype=float), sc["lab"], form=sc.get("form"))
    elif kind == "detect":
        rec = run_detect(sc)
    elif kind == "rule":
        rec = run_rule(sc)
    elif kind in ("file", "filebatch"):
        sc = sc["job"] if kind == "filebatch" else sc
        sc = dict(sc, folder=str(ctx.scratch / "files" / sc["stem"]))
        rec, drecs = run_file(sc)
        recs = [rec] + drecs
        metas = [sc] + [{"kind": "filebatch", "job": sc, "batch": k} for k in range(len(drecs))]
        report(ctx, validate(ctx, recs, "replay"), metas, recs)
        return
    else:
        raise tlc.TLCError(f"unknown scenario kind {kind}")
    report(ctx, validate(ctx, [rec], "replay"), [sc], [rec])
