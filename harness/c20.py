"""C20 - denoising, smoothing and counting utilities conserve what they must.

Discrete clauses (TLC): spec/lib/Counting.tla
  (a) Venn peeling of spiketrains._spikes_venn: every spike of every sorter in exactly one region, for any chunking
  (b) voltage.stack: one row per label, aggregate of exactly the traces with that label, fold = their number
  (c) cadzow.traj_matrix_indices / trajectory: every trace in the matrix, trcount = its number of occurrences
  1. model checking of the three state machines over exhaustive boxes
  2. spec -> code: TLC exports every case of a box with the implementation layer's result; replayed on the real code
  3. code -> spec: every real call is recorded (bin_counts per chunk read off bincount2D's return values, member rows
     decoded from power-of-two trace values, it/itr/trcount) and validated by spec/trace/CountingTrace.tla
Numeric clauses (projection, NOT TLC), on the scenario grid layout x rank given by Counting!FullRank:
  cadzow.denoise / svd_denoise_npx identity at full rank and for one plane wave at rank >= 1, noise reduced at lower rank;
  smooth.lp / rolling_window keep constants and length; non_uniform_savgol reproduces polynomials of degree <= order;
  smooth_interpolate_savgol returns finite values over NaN gaps.
Binding self-tests: corrupted records must be flagged by the trace spec, perturbed outputs by the projections.
State and argument forms the calls meet (all judged by the clauses above): spike vectors of other integer / float types, read-only,
as tuples or lists, beyond 2^31 / 2^32 samples, float sampling rates, every option left to its default, the same arrays handed to
every chunk size (and to two sorters), arrays the call must leave as they were; label vectors as integer arrays / lists / a column
view of the data, traces of other types, one header dictionary used for a second stack along other labels; site coordinates as
int64 / float32 / lists, layouts with missing sites, the same grid again in another trace order, imax (none, beyond, below the
number of frequencies), niter 1-3, complex64 spectra, transposed / strided / read-only matrices, the caller's array de-ranked first
and asked for at full rank afterwards, ranks above the number of channels, arbitrary collection labels, offsets in the data;
cadzow_np1 (the windowed caller of denoise) at the full rank of a window; smoothers on 1..700 samples, integer / float32 constants,
lists, defaults; Savitzky-Golay orders up to window - 1, lists, integer abscissae.
"""
import contextlib
import copy
import io
import json
import numbers
import os
import random
import signal
import threading
import warnings
from concurrent.futures import ThreadPoolExecutor

# many small SVDs: BLAS threads only fight each other (and the TLC JVMs) for the cores
for _v in ("OMP_NUM_THREADS", "OPENBLAS_NUM_THREADS", "MKL_NUM_THREADS"):
    os.environ.setdefault(_v, "1")

# the trace spec peels dense count tables recursively (up to 190 levels): on a busy machine (frames not yet compiled) the JVM's
# default thread stack of 1 MB has been seen to overflow on the unchanged tree (StackOverflowError = exit 2)
os.environ.setdefault("JDK_JAVA_OPTIONS", "-Xss16m")

import numpy as np  # noqa: E402

from vkit import tlc, tracecheck  # noqa: E402

TRACE = ("trace/CountingTrace.tla", "trace/CountingTrace.cfg")


def memo_numba_jit():
    """iblutil.numerical.ismember2d (called by cadzow.trajectory) defines and compiles a numba function on every call (0.2 s each,
    half of this check's wall time).  Compile each distinct function body once per process: same code, same result."""
    try:
        import numba
    except Exception:
        return
    if getattr(numba.jit, "_c20_memo", False):
        return
    orig, memo = numba.jit, {}

    def jit(*a, **k):
        if len(a) == 1 and callable(a[0]) and not k:
            return jit()(a[0])
        dec = orig(*a, **k)

        def wrap(fn):
            if getattr(fn, "__closure__", None) or not hasattr(fn, "__code__"):
                return dec(fn)
            key = (fn.__code__, repr(a), repr(sorted(k.items())))
            if key not in memo:
                memo[key] = dec(fn)
            return memo[key]
        return wrap
    jit._c20_memo = True
    numba.jit = jit


@contextlib.contextmanager
def quiet():
    with contextlib.redirect_stdout(io.StringIO()), contextlib.redirect_stderr(io.StringIO()), warnings.catch_warnings():
        warnings.simplefilter("ignore")
        yield


@contextlib.contextmanager
def mem_cap(extra_gb=12):
    """spike times turned into garbage by a defect make the binning ask for tens of gigabytes: the real call then fails with a
    MemoryError (reported like any exception) instead of the machine killing the check.  Soft address-space limit = what the process
    has mapped now + extra_gb, only around the call (TLC's JVMs are started outside)."""
    try:
        import resource
        soft, hard = resource.getrlimit(resource.RLIMIT_AS)
        with open("/proc/self/status") as f:
            now = next(int(ln.split()[1]) * 1024 for ln in f if ln.startswith("VmSize:"))
        cap = now + extra_gb * 2 ** 30
        if hard != resource.RLIM_INFINITY:
            cap = min(cap, hard)
        if soft != resource.RLIM_INFINITY and soft <= cap:
            raise ValueError("a tighter limit is in place")
        resource.setrlimit(resource.RLIMIT_AS, (cap, hard))
    except Exception:
        yield
        return
    try:
        yield
    finally:
        resource.setrlimit(resource.RLIMIT_AS, (soft, hard))


# ------------------------------------------------------------------------------------------------
# defensive observation of what the real code hands back (robustness audit after round h): whatever a call returns instead of what its
# clause promises - None, a string, an array of another shape / dimensionality / element type, numbers that are no counts, an
# exception of any class, no return at all - becomes the negative observation of that clause (a record the trace spec rejects, a
# projection that is false), never a failure of this harness's own arithmetic
# ------------------------------------------------------------------------------------------------

CLIP = 10 ** 8                 # TLC's integers have 32 bits, and the clauses add up to four observed counts
CALL_DEADLINE_S = 120          # the calls of this check take milliseconds to a few seconds
MAX_HANGS = 3                  # calls that may run into the deadline before the rest of the run is abandoned
_HUNG = []                     # the records of the calls that did (None for the calls of the numeric projections)


class Hang(BaseException):
    """not an Exception: it must pass through every `except Exception` between the timer and the call it bounds"""


class Abandon(Exception):
    """too many calls of the real code did not return: the rest of the run is not started (the violations stand)"""


@contextlib.contextmanager
def deadline(seconds=CALL_DEADLINE_S):
    """bound the time the real code may take (a loop that never ends); only where signals can be delivered"""
    if not hasattr(signal, "setitimer") or threading.current_thread() is not threading.main_thread():
        yield
        return

    def on_alarm(signum, frame):
        raise Hang()
    old = signal.signal(signal.SIGALRM, on_alarm)
    signal.setitimer(signal.ITIMER_REAL, seconds)
    try:
        yield
    finally:
        signal.setitimer(signal.ITIMER_REAL, 0)
        signal.signal(signal.SIGALRM, old)


def hung(rec=None):
    """account a call that ran into the deadline; the third one abandons the run (run() reports what was observed until then)"""
    _HUNG.append(rec)
    if len(_HUNG) >= MAX_HANGS:
        raise Abandon(f"{len(_HUNG)} calls of the real code did not return within {CALL_DEADLINE_S} s")


def exc_name(e):
    return "Timeout" if isinstance(e, Hang) else type(e).__name__


def as_count(v, bad=-1):
    """an observed count / index as an integer TLC can read: `bad` for anything that is no integer number (None, strings, NaN, 2.5,
    arrays of several values); integers beyond +-10^8 are clipped (no count or index of this check comes near: they stay wrong)"""
    try:
        if v is None or isinstance(v, (str, bytes, bool, np.bool_)):
            return bad
        if isinstance(v, numbers.Integral):
            i = int(v)
        else:
            a = np.asarray(v)
            if a.size != 1 or a.dtype.kind not in "iuf":
                return bad
            f = float(a.reshape(-1)[0])
            if not np.isfinite(f) or f != int(f):
                return bad
            i = int(f)
    except Exception:  # noqa  objects that refuse the conversions above are no counts
        return bad
    return max(-CLIP, min(CLIP, i))


def numbers_of(out, real_only=False):
    """the returned object as an array of numbers, or None if it is none (None, strings, objects, ragged lists, dictionaries)"""
    try:
        a = np.asarray(out)
    except Exception:  # noqa
        return None
    return a if a.dtype.kind in ("fiu" if real_only else "fiuc") else None


def dev(out, ref):
    """how far a returned array is from the expected one, for the report line (never raises)"""
    a, ref = numbers_of(out), np.asarray(ref)
    if a is None:
        return f"no array of numbers ({type(out).__name__})"
    if a.shape != ref.shape:
        return f"shape {a.shape} instead of {ref.shape}"
    if not a.size:
        return "0"
    return f"{float(np.max(np.abs(a - ref))):.3g}"


def dist(out, ref):
    """2-norm of the difference, for the report line (never raises)"""
    a, ref = numbers_of(out), np.asarray(ref)
    return f"{float(np.linalg.norm(a - ref)):.3g}" if a is not None and a.shape == ref.shape else dev(out, ref)


def shape_of(out):
    try:
        return tuple(np.shape(out))
    except Exception:  # noqa  ragged lists
        return None


def finite_like(out, shape, real_only=False):
    a = numbers_of(out, real_only)
    return a is not None and a.shape == tuple(shape) and bool(np.all(np.isfinite(a)))


# ------------------------------------------------------------------------------------------------
# (a) Venn
# ------------------------------------------------------------------------------------------------

SDT = {"int64": np.int64, "int32": np.int32, "uint32": np.uint32, "uint64": np.uint64, "float64": np.float64}
CDT = {"int64": np.int64, "int32": np.int32, "int16": np.int16, "uint8": np.uint8, "float64": np.float64}


def venn_trains(cols, rnd, binsize, chbin, nchbins, spread, base=0, sdt="int64", cdt="int64", ro=False):
    """count table (bins x sorters) -> sorted spike trains; bin b sits in a distinct (time bin, channel bin); `base` (a multiple of
    the bin size) shifts every sample (recordings longer than 2^31 / 2^32 samples); element types of the two vectors as named"""
    nb, ns = len(cols), len(cols[0])
    slots = [(tb, cb) for tb in range(nb + spread) for cb in range(nchbins)]
    place = rnd.sample(slots, nb)
    trains = []
    for s in range(ns):
        sp = []
        for b in range(nb):
            tb, cb = place[b]
            for _ in range(cols[b][s]):
                sp.append((base + tb * binsize + rnd.randrange(binsize), cb * chbin + rnd.randrange(chbin)))
        sp.sort()
        trains.append((np.array([a for a, _ in sp], dtype=np.int64).astype(SDT[sdt]), np.array([c for _, c in sp], dtype=np.int64).astype(CDT[cdt])))
    if ro:
        for t in trains:                # spike tables loaded as read-only memory maps
            t[0].setflags(write=False)
            t[1].setflags(write=False)
    return trains


def venn_call(trains, binsize, chbin, nch, chunk, fs=30000, seq=tuple, bare=False):
    """one real call -> trace record (chunks = non-empty bin_counts columns per chunk).  The caller's arrays are handed over as they
    are (the same objects for every chunk size of a case); rec["mutated"] tells whether the call changed them."""
    import ibldsp.spiketrains as st
    ns = len(trains)
    got = []
    try:
        import iblutil.numerical as inum
    except Exception:
        inum = None
    # bin_counts are read off the return values of bincount2D, wherever the code looks the function up
    sites = [(m, "bincount2D", getattr(m, "bincount2D")) for m in (st, inum) if m is not None and hasattr(m, "bincount2D")]
    orig = sites[0][2] if sites else None

    # a recording of max_samples samples has max_samples // chunk_size + 1 chunks: a call that asks for many times more bin counts
    # than that (spike times wrapped around to huge numbers, say) is stopped instead of filling the memory
    ch_eff = chunk if chunk else 20 * fs
    limit = ns * (2 * (int(max(float(t[0].max()) for t in trains) // ch_eff) + 1) + 16)

    class ChunkLimit(RuntimeError):
        pass

    def spy(*a, **k):
        if len(got) >= limit:
            raise ChunkLimit(f"more than {limit // ns} chunks")
        r = orig(*a, **k)
        got.append(np.asarray(r[0]).flatten())
        return r
    rec = {"kind": "venn", "ns": ns, "N": [int(t[0].size) for t in trains], "chunks": [], "ret": [], "exc": "", "mutated": False}
    before = [(t[0].copy(), t[1].copy()) for t in trains]
    for m, nm, _f in sites:
        setattr(m, nm, spy)
    res = None
    try:
        with quiet(), mem_cap(), deadline():
            f = st.spikes_venn2 if ns == 2 else st.spikes_venn3
            if bare:
                res = f(seq(t[0] for t in trains), seq(t[1] for t in trains))
            else:
                res = f(seq(t[0] for t in trains), seq(t[1] for t in trains), samples_binsize=binsize,
                        channels_binsize=chbin, fs=fs, num_channels=nch, chunk_size=chunk)
    except (Exception, SystemExit, Hang) as e:
        rec["exc"] = exc_name(e)
    finally:
        for m, nm, f0 in sites:
            setattr(m, nm, f0)
    if not rec["exc"]:
        # "a dictionary of counts": anything that is not a mapping with exactly the region names gives the empty `ret` (clause Shape),
        # a value that is no integer count is recorded as -1 (clause Shape as well)
        names = [format(i, f"0{ns}b") for i in range(1, 2 ** ns)]
        try:
            keys = set(res.keys())
            rec["ret"] = [as_count(res[n]) for n in names] if keys == set(names) else []
        except Exception:  # noqa  no dictionary
            rec["ret"] = []
    rec["mutated"] = any(a.dtype != a0.dtype or not np.array_equal(a, a0) for t, t0 in zip(trains, before) for a, a0 in zip(t, t0))
    if rec["mutated"]:
        rec["before"] = before
    if not rec["exc"]:
        # bin_counts of the chunks, as bincount2D returned them to the code (the code decides what it asks bincount2D for: calls that
        # do not come in groups of one per sorter, or with bins that differ between the sorters, are recorded as an undecodable chunk)
        try:
            if len(got) % ns:
                raise ValueError("calls of bincount2D are not one per sorter and chunk")
            for k in range(0, len(got), ns):
                m = np.stack(got[k:k + ns])
                nz = np.where(np.any(m != 0, axis=0))[0]
                rec["chunks"].append([[as_count(v) for v in m[:, j]] for j in nz])
        except Exception:  # noqa
            rec["chunks"] = [[[-1] * ns]]
    if rec["exc"] == "Timeout":
        hung(rec)
    return rec


def venn_reuse(ctx, t, trains, binsize, chbin, nch, fs=30000, chunk=None):
    """a call changed the spike arrays of its caller: counting the same trains again (what the harness does with the next chunk size)
    must still attribute the caller's spikes - compare the counts of the changed arrays with those of the pristine ones"""
    pristine = [(a.copy(), c.copy()) for a, c in t["before"]]
    r_now = venn_call([(a.copy(), c.copy()) for a, c in trains], binsize, chbin, nch, chunk, fs=fs)
    r_ref = venn_call(pristine, binsize, chbin, nch, chunk, fs=fs)
    if r_now["ret"] != r_ref["ret"] or r_now["exc"]:
        ctx.violation("venn:attribution", f"{describe(t)} changes the spike arrays of its caller: the same trains counted again give "
                      f"{r_now['ret'] or r_now['exc']} instead of {r_ref['ret']} (spikes attributed to no / another region)", t.get("scenario", {"kind": "venn"}))
    else:
        ctx._c20_mut = getattr(ctx, "_c20_mut", 0) + 1
        if ctx._c20_mut <= 5:
            ctx.spec_drift(f"{describe(t)} changes the spike arrays of its caller (the counts of a second call are unaffected)")
    for (a, c), (a0, c0) in zip(trains, t["before"]):     # the next calls of this case see the caller's data again
        if a.shape == a0.shape and c.shape == c0.shape and a.flags.writeable and c.flags.writeable:
            a[...] = a0
            c[...] = c0
    del t["before"]


def realistic_trains(rnd, nrnd, ns, dur_s, fs, nch, rate):
    """a common pool of spikes, each sorter finds a random subset, jitters it, and adds false positives"""
    n = int(dur_s * rate)
    pool_s = np.sort(nrnd.integers(0, int(dur_s * fs), n))
    pool_c = nrnd.integers(0, nch, n)
    out = []
    for _ in range(ns):
        keep = nrnd.random(n) < rnd.uniform(0.5, 0.95)
        s = pool_s[keep] + nrnd.integers(-3, 4, keep.sum())
        c = np.clip(pool_c[keep] + nrnd.integers(-1, 2, keep.sum()), 0, nch - 1)
        nf = int(n * rnd.uniform(0.0, 0.3))
        s = np.r_[s, nrnd.integers(0, int(dur_s * fs), nf)]
        c = np.r_[c, nrnd.integers(0, nch, nf)]
        s = np.clip(s, 0, None)
        o = np.argsort(s, kind="stable")
        out.append((s[o].astype(np.int64), c[o].astype(np.int64)))
    return out


# ------------------------------------------------------------------------------------------------
# (b) stack
# ------------------------------------------------------------------------------------------------

def stack_call(word, rnd, nrnd, agg, wkind="float", ddt="float64"):
    """labels 1..k are mapped to increasing arbitrary values; column 0 = 2^trace, column 1 = the label value.  wkind: the label
    vector as a float / integer array or a Python list; ddt: element type of the traces (sums of small integers are exact in all)"""
    import ibldsp.voltage as voltage
    n = len(word)
    vals = sorted(rnd.sample(range(-50, 50), max(word)))
    lab = np.array([vals[w - 1] for w in word], dtype=float)
    data = np.c_[2.0 ** np.arange(n), lab, nrnd.standard_normal((n, 3))]
    if ddt == "int64":
        data = np.c_[data[:, :2], nrnd.integers(-9, 10, (n, 3))].astype(np.int64)
    elif ddt == "float32":
        data = data.astype(np.float32)
    wl = {"float": lab.copy(), "int": lab.astype(np.int64), "int16": lab.astype(np.int16), "list": [int(v) for v in lab]}[wkind]
    rec = {"kind": "stack", "word": [int(v) for v in lab], "groups": [], "fold": [], "rows": [], "exc": ""}
    ret = None
    try:
        with quiet(), deadline():
            ret = voltage.stack(data.copy(), wl, fcn_agg=agg)
    except (Exception, SystemExit, Hang) as e:
        rec["exc"] = exc_name(e)
    if not rec["exc"]:
        # (stack, fold): a two-dimensional array of numbers with the traces' samples, a vector of counts.  What cannot be read as
        # that is recorded as no rows at all / as the fold -1, which the clause Stack rejects
        try:
            st, fold = ret
            st, fold = numbers_of(st, real_only=True), np.asarray(fold)
            if st is None or st.ndim != 2 or st.shape[1] != data.shape[1] or fold.ndim != 1:
                raise ValueError("not a stack of the traces and a fold vector")
            st = st.astype(float)
            fold = [as_count(f) for f in fold]
            rec["fold"] = fold
            for v, t0, f in zip(st[:, 1], st[:, 0], fold):
                g = v / (f if agg is np.sum else 1) if f > 0 else np.nan
                rec["groups"].append(as_count(np.round(g), bad=10 ** 6))
                t = t0 * (f if agg is not np.sum else 1.0)
                ok = np.isfinite(t) and abs(t - round(t)) < 1e-6 and 0 <= t < 2 ** n
                rec["rows"].append([i + 1 for i in range(n) if (int(round(t)) >> i) & 1] if ok else [0])
        except Exception:  # noqa  the returned object is not what the docstring describes
            rec["groups"], rec["fold"], rec["rows"] = [], [], []
    if rec["exc"] == "Timeout":
        hung(rec)
    return rec, np.asarray(data, dtype=float), lab


# ------------------------------------------------------------------------------------------------
# (c) trajectory
# ------------------------------------------------------------------------------------------------

COORD_KINDS = ["float", "float", "int", "f32", "list"]


def layout_coords(present, rnd, kind="float"):
    """site coordinates of the cells in a random trace order.  kind: float64 arrays with an arbitrary origin (as before), or - origin
    and pitch integers, so that every coordinate is exact - int64 / float32 arrays or Python lists"""
    cells = [tuple(c) for c in present]
    rnd.shuffle(cells)
    x0, y0, dx, dy = rnd.uniform(-50, 50), rnd.uniform(-100, 2000), rnd.choice([16.0, 32.0, 6.0, 1.0]), rnd.choice([20.0, 15.0, 6.0, 2.5])
    if kind != "float":
        x0, y0, dy = float(round(x0)), float(round(y0)), (dy if dy != 2.5 else 3.0)
    x = np.array([x0 + dx * c[0] for c in cells])
    y = np.array([y0 + dy * c[1] for c in cells])
    if kind == "int":
        x, y = x.astype(np.int64), y.astype(np.int64)
    elif kind == "f32":
        x, y = x.astype(np.float32), y.astype(np.float32)
    elif kind == "list":
        x, y = [float(v) for v in x], [float(v) for v in y]
    return cells, x, y


def traj_call(nx, ny, cells, x, y):
    import ibldsp.cadzow as cadzow
    rec = {"kind": "traj", "nx": nx, "ny": ny, "cells": [list(c) for c in cells], "shape": [], "entries": [], "trcount": [], "exc": ""}
    ret = None
    try:
        with quiet(), deadline():
            ret = cadzow.trajectory(x, y)
    except (Exception, SystemExit, Hang) as e:
        rec["exc"] = exc_name(e)
    if not rec["exc"]:
        # (T, it, itr, trcount): what cannot be read as a matrix, two index vectors of the same length as itr, and a vector of counts
        # is recorded as a trajectory without entries and counts (clause TrajShape)
        try:
            T, it, itr, trcount = ret
            shape = [as_count(v) for v in np.shape(T)]
            rows, cols, trs, cnt = np.asarray(it[0]), np.asarray(it[1]), np.asarray(itr), np.asarray(trcount)
            if len(it) != 2 or any(v.ndim != 1 for v in (rows, cols, trs, cnt)) or not rows.size == cols.size == trs.size:
                raise ValueError("not index vectors")
            rec["shape"] = shape
            # a trace index that is no integer is recorded as trace 0 (no trace: clause TrajShape)
            rec["entries"] = [[as_count(r), as_count(c), as_count(t, bad=-1) + 1] for r, c, t in zip(rows, cols, trs)]
            rec["trcount"] = [as_count(v) for v in cnt]
        except Exception:  # noqa  the returned object is not what the docstring describes
            rec["shape"], rec["entries"], rec["trcount"] = [], [], []
    if rec["exc"] == "Timeout":
        hung(rec)
    return rec


def grid_cells(nx, ny, stag):
    return [(i, j) for i in range(nx) for j in range(ny) if not stag or (i + j) % 2 == 0]


# ------------------------------------------------------------------------------------------------
# validation plumbing
# ------------------------------------------------------------------------------------------------

def nstates(t):
    return (len(t["chunks"]) if t["kind"] == "venn" else 0) + 3


def describe(t):
    if t["kind"] == "venn":
        return f"spikes_venn{t['ns']}(N={t['N']}, chunk_size={t.get('chunk')}, binsize={t.get('binsize')}) -> {t['ret'] or t['exc']}"
    if t["kind"] == "stack":
        return f"stack(word={t['word']}, {t.get('agg')}) -> fold {t['fold'] or t['exc']}, rows {t['rows']}"
    return f"trajectory({t['nx']}x{t['ny']} layout, {len(t['cells'])} traces) -> shape {t['shape'] or t['exc']}, trcount {t['trcount'][:12]}"


KEYS = {"venn": ("kind", "ns", "N", "chunks", "ret", "exc"), "stack": ("kind", "word", "groups", "fold", "rows", "exc"),
        "traj": ("kind", "nx", "ny", "cells", "shape", "entries", "trcount", "exc")}


def slim(t):
    return {k: t[k] for k in KEYS[t["kind"]]}


def validate(ctx, recs, label, jvms=4):
    out = tracecheck.validate(ctx, TRACE[0], TRACE[1], [slim(t) for t in recs], label=label, jvms=jvms, workers=2, nstates=nstates, timeout=1500)
    ndrift = 0
    for v in out:
        t = recs[v["index"]]
        if v["prop"]:
            ctx.violation(f"{t['kind']}:{v['prop'].split(':')[0].lower()}", f"{describe(t)}: property-layer clause {v['prop']} false on "
                          f"the observed values [{label}]", t.get("scenario", {"kind": t["kind"]}))
        elif v["impl"]:
            ndrift += 1
            if ndrift <= 8:
                ctx.spec_drift(f"{describe(t)}: {v['impl']} differs from spec/lib/Counting.tla (property-layer clauses hold) [{label}]")
    if ndrift > 8:
        ctx.spec_drift(f"... {ndrift - 8} further records of [{label}] differ from the implementation layer")
    return out


def export(ctx, name):
    out = ctx.scratch / f"export_{name}.json"
    r = tlc.run("mc/MC_CountingExport.tla", f"mc/CountingExport_{name}.cfg", workers=1, timeout=900, env={"OUT_FILE": str(out)})
    ctx.tlc(r, f"export_{name}")
    if not r.ok or not out.exists():
        raise tlc.TLCError(f"export {name} failed:\n{r.out[-2000:]}")
    return json.loads(out.read_text())


def _t(ctx, what):
    import time
    now = time.time()
    ctx.log(f"[C20] {what}: +{now - getattr(ctx, '_t', ctx.t0):.1f}s")
    ctx._t = now


# ------------------------------------------------------------------------------------------------
# numeric projections (thresholds: identities 1e-9 relative, polynomial reproduction 1e-6 relative; correct code is
# better than 1e-10 / 1e-8; "reduces noise": strictly smaller error than the noise that was added)
# ------------------------------------------------------------------------------------------------

LAYOUTS = ["c", "c", "t", "s", "ro"]


def as_layout(A, how):
    """the same values as the caller may hold them: a fresh C-ordered array, the transposed view of an array stored the other way
    round (samples x channels files), every second row / element of a larger array, or a read-only array (memory-mapped files)"""
    A = np.asarray(A)
    if how == "t" and A.ndim == 2:
        return np.ascontiguousarray(A.T).T
    if how == "s":
        big = np.zeros((2 * A.shape[0],) + A.shape[1:], dtype=A.dtype)
        big[::2] = A
        return big[::2]
    out = A.copy()
    if how == "ro":
        out.setflags(write=False)
    return out


def p_same(out, ref, tol):
    """false as well for anything that is not an array of finite numbers of the expected shape"""
    out, ref = numbers_of(out), np.asarray(ref)
    if out is None or out.shape != ref.shape or not np.all(np.isfinite(out)):
        return False
    if not ref.size:
        return True
    return float(np.max(np.abs(out - ref))) <= tol * max(1.0, float(np.max(np.abs(ref))))


def p_reduced(out, clean, noisy):
    out = numbers_of(out)
    if out is None or out.shape != np.asarray(clean).shape or not np.all(np.isfinite(out)):
        return False
    return float(np.linalg.norm(out - clean)) < float(np.linalg.norm(np.asarray(noisy) - clean))


def real(ctx, key, what, sc, f, *a, **k):
    """call the real code; an exception on an input of the property's domain is a violation ("returns ...")"""
    try:
        with quiet(), deadline():
            return True, f(*a, **k)
    except (Exception, SystemExit) as e:
        ctx.violation(key + "-raised", f"{what} raised {type(e).__name__}: {str(e)[:120]}", sc)
        return False, None
    except Hang:
        ctx.violation(key + "-raised", f"{what} did not return within {CALL_DEADLINE_S} s", sc)
        hung()
        return False, None


def plane_waves(x, y, nf, nrnd, nwaves):
    x, y = np.asarray(x, dtype=float), np.asarray(y, dtype=float)
    W = np.zeros((x.size, nf), dtype=complex)
    for _ in range(nwaves):
        kx, ky = nrnd.uniform(-0.05, 0.05), nrnd.uniform(-0.05, 0.05)
        amp = nrnd.standard_normal(nf) + 1j * nrnd.standard_normal(nf)
        W += np.exp(1j * (kx * x + ky * y))[:, None] * amp[None, :]
    return W


# cadzow_np1 (the caller of denoise over a whole Neuropixel 1 probe): the working parameter sets of its docstring
NP1_SETS = [dict(ovx=16, nswx=32, npad=0), dict(ovx=8, nswx=16, npad=0), dict(ovx=32, nswx=64, npad=0), dict(ovx=24, nswx=64, npad=0),
            dict(ovx=5, nswx=33, npad=6)]


def numeric_np1(ctx, rnd, nrnd, fullrank, n):
    """cadzow_np1 hands windows of the probe (4 staggered columns x nswx / 2 rows), its own index of the highest frequency and the
    taper gains to cadzow.denoise: at the full rank of a window every frequency below fmax comes back unchanged"""
    import ibldsp.cadzow as cadzow
    f = getattr(cadzow, "cadzow_np1", None)
    if f is None:
        ctx.spec_drift("ibldsp.cadzow has no cadzow_np1: the windowed caller of denoise is not exercised")
        return 0
    done = 0
    for k in range(n):
        kw = dict(NP1_SETS[k % len(NP1_SETS)] if k else NP1_SETS[rnd.randrange(len(NP1_SETS))])
        full = fullrank[3][(kw["nswx"] + 1) // 2 - 1]
        ns, fs = rnd.choice([8, 12, 16, 24]), 30000
        fmax = rnd.choice([20000, 7500, 7500, 3000])
        wav = nrnd.standard_normal((384, ns)) + rnd.choice([0.0, 50.0])
        arg = wav.copy()
        if rnd.random() < 0.5:
            import neuropixel
            kw["h"] = neuropixel.trace_header(version=1)
        if fmax == 7500 and rnd.random() < 0.5:
            call = dict(kw, fs=fs, rank=full)                  # fmax left to its default
        else:
            call = dict(kw, fs=fs, rank=full, fmax=fmax)
        sc = {"kind": "cadzow", "case": "np1", "ns": ns, "fmax": fmax, **{a: b for a, b in kw.items() if a != "h"}}
        what = f"cadzow_np1(384x{ns}, rank={full}, fmax={fmax}, ovx={kw['ovx']}, nswx={kw['nswx']}, npad={kw['npad']})"
        ok, out = real(ctx, "cadzow:full-rank-identity", what, sc, f, arg, **call)
        done += 1
        if not ok:
            continue
        keep = int(np.sum(np.fft.rfftfreq(ns, d=1 / fs) < fmax))              # frequencies strictly below fmax are de-ranked and kept
        if not finite_like(out, wav.shape, real_only=True):
            ctx.violation("cadzow:full-rank-identity", f"{what} returns {type(out).__name__} of shape {shape_of(out)} / values that are no "
                          f"finite real numbers", sc)
            continue
        out = np.asarray(out)
        if not p_same(np.fft.rfft(out)[:, :keep], np.fft.rfft(wav)[:, :keep], 1e-9) or not np.array_equal(arg, wav):
            ctx.violation("cadzow:full-rank-identity", f"{what}: at the full rank of every window the {keep} frequencies below fmax change by "
                          f"{np.max(np.abs(np.fft.rfft(out)[:, :keep] - np.fft.rfft(wav)[:, :keep])):.3g}"
                          f"{'' if np.array_equal(arg, wav) else ' and the input array was modified'}", sc)
    ctx.count(done)
    return done


def numeric_cadzow(ctx, rnd, nrnd, fullrank, n_id, n_noise):
    import ibldsp.cadzow as cadzow
    done = 0
    shapes = [(nx, ny) for nx in range(1, 5) for ny in range(4, 41)]
    rnd.shuffle(shapes)
    shapes = (shapes * (1 + n_id // len(shapes)))[:n_id]      # further passes over the layouts meet other options (k below)
    for k, (nx, ny) in enumerate(shapes):
        stag = nx >= 2 and k % 3 == 2
        ck = rnd.choice(COORD_KINDS)
        present = grid_cells(nx, ny, stag)
        holes = 0
        if k % 6 == 5:
            # sites missing from the layout (channels left out): every column and every row keeps at least one site
            for cell in rnd.sample(present, min(3, len(present))):
                if sum(c[0] == cell[0] for c in present) > 1 and sum(c[1] == cell[1] for c in present) > 1:
                    present.remove(cell)
                    holes += 1
        cells, x, y = layout_coords(present, rnd, ck)
        ntr = len(cells)
        nf = rnd.choice([1, 3, 6])
        full = fullrank[nx - 1][ny - 1]
        # index of the highest frequency to de-rank: all (None, 0), exactly / more than the number of frequencies, or fewer (then the
        # identity is demanded of the frequencies that are kept)
        imax = rnd.choice([None, None, 0, nf, nf + 2, rnd.randint(1, nf)])
        keep = nf if not imax else min(nf, imax)
        niter = rnd.choice([1, 2, 3])
        c64 = k % 5 == 4
        sc = {"kind": "cadzow", "nx": nx, "ny": ny, "stag": stag, "seed": rnd.randrange(10 ** 9), "nf": nf, "coords": ck, "imax": imax,
              "niter": niter, "complex64": c64, "holes": holes}
        W = nrnd.standard_normal((ntr, nf)) + 1j * nrnd.standard_normal((ntr, nf)) + rnd.choice([0.0, 0.0, 30.0 - 10.0j])
        tol = 1e-9
        if c64:
            W, tol = W.astype(np.complex64), 1e-5        # single precision spectra (rfft of float32 data): identity to single precision
        arg = as_layout(W, rnd.choice(LAYOUTS))
        what = f"cadzow.denoise on a {nx}x{ny}{' staggered' if stag else ''} layout ({ck} coordinates{f', {holes} sites missing' if holes else ''}) at full rank {full}, imax={imax}, niter={niter}"
        if k % 3 == 0 and full > 1:
            # the caller's array is used twice: first de-ranked, then at full rank
            real(ctx, "cadzow:full-rank-identity", f"cadzow.denoise on a {nx}x{ny} layout at rank 1", dict(sc, case="full"), cadzow.denoise, arg, x, y, 1)
            done += 1
        ok, out = real(ctx, "cadzow:full-rank-identity", what, dict(sc, case="full"), cadzow.denoise, arg, x, y, full, imax=imax, niter=niter)
        done += 1
        if ok and (shape_of(out) != W.shape or not p_same(np.asarray(out)[:, :keep], W[:, :keep], tol)):
            ctx.violation("cadzow:full-rank-identity", f"{what} changes its input by "
                          f"{dev(np.asarray(out)[:, :keep], W[:, :keep]) if shape_of(out) == W.shape else dev(out, W)}"
                          f"{' (the same array had been de-ranked by an earlier call)' if k % 3 == 0 and full > 1 else ''}", dict(sc, case="full"))
        if k % 4 == 1:
            # the same grid again with the traces in another order and another origin (nothing may be remembered from the call before)
            perm = nrnd.permutation(ntr)
            x2 = (np.asarray(x, dtype=float) + 7.0)[perm]
            y2 = (np.asarray(y, dtype=float) - 40.0)[perm]
            W2 = nrnd.standard_normal((ntr, nf)) + 1j * nrnd.standard_normal((ntr, nf))
            ok, out = real(ctx, "cadzow:full-rank-identity", what + " (second layout of the same shape)", dict(sc, case="full"),
                           cadzow.denoise, W2.copy(), x2, y2, full)
            done += 1
            if ok and not p_same(out, W2, 1e-9):
                ctx.violation("cadzow:full-rank-identity", f"cadzow.denoise on a {nx}x{ny} layout at full rank {full}, called after the same grid "
                              f"with another trace order, changes its input by {dev(out, W2)}", dict(sc, case="full"))
        if not stag and not holes:
            P = plane_waves(x, y, nf, nrnd, 1)
            for r in range(1, min(3, full) + 1):
                ok, out = real(ctx, "cadzow:plane-wave-identity", f"cadzow.denoise of one plane wave on a {nx}x{ny} grid at rank {r}",
                               dict(sc, case="plane", rank=r), cadzow.denoise, P.copy(), x, y, r)
                done += 1
                if ok and not p_same(out, P, 1e-9):
                    ctx.violation("cadzow:plane-wave-identity", f"cadzow.denoise of one plane wave on a {nx}x{ny} grid at rank {r} "
                                  f"changes its input by {dev(out, P)}", dict(sc, case="plane", rank=r))
    # noise reduction below full rank: well-posed scenarios (regular grid with >= 16 rows, rank = number of waves; measured
    # error ratio <= 0.6 over 8 seeds, required < 1)
    shapes = [(nx, ny) for nx in range(1, 5) for ny in range(16, 41)]
    rnd.shuffle(shapes)
    for nx, ny in shapes[:n_noise]:
        cells, x, y = layout_coords(grid_cells(nx, ny, False), rnd)
        nw = 1 if nx == 1 else rnd.choice([1, 2])
        if nw >= fullrank[nx - 1][ny - 1]:
            continue
        S = plane_waves(x, y, 4, nrnd, nw)
        Nz = 0.3 * (nrnd.standard_normal(S.shape) + 1j * nrnd.standard_normal(S.shape))
        noisy = S + Nz
        arg = as_layout(noisy, rnd.choice(LAYOUTS))
        ok, out = real(ctx, "cadzow:noise-reduced", f"cadzow.denoise at rank {nw} on a {nx}x{ny} grid", {"kind": "cadzow", "case": "noise"},
                       cadzow.denoise, arg, x, y, nw)
        done += 1
        if ok and not p_reduced(out, S, noisy):
            ctx.violation("cadzow:noise-reduced", f"cadzow.denoise at rank {nw} on a {nx}x{ny} grid does not reduce the added noise: "
                          f"error {dist(out, S)} vs noise {np.linalg.norm(Nz):.3g}", {"kind": "cadzow", "case": "noise"})
        # the caller's noisy array again, now at full rank: it comes back as the caller made it
        full = fullrank[nx - 1][ny - 1]
        ok, out = real(ctx, "cadzow:full-rank-identity", f"cadzow.denoise on a {nx}x{ny} grid at full rank {full}", {"kind": "cadzow", "case": "noise"},
                       cadzow.denoise, arg, x, y, full)
        done += 1
        if ok and not p_same(out, noisy, 1e-9):
            ctx.violation("cadzow:full-rank-identity", f"cadzow.denoise on a {nx}x{ny} grid at full rank {full}, given the array that a call at "
                          f"rank {nw} was given before, differs from the caller's data by {dev(out, noisy)}", {"kind": "cadzow", "case": "noise"})
    ctx.count(done)
    return done


def numeric_svd(ctx, rnd, nrnd, n):
    import ibldsp.voltage as voltage
    done = 0
    for it in range(n):
        nc = rnd.choice([4, 6, 8, 12, 16, 24, 32, 48, 5, 7, 9, 33])
        ns = rnd.choice([nc + 5, 3 * nc, 200, max(2, nc - 3)])
        D = nrnd.standard_normal((nc, ns)) + rnd.choice([0.0, 0.0, 100.0])       # recordings carry offsets
        tol, f32 = 1e-9, it % 4 == 3
        if f32:
            D, tol = D.astype(np.float32), 1e-5                                  # single precision data: identity to single precision
        ng = rnd.choice([1, 2, 3, 4])
        if rnd.random() < 0.5:
            coll = np.sort(nrnd.integers(0, ng, nc))
        else:
            coll = np.repeat(np.arange(ng), -(-nc // ng))[:nc]
        if rnd.random() < 0.5:
            coll = coll[nrnd.permutation(nc)]
        if rnd.random() < 0.4:
            coll = np.array(sorted(rnd.sample([-3, 0, 1, 2.5, 4, 7, 11], ng)))[coll]    # labels need not be 0..n-1 (nor integers)
        # at least the full rank: exactly the number of channels, or more
        rank = rnd.choice([nc, nc, nc + 1, 3 * nc])
        for c in (None, coll):
            lay = rnd.choice(LAYOUTS)
            ok, out = real(ctx, "svd:full-rank-identity", f"svd_denoise_npx({nc}x{ns}, rank={rank}, array layout {lay})", {"kind": "svd"},
                           voltage.svd_denoise_npx, as_layout(D, lay), rank=rank, collection=c)
            done += 1
            if ok and not p_same(out, D, tol):
                ctx.violation("svd:full-rank-identity", f"svd_denoise_npx({nc}x{ns} {D.dtype}, rank={rank}, collection={'None' if c is None else c.tolist()}) "
                              f"changes its input by {dev(out, D)}",
                              {"kind": "svd"})
        # low-rank signal + noise, requested rank = rank of the signal
        k = rnd.choice([1, 2, 3])
        if ns > nc >= 8 * k:
            S = nrnd.standard_normal((nc, k)) @ nrnd.standard_normal((k, ns))
            Nz = 0.2 * nrnd.standard_normal((nc, ns))
            noisy = S + Nz
            arg = as_layout(noisy, rnd.choice(LAYOUTS))
            ok, out = real(ctx, "svd:noise-reduced", f"svd_denoise_npx({nc}x{ns}, rank={k})", {"kind": "svd"}, voltage.svd_denoise_npx, arg, rank=k)
            done += 1
            if ok and not p_reduced(out, S, noisy):
                ctx.violation("svd:noise-reduced", f"svd_denoise_npx({nc}x{ns}, rank={k}) does not reduce the added noise", {"kind": "svd"})
            # the caller's noisy array again, at full rank: it comes back as the caller made it
            ok, out = real(ctx, "svd:full-rank-identity", f"svd_denoise_npx({nc}x{ns}, rank={nc})", {"kind": "svd"}, voltage.svd_denoise_npx, arg, rank=nc)
            done += 1
            if ok and not p_same(out, noisy, 1e-9):
                ctx.violation("svd:full-rank-identity", f"svd_denoise_npx({nc}x{ns}, rank={nc}), given the array that a call at rank {k} was given "
                              f"before, differs from the caller's data by {dev(out, noisy)}", {"kind": "svd"})
            ok, out = real(ctx, "svd:rank-k-identity", f"svd_denoise_npx({nc}x{ns}, rank={k})", {"kind": "svd"}, voltage.svd_denoise_npx, S.copy(), rank=k)
            done += 1
            if ok and not p_same(out, S, 1e-9):
                ctx.violation("svd:rank-k-identity", f"svd_denoise_npx of a rank-{k} {nc}x{ns} matrix at rank {k} changes its input by "
                              f"{dev(out, S)}", {"kind": "svd"})
    # ranks 1..full on data of exactly that rank, over the channel counts of the layouts of the quantifier (1-4 columns x 4-40
    # rows): the per-collection rank handed to the truncated SVD must not fall below the rank asked for
    ncs = sorted({c * r for c in (1, 2, 3, 4) for r in range(4, 41)})
    if n < 100:
        ncs = [nc for nc in ncs if nc <= 64] + rnd.sample([nc for nc in ncs if nc > 64], 6)
    for nc in ncs:
        ks = range(1, nc + 1) if nc <= 64 or n >= 100 else sorted(rnd.sample(range(1, nc + 1), 24))
        ns = nc + 6
        A, B = nrnd.standard_normal((nc, nc)), nrnd.standard_normal((nc, ns))
        for k in ks:
            S = A[:, :k] @ B[:k, :]
            ok, out = real(ctx, "svd:rank-k-identity", f"svd_denoise_npx({nc}x{ns}, rank={k})", {"kind": "svd"}, voltage.svd_denoise_npx, S.copy(), rank=k)
            done += 1
            if ok and not p_same(out, S, 1e-8):
                ctx.violation("svd:rank-k-identity", f"svd_denoise_npx of a rank-{k} {nc}x{ns} matrix at rank {k} changes its input by "
                              f"{dev(out, S)}", {"kind": "svd"})
        # collections (shanks): each block of channels has exactly the share of the rank that its size gives it (integer arithmetic)
        for ng in (2, 3, 4):
            if nc % ng or nc // ng < 4:
                continue
            coll = np.repeat(np.arange(ng), nc // ng)
            for k in sorted(set(rnd.sample(range(ng, nc + 1), min(12, nc + 1 - ng)))):
                kb = (k * (nc // ng)) // nc
                if kb < 1:
                    continue
                S = np.concatenate([nrnd.standard_normal((nc // ng, kb)) @ nrnd.standard_normal((kb, ns)) for _ in range(ng)])
                ok, out = real(ctx, "svd:rank-k-identity", f"svd_denoise_npx({nc}x{ns}, rank={k}, {ng} collections)", {"kind": "svd"},
                               voltage.svd_denoise_npx, S.copy(), rank=k, collection=coll)
                done += 1
                if ok and not p_same(out, S, 1e-8):
                    ctx.violation("svd:rank-k-identity", f"svd_denoise_npx of {ng} collections of rank {kb} ({nc}x{ns}) at rank {k} changes its "
                                  f"input by {dev(out, S)}", {"kind": "svd"})
    ctx.count(done)
    return done


def numeric_smooth(ctx, rnd, nrnd, n):
    import ibldsp.smooth as smooth
    done = 0
    for it in range(n):
        # lp / rolling_window: constants and length.  Lengths from a single sample on; element types float64 / float32 / integers
        # (constants that every type holds exactly); the caller's arrays are used for both smoothers and must come through unchanged
        m = rnd.choice([rnd.randint(8, 60), rnd.randint(60, 700), rnd.randint(1, 8)])
        dt = rnd.choice([np.float64, np.float64, np.float32, np.int64, np.int32])
        c = rnd.choice([0.0, 1.0, -3.5, 1e-6, 12345.678]) if dt is np.float64 else rnd.choice([0.0, 1.0, -3.5, 7.0, 4096.0])
        if dt in (np.int64, np.int32):
            c = float(int(c))
        x0 = np.full(m, c, dtype=dt)
        x = as_layout(x0, rnd.choice(["c", "c", "s", "ro"]))            # e.g. one column of a table, a read-only array
        f0 = rnd.uniform(0.02, 0.6)
        fac = [f0, f0 + rnd.uniform(0.02, 0.3)]
        facarg = rnd.choice([fac, tuple(fac), np.array(fac)])
        pad = rnd.choice([0.05, 0.2, 0.5, 1.0, None])
        kw = {} if pad is None else {"pad": pad}                       # None: the option is left to its default
        z0 = nrnd.standard_normal(m)
        z = as_layout(z0, rnd.choice(["c", "c", "s", "ro"]))
        ok, out = real(ctx, "smooth:lp", f"smooth.lp(n={m}, fac={fac}, pad={pad})", {"kind": "smooth"}, smooth.lp, x, facarg, **kw)
        ok2, out2 = real(ctx, "smooth:lp", f"smooth.lp(n={m}, fac={fac}, pad={pad})", {"kind": "smooth"}, smooth.lp, z, facarg, **kw)
        done += 2
        if ok and ok2 and (not p_same(out, x0, 1e-9) or shape_of(out2) != z.shape):
            ctx.violation("smooth:lp", f"smooth.lp(n={m} {x0.dtype}, fac={fac}, pad={pad}): constant {c} -> deviation "
                          f"{dev(out, x0)}, random input length {shape_of(out2)}", {"kind": "smooth"})
        if ok and ok2 and it % 2:
            # another constant of the same length and options right afterwards (nothing of the calls before may come back)
            x2 = np.full(m, float(c) + 2.0)
            ok, out = real(ctx, "smooth:lp", f"smooth.lp(n={m}, fac={fac}, pad={pad})", {"kind": "smooth"}, smooth.lp, x2.copy(), facarg, **kw)
            done += 1
            if ok and not p_same(out, x2, 1e-9):
                ctx.violation("smooth:lp", f"smooth.lp(n={m}, fac={fac}, pad={pad}), called after two signals of the same length: constant {c + 2.0} -> "
                              f"deviation {dev(out, x2)}",
                              {"kind": "smooth"})
        wl = rnd.choice([1, 3, 5, 7, 9, 11, 15, 21, 31, 2, 4, 6, 8, 10, 12, 20, 30])    # the docstring recommends odd lengths; the clause has no such limit
        win = rnd.choice(["flat", "hanning", "hamming", "bartlett", "blackman"])
        if it % 5 == 4 and 4 <= m <= 32:
            wl = m - 1                                                 # the shortest signal the docstring admits for a window
        kw = {"window_len": wl, "window": win}
        if it % 7 == 6 and m >= 11:
            wl, win, kw = 11, "blackman", {}                           # both options left to their defaults
        if m >= wl:
            xarg = x if it % 2 else [float(v) for v in x0]
            ok, out = real(ctx, "smooth:rolling-window", f"smooth.rolling_window(n={m}, window_len={wl}, {win})", {"kind": "smooth"},
                           smooth.rolling_window, xarg, **kw)
            ok2, out2 = real(ctx, "smooth:rolling-window", f"smooth.rolling_window(list, n={m}, window_len={wl}, {win})", {"kind": "smooth"},
                             smooth.rolling_window, list(z) if it % 3 else z, **kw)
            done += 2
            if ok and ok2 and (not p_same(out, x0, 1e-9) or shape_of(out2) != z.shape):
                ctx.violation("smooth:rolling-window", f"smooth.rolling_window(n={m} {x0.dtype}, window_len={wl}, {win}): constant {c} -> "
                              f"{shape_of(out)} max dev {dev(out, x0)}, random input length {shape_of(out2)}", {"kind": "smooth"})
            if ok and ok2 and it % 2 == 0:
                x2 = np.full(m, float(c) - 1.5)
                ok, out = real(ctx, "smooth:rolling-window", f"smooth.rolling_window(n={m}, window_len={wl}, {win})", {"kind": "smooth"},
                               smooth.rolling_window, x2.copy(), **kw)
                done += 1
                if ok and not p_same(out, x2, 1e-9):
                    ctx.violation("smooth:rolling-window", f"smooth.rolling_window(n={m}, window_len={wl}, {win}), called after two signals of the "
                                  f"same length: constant {c - 1.5} -> {shape_of(out)} max dev "
                                  f"{dev(out, x2)}", {"kind": "smooth"})
        # non-uniform Savitzky-Golay: polynomials up to the order, irregular abscissae; orders up to window - 1 (the largest the
        # function accepts) for the short windows; abscissae / ordinates as arrays or as the lists of floats the docstring names
        order = rnd.choice([0, 1, 2, 3, 4])
        window = rnd.choice([w for w in (3, 5, 7, 11, 15, 21, 31) if w > order + 1])
        if it % 6 == 5:
            window, order = rnd.choice([(3, 2), (5, 4), (5, 3), (3, 1)])
        npts = rnd.randint(window + 1, window + 120)
        xx = np.cumsum(nrnd.uniform(0.2, 3.0, npts)) * rnd.choice([0.01, 1.0, 33.3]) + rnd.uniform(-100, 100)
        if it % 8 == 7:
            xx = np.cumsum(nrnd.integers(1, 6, npts)) + rnd.randint(-100, 100)        # integer abscissae (sample numbers with gaps)
        aslist = it % 3 == 2
        for deg in range(order + 1):
            co = nrnd.standard_normal(deg + 1)
            yy = np.polyval(co, (xx - xx.mean()) / (np.ptp(xx) / 2))
            xa, ya = ([v.item() for v in xx], [float(v) for v in yy]) if aslist else (xx.copy(), yy.copy())
            ok, out = real(ctx, "smooth:savgol-polynomial", f"non_uniform_savgol(window={window}, polynom={order}, {npts} points"
                           f"{', lists' if aslist else ''})", {"kind": "smooth"}, smooth.non_uniform_savgol, xa, ya, window, order)
            done += 1
            if ok and not p_same(out, yy, 1e-6):
                ctx.violation("smooth:savgol-polynomial", f"non_uniform_savgol(window={window}, polynom={order}{', lists' if aslist else ''}) does not "
                              f"reproduce a polynomial of degree {deg} on {npts} irregular abscissae: max error "
                              f"{dev(out, yy)}", {"kind": "smooth"})
        # NaN gaps
        npts = rnd.randint(80, 400)
        sig = np.sin(np.arange(npts) / rnd.uniform(5, 40)) + 0.1 * nrnd.standard_normal(npts) + rnd.choice([0.0, 0.0, 250.0])
        pat = rnd.choice(["random", "bursts", "edges", "none"])
        if pat == "random":
            sig[nrnd.random(npts) < rnd.uniform(0.02, 0.3)] = np.nan
        elif pat == "bursts":
            for _b in range(rnd.randint(1, 5)):
                a = rnd.randrange(npts)
                sig[a:a + rnd.randint(1, 12)] = np.nan
        elif pat == "edges":
            sig[:rnd.randint(1, 6)] = np.nan
            sig[-rnd.randint(1, 6):] = np.nan
        window = rnd.choice([5, 11, 31])
        order = rnd.choice([1, 2, 3])
        kw = {"window": window, "order": order, "interp_kind": rnd.choice(["linear", "quadratic", "cubic"])}
        if it % 4 == 3:
            window, order, kw = 31, 3, {}                              # every option left to its default
        if np.sum(~np.isnan(sig)) > window + 2:
            sarg = sig.copy() if it % 5 else [float(v) for v in sig]
            ok, out = real(ctx, "smooth:savgol-nan", f"smooth_interpolate_savgol(n={npts}, window={window}, order={order}, NaN pattern {pat})",
                           {"kind": "smooth"}, smooth.smooth_interpolate_savgol, sarg, **kw)
            done += 1
            if ok and not finite_like(out, sig.shape, real_only=True):
                ctx.violation("smooth:savgol-nan", f"smooth_interpolate_savgol(n={npts}, window={window}, order={order}, NaN pattern {pat}) "
                              f"returns non-finite values or a different length", {"kind": "smooth"})
    ctx.count(done)
    return done


# ------------------------------------------------------------------------------------------------
# run
# ------------------------------------------------------------------------------------------------

def run(ctx):
    recs = []
    del _HUNG[:]
    try:
        _run(ctx, recs)
    except Abandon as e:
        # the calls that did not return are violations of their clauses: report them (and whatever else the records made until then
        # show) instead of waiting for the remaining calls
        ctx.log(f"[C20] {e}: the rest of the run is not started")
        recs += [t for t in _HUNG if t is not None and not any(t is u for u in recs)]
        if recs and not getattr(ctx, "_c20_validated", False):
            validate(ctx, recs, "calls-before-abandon")
        if not ctx.violations:
            raise tlc.TLCError(f"{e}, but no violation was recorded")


def _run(ctx, recs):
    ctx.level = "model_checking"
    rnd = random.Random(ctx.seed)
    nrnd = np.random.default_rng(ctx.seed)
    tier = "quick" if ctx.quick else "thorough"
    # 1. models
    cfgs = [f"Counting_{k}_{tier}" for k in ("venn2", "venn3", "stack", "traj")]
    with ThreadPoolExecutor(max_workers=4) as ex:
        res = list(ex.map(lambda c: tlc.run("lib/Counting.tla", f"mc/{c}.cfg", workers=4 if "venn" in c else 2, timeout=3000,
                                            coverage=not ctx.quick), cfgs))
    for c, r in zip(cfgs, res):
        ctx.tlc(r, c)
        if not r.ok:
            raise tlc.TLCError(f"{c}: the implementation layer of Counting.tla violates {r.invariant_violated}; it mirrors code on which the "
                               f"property was observed to hold, so the model is wrong:\n{r.out[-1500:]}")
        if not ctx.quick:
            kind = c.split("_")[1][:4]
            mine = {"venn": {"PeelLevel", "EndChunk"}, "stac": {"StackCompute"}, "traj": {"TrajCompute"}}[kind]
            zero = set(tlc.coverage_zero_actions(r.out)) & mine
            if zero:
                raise tlc.TLCError(f"{c}: actions never taken: {sorted(zero)}")
    _t(ctx, "models")
    # 2./3. venn
    memo_numba_jit()
    sdts = ["int64", "int64", "int32", "uint32", "uint64", "float64"]
    cdts = ["int64", "int64", "int32", "int16", "uint8", "float64"]
    for name in (f"venn2_{tier}", f"venn3_{tier}"):
        cases = export(ctx, name)
        # recordings longer than 2^31 / 2^32 samples (coarse bins keep the number of chunks small): a sample of the box
        far = rnd.sample(cases, min(len(cases), 10 if ctx.quick else 150))
        cap = 700 if ctx.quick else 4000
        if len(cases) > cap:
            cases = rnd.sample(cases, cap)
        for c in cases:
            binsize, chbin = rnd.choice([3, 4, 12]), rnd.choice([2, 4])
            sdt, cdt, seq = rnd.choice(sdts), rnd.choice(cdts), rnd.choice([tuple, tuple, list])
            nchb = rnd.choice([2, 2, 3])
            trains = venn_trains(c["cols"], rnd, binsize, chbin, nchb, rnd.choice([0, 2]), 0, sdt, cdt, ro=rnd.random() < 0.4)
            if any(t[0].size == 0 for t in trains):
                continue            # the code takes the maximum of every train: a sorter without spikes is outside the domain
            # the number of channels need not be a multiple of the channel bin: the last bin may be a partial one
            nch = nchb * chbin - rnd.choice([0, 0, 1]) if max(int(t[1].max()) for t in trains) < nchb * chbin - 1 else nchb * chbin
            chunks = [None, binsize, binsize * rnd.choice([2, 3]), binsize + 1, rnd.randint(1, 3 * binsize + 1)]
            # a chunk size that is not a whole number of samples (the default is 20 * fs, and fs is a calibrated rate such as
            # 30000.07: seed round i): every spike still belongs to exactly one chunk
            frac = [binsize * rnd.choice([1, 2]) + rnd.choice([0.25, 0.5, 0.75]), rnd.randint(1, 3 * binsize) + rnd.choice([0.07, 0.4])]
            for ch in (chunks + frac if not ctx.quick else rnd.sample(chunks, 3) + [rnd.choice(frac)]):
                t = venn_call(trains, binsize, chbin, nch, ch, seq=seq)
                t.update(chunk=ch, binsize=binsize, scenario={"kind": "venn", "cols": c["cols"], "binsize": binsize, "chbin": chbin,
                                                              "chunk": ch, "nch": nch, "sdt": sdt, "cdt": cdt,
                                                              "trains": [[a.tolist(), b.tolist()] for a, b in trains]})
                if t["mutated"]:
                    venn_reuse(ctx, t, trains, binsize, chbin, nch)
                elif ch is None or ch % binsize == 0:
                    t["exp"] = c["exp"]
                recs.append(t)
                ctx.count(1, key=("venn", json.dumps(c["cols"]), ch) if max(max(col) for col in c["cols"]) > 1 else None)
        for c in far:
            binsize, chbin = rnd.choice([2 ** 26, 3 * 2 ** 25]), rnd.choice([2, 4])
            edge = rnd.choice([2 ** 31, 2 ** 32, 2 ** 33])
            base = (edge // binsize - rnd.choice([0, 1])) * binsize        # the first bins straddle or follow the edge
            sdt = rnd.choice(["int64", "uint64", "float64"] + (["uint32"] if base + (len(c["cols"]) + 2) * binsize < 2 ** 32 else []))
            trains = venn_trains(c["cols"], rnd, binsize, chbin, 2, rnd.choice([0, 2]), base, sdt, rnd.choice(cdts))
            if any(t[0].size == 0 for t in trains):
                continue
            chunks = [binsize, 2 * binsize, binsize + 1, rnd.randint(binsize // 2 + 1, 3 * binsize)]
            for ch in rnd.sample(chunks, 2):
                t = venn_call(trains, binsize, chbin, 2 * chbin, ch)
                t.update(chunk=ch, binsize=binsize, scenario={"kind": "venn", "cols": c["cols"], "binsize": binsize, "chbin": chbin,
                                                              "chunk": ch, "nch": 2 * chbin, "sdt": sdt, "cdt": str(trains[0][1].dtype),
                                                              "trains": [[a.tolist(), b.tolist()] for a, b in trains]})
                if t["mutated"]:
                    venn_reuse(ctx, t, trains, binsize, chbin, 2 * chbin, chunk=2 * binsize)
                elif ch % binsize == 0:
                    t["exp"] = c["exp"]
                recs.append(t)
                ctx.count(1, key=("venn-far", json.dumps(c["cols"]), edge, ch))
        # dense bins: the count tables of the box scaled so that one sorter has more than 127 (more than 255) spikes in one bin
        # (coarse bins, high firing rates).  The peeling is homogeneous: k times the table gives k times the regions.  Tables
        # whose largest count stays below 190 are validated by TLC like the others (its recursive peeling is limited to about 200
        # levels); the larger ones are judged here with the property's own clause (every spike of every sorter in exactly one
        # region) and with k times TLC's expectation.
        for j, c in enumerate(rnd.sample(cases, min(len(cases), 8 if ctx.quick else 120))):
            top = max(max(col) for col in c["cols"])
            if top == 0:
                continue
            k = (rnd.randint(128, 189) // top) if j % 2 == 0 else rnd.choice([256, 300, 1000]) // top + 1
            cols = [[v * k for v in col] for col in c["cols"]]
            binsize, chbin = rnd.choice([3000, 900]), 4
            sdt, cdt = rnd.choice(sdts), rnd.choice(cdts)
            trains = venn_trains(cols, rnd, binsize, chbin, 2, rnd.choice([0, 2]), 0, sdt, cdt)
            if any(t[0].size == 0 for t in trains):
                continue
            for ch in rnd.sample([None, binsize, 2 * binsize, binsize + 1], 2):
                t = venn_call(trains, binsize, chbin, 2 * chbin, ch)
                sc_ = {"kind": "venn", "cols": cols, "binsize": binsize, "chbin": chbin, "chunk": ch, "nch": 2 * chbin, "sdt": sdt,
                       "cdt": cdt, "trains": [[a.tolist(), b.tolist()] for a, b in trains]}
                t.update(chunk=ch, binsize=binsize, scenario=sc_)
                ctx.count(1, key=("venn-dense", json.dumps(cols), ch))
                if t["mutated"]:
                    venn_reuse(ctx, t, trains, binsize, chbin, 2 * chbin)
                    continue
                aligned = ch is None or ch % binsize == 0
                if top * k < 190:
                    if aligned:
                        t["exp"] = [v * k for v in c["exp"]]
                    recs.append(t)
                    continue
                nsrt = len(trains)
                names = [format(i, f"0{nsrt}b") for i in range(1, 2 ** nsrt)]
                what = (f"spikes_venn{nsrt} on trains with up to {top * k} spikes of one sorter in a bin (bins of {binsize} samples x "
                        f"{chbin} channels, chunk_size={ch})")
                if t["exc"] or len(t["ret"]) != len(names):
                    ctx.violation("venn:raised", f"{what} raised {t['exc']} / returned no complete dictionary", sc_)
                    continue
                per = [sum(v for n_, v in zip(names, t["ret"]) if n_[s_] == "1") for s_ in range(nsrt)]
                if per != t["N"] or any(v < 0 for v in t["ret"]):
                    ctx.violation("venn:attribution", f"{what}: spikes attributed per sorter {per}, the trains hold {t['N']} (every spike "
                                  f"of every sorter belongs to exactly one region)", sc_)
                elif aligned and t["ret"] != [v * k for v in c["exp"]]:
                    ctx.violation("venn:attribution", f"{what}: regions {t['ret']}, {k} times the expectation of spec/lib/Counting.tla for "
                                  f"the table divided by {k} is {[v * k for v in c['exp']]}", sc_)
    # spike trains as sorters produce them: sampling rates as the meta files give them (floats, so that the default chunk size is a
    # float), default bin size derived from the rate, other element types, and the plain call that leaves every option to its default
    nreal = 4 if ctx.quick else 40
    for k in range(nreal):
        ns = 2 + k % 2
        fs = [30000, 30000.0, 2500.0, 29999.95][(k // 2) % 4]
        trains = realistic_trains(rnd, nrnd, ns, rnd.choice([3, 25, 45]), fs, 384, rnd.choice([20, 80]))
        sdt, cdt = rnd.choice(sdts), rnd.choice(cdts[:4])
        trains = [(a.astype(SDT[sdt]), c.astype(CDT[cdt])) for a, c in trains]
        if k % 4 == 3:
            trains[1] = trains[0]           # one sorting compared with itself: the same array objects for two sorters
        if k % 3 == 2:
            for a, c in trains:
                a.setflags(write=False)
                c.setflags(write=False)
        opts = [None, int(fs) * 7] if k % 2 else [None, 12345]
        if fs == 30000:
            opts.append("bare")
        for ch in opts:
            t = venn_call(trains, None, 4, 384, None if ch == "bare" else ch, fs=fs, bare=ch == "bare")
            t.update(chunk=ch, binsize="default", scenario={"kind": "venn-realistic"})
            if t["mutated"]:
                venn_reuse(ctx, t, trains, None, 4, 384, fs=fs)
            recs.append(t)
            ctx.count(1, key=("venn-real", k, ch))
    _t(ctx, f"venn calls ({len(recs)})")
    # stack
    nv = len(recs)
    scases = export(ctx, f"stack_{tier}")
    byword = {tuple(c["word"]): c for c in scases}
    for c in scases:
        for agg, nm in ((np.sum, "sum"), (np.nanmean, "nanmean")):
            wkind = rnd.choice(["float", "float", "int", "int16", "list"])
            ddt = rnd.choice(["float64", "float64", "float32", "int64"]) if nm == "sum" else "float64"
            t, data, lab = stack_call(c["word"], rnd, nrnd, agg, wkind, ddt)
            t.update(agg=nm, exp=c["exp"], scenario={"kind": "stack", "word": c["word"], "agg": nm, "wkind": wkind, "ddt": ddt})
            recs.append(t)
            ctx.count(1, key=("stack", tuple(c["word"]), nm) if len(set(c["word"])) > 1 else None)
        stack_numeric(ctx, c, data, lab, byword)
    _t(ctx, f"stack calls ({len(recs) - nv})")
    # trajectory
    nv = len(recs)
    tx = export(ctx, f"traj_{tier}")[0]
    fullrank = tx["fullrank"]
    for l in tx["layouts"]:
        ck = rnd.choice(COORD_KINDS)
        cells, x, y = layout_coords(l["present"], rnd, ck)
        t = traj_call(l["nx"], l["ny"], cells, x, y)
        t.update(exp=l["exp"], scenario={"kind": "traj", "nx": l["nx"], "ny": l["ny"], "present": l["present"], "coords": ck})
        recs.append(t)
        ctx.count(1, key=("traj", l["nx"], l["ny"], len(cells)))
    big = [(nx, ny, stag) for nx in range(1, 5) for ny in range(4, 41) for stag in (False, True) if not (stag and nx < 2)]
    rnd.shuffle(big)
    for nx, ny, stag in big[:(25 if ctx.quick else 200)]:
        ck = rnd.choice(COORD_KINDS)
        cells, x, y = layout_coords(grid_cells(nx, ny, stag), rnd, ck)
        t = traj_call(nx, ny, cells, x, y)
        t.update(scenario={"kind": "traj", "nx": nx, "ny": ny, "present": [list(c) for c in grid_cells(nx, ny, stag)], "coords": ck})
        recs.append(t)
        ctx.count(1, key=("traj", nx, ny, len(cells)))
    _t(ctx, f"trajectory calls ({len(recs) - nv})")
    mism = compare_expected(recs)
    order = list(range(len(recs)))
    rnd.shuffle(order)
    shuf = [recs[i] for i in order]
    verdicts = validate(ctx, shuf, "calls")
    ctx._c20_validated = True
    bad = {id(shuf[v["index"]]) for v in verdicts}
    for t, what in mism:
        if id(t) in bad:
            continue
        if t["kind"] == "venn":
            # the trace spec peels the bin counts that the code itself asked bincount2D for; the expectation is the peeling of the
            # table the harness planted with the bin sizes it passed.  A call that both accept apart binned the spikes otherwise
            # than it was asked to: spikes that share no bin are counted as coincident or the reverse (the same verdict as for the
            # dense tables above)
            ctx.violation("venn:attribution", f"{describe(t)}: {what} for the planted count table (spec/lib/Counting.tla), while the bin "
                          f"counts the call worked on peel to what it returned: spikes are attributed to another region than their bins "
                          f"(as given by samples_binsize / channels_binsize) say", t.get("scenario", {"kind": "venn"}))
            continue
        raise tlc.TLCError(f"spec->code: {describe(t)} differs from the exported expectation ({what}) but the trace spec accepted "
                           f"that call: the two bindings disagree")
    ctx.cov["spec_to_code_cases"] = sum(1 for t in recs if "exp" in t)
    _t(ctx, "calls validated")
    # 4. numeric projections
    n1 = numeric_cadzow(ctx, rnd, nrnd, fullrank, 60 if ctx.quick else 400, 20 if ctx.quick else 100)
    n1 += numeric_np1(ctx, rnd, nrnd, fullrank, 5 if ctx.quick else 40)
    _t(ctx, f"cadzow projections ({n1})")
    n2 = numeric_svd(ctx, rnd, nrnd, 60 if ctx.quick else 600)
    n3 = numeric_smooth(ctx, rnd, nrnd, 70 if ctx.quick else 1000)
    _t(ctx, f"svd / smooth projections ({n2}, {n3})")
    for t in (recs[0], recs[nv - 1], recs[-1]):
        ctx.sample({k: v for k, v in t.items() if k not in ("scenario", "entries", "exp")} | {"n_entries": len(t.get("entries", []))})
    selftest(ctx, shuf, {v["index"] for v in verdicts})
    ctx.cov["numeric_postconditions"] = {"cadzow": n1, "svd_denoise_npx": n2, "smoothers": n3,
                                         "note": "decided by projection on the real output (identity 1e-9 rel, polynomial reproduction 1e-6 rel, "
                                                 "noise: error strictly below the added noise), not by TLC"}
    ctx.cov["rule"] = ("model: all count tables / label vectors / layouts of the boxes; spec->code: each exported case replayed; code->spec: one "
                       "record per real call of spikes_venn2/3 (x chunk sizes), stack (sum, nanmean), trajectory; non-trivial = table with a bin "
                       "count > 1, label vector with > 1 label, layout")
    ctx.cov["exhaustive"] = True
    ctx.assumptions += ["every sorter has at least one spike; spike samples are sorted non-negative integers",
                        "plane-wave identity demanded on regular full grids (the code documents regularly spaced coordinates)",
                        "smooth.lp pad in (0, 1] or left to its default, signals of 1..700 samples; rolling_window with window lengths 1..31 of both parities, up to the signal length; savgol window < number of points (the docstring's limit), order <= window - 1 for windows 3 and 5",
                        "single precision inputs (complex64 spectra, float32 matrices): identities demanded to 1e-5 relative; smoothers are given float32 / integer constants that these types hold exactly",
                        "cadzow_np1 (the windowed caller of cadzow.denoise): parameter sets of its docstring, an even number of samples, rank = full rank of one window, identity demanded of the frequencies strictly below fmax",
                        "noise-reduction scenarios: regular grids with >= 16 rows resp. matrices with ns > nc >= 8 x rank; requested rank = number of plane waves / rank of the signal; noise 20-30 % (measured error ratio <= 0.6, required < 1)"]


def stack_numeric(ctx, c, data, lab, byword=None):
    """projection: median / nanmean with NaN / header aggregation against numpy on the member rows the spec expects.  The caller's
    objects are used the way a caller uses them: the same data / label arrays for every call, and the same header dictionary for a
    second stack along another label vector (the reversed one: its expected groups are the exported case of the reversed word)"""
    import ibldsp.voltage as voltage
    rows = [np.array(r) - 1 for r in c["exp"]["rows"]]
    d2 = data.copy()
    if d2.shape[0] > 2:
        d2[0, 3] = np.nan
    hdr = {"a": np.arange(len(lab), dtype=float), "b": data[:, 2].copy()}
    dat = data.copy()
    lb = dat[:, 1]                       # the labels as callers often hold them: a column of the data (a view)
    if len(c["word"]) % 2:
        dat.setflags(write=False)
    c2 = (byword or {}).get(tuple(reversed(c["word"])))
    lab2 = lab[::-1].copy()
    ok = False

    class Raised(Exception):
        pass

    def call(*a, **k):
        try:
            with deadline():
                return voltage.stack(*a, **k)
        except (Exception, SystemExit, Hang) as e:
            raise Raised(e) from None
    with quiet():
        try:
            try:
                r_med = call(dat, lb, fcn_agg=np.median)
                r_nm = call(d2.copy(), lb)
                r_hs = call(dat, lb, header=hdr)
                ctx.count(3)
                (med, _), (nm, _), (_, hs) = r_med, r_nm, r_hs
                ok = (med.shape[0] == len(rows) and all(np.allclose(med[k], np.median(data[r], axis=0), rtol=1e-9, atol=1e-12) for k, r in enumerate(rows))
                      and all(np.allclose(nm[k], np.nanmean(d2[r], axis=0), rtol=1e-9, atol=1e-12, equal_nan=True) for k, r in enumerate(rows))
                      and list(np.asarray(hs["fold"])) == c["exp"]["fold"]
                      and all(np.allclose(hs["a"][k], np.mean(r), rtol=1e-9) for k, r in enumerate(rows)))
                if ok and c2 is not None:
                    rows2 = [np.array(r) - 1 for r in c2["exp"]["rows"]]
                    r_st2 = call(dat, lab2, header=hdr, fcn_agg=np.sum)
                    ctx.count(1)
                    st2, hs2 = r_st2
                    ok = (st2.shape[0] == len(rows2) and list(np.asarray(hs2["fold"])) == c2["exp"]["fold"]
                          and all(np.allclose(st2[k], np.sum(data[r], axis=0), rtol=1e-9, atol=1e-12) for k, r in enumerate(rows2))
                          and all(np.allclose(hs2["a"][k], np.mean(r), rtol=1e-9) and np.allclose(hs2["b"][k], np.mean(data[r, 2]), rtol=1e-9, atol=1e-12)
                                  for k, r in enumerate(rows2)))
                ok = bool(ok)
            except Raised:
                raise
            except Exception:  # noqa  what was returned cannot be read as (stack, fold / header with a fold): not the aggregates
                ok = False
        except Raised as w:
            e = w.args[0]
            ctx.violation("stack:aggregate-raised", f"stack(word={c['word']}) with median / NaN / header raised {exc_name(e)}: {str(e)[:120]}",
                          {"kind": "stack", "word": c["word"], "agg": "numeric"})
            if isinstance(e, Hang):
                hung()
            return
    if not ok:
        ctx.violation("stack:aggregate", f"stack(word={c['word']}): median / nanmean / header aggregates (header dictionary and arrays used for "
                      f"a second stack along the reversed labels) are not the aggregates of the traces carrying each label",
                      {"kind": "stack", "word": c["word"], "agg": "numeric"})


def compare_expected(recs):
    mism = []
    for t in recs:
        e = t.get("exp")
        if e is None or t["exc"]:
            continue
        if t["kind"] == "venn" and t["ret"] != e:
            mism.append((t, f"expected {e}"))
        elif t["kind"] == "stack":
            # labels were mapped increasingly: groups compare by rank
            if t["fold"] != e["fold"] or t["rows"] != e["rows"] or len(t["groups"]) != len(e["groups"]):
                mism.append((t, f"expected fold {e['fold']} rows {e['rows']}"))
        elif t["kind"] == "traj":
            ent = sorted((r, c, tuple(t["cells"][k - 1])) for r, c, k in t["entries"] if 1 <= k <= len(t["cells"]))
            exp = sorted((r, c, tuple(cell)) for r, c, cell in e["entries"])
            mult = {tuple(cell): m for cell, m in e["mult"]}
            got = {tuple(cell): m for cell, m in zip(t["cells"], t["trcount"])}
            if ent != exp or t["shape"] != e["shape"] or mult != got:
                mism.append((t, f"expected shape {e['shape']}, {len(exp)} entries"))
    return mism


def selftest(ctx, recs, bad):
    def pick(kind, cond, n):
        out = [t for i, t in enumerate(recs) if i not in bad and t["kind"] == kind and not t["exc"] and cond(t)][:n]
        if len(out) < n:
            if ctx.violations or ctx.drift:
                return []
            raise tlc.TLCError(f"selftest: not enough accepted {kind} records")
        return out
    mut, want = [], []
    for t0 in pick("venn", lambda t: t["ns"] == 2 and t["ret"][2] > 0, 4):        # a coincident pair counted for sorter 1 only
        t = copy.deepcopy(t0)
        t["ret"][2] -= 1
        t["ret"][1] += 1
        mut.append(t)
        want.append("prop")
    for t0 in pick("venn", lambda t: len(t["chunks"]) >= 2 and any(t["chunks"][0]), 4):   # a chunk event dropped
        t = copy.deepcopy(t0)
        del t["chunks"][0]
        mut.append(t)
        want.append("impl")
    for t0 in pick("stack", lambda t: len(t["fold"]) >= 2, 4):
        t = copy.deepcopy(t0)
        t["fold"][0] += 1
        mut.append(t)
        want.append("prop")
    for t0 in pick("stack", lambda t: len(t["fold"]) >= 2, 4):                     # a trace aggregated into the wrong row
        t = copy.deepcopy(t0)
        t["rows"][1].append(t["rows"][0].pop())
        t["fold"] = [len(r) for r in t["rows"]]
        mut.append(t)
        want.append("prop")
    for t0 in pick("traj", lambda t: len(t["entries"]) >= 3, 4):
        t = copy.deepcopy(t0)
        t["trcount"][0] += 1
        mut.append(t)
        want.append("prop")
    for t0 in pick("traj", lambda t: len(t["entries"]) >= 3, 4):                   # an occurrence not listed
        t = copy.deepcopy(t0)
        del t["entries"][1]
        mut.append(t)
        want.append("prop")
    keep = ctx.cov["traces_validated_against_impl"]
    if not mut:
        ctx.log("[C20] trace self-test skipped: no accepted records on this tree (violations / drift reported above)")
    v = tracecheck.validate(ctx, TRACE[0], TRACE[1], [slim(t) for t in mut], label="selftest", jvms=1, nstates=nstates)
    ctx.cov["traces_validated_against_impl"] = keep
    got = {x["index"]: x for x in v}
    for i, wnt in enumerate(want):
        x = got.get(i)
        if x is None or not x[wnt]:
            raise tlc.TLCError(f"binding self-test: corrupted {mut[i]['kind']} record {i} was not flagged as {wnt}: {x}")
    ctx.cov["selftest_corrupted_records_flagged"] = len(mut)
    # the spec -> code comparator and the projections must notice a perturbed value
    t = next((t for t in recs if t["kind"] == "venn" and "exp" in t and not t["exc"]), None)
    t2 = dict(t, exp=[v + 1 for v in t["exp"]]) if t else None
    a = np.linspace(1, 2, 50)
    if ((t2 is not None and not compare_expected([t2])) or p_same(a + 1e-6, a, 1e-9) or not p_same(a + 1e-12, a, 1e-9) or p_same(a[:-1], a, 1e-9)
            or p_reduced(a + 0.2, a, a + 0.1) or not p_reduced(a + 0.05, a, a + 0.1)):
        raise tlc.TLCError("binding self-test: a perturbed expected value / output was not noticed by the comparators")


def replay(ctx, sc):
    del _HUNG[:]
    try:
        _replay(ctx, sc)
    except Abandon as e:
        ctx.log(f"[C20] {e}: the rest of the replay is not started")
        hung_recs = [t for t in _HUNG if t is not None]
        if hung_recs:
            validate(ctx, hung_recs, "replay-before-abandon", jvms=1)
        if not ctx.violations:
            raise tlc.TLCError(f"{e}, but no violation was recorded")


def _replay(ctx, sc):
    memo_numba_jit()
    rnd = random.Random(ctx.seed)
    nrnd = np.random.default_rng(ctx.seed)
    kind = sc.get("kind")
    recs = []
    if kind == "venn":
        trains = [(np.array(a).astype(SDT.get(sc.get("sdt"), np.int64)), np.array(b).astype(CDT.get(sc.get("cdt"), np.int64))) for a, b in sc["trains"]]
        t = venn_call(trains, sc["binsize"], sc["chbin"], sc.get("nch", 2 * sc["chbin"]), sc["chunk"])
        t.update(chunk=sc["chunk"], binsize=sc["binsize"], scenario=sc)
        if t["mutated"]:
            venn_reuse(ctx, t, trains, sc["binsize"], sc["chbin"], sc.get("nch", 2 * sc["chbin"]), chunk=2 * sc["binsize"])
        recs.append(t)
    elif kind == "stack":
        for agg, nm in ((np.sum, "sum"), (np.nanmean, "nanmean")):
            for wkind in (["float", "int", "int16", "list"] if nm == "sum" else [sc.get("wkind", "float")]):
                for ddt in (["float64", "float32", "int64"] if nm == "sum" else ["float64"]):
                    t, data, lab = stack_call(sc["word"], rnd, nrnd, agg, wkind, ddt)
                    t.update(agg=nm, scenario=sc)
                    recs.append(t)
        exp = export(ctx, "stack_thorough" if len(sc["word"]) > 5 else "stack_quick")
        byword = {tuple(c["word"]): c for c in exp}
        for c in exp:
            if c["word"] == sc["word"]:
                stack_numeric(ctx, c, data, lab, byword)
    elif kind == "traj":
        for ck in dict.fromkeys([sc.get("coords", "float"), "float", "int", "f32", "list"]):
            cells, x, y = layout_coords(sc["present"], rnd, ck)
            t = traj_call(sc["nx"], sc["ny"], cells, x, y)
            t.update(scenario=sc)
            recs.append(t)
    else:
        # numeric scenarios are regenerated from the seed: re-run the projections of the quick tier
        fullrank = export(ctx, "traj_quick")[0]["fullrank"]
        if kind == "cadzow":
            numeric_cadzow(ctx, rnd, nrnd, fullrank, 40, 20)
            numeric_np1(ctx, rnd, nrnd, fullrank, 5)
        elif kind == "svd":
            numeric_svd(ctx, rnd, nrnd, 100)
        else:
            numeric_smooth(ctx, rnd, nrnd, 300)
    if recs:
        validate(ctx, recs, "replay", jvms=1)
