"""C20 - denoising, smoothing and counting utilities conserve what they must.

Discrete clauses (TLC): spec/lib/Counting.tla
  (a) Venn peeling of spiketrains._spikes_venn: every spike of every sorter in exactly one region, for any chunking
  (b) voltage.stack: one row per label, aggregate of exactly the traces with that label, fold = their number
  (c) cadzow.traj_matrix_indices / trajectory: every trace in the matrix, trcount = its number of occurrences
  1. model checking of the three state machines over exhaustive boxes
  2. spec -> code: TLC exports every case of a box with the implementation layer's result; replayed on the real code
  3. code -> spec: every real call is recorded (bin_counts per chunk read off bincount2D's return values, member rows
     decoded from power-of-two trace values, it/itr/trcount) and validated by spec/trace/CountingTrace.tla
Numeric clauses (projection, NOT TLC), on the scenario grid layout x rank given by Counting!FullRank:
  cadzow.denoise / svd_denoise_npx identity at full rank and for one plane wave at rank >= 1, noise reduced at lower rank;
  smooth.lp / rolling_window keep constants and length; non_uniform_savgol reproduces polynomials of degree <= order;
  smooth_interpolate_savgol returns finite values over NaN gaps.
Binding self-tests: corrupted records must be flagged by the trace spec, perturbed outputs by the projections.
"""
import contextlib
import copy
import io
import json
import os
import random
import warnings
from concurrent.futures import ThreadPoolExecutor

# many small SVDs: BLAS threads only fight each other (and the TLC JVMs) for the cores
for _v in ("OMP_NUM_THREADS", "OPENBLAS_NUM_THREADS", "MKL_NUM_THREADS"):
    os.environ.setdefault(_v, "1")

import numpy as np  # noqa: E402

from vkit import tlc, tracecheck  # noqa: E402

TRACE = ("trace/CountingTrace.tla", "trace/CountingTrace.cfg")


@contextlib.contextmanager
def quiet():
    with contextlib.redirect_stdout(io.StringIO()), contextlib.redirect_stderr(io.StringIO()), warnings.catch_warnings():
        warnings.simplefilter("ignore")
        yield


# ------------------------------------------------------------------------------------------------
# (a) Venn
# ------------------------------------------------------------------------------------------------

def venn_trains(cols, rnd, binsize, chbin, nchbins, spread):
    """count table (bins x sorters) -> sorted spike trains; bin b sits in a distinct (time bin, channel bin)"""
    nb, ns = len(cols), len(cols[0])
    slots = [(tb, cb) for tb in range(nb + spread) for cb in range(nchbins)]
    place = rnd.sample(slots, nb)
    trains = []
    for s in range(ns):
        sp = []
        for b in range(nb):
            tb, cb = place[b]
            for _ in range(cols[b][s]):
                sp.append((tb * binsize + rnd.randrange(binsize), cb * chbin + rnd.randrange(chbin)))
        sp.sort()
        trains.append((np.array([a for a, _ in sp], dtype=np.int64), np.array([c for _, c in sp], dtype=np.int64)))
    return trains


def venn_call(trains, binsize, chbin, nch, chunk, fs=30000):
    """one real call -> trace record (chunks = non-empty bin_counts columns per chunk)"""
    import ibldsp.spiketrains as st
    ns = len(trains)
    got = []
    orig = st.bincount2D

    def spy(*a, **k):
        r = orig(*a, **k)
        got.append(np.asarray(r[0]).flatten())
        return r
    rec = {"kind": "venn", "ns": ns, "N": [int(t[0].size) for t in trains], "chunks": [], "ret": [], "exc": ""}
    st.bincount2D = spy
    try:
        with quiet():
            f = st.spikes_venn2 if ns == 2 else st.spikes_venn3
            res = f(tuple(t[0] for t in trains), tuple(t[1] for t in trains), samples_binsize=binsize,
                    channels_binsize=chbin, fs=fs, num_channels=nch, chunk_size=chunk)
        names = [format(i, f"0{ns}b") for i in range(1, 2 ** ns)]
        rec["ret"] = [int(res[n]) if n in res else -1 for n in names]
        if set(res) != set(names):
            rec["ret"] = []
    except Exception as e:
        rec["exc"] = type(e).__name__
    finally:
        st.bincount2D = orig
    if len(got) % ns == 0 and not rec["exc"]:
        for k in range(0, len(got), ns):
            m = np.stack(got[k:k + ns])
            nz = np.where(np.any(m != 0, axis=0))[0]
            rec["chunks"].append([[int(v) if float(v).is_integer() else -1 for v in m[:, j]] for j in nz])
    elif not rec["exc"]:
        rec["chunks"] = [[[-1] * ns]]
    return rec


def realistic_trains(rnd, nrnd, ns, dur_s, fs, nch, rate):
    """a common pool of spikes, each sorter finds a random subset, jitters it, and adds false positives"""
    n = int(dur_s * rate)
    pool_s = np.sort(nrnd.integers(0, int(dur_s * fs), n))
    pool_c = nrnd.integers(0, nch, n)
    out = []
    for _ in range(ns):
        keep = nrnd.random(n) < rnd.uniform(0.5, 0.95)
        s = pool_s[keep] + nrnd.integers(-3, 4, keep.sum())
        c = np.clip(pool_c[keep] + nrnd.integers(-1, 2, keep.sum()), 0, nch - 1)
        nf = int(n * rnd.uniform(0.0, 0.3))
        s = np.r_[s, nrnd.integers(0, int(dur_s * fs), nf)]
        c = np.r_[c, nrnd.integers(0, nch, nf)]
        s = np.clip(s, 0, None)
        o = np.argsort(s, kind="stable")
        out.append((s[o].astype(np.int64), c[o].astype(np.int64)))
    return out


# ------------------------------------------------------------------------------------------------
# (b) stack
# ------------------------------------------------------------------------------------------------

def stack_call(word, rnd, nrnd, agg):
    """labels 1..k are mapped to increasing arbitrary values; column 0 = 2^trace, column 1 = the label value"""
    import ibldsp.voltage as voltage
    n = len(word)
    vals = sorted(rnd.sample(range(-50, 50), max(word)))
    lab = np.array([vals[w - 1] for w in word], dtype=float)
    data = np.c_[2.0 ** np.arange(n), lab, nrnd.standard_normal((n, 3))]
    rec = {"kind": "stack", "word": [int(v) for v in lab], "groups": [], "fold": [], "rows": [], "exc": ""}
    try:
        with quiet():
            st, fold = voltage.stack(data.copy(), lab.copy(), fcn_agg=agg)
        fold = [int(f) for f in np.asarray(fold)]
        tot = st[:, 0] * (np.array(fold) if agg is not np.sum else 1.0)
        rec["fold"] = fold
        rec["groups"] = [int(round(v / (f if agg is np.sum else 1))) if f else 10 ** 6 for v, f in zip(st[:, 1], fold)]
        rec["rows"] = [[i + 1 for i in range(n) if (int(round(t)) >> i) & 1] if abs(t - round(t)) < 1e-6 and 0 <= t < 2 ** n
                       else [0] for t in tot]
    except Exception as e:
        rec["exc"] = type(e).__name__
    return rec, data, lab


# ------------------------------------------------------------------------------------------------
# (c) trajectory
# ------------------------------------------------------------------------------------------------

def layout_coords(present, rnd):
    cells = [tuple(c) for c in present]
    rnd.shuffle(cells)
    x0, y0, dx, dy = rnd.uniform(-50, 50), rnd.uniform(-100, 2000), rnd.choice([16.0, 32.0, 6.0, 1.0]), rnd.choice([20.0, 15.0, 6.0, 2.5])
    x = np.array([x0 + dx * c[0] for c in cells])
    y = np.array([y0 + dy * c[1] for c in cells])
    return cells, x, y


def traj_call(nx, ny, cells, x, y):
    import ibldsp.cadzow as cadzow
    rec = {"kind": "traj", "nx": nx, "ny": ny, "cells": [list(c) for c in cells], "shape": [], "entries": [], "trcount": [], "exc": ""}
    try:
        with quiet():
            T, it, itr, trcount = cadzow.trajectory(x, y)
        rec["shape"] = [int(v) for v in T.shape]
        rec["entries"] = [[int(r), int(c), int(t) + 1] for r, c, t in zip(it[0], it[1], itr)]
        rec["trcount"] = [int(v) for v in trcount]
    except Exception as e:
        rec["exc"] = type(e).__name__
    return rec


def grid_cells(nx, ny, stag):
    return [(i, j) for i in range(nx) for j in range(ny) if not stag or (i + j) % 2 == 0]


# ------------------------------------------------------------------------------------------------
# validation plumbing
# ------------------------------------------------------------------------------------------------

def nstates(t):
    return (len(t["chunks"]) if t["kind"] == "venn" else 0) + 3


def describe(t):
    if t["kind"] == "venn":
        return f"spikes_venn{t['ns']}(N={t['N']}, chunk_size={t.get('chunk')}, binsize={t.get('binsize')}) -> {t['ret'] or t['exc']}"
    if t["kind"] == "stack":
        return f"stack(word={t['word']}, {t.get('agg')}) -> fold {t['fold'] or t['exc']}, rows {t['rows']}"
    return f"trajectory({t['nx']}x{t['ny']} layout, {len(t['cells'])} traces) -> shape {t['shape'] or t['exc']}, trcount {t['trcount'][:12]}"


KEYS = {"venn": ("kind", "ns", "N", "chunks", "ret", "exc"), "stack": ("kind", "word", "groups", "fold", "rows", "exc"),
        "traj": ("kind", "nx", "ny", "cells", "shape", "entries", "trcount", "exc")}


def slim(t):
    return {k: t[k] for k in KEYS[t["kind"]]}


def validate(ctx, recs, label, jvms=4):
    out = tracecheck.validate(ctx, TRACE[0], TRACE[1], [slim(t) for t in recs], label=label, jvms=jvms, workers=2, nstates=nstates, timeout=1500)
    ndrift = 0
    for v in out:
        t = recs[v["index"]]
        if v["prop"]:
            ctx.violation(f"{t['kind']}:{v['prop'].split(':')[0].lower()}", f"{describe(t)}: property-layer clause {v['prop']} false on "
                          f"the observed values [{label}]", t.get("scenario", {"kind": t["kind"]}))
        elif v["impl"]:
            ndrift += 1
            if ndrift <= 8:
                ctx.spec_drift(f"{describe(t)}: {v['impl']} differs from spec/lib/Counting.tla (property-layer clauses hold) [{label}]")
    if ndrift > 8:
        ctx.spec_drift(f"... {ndrift - 8} further records of [{label}] differ from the implementation layer")
    return out


def export(ctx, name):
    out = ctx.scratch / f"export_{name}.json"
    r = tlc.run("mc/MC_CountingExport.tla", f"mc/CountingExport_{name}.cfg", workers=1, timeout=900, env={"OUT_FILE": str(out)})
    ctx.tlc(r, f"export_{name}")
    if not r.ok or not out.exists():
        raise tlc.TLCError(f"export {name} failed:\n{r.out[-2000:]}")
    return json.loads(out.read_text())


def _t(ctx, what):
    import time
    now = time.time()
    ctx.log(f"[C20] {what}: +{now - getattr(ctx, '_t', ctx.t0):.1f}s")
    ctx._t = now


# ------------------------------------------------------------------------------------------------
# numeric projections (thresholds: identities 1e-9 relative, polynomial reproduction 1e-6 relative; correct code is
# better than 1e-10 / 1e-8; "reduces noise": strictly smaller error than the noise that was added)
# ------------------------------------------------------------------------------------------------

def p_same(out, ref, tol):
    out, ref = np.asarray(out), np.asarray(ref)
    if out.shape != ref.shape or not np.all(np.isfinite(out)):
        return False
    return float(np.max(np.abs(out - ref))) <= tol * max(1.0, float(np.max(np.abs(ref))))


def p_reduced(out, clean, noisy):
    out = np.asarray(out)
    if out.shape != np.asarray(clean).shape or not np.all(np.isfinite(out)):
        return False
    return float(np.linalg.norm(out - clean)) < float(np.linalg.norm(np.asarray(noisy) - clean))


def real(ctx, key, what, sc, f, *a, **k):
    """call the real code; an exception on an input of the property's domain is a violation ("returns ...")"""
    try:
        with quiet():
            return True, f(*a, **k)
    except Exception as e:
        ctx.violation(key + "-raised", f"{what} raised {type(e).__name__}: {str(e)[:120]}", sc)
        return False, None


def plane_waves(x, y, nf, nrnd, nwaves):
    W = np.zeros((x.size, nf), dtype=complex)
    for _ in range(nwaves):
        kx, ky = nrnd.uniform(-0.05, 0.05), nrnd.uniform(-0.05, 0.05)
        amp = nrnd.standard_normal(nf) + 1j * nrnd.standard_normal(nf)
        W += np.exp(1j * (kx * x + ky * y))[:, None] * amp[None, :]
    return W


def numeric_cadzow(ctx, rnd, nrnd, fullrank, n_id, n_noise):
    import ibldsp.cadzow as cadzow
    done = 0
    shapes = [(nx, ny) for nx in range(1, 5) for ny in range(4, 41)]
    rnd.shuffle(shapes)
    for k, (nx, ny) in enumerate(shapes[:n_id]):
        stag = nx >= 2 and k % 3 == 2
        cells, x, y = layout_coords(grid_cells(nx, ny, stag), rnd)
        nf = rnd.choice([1, 3, 6])
        full = fullrank[nx - 1][ny - 1]
        sc = {"kind": "cadzow", "nx": nx, "ny": ny, "stag": stag, "seed": rnd.randrange(10 ** 9), "nf": nf}
        W = nrnd.standard_normal((x.size, nf)) + 1j * nrnd.standard_normal((x.size, nf))
        ok, out = real(ctx, "cadzow:full-rank-identity", f"cadzow.denoise on a {nx}x{ny} layout at full rank {full}", dict(sc, case="full"),
                       cadzow.denoise, W.copy(), x, y, full, niter=rnd.choice([1, 2]))
        done += 1
        if ok and not p_same(out, W, 1e-9):
            ctx.violation("cadzow:full-rank-identity", f"cadzow.denoise on a {nx}x{ny}{' staggered' if stag else ''} layout at full rank "
                          f"{full} changes its input by {np.max(np.abs(out - W)):.3g}", dict(sc, case="full"))
        if not stag:
            P = plane_waves(x, y, nf, nrnd, 1)
            for r in range(1, min(3, full) + 1):
                ok, out = real(ctx, "cadzow:plane-wave-identity", f"cadzow.denoise of one plane wave on a {nx}x{ny} grid at rank {r}",
                               dict(sc, case="plane", rank=r), cadzow.denoise, P.copy(), x, y, r)
                done += 1
                if ok and not p_same(out, P, 1e-9):
                    ctx.violation("cadzow:plane-wave-identity", f"cadzow.denoise of one plane wave on a {nx}x{ny} grid at rank {r} "
                                  f"changes its input by {np.max(np.abs(out - P)):.3g}", dict(sc, case="plane", rank=r))
    # noise reduction below full rank: well-posed scenarios (regular grid with >= 16 rows, rank = number of waves; measured
    # error ratio <= 0.6 over 8 seeds, required < 1)
    shapes = [(nx, ny) for nx in range(1, 5) for ny in range(16, 41)]
    rnd.shuffle(shapes)
    for nx, ny in shapes[:n_noise]:
        cells, x, y = layout_coords(grid_cells(nx, ny, False), rnd)
        nw = 1 if nx == 1 else rnd.choice([1, 2])
        if nw >= fullrank[nx - 1][ny - 1]:
            continue
        S = plane_waves(x, y, 4, nrnd, nw)
        Nz = 0.3 * (nrnd.standard_normal(S.shape) + 1j * nrnd.standard_normal(S.shape))
        ok, out = real(ctx, "cadzow:noise-reduced", f"cadzow.denoise at rank {nw} on a {nx}x{ny} grid", {"kind": "cadzow", "case": "noise"},
                       cadzow.denoise, S + Nz, x, y, nw)
        done += 1
        if ok and not p_reduced(out, S, S + Nz):
            ctx.violation("cadzow:noise-reduced", f"cadzow.denoise at rank {nw} on a {nx}x{ny} grid does not reduce the added noise: "
                          f"error {np.linalg.norm(out - S):.3g} vs noise {np.linalg.norm(Nz):.3g}", {"kind": "cadzow", "case": "noise"})
    ctx.count(done)
    return done


def numeric_svd(ctx, rnd, nrnd, n):
    import ibldsp.voltage as voltage
    done = 0
    for _ in range(n):
        nc = rnd.choice([4, 6, 8, 12, 16, 24, 32, 48])
        ns = rnd.choice([nc + 5, 3 * nc, 200, max(2, nc - 3)])
        D = nrnd.standard_normal((nc, ns))
        ng = rnd.choice([1, 2, 3, 4])
        if rnd.random() < 0.5:
            coll = np.sort(nrnd.integers(0, ng, nc))
        else:
            coll = np.repeat(np.arange(ng), -(-nc // ng))[:nc]
        if rnd.random() < 0.5:
            coll = coll[nrnd.permutation(nc)]
        for c in (None, coll):
            ok, out = real(ctx, "svd:full-rank-identity", f"svd_denoise_npx({nc}x{ns}, rank={nc})", {"kind": "svd"},
                           voltage.svd_denoise_npx, D.copy(), rank=nc, collection=c)
            done += 1
            if ok and not p_same(out, D, 1e-9):
                ctx.violation("svd:full-rank-identity", f"svd_denoise_npx({nc}x{ns}, rank={nc}, collection={'None' if c is None else c.tolist()}) "
                              f"changes its input by {np.max(np.abs(out - D)):.3g}", {"kind": "svd"})
        # low-rank signal + noise, requested rank = rank of the signal
        k = rnd.choice([1, 2, 3])
        if ns > nc >= 8 * k:
            S = nrnd.standard_normal((nc, k)) @ nrnd.standard_normal((k, ns))
            Nz = 0.2 * nrnd.standard_normal((nc, ns))
            ok, out = real(ctx, "svd:noise-reduced", f"svd_denoise_npx({nc}x{ns}, rank={k})", {"kind": "svd"}, voltage.svd_denoise_npx, S + Nz, rank=k)
            done += 1
            if ok and not p_reduced(out, S, S + Nz):
                ctx.violation("svd:noise-reduced", f"svd_denoise_npx({nc}x{ns}, rank={k}) does not reduce the added noise", {"kind": "svd"})
            ok, out = real(ctx, "svd:rank-k-identity", f"svd_denoise_npx({nc}x{ns}, rank={k})", {"kind": "svd"}, voltage.svd_denoise_npx, S.copy(), rank=k)
            done += 1
            if ok and not p_same(out, S, 1e-9):
                ctx.violation("svd:rank-k-identity", f"svd_denoise_npx of a rank-{k} {nc}x{ns} matrix at rank {k} changes its input by "
                              f"{np.max(np.abs(out - S)):.3g}", {"kind": "svd"})
    # ranks 1..full on data of exactly that rank, over the channel counts of the layouts of the quantifier (1-4 columns x 4-40
    # rows): the per-collection rank handed to the truncated SVD must not fall below the rank asked for
    ncs = sorted({c * r for c in (1, 2, 3, 4) for r in range(4, 41)})
    if n < 100:
        ncs = [nc for nc in ncs if nc <= 64] + rnd.sample([nc for nc in ncs if nc > 64], 6)
    for nc in ncs:
        ks = range(1, nc + 1) if nc <= 64 or n >= 100 else sorted(rnd.sample(range(1, nc + 1), 24))
        ns = nc + 6
        A, B = nrnd.standard_normal((nc, nc)), nrnd.standard_normal((nc, ns))
        for k in ks:
            S = A[:, :k] @ B[:k, :]
            ok, out = real(ctx, "svd:rank-k-identity", f"svd_denoise_npx({nc}x{ns}, rank={k})", {"kind": "svd"}, voltage.svd_denoise_npx, S.copy(), rank=k)
            done += 1
            if ok and not p_same(out, S, 1e-8):
                ctx.violation("svd:rank-k-identity", f"svd_denoise_npx of a rank-{k} {nc}x{ns} matrix at rank {k} changes its input by "
                              f"{np.max(np.abs(out - S)):.3g}", {"kind": "svd"})
        # collections (shanks): each block of channels has exactly the share of the rank that its size gives it (integer arithmetic)
        for ng in (2, 3, 4):
            if nc % ng or nc // ng < 4:
                continue
            coll = np.repeat(np.arange(ng), nc // ng)
            for k in sorted(set(rnd.sample(range(ng, nc + 1), min(12, nc + 1 - ng)))):
                kb = (k * (nc // ng)) // nc
                if kb < 1:
                    continue
                S = np.concatenate([nrnd.standard_normal((nc // ng, kb)) @ nrnd.standard_normal((kb, ns)) for _ in range(ng)])
                ok, out = real(ctx, "svd:rank-k-identity", f"svd_denoise_npx({nc}x{ns}, rank={k}, {ng} collections)", {"kind": "svd"},
                               voltage.svd_denoise_npx, S.copy(), rank=k, collection=coll)
                done += 1
                if ok and not p_same(out, S, 1e-8):
                    ctx.violation("svd:rank-k-identity", f"svd_denoise_npx of {ng} collections of rank {kb} ({nc}x{ns}) at rank {k} changes its "
                                  f"input by {np.max(np.abs(out - S)):.3g}", {"kind": "svd"})
    ctx.count(done)
    return done


def numeric_smooth(ctx, rnd, nrnd, n):
    import ibldsp.smooth as smooth
    done = 0
    for _ in range(n):
        # lp / rolling_window: constants and length
        m = rnd.choice([rnd.randint(8, 60), rnd.randint(60, 700)])
        c = rnd.choice([0.0, 1.0, -3.5, 1e-6, 12345.678])
        x = np.full(m, c)
        f0 = rnd.uniform(0.02, 0.6)
        fac = [f0, f0 + rnd.uniform(0.02, 0.3)]
        pad = rnd.choice([0.05, 0.2, 0.5, 1.0])
        z = nrnd.standard_normal(m)
        ok, out = real(ctx, "smooth:lp", f"smooth.lp(n={m}, fac={fac}, pad={pad})", {"kind": "smooth"}, smooth.lp, x, fac, pad=pad)
        ok2, out2 = real(ctx, "smooth:lp", f"smooth.lp(n={m}, fac={fac}, pad={pad})", {"kind": "smooth"}, smooth.lp, z, fac, pad=pad)
        done += 2
        if ok and ok2 and (not p_same(out, x, 1e-9) or np.asarray(out2).shape != z.shape):
            ctx.violation("smooth:lp", f"smooth.lp(n={m}, fac={fac}, pad={pad}): constant {c} -> deviation "
                          f"{np.max(np.abs(np.asarray(out) - c)) if np.asarray(out).shape == x.shape else 'shape ' + str(np.asarray(out).shape)}, "
                          f"random input length {np.asarray(out2).shape}", {"kind": "smooth"})
        wl = rnd.choice([1, 3, 5, 7, 9, 11, 15, 21, 31, 2, 4, 6, 8, 10, 12, 20, 30])    # the docstring recommends odd lengths; the clause has no such limit
        win = rnd.choice(["flat", "hanning", "hamming", "bartlett", "blackman"])
        if m >= wl:
            ok, out = real(ctx, "smooth:rolling-window", f"smooth.rolling_window(n={m}, window_len={wl}, {win})", {"kind": "smooth"},
                           smooth.rolling_window, x, window_len=wl, window=win)
            ok2, out2 = real(ctx, "smooth:rolling-window", f"smooth.rolling_window(list, n={m}, window_len={wl}, {win})", {"kind": "smooth"},
                             smooth.rolling_window, list(z), window_len=wl, window=win)
            done += 2
            if ok and ok2 and (not p_same(out, x, 1e-9) or np.asarray(out2).shape != z.shape):
                ctx.violation("smooth:rolling-window", f"smooth.rolling_window(n={m}, window_len={wl}, {win}): constant {c} -> "
                              f"{np.asarray(out).shape} max dev {np.max(np.abs(np.asarray(out) - c)) if np.asarray(out).shape == x.shape else 'n/a'}, "
                              f"random input length {np.asarray(out2).shape}", {"kind": "smooth"})
        # non-uniform Savitzky-Golay: polynomials up to the order, irregular abscissae
        order = rnd.choice([0, 1, 2, 3, 4])
        window = rnd.choice([w for w in (3, 5, 7, 11, 15, 21, 31) if w > order + 1])
        npts = rnd.randint(window + 1, window + 120)
        xx = np.cumsum(nrnd.uniform(0.2, 3.0, npts)) * rnd.choice([0.01, 1.0, 33.3]) + rnd.uniform(-100, 100)
        for deg in range(order + 1):
            co = nrnd.standard_normal(deg + 1)
            yy = np.polyval(co, (xx - xx.mean()) / (np.ptp(xx) / 2))
            ok, out = real(ctx, "smooth:savgol-polynomial", f"non_uniform_savgol(window={window}, polynom={order}, {npts} points)", {"kind": "smooth"},
                           smooth.non_uniform_savgol, xx, yy, window, order)
            done += 1
            if ok and not p_same(out, yy, 1e-6):
                ctx.violation("smooth:savgol-polynomial", f"non_uniform_savgol(window={window}, polynom={order}) does not reproduce a polynomial of "
                              f"degree {deg} on {npts} irregular abscissae: max error {np.max(np.abs(out - yy)):.3g}", {"kind": "smooth"})
        # NaN gaps
        npts = rnd.randint(80, 400)
        sig = np.sin(np.arange(npts) / rnd.uniform(5, 40)) + 0.1 * nrnd.standard_normal(npts)
        pat = rnd.choice(["random", "bursts", "edges", "none"])
        if pat == "random":
            sig[nrnd.random(npts) < rnd.uniform(0.02, 0.3)] = np.nan
        elif pat == "bursts":
            for _b in range(rnd.randint(1, 5)):
                a = rnd.randrange(npts)
                sig[a:a + rnd.randint(1, 12)] = np.nan
        elif pat == "edges":
            sig[:rnd.randint(1, 6)] = np.nan
            sig[-rnd.randint(1, 6):] = np.nan
        window = rnd.choice([5, 11, 31])
        order = rnd.choice([1, 2, 3])
        if np.sum(~np.isnan(sig)) > window + 2:
            ok, out = real(ctx, "smooth:savgol-nan", f"smooth_interpolate_savgol(n={npts}, window={window}, order={order}, NaN pattern {pat})",
                           {"kind": "smooth"}, smooth.smooth_interpolate_savgol, sig, window=window, order=order,
                           interp_kind=rnd.choice(["linear", "quadratic", "cubic"]))
            done += 1
            if ok and (np.asarray(out).shape != sig.shape or not np.all(np.isfinite(out))):
                ctx.violation("smooth:savgol-nan", f"smooth_interpolate_savgol(n={npts}, window={window}, order={order}, NaN pattern {pat}) "
                              f"returns non-finite values or a different length", {"kind": "smooth"})
    ctx.count(done)
    return done


# ------------------------------------------------------------------------------------------------
# run
# ------------------------------------------------------------------------------------------------

def run(ctx):
    ctx.level = "model_checking"
    rnd = random.Random(ctx.seed)
    nrnd = np.random.default_rng(ctx.seed)
    tier = "quick" if ctx.quick else "thorough"
    # 1. models
    cfgs = [f"Counting_{k}_{tier}" for k in ("venn2", "venn3", "stack", "traj")]
    with ThreadPoolExecutor(max_workers=4) as ex:
        res = list(ex.map(lambda c: tlc.run("lib/Counting.tla", f"mc/{c}.cfg", workers=4 if "venn" in c else 2, timeout=3000,
                                            coverage=not ctx.quick), cfgs))
    for c, r in zip(cfgs, res):
        ctx.tlc(r, c)
        if not r.ok:
            raise tlc.TLCError(f"{c}: the implementation layer of Counting.tla violates {r.invariant_violated}; it mirrors code on which the "
                               f"property was observed to hold, so the model is wrong:\n{r.out[-1500:]}")
        if not ctx.quick:
            kind = c.split("_")[1][:4]
            mine = {"venn": {"PeelLevel", "EndChunk"}, "stac": {"StackCompute"}, "traj": {"TrajCompute"}}[kind]
            zero = set(tlc.coverage_zero_actions(r.out)) & mine
            if zero:
                raise tlc.TLCError(f"{c}: actions never taken: {sorted(zero)}")
    _t(ctx, "models")
    recs = []
    # 2./3. venn
    for name in (f"venn2_{tier}", f"venn3_{tier}"):
        cases = export(ctx, name)
        cap = 700 if ctx.quick else 4000
        if len(cases) > cap:
            cases = rnd.sample(cases, cap)
        for c in cases:
            binsize, chbin = rnd.choice([3, 4, 12]), rnd.choice([2, 4])
            trains = venn_trains(c["cols"], rnd, binsize, chbin, 2, rnd.choice([0, 2]))
            if any(t[0].size == 0 for t in trains):
                continue            # the code takes the maximum of every train: a sorter without spikes is outside the domain
            chunks = [None, binsize, binsize * rnd.choice([2, 3]), binsize + 1, rnd.randint(1, 3 * binsize + 1)]
            for ch in (chunks if not ctx.quick else rnd.sample(chunks, 3)):
                t = venn_call(trains, binsize, chbin, 2 * chbin, ch)
                t.update(chunk=ch, binsize=binsize, scenario={"kind": "venn", "cols": c["cols"], "binsize": binsize, "chbin": chbin,
                                                              "chunk": ch, "trains": [[a.tolist(), b.tolist()] for a, b in trains]})
                if ch is None or ch % binsize == 0:
                    t["exp"] = c["exp"]
                recs.append(t)
                ctx.count(1, key=("venn", json.dumps(c["cols"]), ch) if max(max(col) for col in c["cols"]) > 1 else None)
    nreal = 4 if ctx.quick else 40
    for k in range(nreal):
        ns = 2 + k % 2
        trains = realistic_trains(rnd, nrnd, ns, rnd.choice([3, 25, 45]), 30000, 384, rnd.choice([20, 80]))
        for ch in ([None, 30000 * 7] if k % 2 else [None, 12345]):
            t = venn_call(trains, None, 4, 384, ch)
            t.update(chunk=ch, binsize="default", scenario={"kind": "venn-realistic"})
            recs.append(t)
            ctx.count(1, key=("venn-real", k, ch))
    _t(ctx, f"venn calls ({len(recs)})")
    # stack
    nv = len(recs)
    for c in export(ctx, f"stack_{tier}"):
        for agg, nm in ((np.sum, "sum"), (np.nanmean, "nanmean")):
            t, data, lab = stack_call(c["word"], rnd, nrnd, agg)
            t.update(agg=nm, exp=c["exp"], scenario={"kind": "stack", "word": c["word"], "agg": nm})
            recs.append(t)
            ctx.count(1, key=("stack", tuple(c["word"]), nm) if len(set(c["word"])) > 1 else None)
        stack_numeric(ctx, c, data, lab)
    _t(ctx, f"stack calls ({len(recs) - nv})")
    # trajectory
    nv = len(recs)
    tx = export(ctx, f"traj_{tier}")[0]
    fullrank = tx["fullrank"]
    for l in tx["layouts"]:
        cells, x, y = layout_coords(l["present"], rnd)
        t = traj_call(l["nx"], l["ny"], cells, x, y)
        t.update(exp=l["exp"], scenario={"kind": "traj", "nx": l["nx"], "ny": l["ny"], "present": l["present"]})
        recs.append(t)
        ctx.count(1, key=("traj", l["nx"], l["ny"], len(cells)))
    big = [(nx, ny, stag) for nx in range(1, 5) for ny in range(4, 41) for stag in (False, True) if not (stag and nx < 2)]
    rnd.shuffle(big)
    for nx, ny, stag in big[:(25 if ctx.quick else 200)]:
        cells, x, y = layout_coords(grid_cells(nx, ny, stag), rnd)
        t = traj_call(nx, ny, cells, x, y)
        t.update(scenario={"kind": "traj", "nx": nx, "ny": ny, "present": [list(c) for c in grid_cells(nx, ny, stag)]})
        recs.append(t)
        ctx.count(1, key=("traj", nx, ny, len(cells)))
    _t(ctx, f"trajectory calls ({len(recs) - nv})")
    mism = compare_expected(recs)
    order = list(range(len(recs)))
    rnd.shuffle(order)
    shuf = [recs[i] for i in order]
    verdicts = validate(ctx, shuf, "calls")
    bad = {id(shuf[v["index"]]) for v in verdicts}
    for t, what in mism:
        if id(t) not in bad:
            raise tlc.TLCError(f"spec->code: {describe(t)} differs from the exported expectation ({what}) but the trace spec accepted "
                               f"that call: the two bindings disagree")
    ctx.cov["spec_to_code_cases"] = sum(1 for t in recs if "exp" in t)
    _t(ctx, "calls validated")
    # 4. numeric projections
    n1 = numeric_cadzow(ctx, rnd, nrnd, fullrank, 25 if ctx.quick else 250, 10 if ctx.quick else 100)
    _t(ctx, f"cadzow projections ({n1})")
    n2 = numeric_svd(ctx, rnd, nrnd, 60 if ctx.quick else 600)
    n3 = numeric_smooth(ctx, rnd, nrnd, 70 if ctx.quick else 1000)
    _t(ctx, f"svd / smooth projections ({n2}, {n3})")
    for t in (recs[0], recs[nv - 1], recs[-1]):
        ctx.sample({k: v for k, v in t.items() if k not in ("scenario", "entries", "exp")} | {"n_entries": len(t.get("entries", []))})
    selftest(ctx, shuf, {v["index"] for v in verdicts})
    ctx.cov["numeric_postconditions"] = {"cadzow": n1, "svd_denoise_npx": n2, "smoothers": n3,
                                         "note": "decided by projection on the real output (identity 1e-9 rel, polynomial reproduction 1e-6 rel, "
                                                 "noise: error strictly below the added noise), not by TLC"}
    ctx.cov["rule"] = ("model: all count tables / label vectors / layouts of the boxes; spec->code: each exported case replayed; code->spec: one "
                       "record per real call of spikes_venn2/3 (x chunk sizes), stack (sum, nanmean), trajectory; non-trivial = table with a bin "
                       "count > 1, label vector with > 1 label, layout")
    ctx.cov["exhaustive"] = True
    ctx.assumptions += ["every sorter has at least one spike; spike samples are sorted non-negative integers",
                        "plane-wave identity demanded on regular full grids (the code documents regularly spaced coordinates)",
                        "smooth.lp pad in (0, 1]; rolling_window with window lengths 1..31 of both parities; savgol window < number of points",
                        "noise-reduction scenarios: regular grids with >= 16 rows resp. matrices with ns > nc >= 8 x rank; requested rank = number of plane waves / rank of the signal; noise 20-30 % (measured error ratio <= 0.6, required < 1)"]


def stack_numeric(ctx, c, data, lab):
    """projection: median / nanmean with NaN / header aggregation against numpy on the member rows the spec expects"""
    import ibldsp.voltage as voltage
    rows = [np.array(r) - 1 for r in c["exp"]["rows"]]
    d2 = data.copy()
    if d2.shape[0] > 2:
        d2[0, 3] = np.nan
    hdr = {"a": np.arange(len(lab), dtype=float), "b": data[:, 2].copy()}
    with quiet():
        med, _ = voltage.stack(data.copy(), lab.copy(), fcn_agg=np.median)
        nm, _ = voltage.stack(d2.copy(), lab.copy())
        _, hs = voltage.stack(data.copy(), lab.copy(), header=hdr)
    with quiet():
        ok = (med.shape[0] == len(rows) and all(np.allclose(med[k], np.median(data[r], axis=0), rtol=1e-9, atol=1e-12) for k, r in enumerate(rows))
              and all(np.allclose(nm[k], np.nanmean(d2[r], axis=0), rtol=1e-9, atol=1e-12, equal_nan=True) for k, r in enumerate(rows))
              and list(np.asarray(hs["fold"])) == c["exp"]["fold"]
              and all(np.allclose(hs["a"][k], np.mean(r), rtol=1e-9) for k, r in enumerate(rows)))
    ctx.count(3)
    if not ok:
        ctx.violation("stack:aggregate", f"stack(word={c['word']}): median / nanmean / header aggregates are not the aggregates of the traces "
                      f"carrying each label", {"kind": "stack", "word": c["word"], "agg": "numeric"})


def compare_expected(recs):
    mism = []
    for t in recs:
        e = t.get("exp")
        if e is None or t["exc"]:
            continue
        if t["kind"] == "venn" and t["ret"] != e:
            mism.append((t, f"expected {e}"))
        elif t["kind"] == "stack":
            # labels were mapped increasingly: groups compare by rank
            if t["fold"] != e["fold"] or t["rows"] != e["rows"] or len(t["groups"]) != len(e["groups"]):
                mism.append((t, f"expected fold {e['fold']} rows {e['rows']}"))
        elif t["kind"] == "traj":
            ent = sorted((r, c, tuple(t["cells"][k - 1])) for r, c, k in t["entries"] if 1 <= k <= len(t["cells"]))
            exp = sorted((r, c, tuple(cell)) for r, c, cell in e["entries"])
            mult = {tuple(cell): m for cell, m in e["mult"]}
            got = {tuple(cell): m for cell, m in zip(t["cells"], t["trcount"])}
            if ent != exp or t["shape"] != e["shape"] or mult != got:
                mism.append((t, f"expected shape {e['shape']}, {len(exp)} entries"))
    return mism


def selftest(ctx, recs, bad):
    def pick(kind, cond, n):
        out = [t for i, t in enumerate(recs) if i not in bad and t["kind"] == kind and not t["exc"] and cond(t)][:n]
        if len(out) < n:
            if ctx.violations or ctx.drift:
                return []
            raise tlc.TLCError(f"selftest: not enough accepted {kind} records")
        return out
    mut, want = [], []
    for t0 in pick("venn", lambda t: t["ns"] == 2 and t["ret"][2] > 0, 4):        # a coincident pair counted for sorter 1 only
        t = copy.deepcopy(t0)
        t["ret"][2] -= 1
        t["ret"][1] += 1
        mut.append(t)
        want.append("prop")
    for t0 in pick("venn", lambda t: len(t["chunks"]) >= 2 and any(t["chunks"][0]), 4):   # a chunk event dropped
        t = copy.deepcopy(t0)
        del t["chunks"][0]
        mut.append(t)
        want.append("impl")
    for t0 in pick("stack", lambda t: len(t["fold"]) >= 2, 4):
        t = copy.deepcopy(t0)
        t["fold"][0] += 1
        mut.append(t)
        want.append("prop")
    for t0 in pick("stack", lambda t: len(t["fold"]) >= 2, 4):                     # a trace aggregated into the wrong row
        t = copy.deepcopy(t0)
        t["rows"][1].append(t["rows"][0].pop())
        t["fold"] = [len(r) for r in t["rows"]]
        mut.append(t)
        want.append("prop")
    for t0 in pick("traj", lambda t: len(t["entries"]) >= 3, 4):
        t = copy.deepcopy(t0)
        t["trcount"][0] += 1
        mut.append(t)
        want.append("prop")
    for t0 in pick("traj", lambda t: len(t["entries"]) >= 3, 4):                   # an occurrence not listed
        t = copy.deepcopy(t0)
        del t["entries"][1]
        mut.append(t)
        want.append("prop")
    keep = ctx.cov["traces_validated_against_impl"]
    if not mut:
        ctx.log("[C20] trace self-test skipped: no accepted records on this tree (violations / drift reported above)")
    v = tracecheck.validate(ctx, TRACE[0], TRACE[1], [slim(t) for t in mut], label="selftest", jvms=1, nstates=nstates)
    ctx.cov["traces_validated_against_impl"] = keep
    got = {x["index"]: x for x in v}
    for i, wnt in enumerate(want):
        x = got.get(i)
        if x is None or not x[wnt]:
            raise tlc.TLCError(f"binding self-test: corrupted {mut[i]['kind']} record {i} was not flagged as {wnt}: {x}")
    ctx.cov["selftest_corrupted_records_flagged"] = len(mut)
    # the spec -> code comparator and the projections must notice a perturbed value
    t = next((t for t in recs if t["kind"] == "venn" and "exp" in t and not t["exc"]), None)
    t2 = dict(t, exp=[v + 1 for v in t["exp"]]) if t else None
    a = np.linspace(1, 2, 50)
    if ((t2 is not None and not compare_expected([t2])) or p_same(a + 1e-6, a, 1e-9) or not p_same(a + 1e-12, a, 1e-9) or p_same(a[:-1], a, 1e-9)
            or p_reduced(a + 0.2, a, a + 0.1) or not p_reduced(a + 0.05, a, a + 0.1)):
        raise tlc.TLCError("binding self-test: a perturbed expected value / output was not noticed by the comparators")


def replay(ctx, sc):
    rnd = random.Random(ctx.seed)
    nrnd = np.random.default_rng(ctx.seed)
    kind = sc.get("kind")
    recs = []
    if kind == "venn":
        trains = [(np.array(a, dtype=np.int64), np.array(b, dtype=np.int64)) for a, b in sc["trains"]]
        t = venn_call(trains, sc["binsize"], sc["chbin"], 2 * sc["chbin"], sc["chunk"])
        t.update(chunk=sc["chunk"], binsize=sc["binsize"], scenario=sc)
        recs.append(t)
    elif kind == "stack":
        for agg, nm in ((np.sum, "sum"), (np.nanmean, "nanmean")):
            t, data, lab = stack_call(sc["word"], rnd, nrnd, agg)
            t.update(agg=nm, scenario=sc)
            recs.append(t)
        exp = export(ctx, "stack_thorough" if len(sc["word"]) > 5 else "stack_quick")
        for c in exp:
            if c["word"] == sc["word"]:
                stack_numeric(ctx, c, data, lab)
    elif kind == "traj":
        cells, x, y = layout_coords(sc["present"], rnd)
        t = traj_call(sc["nx"], sc["ny"], cells, x, y)
        t.update(scenario=sc)
        recs.append(t)
    else:
        # numeric scenarios are regenerated from the seed: re-run the projections of the quick tier
        fullrank = export(ctx, "traj_quick")[0]["fullrank"]
        if kind == "cadzow":
            numeric_cadzow(ctx, rnd, nrnd, fullrank, 40, 20)
        elif kind == "svd":
            numeric_svd(ctx, rnd, nrnd, 100)
        else:
            numeric_smooth(ctx, rnd, nrnd, 300)
    if recs:
        validate(ctx, recs, "replay", jvms=1)
