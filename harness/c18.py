"""C18 - spectral helpers equal their textbook definitions for every length.

1. TLC: spec/lib/Spectral.tla - convolve as Pad / Transform / Inverse / Crop / ModeCrop on the impulse basis
   (every impulse pair for lengths <= 10|14; first and last impulse for every pair of lengths <= 80|200; helper
   facts for every length <= 80|300),
   ns_optim_fft, fscale, freduce / fexpand index maps, filter gain placement; property layer = direct
   convolution e_i * e_j = e_{i+j} ('full', 'same'), least 2^a 3^b, k/n bins with positive Nyquist,
   expand o reduce = Id on conjugate-symmetric spectra, lp / hp complementary.
2. code -> spec: the real convolve on the FULL impulse basis of every pair of lengths <= 24|40 (and of every
   pair whose padded size is a power of three up to 27|81), ns_optim_fft, fscale, tagged-spectrum index maps
   of freduce / fexpand on all axes of 1-3-D arrays, gain classes of lp / hp, validated by
   spec/trace/SpectralTrace.tla.
3. spec -> code: for every pair of lengths of TLC's box (80^2 | 300^2, always with every pair whose padded
   size is odd) the exported padded size / 'same' offset place the expected impulse; the real convolve is run
   on a partial basis (x = identity, a few kernels; a few signals, w = identity); exported helper outputs are
   compared with the real fscale / ns_optim_fft.
Numeric clauses decided by projection: sample == 0 / == 1 to 1e-9 for impulses; dense random inputs vs
np.convolve, expand(reduce(fft)) = fft, lp + hp = Id, bp = hp o lp, dft / dft2 vs fft / fft2 (1e-9 relative),
fcn_cosine monotone from 0 to 1.
"""
import copy
import json
import os
import random
from concurrent.futures import ProcessPoolExecutor, ThreadPoolExecutor

import numpy as np

from vkit import tlc, tracecheck

TOL = 1e-9
POW3 = (3, 9, 27, 81, 243, 729)


def fourier():
    from ibldsp import fourier as f
    return f


# ------------------------------------------------------------------------------------------------
# observations of the real code
# ------------------------------------------------------------------------------------------------
def summarise(out):
    """rows along the last axis -> p >= 0 clean impulse at p, -2 all zeros, -1 anything else"""
    out = np.asarray(out)
    L = out.shape[-1]
    if L == 0:
        return np.full(out.shape[:-1], -2, dtype=np.int64)
    fin = np.isfinite(out)
    ones = fin & (np.abs(out - 1) <= TOL)
    zeros = fin & (np.abs(out) <= TOL)
    c1, c0 = ones.sum(-1), zeros.sum(-1)
    res = np.full(out.shape[:-1], -1, dtype=np.int64)
    res[(c1 == 1) & (c0 == L - 1)] = np.argmax(ones, axis=-1)[(c1 == 1) & (c0 == L - 1)]
    res[c0 == L] = -2
    return res


def conv_record(nsx, nsw, mode):
    """the real convolve on the full impulse basis of (nsx, nsw)"""
    f = fourier()
    rec = {"kind": "conv", "nsx": nsx, "nsw": nsw, "mode": mode, "len": 0, "pos": [], "exc": ""}
    try:
        x = np.eye(nsx)[:, None, :]
        w = np.eye(nsw)[None, :, :]
        out = np.asarray(f.convolve(x, w, mode=mode))
        if out.shape[:-1] != (nsx, nsw):
            rec["pos"] = []
        else:
            rec["len"] = int(out.shape[-1])
            rec["pos"] = [[int(v) for v in r] for r in summarise(out)]
    except Exception as e:
        rec["exc"] = type(e).__name__
    return rec


def nsoptim_record(n):
    rec = {"kind": "nsoptim", "n": int(n), "v": 0, "exc": ""}
    try:
        rec["v"] = int(fourier().ns_optim_fft(n))
    except Exception as e:
        rec["exc"] = type(e).__name__
    return rec


def _num(v, scale):
    x = np.asarray(v, dtype=float) * scale
    r = np.round(x)
    ok = np.isfinite(x) & (np.abs(x - r) <= 1e-6)
    return [int(a) if b else -999999 for a, b in zip(np.where(ok, r, 0), ok)]


def fscale_record(n, si):
    rec = {"kind": "fscale", "n": int(n), "si": str(si), "two": [], "one": [], "exc": ""}
    try:
        f = fourier()
        rec["two"] = _num(f.fscale(n, si), n * si)
        rec["one"] = _num(f.fscale(n, si, one_sided=True), n * si)
    except Exception as e:
        rec["exc"] = type(e).__name__
    return rec


def _tagged(shape, axis):
    """complex array whose element along `axis` at k is (k+1) + 100000 r + i (k+1)/2, r = index of the other dims"""
    shape = list(shape)
    L = shape[axis]
    other = [s for d, s in enumerate(shape) if d != axis]
    r = np.arange(int(np.prod(other)) if other else 1).reshape(other if other else [1])
    k = np.arange(L) + 1
    a = (r[..., None] * 100000 + k) + 1j * (k / 2.0)          # axis last
    if not other:
        a = a.reshape(L)
    return np.moveaxis(a, -1, axis) if other else a


def _decode(out, axis):
    """-> list of [k, conj] along axis, or [-1, 0] where the element is not bin k of its own row"""
    out = np.asarray(out)
    nd = out.ndim
    o = np.moveaxis(out, axis, -1) if nd > 1 else out
    o2 = o.reshape(-1, o.shape[-1])
    res = []
    for m in range(o2.shape[-1]):
        col = o2[:, m]
        re, im = col.real, col.imag
        r = np.floor(re / 100000 + 1e-9)
        k = np.round(re - r * 100000)
        good = np.all(np.abs(re - r * 100000 - k) < 1e-6) and np.all(r == np.arange(o2.shape[0])) and np.all(k == k[0]) \
            and np.all(np.abs(np.abs(im) - k / 2.0) < 1e-9) and (np.all(im > 0) or np.all(im < 0)) and k[0] >= 1
        res.append([int(k[0]) - 1, int(im[0] < 0)] if good else [-1, 0])
    return res


def maps_record(n, shape_other, axis, use_default_axis=False):
    """freduce / fexpand on a tagged array with n bins along `axis`"""
    f = fourier()
    rec = {"kind": "maps", "n": int(n), "axis": axis, "other": list(shape_other), "reduce": [], "expand": [], "exc": ""}
    try:
        nd = len(shape_other) + 1
        ax = axis % nd
        shape = list(shape_other)
        shape.insert(ax, n)
        full = _tagged(shape, ax)
        kw = {} if use_default_axis else {"axis": axis}
        rec["reduce"] = _decode(f.freduce(full, **kw), ax)
        shape[ax] = n // 2 + 1
        half = _tagged(shape, ax)
        rec["expand"] = _decode(f.fexpand(half, n, **kw), ax)
    except Exception as e:
        rec["exc"] = type(e).__name__
    return rec


def filter_record(n, typ, b0, b1):
    """gain of lp / hp at every bin, from the response to an impulse; corners b0 / n, b1 / n (si = 1)"""
    f = fourier()
    rec = {"kind": "filter", "n": int(n), "typ": typ, "b0": int(b0), "b1": int(b1), "cls": [], "exc": ""}
    try:
        x = np.zeros(n)
        x[0] = 1
        y = getattr(f, typ)(x, 1, [b0 / n, b1 / n])
        G = np.fft.fft(y)
        cls = []
        for g in G:
            if abs(g.imag) > 1e-9 or not np.isfinite(g.real):
                cls.append("x")
            elif abs(g.real) <= 1e-9:
                cls.append("0")
            elif abs(g.real - 1) <= 1e-9:
                cls.append("1")
            elif 0 < g.real < 1:
                cls.append("m")
            else:
                cls.append("x")
        rec["cls"] = cls
    except Exception as e:
        rec["exc"] = type(e).__name__
    return rec


# ------------------------------------------------------------------------------------------------
# spec -> code: partial basis on TLC's pairs (run in worker processes)
# ------------------------------------------------------------------------------------------------
def _expect(nsx, nsw, off, mode, ii, jj):
    """where TLC's exported offset puts e_i * e_j = e_{i+j}: position, or -2 if outside the returned window"""
    if mode == "full":
        return ii + jj
    p = ii + jj - off
    return p if 0 <= p < nsx else -2


def pair_job(args):
    """-> list of failures (nsx, nsw, mode, clause, i, j, observed, expected, length)"""
    pairs, seed = args
    f = fourier()
    rnd = random.Random(seed)
    bad = []
    n_eval = 0
    for pr in pairs:
        nsx, nsw, off = pr["nsx"], pr["nsw"], pr["off"]
        js = sorted({0, nsw - 1, nsw // 2, rnd.randrange(nsw)})
        is_ = sorted({0, nsx - 1, rnd.randrange(nsx)})
        for mode in ("full", "same"):
            okl = {nsx + nsw - 1, nsx + nsw} if mode == "full" else {nsx}
            try:
                for jj in js:      # x = identity (every signal impulse), one kernel impulse
                    w = np.zeros(nsw)
                    w[jj] = 1
                    out = np.asarray(f.convolve(np.eye(nsx), w, mode=mode))
                    n_eval += nsx
                    if out.shape[-1] not in okl:
                        bad.append((nsx, nsw, mode, "Length", 0, jj, int(out.shape[-1]), sorted(okl), int(out.shape[-1])))
                        break
                    obs = summarise(out)
                    exp = np.array([_expect(nsx, nsw, off, mode, ii, jj) for ii in range(nsx)])
                    if not np.array_equal(obs, exp):
                        ii = int(np.argmax(obs != exp))
                        bad.append((nsx, nsw, mode, "Value", ii, jj, int(obs[ii]), int(exp[ii]), int(out.shape[-1])))
                        break
                else:
                    for ii in is_:  # one signal impulse, w = identity (every kernel impulse)
                        x = np.zeros(nsx)
                        x[ii] = 1
                        out = np.asarray(f.convolve(x, np.eye(nsw), mode=mode))
                        n_eval += nsw
                        obs = summarise(out)
                        exp = np.array([_expect(nsx, nsw, off, mode, ii, jj) for jj in range(nsw)])
                        if out.shape[-1] not in okl or not np.array_equal(obs, exp):
                            jj = int(np.argmax(obs != exp)) if obs.shape == exp.shape else 0
                            bad.append((nsx, nsw, mode, "Value", ii, jj, int(obs[jj]) if obs.shape == exp.shape else -1,
                                        int(exp[jj]), int(out.shape[-1])))
                            break
            except Exception as e:
                bad.append((nsx, nsw, mode, "Raised:" + type(e).__name__, 0, 0, 0, 0, 0))
    return bad, n_eval


def conv_job(args):
    return [conv_record(a, b, m) for a, b, m in args]


# ------------------------------------------------------------------------------------------------
# numeric postconditions (projection)
# ------------------------------------------------------------------------------------------------
def numeric(ctx, rng):
    import scipy.signal
    from ibldsp import utils
    f = fourier()
    out = []       # (key, what, scenario)

    def rel(a, b):
        a, b = np.asarray(a), np.asarray(b)
        if a.shape != b.shape:
            return np.inf
        return float(np.max(np.abs(a - b)) / (1e-300 + max(1.0, np.max(np.abs(b)))))

    # dense random inputs against direct convolution, incl. every power-of-three padded size, broadcasting, long
    sizes = [(2, 1), (1, 2), (5, 4), (13, 13), (26, 1), (40, 41), (100, 143), (200, 43), (500, 25), (500, 24), (700, 29),
             (1000, 1), (1, 1), (2187 - 100, 100), (4000, 373), (6000, 561 - 0)]
    sizes += [(int(rng.integers(1, 3000)), int(rng.integers(1, 400))) for _ in range(20 if ctx.quick else 200)]
    for nsx, nsw in sizes:
        x = rng.standard_normal((3, nsx))
        w = rng.standard_normal(nsw)
        ctx.count(2)
        for mode in ("full", "same"):
            try:
                c = np.asarray(f.convolve(x, w, mode=mode))
                ref = np.stack([scipy.signal.convolve(r, w, mode=mode, method="direct") for r in x])
                if mode == "full" and c.shape[-1] == nsx + nsw:
                    ref = np.concatenate([ref, np.zeros((3, 1))], axis=-1)
                e = rel(c, ref)
            except Exception as ex:
                e = np.inf
                c = type(ex).__name__
            if not e <= 1e-9:
                ns = int(f.ns_optim_fft(nsx + nsw))
                out.append((f"conv:Dense{mode.capitalize()}:{'odd' if ns % 2 else 'even'}-padded",
                            f"convolve(random [3,{nsx}], random [{nsw}], '{mode}') differs from direct convolution "
                            f"(rel. error {e}, padded size {ns})", {"kind": "dense", "nsx": nsx, "nsw": nsw, "mode": mode}))
    # "arbitrary contents": the element types of signal and kernel are independent (raw int16 samples or a boolean mask smoothed by a
    # fractional window, an integer kernel on a float trace): the result is the direct convolution of the values
    kinds = [("int16", "float64"), ("int32", "float64"), ("int64", "float32"), ("bool", "float64"), ("float64", "int16"),
             ("float32", "float64"), ("float64", "float32"), ("uint8", "float64"), ("float64", "bool")]
    for k, (dx, dw) in enumerate(kinds):
        for nsx, nsw in [(37, 8), (200, 43), (81 - 9, 9), (500, 25)][k % 2::2] + [(int(rng.integers(2, 400)), int(rng.integers(1, 60)))]:
            def draw(dt, n, shape):
                if dt == "bool":
                    return rng.random(shape) < 0.3
                if dt.startswith(("int", "uint")):
                    return rng.integers(0 if dt.startswith("u") else -300, 300, shape).astype(dt)
                return (rng.standard_normal(shape) * (1 if n > 1 else 0.37)).astype(dt)
            x, w = draw(dx, nsx, (2, nsx)), draw(dw, nsw, nsw)
            if not np.any(w):
                w[0] = 1
            ctx.count(2)
            for mode in ("full", "same"):
                try:
                    c = np.asarray(f.convolve(x, w, mode=mode))
                    ref = np.stack([scipy.signal.convolve(r.astype(np.float64), w.astype(np.float64), mode=mode, method="direct") for r in x])
                    if mode == "full" and c.shape[-1] == nsx + nsw:
                        ref = np.concatenate([ref, np.zeros((2, 1))], axis=-1)
                    e = rel(c, ref)
                except Exception as ex:
                    e = np.inf
                if not e <= (1e-4 if "float32" in (dx, dw) else 1e-9):
                    out.append((f"conv:Dense{mode.capitalize()}:dtypes",
                                f"convolve({dx} [2,{nsx}], {dw} [{nsw}], '{mode}') differs from the direct convolution of the values "
                                f"(rel. error {e})", {"kind": "dense", "nsx": nsx, "nsw": nsw, "mode": mode}))
    # expand(reduce(fft(real))) = fft(real), reduce(expand(half)) = half, all axes of 1-3-D arrays
    shapes = [(n,) for n in list(range(1, 40)) + [81, 243, 256, 729]] + [(n, 3) for n in (1, 2, 3, 8, 9, 27)] + \
             [(2, n) for n in (1, 2, 5, 6, 27, 28)] + [(2, n, 3) for n in (1, 4, 9, 12)] + [(n, 2, 2) for n in (3, 4, 81)] + \
             [(2, 3, n) for n in (5, 6, 243)]
    for sh in shapes:
        for ax in range(len(sh)):
            ctx.count(1)
            n = sh[ax]
            x = rng.standard_normal(sh)
            X = np.fft.fft(x, axis=ax)
            try:
                for axarg in ({ax, ax - len(sh)}):
                    R = f.freduce(X, axis=axarg)
                    E = f.fexpand(R, n, axis=axarg)
                    e1 = rel(E, X)
                    e2 = rel(f.freduce(E, axis=axarg), R)
                    e3 = rel(R, np.fft.rfft(x, axis=ax))
                    if not max(e1, e2, e3) <= 1e-12:
                        raise ValueError(f"errors {e1} {e2} {e3}")
            except Exception as ex:
                out.append(("maps:RoundTrip", f"freduce/fexpand on fft of a real {sh} array along axis {ax}: {ex}",
                            {"kind": "roundtrip", "shape": list(sh), "axis": ax}))
    # lp + hp = Id, bp = hp o lp; real output; every axis of 1-3-D arrays (also named negatively)
    cases = [((n,), 0) for n in list(range(2, 34)) + [81, 100, 243]]
    for sh in [(4, 30), (30, 4), (27, 2), (2, 31, 3), (9, 2, 3), (2, 3, 16), (5, 5, 5)]:
        cases += [(sh, ax) for ax in range(-len(sh), len(sh))]
    for sh, ax in cases:
        n = sh[ax]
        si = float(rng.choice([1.0, 0.002, 1 / 30000]))
        fn = 0.5 / si
        b = sorted(rng.uniform(0.05, 0.95, size=4) * fn)
        if rng.random() < 0.5:
            # the two tapers of the band-pass overlap (b[1] > b[2]): "band-pass is their product" does not ask for sorted corners
            b = [[b[0], b[2], b[1], b[3]], [b[0], b[3], b[1], b[2]], [b[1], b[3], b[0], b[2]]][int(rng.integers(3))]
        x = rng.standard_normal(sh)
        ctx.count(3)
        try:
            lo = f.lp(x, si, b[:2], axis=ax)
            hi = f.hp(x, si, b[:2], axis=ax)
            e1 = rel(lo + hi, x)
            bp = f.bp(x, si, b, axis=ax)
            e2 = rel(bp, f.hp(f.lp(x, si, b[2:], axis=ax), si, b[:2], axis=ax))
            # the filter acts along `ax` only: same result as filtering every 1-D trace on its own
            xm = np.moveaxis(x, ax, -1)
            ref = np.stack([f.lp(tr, si, b[:2]) for tr in xm.reshape(-1, n)]).reshape(xm.shape)
            e3 = rel(np.moveaxis(lo, ax, -1), ref)
            if not max(e1, e2, e3) <= 1e-10 or np.iscomplexobj(lo):
                raise ValueError(f"lp+hp-Id {e1}, bp-hp(lp) {e2}, per-trace {e3}")
        except Exception as ex:
            cls = "axis0-of-3d" if (len(sh) == 3 and ax % 3 == 0) else ("negative-axis" if ax < 0 else "other")
            out.append((f"filter:LpHpBp:{cls}", f"lp/hp/bp on a {sh} array along axis {ax}, si={si}, corners {b}: "
                        f"{type(ex).__name__}: {ex}", {"kind": "lphp", "shape": list(sh), "axis": ax}))
    # explicit DFTs against the FFT
    for n in list(range(1, 30)) + [64, 81, 100]:
        for cplx in (False, True):
            ctx.count(1)
            x = rng.standard_normal((n, 3)) + (1j * rng.standard_normal((n, 3)) if cplx else 0)
            try:
                ref = np.fft.fft(x, axis=0) if cplx else np.fft.rfft(x, axis=0)
                e1 = rel(f.dft(x, axis=0), ref)
                e2 = rel(f.dft(np.ascontiguousarray(x.T), axis=-1), ref.T)
                e3 = rel(f.dft(x[:, 0], axis=0), ref[:, 0])
                if not max(e1, e2, e3) <= 1e-9:
                    raise ValueError(f"errors {e1} {e2} {e3}")
            except Exception as ex:
                out.append(("dft:Dft1", f"dft of a {'complex' if cplx else 'real'} [{n},3] array: {ex}",
                            {"kind": "dft", "n": n, "complex": cplx}))
    for nk, nl in [(1, 1), (2, 3), (3, 2), (4, 4), (5, 7), (8, 3), (9, 9), (6, 10)]:
        ctx.count(1)
        nt = 3
        g = rng.standard_normal((nk, nl, nt))
        r, c = [v.flatten() for v in np.meshgrid(np.arange(nk) / nk, np.arange(nl) / nl, indexing="ij")]
        try:
            X = f.dft2(g.reshape(nk * nl, nt), r, c, nk, nl)
            e = rel(X, np.fft.fft2(g, axes=(0, 1)))
            if not e <= 1e-9:
                raise ValueError(f"error {e}")
        except Exception as ex:
            out.append(("dft:Dft2", f"dft2 on a regular {nk}x{nl} grid: {ex}", {"kind": "dft2", "nk": nk, "nl": nl}))
    # cosine soft threshold: 0 up to the lower bound, 1 from the upper bound, monotone in between
    for b0, b1 in [(0.0, 1.0), (-2.0, 3.5), (10.0, 10.5), (1e-3, 2e-3), (100.0, 300.0)] + \
                  [tuple(sorted(rng.uniform(-5, 5, size=2))) for _ in range(20)]:
        ctx.count(1)
        if b1 - b0 < 1e-6:
            continue
        xs = np.concatenate([np.linspace(b0 - (b1 - b0), b1 + (b1 - b0), 1001), [b0, b1, np.nextafter(b0, -np.inf), np.nextafter(b1, np.inf)]])
        xs.sort()
        try:
            y = utils.fcn_cosine([b0, b1])(xs.copy())
            inside = (xs > b0) & (xs < b1)
            ok = np.all(y[xs <= b0] == 0) and np.all(np.abs(y[xs >= b1] - 1) <= 1e-12) and np.all(np.diff(y) >= -1e-12) \
                and np.all((y >= 0) & (y <= 1 + 1e-12)) and np.all(y[inside][1:-1] > 0) and np.all(y[inside][1:-1] < 1) \
                and abs(float(utils.fcn_cosine([b0, b1])(np.array([(b0 + b1) / 2]))[0]) - 0.5) <= 1e-9
            if not ok:
                raise ValueError("not a monotone 0 -> 1 taper")
        except Exception as ex:
            out.append(("cosine:Monotone", f"fcn_cosine([{b0}, {b1}]): {ex}", {"kind": "cosine", "b": [float(b0), float(b1)]}))
    return out


# ------------------------------------------------------------------------------------------------
def run_models(ctx):
    if ctx.quick:
        runs = [("mc/Spectral_basis_quick.cfg", None), ("mc/Spectral_quick.cfg", "pairs.json")]
    else:
        runs = [("mc/Spectral_basis_thorough.cfg", None), ("mc/Spectral_thorough.cfg", None),
                ("mc/Spectral_export300.cfg", "pairs.json")]

    def one(r):
        cfg, out = r
        return r, tlc.run("mc/MC_Spectral.tla", cfg, workers=2 if ctx.quick else 4, timeout=3000, heap="6g",
                          env={"OUT_FILE": str(ctx.scratch / (out or "unused.json"))})
    exp = None
    with ThreadPoolExecutor(max_workers=3) as ex:
        for (cfg, out), res in ex.map(one, runs):
            ctx.tlc(res, cfg)
            if not res.ok:
                model_cex(ctx, cfg, res)
            elif out:
                exp = json.loads((ctx.scratch / out).read_text())
    return exp


def model_cex(ctx, cfg, res):
    """the implementation layer (which mirrors the code) violates the property layer: reproduce on the real code"""
    st = res.error_trace[-1] if res.error_trace else {}
    try:
        nsx, nsw, mode = int(st["nsx"]), int(st["nsw"]), tlc.parse_value(st["mode"])
    except Exception:
        raise tlc.TLCError(f"{cfg}: model violates {res.invariant_violated}; counterexample not parsable\n{res.out[-1500:]}")
    rec = conv_record(nsx, nsw, mode)
    v = tracecheck.validate(ctx, "trace/SpectralTrace.tla", "trace/SpectralTrace.cfg", [rec], label="cex", jvms=1,
                            nstates=lambda t: 3)
    if v and v[0]["prop"]:
        report(ctx, rec, v[0], f"model counterexample ({res.invariant_violated}, {cfg}) reproduced: ")
    else:
        raise tlc.TLCError(f"{cfg}: model violates {res.invariant_violated} at ({nsx},{nsw},{mode}) but the real code does not: "
                           f"the model is wrong")


def padded(n):
    """least 2^a 3^b >= n, from the definition (only used for scenario-class keys)"""
    v = n
    while True:
        u = v
        while u % 2 == 0:
            u //= 2
        while u % 3 == 0:
            u //= 3
        if u == 1:
            return v
        v += 1


def report(ctx, t, v, prefix=""):
    cl = v["prop"].split(":")[0]
    if t["kind"] == "conv":
        ns = padded(t["nsx"] + t["nsw"])
        i, j = v["pos"] // 1000, v["pos"] % 1000
        ctx.violation(f"conv:{cl}:{'odd' if ns % 2 else 'even'}-padded",
                      f"{prefix}convolve(e_i [{t['nsx']}], e_j [{t['nsw']}], '{t['mode']}'): clause {v['prop']} false, first at i={i}, "
                      f"j={j}: returned length {t['len']}, impulse summary {t['pos'][i][j] if t['pos'] else None} "
                      f"(-1 = not an impulse); padded FFT size {ns}", {"kind": "conv", "nsx": t["nsx"], "nsw": t["nsw"], "mode": t["mode"]})
    else:
        ctx.violation(f"{t['kind']}:{cl}", f"{prefix}{t['kind']} record {json.dumps({k: t[k] for k in t if k != 'kind'})[:300]}: clause "
                      f"{v['prop']} false", {"kind": t["kind"], "rec": t})


def pow3_pairs(limit):
    """every pair of lengths whose padded FFT size is odd (a power of three), n + m <= limit"""
    out = []
    for s in range(2, limit + 1):
        if padded(s) % 2 == 1:
            out += [(a, s - a) for a in range(1, s)]
    return out


def run(ctx):
    ctx.level = "model_checking"
    rng = np.random.default_rng(ctx.seed)
    rnd = random.Random(ctx.seed)
    exp = run_models(ctx)
    nproc = 4

    # ---------------- code -> spec ------------------------------------------------------------
    nfull = 24 if ctx.quick else 40
    jobs = [(a, b, m) for a in range(1, nfull + 1) for b in range(1, nfull + 1) for m in ("full", "same")]
    extra = [p for p in pow3_pairs(27 if ctx.quick else 81) if max(p) > nfull]
    jobs += [(a, b, m) for a, b in extra for m in ("full", "same")]
    rnd.shuffle(jobs)
    with ProcessPoolExecutor(max_workers=nproc) as ex:
        chunks = [jobs[k::nproc * 4] for k in range(nproc * 4)]
        recs = [r for part in ex.map(conv_job, chunks) for r in part]
    for r in recs:
        ctx.count(r["nsx"] * r["nsw"], key=("conv", r["nsx"], r["nsw"], r["mode"]))
    ns_list = list(range(1, 301 if ctx.quick else 2001)) + [2047, 2048, 2049, 65532, 65536, 65537, 177147, 177148, 531441, 999999] + \
        [int(v) for v in rng.integers(2001, 1000000, size=50 if ctx.quick else 500)]
    recs += [nsoptim_record(n) for n in ns_list]
    for n in list(range(1, 81 if ctx.quick else 301)) + [729, 1024]:
        recs.append(fscale_record(n, [1, 0.5, 2, 0.25][n % 4]))
    for n in list(range(1, 81 if ctx.quick else 301)) + [729, 1024]:
        recs.append(maps_record(n, (), 0, use_default_axis=(n % 2 == 0)))
        if n <= (40 if ctx.quick else 100) or n in (81, 243):
            recs.append(maps_record(n, (3,), [0, 1, -1, -2][n % 4]))
        if n <= 30:
            recs.append(maps_record(n, (2, 3), [0, 1, 2, -1, -2, -3][n % 6]))
    for n in range(2, 41 if ctx.quick else 121):
        for typ in ("lp", "hp"):
            b0 = rnd.randint(0, n // 2)
            b1 = b0 + rnd.randint(1, 3)
            recs.append(filter_record(n, typ, b0, b1))
    ctx.count(len(recs))
    for r in recs:
        if r["kind"] != "conv":
            ctx._distinct.add((r["kind"], r["n"], r.get("typ"), r.get("axis")))
    verd = tracecheck.validate(ctx, "trace/SpectralTrace.tla", "trace/SpectralTrace.cfg", recs, label="spectral", jvms=4, workers=2,
                               nstates=lambda t: 3, timeout=2400)
    ndrift = 0
    for v in verd:
        t = recs[v["index"]]
        if v["prop"]:
            report(ctx, t, v)
        elif v["impl"]:
            ndrift += 1
            if ndrift <= 3:
                ctx.spec_drift(f"{t['kind']} n={t.get('n')}: {v['impl']} differs from spec/lib/Spectral.tla (property layer holds)")
    ctx.sample({k: (v if k != "pos" else v[:2]) for k, v in recs[0].items()})
    ctx.sample(next(r for r in recs if r["kind"] == "maps"))
    ctx.sample(next(r for r in recs if r["kind"] == "filter"))

    # ---------------- spec -> code ------------------------------------------------------------
    if exp is not None:
        pairs = exp["pairs"]
        if len(pairs) != (80 if ctx.quick else 300) ** 2:
            raise tlc.TLCError(f"TLC exported {len(pairs)} pairs")
        have = {(p["nsx"], p["nsw"]) for p in pairs}
        for a, b in pow3_pairs(243):            # always: every pair whose padded size is odd
            if (a, b) not in have and a <= 300 and b <= 300:
                pairs.append({"nsx": a, "nsw": b, "ns": padded(a + b), "off": (b - 1) // 2})
        rnd.shuffle(pairs)
        chunks = [(pairs[k::nproc * 8], ctx.seed + k) for k in range(nproc * 8)]
        with ProcessPoolExecutor(max_workers=nproc) as ex:
            res = list(ex.map(pair_job, chunks))
        for bad, n_eval in res:
            ctx.count(n_eval)
            for (nsx, nsw, mode, cl, ii, jj, obs, e, ln) in bad:
                ns = padded(nsx + nsw)
                clause = ("ConvFull" if mode == "full" else "ConvSame") if not cl.startswith("Raised") else cl
                ctx.violation(f"conv:{clause}:{'odd' if ns % 2 else 'even'}-padded",
                              f"convolve(e_{ii} [{nsx}], e_{jj} [{nsw}], '{mode}'): {cl}: observed {obs} expected {e} (returned length "
                              f"{ln}; -1 = not an impulse, -2 = all zeros); padded FFT size {ns}",
                              {"kind": "conv", "nsx": nsx, "nsw": nsw, "mode": mode})
        for p in pairs[:20000]:
            ctx._distinct.add(("pair", p["nsx"], p["nsw"]))
        f = fourier()
        for L in exp["lens"]:
            n = L["n"]
            ctx.count(3)
            got = nsoptim_record(n)
            if got["exc"] or got["v"] != L["nsopt"]:
                ctx.violation("nsoptim:NsOptim", f"ns_optim_fft({n}) = {got['v']} {got['exc']}, TLC: {L['nsopt']}", {"kind": "nsoptim", "rec": got})
            got = fscale_record(n, 1)
            if got["exc"] or got["two"] != L["fscale"]:
                ctx.violation("fscale:FScale", f"fscale({n}) * {n} = {got['two'][:12]}.. {got['exc']}, TLC: {L['fscale'][:12]}..",
                              {"kind": "fscale", "rec": got})
    for key, what, sc in numeric(ctx, rng):
        ctx.violation(key, what, sc)
    selftest(ctx)
    ctx.cov["numeric_postconditions"] = ("impulse samples == 0 / 1 to 1e-9; dense random convolution vs direct (1e-9 rel.); "
                                         "expand(reduce(fft x)) = fft x (1e-12); lp + hp = Id, bp = hp o lp (1e-10); dft / dft2 vs "
                                         "fft / fft2 (1e-9); fcn_cosine monotone 0 -> 1")
    ctx.cov["rule"] = ("model: every impulse pair for small lengths, corner impulses for every pair of lengths of the box; traces: the "
                       "real convolve on the full impulse basis of small pairs and of every small pair with odd padded size, helper "
                       "outputs; replay: partial impulse basis on every pair of TLC's box + all pairs with odd padded size; "
                       "non-trivial = a distinct (nsx, nsw, mode) / helper length")
    ctx.cov["exhaustive"] = True
    ctx.assumptions += ["convolve is bilinear (it is a composition of linear maps and one product): the impulse basis determines it; "
                        "the full basis is run for small pairs, a partial basis plus dense random inputs for large ones",
                        "'full' may return n+m samples (last one zero), as the repository's own test accepts",
                        "'same' is the centred window of the full result with the length of the signal (scipy's definition; "
                        "numpy's coincides when the signal is not shorter than the kernel)"]


# ------------------------------------------------------------------------------------------------
def gold():
    """records correct by construction, from the definitions"""
    out = []
    for nsx, nsw in [(5, 4), (4, 5), (3, 3), (6, 1), (1, 6), (7, 2)]:
        for mode in ("full", "same"):
            off = (nsw - 1) // 2
            ln = nsx + nsw - (0 if (nsx + nsw) % 2 else 1) if mode == "full" else nsx
            pos = [[_expect(nsx, nsw, off, mode, i, j) for j in range(nsw)] for i in range(nsx)]
            out.append({"kind": "conv", "nsx": nsx, "nsw": nsw, "mode": mode, "len": ln, "pos": pos, "exc": ""})
    for n, v in [(1, 1), (5, 6), (7, 8), (25, 27), (73, 81), (2049, 2187), (65, 72)]:
        out.append({"kind": "nsoptim", "n": n, "v": v, "exc": ""})
    for n in (1, 2, 5, 6, 9):
        two = [k if 2 * k <= n else k - n for k in range(n)]
        out.append({"kind": "fscale", "n": n, "si": "1", "two": two, "one": list(range(n // 2 + 1)), "exc": ""})
        ex = [[k, 0] if 2 * k <= n else [n - k, 1] for k in range(n)]
        out.append({"kind": "maps", "n": n, "axis": 0, "other": [], "reduce": [[k, 0] for k in range(n // 2 + 1)], "expand": ex, "exc": ""})
    n, b0, b1 = 12, 2, 4
    fr = [k if 2 * k <= n else n - k for k in range(n)]
    out.append({"kind": "filter", "n": n, "typ": "hp", "b0": b0, "b1": b1, "cls": ["0" if f <= b0 else "1" if f >= b1 else "m" for f in fr], "exc": ""})
    out.append({"kind": "filter", "n": n, "typ": "lp", "b0": b0, "b1": b1, "cls": ["1" if f <= b0 else "0" if f >= b1 else "m" for f in fr], "exc": ""})
    return out


def selftest(ctx):
    keep = ctx.cov["traces_validated_against_impl"]
    g = gold()
    mut = []
    for k, r in enumerate(g):
        t = copy.deepcopy(r)
        if t["kind"] == "conv":
            c = k % 4
            if c == 0:
                t["pos"][-1][-1] = -1                      # one pair not an impulse
            elif c == 1:
                t["len"] -= 2 if t["mode"] == "full" else 1  # wrong length
            elif c == 2:
                t["pos"] = [[(p + 1 if p >= 0 else p) for p in row] for row in t["pos"]]   # crop offset off by one
            else:
                t["pos"][0][0] = -2 if t["pos"][0][0] >= 0 else 0
        elif t["kind"] == "nsoptim":
            t["v"] = [t["v"] * 2, t["v"] + 1, 1 << (t["v"] - 1).bit_length() if t["v"] & (t["v"] - 1) else t["v"] * 3][k % 3]
            if t["v"] == r["v"]:
                t["v"] += 1
        elif t["kind"] == "fscale":
            if t["n"] >= 2:
                t["two"][t["n"] // 2] = -t["two"][t["n"] // 2] if t["n"] % 2 == 0 else t["two"][t["n"] // 2] + 1
            else:
                t["one"] = [0, 1]
        elif t["kind"] == "maps":
            if t["n"] >= 3:
                t["expand"][-1] = [t["expand"][-1][0], 0]     # conjugation lost
            else:
                t["expand"] = t["expand"] + [[0, 0]]
        else:
            idx = t["cls"].index("m")
            t["cls"][idx] = "1" if t["typ"] == "hp" else "0"
            t["cls"][0] = {"0": "1", "1": "0"}[t["cls"][0]]
        mut.append(t)
    v = tracecheck.validate(ctx, "trace/SpectralTrace.tla", "trace/SpectralTrace.cfg", g + mut, label="selftest", jvms=1,
                            nstates=lambda t: 3)
    flagged = {x["index"] for x in v if x["prop"]}
    drift = {x["index"] for x in v if x["impl"] and not x["prop"]}
    if flagged != set(range(len(g), len(g) + len(mut))) or drift:
        raise tlc.TLCError(f"binding self-test (SpectralTrace): flagged {sorted(flagged)} drift {sorted(drift)}; expected exactly the "
                           f"{len(mut)} corrupted records after {len(g)} correct ones")
    ctx.cov["traces_validated_against_impl"] = keep
    # replay direction: a perturbed exported offset must be flagged on the real output
    bad, _ = pair_job(([{"nsx": 12, "nsw": 7, "off": 3 + 1}, {"nsx": 9, "nsw": 4, "off": 1 - 1}], 0))
    if len({(b[0], b[1]) for b in bad if b[2] == "same"}) != 2:
        raise tlc.TLCError("binding self-test (replay): perturbed 'same' offsets were not flagged")
    ctx.cov["selftest_corrupted_rejected"] = len(mut) + 2


def replay(ctx, sc):
    kind = sc.get("kind")
    if kind == "conv":
        recs = [conv_record(sc["nsx"], sc["nsw"], sc["mode"])]
    elif kind == "dense":
        for key, what, s2 in numeric(ctx, np.random.default_rng(ctx.seed)):
            ctx.violation(key, "replay: " + what, s2)
        recs = [conv_record(min(sc["nsx"], 60), min(sc["nsw"], 60), sc["mode"])]
    elif kind in ("nsoptim",):
        recs = [nsoptim_record(sc["rec"]["n"])]
    elif kind == "fscale":
        recs = [fscale_record(sc["rec"]["n"], float(sc["rec"]["si"]))]
    elif kind == "maps":
        r = sc["rec"]
        recs = [maps_record(r["n"], tuple(r["other"]), r["axis"])]
    elif kind == "filter":
        r = sc["rec"]
        recs = [filter_record(r["n"], r["typ"], r["b0"], r["b1"])]
    else:
        for key, what, s2 in numeric(ctx, np.random.default_rng(ctx.seed)):
            ctx.violation(key, "replay: " + what, s2)
        return
    verd = tracecheck.validate(ctx, "trace/SpectralTrace.tla", "trace/SpectralTrace.cfg", recs, label="replay", jvms=1,
                               nstates=lambda t: 3)
    for v in verd:
        if v["prop"]:
            report(ctx, recs[v["index"]], v, "replay: ")
