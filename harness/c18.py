"""C18 - spectral helpers equal their textbook definitions for every length.

1. TLC: spec/lib/Spectral.tla - convolve as Pad / Transform / Inverse / Crop / ModeCrop on the impulse basis
   (every impulse pair for lengths <= 10|14; first and last impulse for every pair of lengths <= 80|200; helper
   facts for every length <= 80|300),
   ns_optim_fft, fscale, freduce / fexpand index maps, filter gain placement; property layer = direct
   convolution e_i * e_j = e_{i+j} ('full', 'same'), least 2^a 3^b, k/n bins with positive Nyquist,
   expand o reduce = Id on conjugate-symmetric spectra, lp / hp complementary.
2. code -> spec: the real convolve on the FULL impulse basis of every pair of lengths <= 24|40 (and of every
   pair whose padded size is a power of three up to 27|81), ns_optim_fft, fscale, tagged-spectrum index maps
   of freduce / fexpand on all axes of 1-3-D arrays, gain classes of lp / hp, validated by
   spec/trace/SpectralTrace.tla.
3. spec -> code: for every pair of lengths of TLC's box (80^2 | 300^2, always with every pair whose padded
   size is odd) the exported padded size / 'same' offset place the expected impulse; the real convolve is run
   on a partial basis (x = identity, a few kernels; a few signals, w = identity); exported helper outputs are
   compared with the real fscale / ns_optim_fft.
Numeric clauses decided by projection: sample == 0 / == 1 to 1e-9 for impulses; dense random inputs vs
np.convolve, expand(reduce(fft)) = fft, lp + hp = Id, bp = hp o lp, dft / dft2 vs fft / fft2 (1e-9 relative),
fcn_cosine monotone from 0 to 1.
4. `forms`: the same numeric clauses on what a call can be handed and can find (references from the definitions): arguments left
   out (mode, si, axis of freduce / fexpand / lp / hp / bp / dft on 2-/3-D arrays; in the model: FilterAxes with NoAxis), other
   dimensionalities, element types (integer samples for the filters and the cosine taper, NumPy integers / floats as lengths),
   Fortran-ordered / strided / read-only / aliased arguments, the caller's arrays and earlier results afterwards, calls after
   other calls (same padded size with shorter signal and kernel, a failing call in between, argument objects refilled in place,
   ns_optim_fft in descending / alternating order, fscale after the caller overwrote the previous scale, taper objects reused
   and interleaved), ns_optim_fft up to NSOPTIM_LARGE_CAP.
"""
import copy
import json
import os
import random
from concurrent.futures import ProcessPoolExecutor, ThreadPoolExecutor

import numpy as np

from vkit import tlc, tracecheck

TOL = 1e-9
POW3 = (3, 9, 27, 81, 243, 729)
# ns_optim_fft on the unchanged tree holds the products 2^0..2^24 times 3^0..3^14 only: 3^15 = 14348907 is the first 2^a 3^b it
# lacks, so arguments in 14155777..14348907 come back as 15116544 (2^8 3^10), 2**31 - 1 as 6^12, 10**12 as 1114512556032.
# Until that is decided / repaired the "larger sampled lengths" of ns_optim_fft stop at the cap.  To lift it: set
# NSOPTIM_BEYOND_CAP = True (the arguments below are then checked as well, and random ones are drawn up to 10^12).
NSOPTIM_LARGE_CAP = 14155776      # = 2^19 3^3, the largest 2^a 3^b below 3^15
NSOPTIM_BEYOND_CAP = True
NSOPTIM_BEYOND = [14155777, 14348907, 14348908, 2 * 3 ** 15, 2 ** 25 - 1, 2 ** 25, 2 ** 25 + 1, 3 ** 16, 2 ** 31 - 1, 2 ** 31, 2 ** 31 + 1,
                  3 ** 20 + 1, 10 ** 12]


def fourier():
    from ibldsp import fourier as f
    return f


# ------------------------------------------------------------------------------------------------
# observations of the real code
# ------------------------------------------------------------------------------------------------
def summarise(out):
    """rows along the last axis -> p >= 0 clean impulse at p, -2 all zeros, -1 anything else"""
    out = np.asarray(out)
    L = out.shape[-1]
    if L == 0:
        return np.full(out.shape[:-1], -2, dtype=np.int64)
    fin = np.isfinite(out)
    ones = fin & (np.abs(out - 1) <= TOL)
    zeros = fin & (np.abs(out) <= TOL)
    c1, c0 = ones.sum(-1), zeros.sum(-1)
    res = np.full(out.shape[:-1], -1, dtype=np.int64)
    res[(c1 == 1) & (c0 == L - 1)] = np.argmax(ones, axis=-1)[(c1 == 1) & (c0 == L - 1)]
    res[c0 == L] = -2
    return res


def conv_record(nsx, nsw, mode):
    """the real convolve on the full impulse basis of (nsx, nsw)"""
    f = fourier()
    rec = {"kind": "conv", "nsx": nsx, "nsw": nsw, "mode": mode, "len": 0, "pos": [], "exc": ""}
    try:
        x = np.eye(nsx)[:, None, :]
        w = np.eye(nsw)[None, :, :]
        out = np.asarray(f.convolve(x, w, mode=mode))
        if out.shape[:-1] != (nsx, nsw):
            rec["pos"] = []
        else:
            rec["len"] = int(out.shape[-1])
            rec["pos"] = [[int(v) for v in r] for r in summarise(out)]
    except Exception as e:
        rec["exc"] = type(e).__name__
    return rec


TLC_INT = 2 ** 30 - 1     # = 3^2 7 11 31 151 331, not of the form 2^a 3^b; TLC's integers are 32 bits wide


def _tlc_int(v):
    """an observed integer as TLC can hold it: beyond +-TLC_INT it is recorded as +-TLC_INT (every length, bin number and size the
    records are about is below 2^21, so a clamped value fails the clause it is compared in exactly as the original would)"""
    return int(max(-TLC_INT, min(TLC_INT, v)))


def nsoptim_record(n):
    rec = {"kind": "nsoptim", "n": int(n), "v": 0, "exc": ""}
    try:
        v = int(fourier().ns_optim_fft(n))
        # a power of two lies in n..2n-1, so no v >= 2n is the least 2^a 3^b not below n: such a value is recorded as 2n, which fails
        # NsOptimP(n, .) for the same reason (if 2n is of the form at all, a smaller one lies in between).  TLC enumerates n..v-1
        # to decide the clause: with v = 2^29 for n = 5 it does not come back, and beyond 2^31 it cannot hold the number.
        rec["v"] = _tlc_int(min(v, 2 * int(n)) if n >= 1 else v)
        if rec["v"] != v:
            rec["returned"] = str(v)
    except Exception as e:
        rec["exc"] = type(e).__name__
    return rec


def _num(v, scale):
    x = np.asarray(v, dtype=float) * scale
    r = np.round(x)
    with np.errstate(invalid="ignore"):
        ok = np.isfinite(x) & (np.abs(x - r) <= 1e-6) & (np.abs(r) <= TLC_INT)      # (a bin number beyond +-n is no bin of the scale)
    return [int(a) if b else -999999 for a, b in zip(np.where(ok, r, 0), ok)]


def fscale_record(n, si):
    rec = {"kind": "fscale", "n": int(n), "si": str(si), "two": [], "one": [], "exc": ""}
    try:
        f = fourier()
        rec["two"] = _num(f.fscale(n, si), n * si)
        rec["one"] = _num(f.fscale(n, si, one_sided=True), n * si)
    except Exception as e:
        rec["exc"] = type(e).__name__
    return rec


def _tagged(shape, axis):
    """complex array whose element along `axis` at k is (k+1) + 100000 r + i (k+1)/2, r = index of the other dims"""
    shape = list(shape)
    L = shape[axis]
    other = [s for d, s in enumerate(shape) if d != axis]
    r = np.arange(int(np.prod(other)) if other else 1).reshape(other if other else [1])
    k = np.arange(L) + 1
    a = (r[..., None] * 100000 + k) + 1j * (k / 2.0)          # axis last
    if not other:
        a = a.reshape(L)
    return np.moveaxis(a, -1, axis) if other else a


def _decode(out, axis):
    """-> list of [k, conj] along axis, or [-1, 0] where the element is not bin k of its own row"""
    out = np.asarray(out)
    nd = out.ndim
    o = np.moveaxis(out, axis, -1) if nd > 1 else out
    o2 = o.reshape(-1, o.shape[-1])
    res = []
    for m in range(o2.shape[-1]):
        col = o2[:, m]
        re, im = col.real, col.imag
        r = np.floor(re / 100000 + 1e-9)
        k = np.round(re - r * 100000)
        good = np.all(np.abs(re - r * 100000 - k) < 1e-6) and np.all(r == np.arange(o2.shape[0])) and np.all(k == k[0]) \
            and np.all(np.abs(np.abs(im) - k / 2.0) < 1e-9) and (np.all(im > 0) or np.all(im < 0)) and k[0] >= 1
        res.append([int(k[0]) - 1, int(im[0] < 0)] if good else [-1, 0])
    return res


def _as_form(a, form):
    """the same values in another memory form: 'f' Fortran order, 'view' every other element of a larger buffer along every
    axis, 'ro' read-only, 'c64' single precision complex"""
    if form == "f":
        return np.asfortranarray(a)
    if form == "view":
        big = np.full([2 * s + 1 for s in a.shape], (-7.5 - 3j) if np.iscomplexobj(a) else -7.5, dtype=a.dtype)
        v = big[tuple(slice(1, 2 * s, 2) for s in a.shape)]
        v[...] = a
        return v
    if form == "ro":
        a = a.copy()
        a.flags.writeable = False
        return a
    return a


def maps_record(n, shape_other, axis, use_default_axis=False, form="c", ns_kw=False):
    """freduce / fexpand on a tagged array with n bins along `axis` (`use_default_axis`: the argument is left out, the bins
    are along the last axis); the argument arrays must come back untouched"""
    f = fourier()
    rec = {"kind": "maps", "n": int(n), "axis": axis, "other": list(shape_other), "reduce": [], "expand": [], "exc": "",
           "form": form, "default_axis": bool(use_default_axis)}
    try:
        nd = len(shape_other) + 1
        ax = axis % nd
        shape = list(shape_other)
        shape.insert(ax, n)
        full = _as_form(_tagged(shape, ax), form)
        keep = np.array(full, copy=True)
        kw = {} if use_default_axis else {"axis": axis}
        rec["reduce"] = _decode(f.freduce(full, **kw), ax)
        shape[ax] = n // 2 + 1
        half = _as_form(_tagged(shape, ax), form)
        keeph = np.array(half, copy=True)
        rec["expand"] = _decode(f.fexpand(half, ns=n, **kw) if ns_kw else f.fexpand(half, n, **kw), ax)
        if not (np.array_equal(full, keep) and np.array_equal(half, keeph)):
            rec["exc"] = "ArgumentModified"
    except Exception as e:
        rec["exc"] = type(e).__name__
    return rec


def filter_record(n, typ, b0, b1, form="list", shape_other=(), pos=0):
    """gain of lp / hp at every bin, from the response to an impulse; corners b0 / n, b1 / n (si = 1).  `form`: how the corners
    are handed over; `shape_other`: the impulse sits in a 2-/3-D array whose last axis is filtered with `axis` left out, at
    sample `pos` (the gain is then read after undoing the shift)"""
    f = fourier()
    rec = {"kind": "filter", "n": int(n), "typ": typ, "b0": int(b0), "b1": int(b1), "cls": [], "exc": "", "form": form,
           "other": list(shape_other), "pos": int(pos)}
    try:
        x = np.zeros(tuple(shape_other) + (n,))
        x[..., pos] = 1
        b = [b0 / n, b1 / n]
        b = {"list": b, "tuple": tuple(b), "array": np.array(b), "pyfloat": [float(v) for v in b]}[form]
        keepb, keepx = [float(v) for v in b], x.copy()
        y = getattr(f, typ)(x, 1, b)
        if [float(v) for v in b] != keepb or not np.array_equal(x, keepx):
            rec["exc"] = "ArgumentModified"
        y = np.asarray(y)
        rows = y.reshape(-1, n)
        if y.shape != x.shape or not np.max(np.abs(rows - rows[0])) <= 1e-12:
            rec["exc"] = rec["exc"] or "RowsDiffer"
        G = np.fft.fft(np.roll(rows[0], -pos))
        cls = []
        for g in G:
            if abs(g.imag) > 1e-9 or not np.isfinite(g.real):
                cls.append("x")
            elif abs(g.real) <= 1e-9:
                cls.append("0")
            elif abs(g.real - 1) <= 1e-9:
                cls.append("1")
            elif 0 < g.real < 1:
                cls.append("m")
            else:
                cls.append("x")
        rec["cls"] = cls
    except Exception as e:
        rec["exc"] = type(e).__name__
    return rec


# ------------------------------------------------------------------------------------------------
# spec -> code: partial basis on TLC's pairs (run in worker processes)
# ------------------------------------------------------------------------------------------------
def _expect(nsx, nsw, off, mode, ii, jj):
    """where TLC's exported offset puts e_i * e_j = e_{i+j}: position, or -2 if outside the returned window"""
    if mode == "full":
        return ii + jj
    p = ii + jj - off
    return p if 0 <= p < nsx else -2


def pair_job(args):
    """-> list of failures (nsx, nsw, mode, clause, i, j, observed, expected, length)"""
    pairs, seed = args
    f = fourier()
    rnd = random.Random(seed)
    bad = []
    n_eval = 0
    for pr in pairs:
        nsx, nsw, off = pr["nsx"], pr["nsw"], pr["off"]
        js = sorted({0, nsw - 1, nsw // 2, rnd.randrange(nsw)})
        is_ = sorted({0, nsx - 1, rnd.randrange(nsx)})
        for mode in ("full", "same"):
            okl = {nsx + nsw - 1, nsx + nsw} if mode == "full" else {nsx}
            try:
                for jj in js:      # x = identity (every signal impulse), one kernel impulse
                    w = np.zeros(nsw)
                    w[jj] = 1
                    out = np.asarray(f.convolve(np.eye(nsx), w, mode=mode))
                    n_eval += nsx
                    if out.shape[-1] not in okl:
                        bad.append((nsx, nsw, mode, "Length", 0, jj, int(out.shape[-1]), sorted(okl), int(out.shape[-1])))
                        break
                    obs = summarise(out)
                    exp = np.array([_expect(nsx, nsw, off, mode, ii, jj) for ii in range(nsx)])
                    if not np.array_equal(obs, exp):
                        ii = int(np.argmax(obs != exp))
                        bad.append((nsx, nsw, mode, "Value", ii, jj, int(obs[ii]), int(exp[ii]), int(out.shape[-1])))
                        break
                else:
                    for ii in is_:  # one signal impulse, w = identity (every kernel impulse)
                        x = np.zeros(nsx)
                        x[ii] = 1
                        out = np.asarray(f.convolve(x, np.eye(nsw), mode=mode))
                        n_eval += nsw
                        obs = summarise(out)
                        exp = np.array([_expect(nsx, nsw, off, mode, ii, jj) for jj in range(nsw)])
                        if out.shape[-1] not in okl or not np.array_equal(obs, exp):
                            jj = int(np.argmax(obs != exp)) if obs.shape == exp.shape else 0
                            bad.append((nsx, nsw, mode, "Value", ii, jj, int(obs[jj]) if obs.shape == exp.shape else -1,
                                        int(exp[jj]), int(out.shape[-1])))
                            break
            except Exception as e:
                bad.append((nsx, nsw, mode, "Raised:" + type(e).__name__, 0, 0, 0, 0, 0))
    return bad, n_eval


def conv_job(args):
    return [conv_record(a, b, m) for a, b, m in args]


# ------------------------------------------------------------------------------------------------
# numeric postconditions (projection)
# ------------------------------------------------------------------------------------------------
def numeric(ctx, rng):
    import scipy.signal
    from ibldsp import utils
    f = fourier()
    out = []       # (key, what, scenario)

    def rel(a, b):
        a, b = np.asarray(a), np.asarray(b)
        if a.shape != b.shape:
            return np.inf
        return float(np.max(np.abs(a - b)) / (1e-300 + max(1.0, np.max(np.abs(b)))))

    # dense random inputs against direct convolution, incl. every power-of-three padded size, broadcasting, long
    sizes = [(2, 1), (1, 2), (5, 4), (13, 13), (26, 1), (40, 41), (100, 143), (200, 43), (500, 25), (500, 24), (700, 29),
             (1000, 1), (1, 1), (2187 - 100, 100), (4000, 373), (6000, 561 - 0)]
    sizes += [(int(rng.integers(1, 3000)), int(rng.integers(1, 400))) for _ in range(20 if ctx.quick else 200)]
    for nsx, nsw in sizes:
        x = rng.standard_normal((3, nsx))
        w = rng.standard_normal(nsw)
        ctx.count(2)
        for mode in ("full", "same"):
            try:
                c = np.asarray(f.convolve(x, w, mode=mode))
                ref = np.stack([scipy.signal.convolve(r, w, mode=mode, method="direct") for r in x])
                if mode == "full" and c.shape[-1] == nsx + nsw:
                    ref = np.concatenate([ref, np.zeros((3, 1))], axis=-1)
                e = rel(c, ref)
            except Exception as ex:
                e = np.inf
                c = type(ex).__name__
            if not e <= 1e-9:
                ns = padded(nsx + nsw)          # from the definition: the class of the key must not depend on the helper under test
                out.append((f"conv:Dense{mode.capitalize()}:{'odd' if ns % 2 else 'even'}-padded",
                            f"convolve(random [3,{nsx}], random [{nsw}], '{mode}') differs from direct convolution "
                            f"(rel. error {e}, padded size {ns})", {"kind": "dense", "nsx": nsx, "nsw": nsw, "mode": mode}))
    # "arbitrary contents": the element types of signal and kernel are independent (raw int16 samples or a boolean mask smoothed by a
    # fractional window, an integer kernel on a float trace): the result is the direct convolution of the values
    kinds = [("int16", "float64"), ("int32", "float64"), ("int64", "float32"), ("bool", "float64"), ("float64", "int16"),
             ("float32", "float64"), ("float64", "float32"), ("uint8", "float64"), ("float64", "bool")]
    for k, (dx, dw) in enumerate(kinds):
        for nsx, nsw in [(37, 8), (200, 43), (81 - 9, 9), (500, 25)][k % 2::2] + [(int(rng.integers(2, 400)), int(rng.integers(1, 60)))]:
            def draw(dt, n, shape):
                if dt == "bool":
                    return rng.random(shape) < 0.3
                if dt.startswith(("int", "uint")):
                    return rng.integers(0 if dt.startswith("u") else -300, 300, shape).astype(dt)
                return (rng.standard_normal(shape) * (1 if n > 1 else 0.37)).astype(dt)
            x, w = draw(dx, nsx, (2, nsx)), draw(dw, nsw, nsw)
            if not np.any(w):
                w[0] = 1
            ctx.count(2)
            for mode in ("full", "same"):
                try:
                    c = np.asarray(f.convolve(x, w, mode=mode))
                    ref = np.stack([scipy.signal.convolve(r.astype(np.float64), w.astype(np.float64), mode=mode, method="direct") for r in x])
                    if mode == "full" and c.shape[-1] == nsx + nsw:
                        ref = np.concatenate([ref, np.zeros((2, 1))], axis=-1)
                    e = rel(c, ref)
                except Exception as ex:
                    e = np.inf
                if not e <= (1e-4 if "float32" in (dx, dw) else 1e-9):
                    out.append((f"conv:Dense{mode.capitalize()}:dtypes",
                                f"convolve({dx} [2,{nsx}], {dw} [{nsw}], '{mode}') differs from the direct convolution of the values "
                                f"(rel. error {e})", {"kind": "dense", "nsx": nsx, "nsw": nsw, "mode": mode}))
    # expand(reduce(fft(real))) = fft(real), reduce(expand(half)) = half, all axes of 1-3-D arrays
    shapes = [(n,) for n in list(range(1, 40)) + [81, 243, 256, 729]] + [(n, 3) for n in (1, 2, 3, 8, 9, 27)] + \
             [(2, n) for n in (1, 2, 5, 6, 27, 28)] + [(2, n, 3) for n in (1, 4, 9, 12)] + [(n, 2, 2) for n in (3, 4, 81)] + \
             [(2, 3, n) for n in (5, 6, 243)]
    for sh in shapes:
        for ax in range(len(sh)):
            ctx.count(1)
            n = sh[ax]
            x = rng.standard_normal(sh)
            X = np.fft.fft(x, axis=ax)
            try:
                for axarg in ({ax, ax - len(sh)}):
                    R = f.freduce(X, axis=axarg)
                    E = f.fexpand(R, n, axis=axarg)
                    e1 = rel(E, X)
                    e2 = rel(f.freduce(E, axis=axarg), R)
                    e3 = rel(R, np.fft.rfft(x, axis=ax))
                    if not max(e1, e2, e3) <= 1e-12:
                        raise ValueError(f"errors {e1} {e2} {e3}")
            except Exception as ex:
                out.append(("maps:RoundTrip", f"freduce/fexpand on fft of a real {sh} array along axis {ax}: {ex}",
                            {"kind": "roundtrip", "shape": list(sh), "axis": ax}))
    # lp + hp = Id, bp = hp o lp; real output; every axis of 1-3-D arrays (also named negatively)
    cases = [((n,), 0) for n in list(range(2, 34)) + [81, 100, 243]]
    for sh in [(4, 30), (30, 4), (27, 2), (2, 31, 3), (9, 2, 3), (2, 3, 16), (5, 5, 5)]:
        cases += [(sh, ax) for ax in range(-len(sh), len(sh))]
    for sh, ax in cases:
        n = sh[ax]
        si = float(rng.choice([1.0, 0.002, 1 / 30000]))
        fn = 0.5 / si
        b = sorted(rng.uniform(0.05, 0.95, size=4) * fn)
        if rng.random() < 0.5:
            # the two tapers of the band-pass overlap (b[1] > b[2]): "band-pass is their product" does not ask for sorted corners
            b = [[b[0], b[2], b[1], b[3]], [b[0], b[3], b[1], b[2]], [b[1], b[3], b[0], b[2]]][int(rng.integers(3))]
        x = rng.standard_normal(sh)
        ctx.count(3)
        try:
            lo = f.lp(x, si, b[:2], axis=ax)
            hi = f.hp(x, si, b[:2], axis=ax)
            e1 = rel(lo + hi, x)
            bp = f.bp(x, si, b, axis=ax)
            e2 = rel(bp, f.hp(f.lp(x, si, b[2:], axis=ax), si, b[:2], axis=ax))
            # the filter acts along `ax` only: same result as filtering every 1-D trace on its own
            xm = np.moveaxis(x, ax, -1)
            ref = np.stack([f.lp(tr, si, b[:2]) for tr in xm.reshape(-1, n)]).reshape(xm.shape)
            e3 = rel(np.moveaxis(lo, ax, -1), ref)
            if not max(e1, e2, e3) <= 1e-10 or np.iscomplexobj(lo):
                raise ValueError(f"lp+hp-Id {e1}, bp-hp(lp) {e2}, per-trace {e3}")
        except Exception as ex:
            cls = "axis0-of-3d" if (len(sh) == 3 and ax % 3 == 0) else ("negative-axis" if ax < 0 else "other")
            out.append((f"filter:LpHpBp:{cls}", f"lp/hp/bp on a {sh} array along axis {ax}, si={si}, corners {b}: "
                        f"{type(ex).__name__}: {ex}", {"kind": "lphp", "shape": list(sh), "axis": ax}))
    # explicit DFTs against the FFT
    for n in list(range(1, 30)) + [64, 81, 100]:
        for cplx in (False, True):
            ctx.count(1)
            x = rng.standard_normal((n, 3)) + (1j * rng.standard_normal((n, 3)) if cplx else 0)
            try:
                ref = np.fft.fft(x, axis=0) if cplx else np.fft.rfft(x, axis=0)
                e1 = rel(f.dft(x, axis=0), ref)
                e2 = rel(f.dft(np.ascontiguousarray(x.T), axis=-1), ref.T)
                e3 = rel(f.dft(x[:, 0], axis=0), ref[:, 0])
                if not max(e1, e2, e3) <= 1e-9:
                    raise ValueError(f"errors {e1} {e2} {e3}")
            except Exception as ex:
                out.append(("dft:Dft1", f"dft of a {'complex' if cplx else 'real'} [{n},3] array: {ex}",
                            {"kind": "dft", "n": n, "complex": cplx}))
    for nk, nl in [(1, 1), (2, 3), (3, 2), (4, 4), (5, 7), (8, 3), (9, 9), (6, 10)]:
        ctx.count(1)
        nt = 3
        g = rng.standard_normal((nk, nl, nt))
        r, c = [v.flatten() for v in np.meshgrid(np.arange(nk) / nk, np.arange(nl) / nl, indexing="ij")]
        try:
            X = f.dft2(g.reshape(nk * nl, nt), r, c, nk, nl)
            e = rel(X, np.fft.fft2(g, axes=(0, 1)))
            if not e <= 1e-9:
                raise ValueError(f"error {e}")
        except Exception as ex:
            out.append(("dft:Dft2", f"dft2 on a regular {nk}x{nl} grid: {ex}", {"kind": "dft2", "nk": nk, "nl": nl}))
    # cosine soft threshold: 0 up to the lower bound, 1 from the upper bound, monotone in between
    for b0, b1 in [(0.0, 1.0), (-2.0, 3.5), (10.0, 10.5), (1e-3, 2e-3), (100.0, 300.0)] + \
                  [tuple(sorted(rng.uniform(-5, 5, size=2))) for _ in range(20)]:
        ctx.count(1)
        if b1 - b0 < 1e-6:
            continue
        xs = np.concatenate([np.linspace(b0 - (b1 - b0), b1 + (b1 - b0), 1001), [b0, b1, np.nextafter(b0, -np.inf), np.nextafter(b1, np.inf)]])
        xs.sort()
        try:
            y = utils.fcn_cosine([b0, b1])(xs.copy())
            inside = (xs > b0) & (xs < b1)
            ok = np.all(y[xs <= b0] == 0) and np.all(np.abs(y[xs >= b1] - 1) <= 1e-12) and np.all(np.diff(y) >= -1e-12) \
                and np.all((y >= 0) & (y <= 1 + 1e-12)) and np.all(y[inside][1:-1] > 0) and np.all(y[inside][1:-1] < 1) \
                and abs(float(utils.fcn_cosine([b0, b1])(np.array([(b0 + b1) / 2]))[0]) - 0.5) <= 1e-9
            if not ok:
                raise ValueError("not a monotone 0 -> 1 taper")
        except Exception as ex:
            out.append(("cosine:Monotone", f"fcn_cosine([{b0}, {b1}]): {ex}", {"kind": "cosine", "b": [float(b0), float(b1)]}))
    return out


# ------------------------------------------------------------------------------------------------
# argument forms, left-out arguments, call histories (projection; the clauses of `numeric`, references from the definitions)
# ------------------------------------------------------------------------------------------------
def smooth_min(n):
    """least 2^a 3^b >= n by enumeration of the products (exact integers)"""
    best = None
    p3 = 1
    while p3 < 4 * n:
        v = p3
        while v < n:
            v *= 2
        best = v if best is None else min(best, v)
        p3 *= 3
    return best


def forms(ctx, rng):
    """what a call can be handed and what it can find: dimensionalities, element types, memory layouts, read-only and aliased
    arguments, arguments left out, the caller's arrays afterwards, earlier results afterwards, calls after other calls"""
    import math
    import scipy.signal
    from ibldsp import utils
    f = fourier()
    out = []

    def rel(a, b):
        a, b = np.asarray(a), np.asarray(b)
        if a.shape != b.shape:
            return np.inf
        if a.size == 0:
            return 0.0
        return float(np.max(np.abs(a - b)) / (1e-300 + max(1.0, np.max(np.abs(b)))))

    def guarded(fn):
        try:
            return fn()
        except Exception as ex:
            return f"{type(ex).__name__}: {ex}"[:200]

    def observed(look, what):
        """decode a value that came back from the library: an exception while doing so means it is not what the clause promises
        (the description of the failure is the finding; `look` holds nothing but conversions / comparisons of that value)"""
        try:
            return look()
        except Exception as ex:
            return f"{what} ({type(ex).__name__}: {ex})"[:240]

    # ---- convolve ------------------------------------------------------------------------------------------------------
    def direct(x, w, mode):
        x, w = np.asarray(x, dtype=np.float64), np.asarray(w, dtype=np.float64)
        sh = np.broadcast_shapes(x.shape[:-1], w.shape[:-1])
        xb = np.broadcast_to(x, sh + x.shape[-1:]).reshape(-1, x.shape[-1])
        wb = np.broadcast_to(w, sh + w.shape[-1:]).reshape(-1, w.shape[-1])
        r = np.stack([scipy.signal.convolve(a, b, mode=mode, method="direct") for a, b in zip(xb, wb)])
        return r.reshape(sh + r.shape[-1:])

    def conv_err(c, x, w, mode):
        if isinstance(c, str):
            return c
        ref = direct(x, w, mode)

        def look():     # whatever came back (None, a 0-d / object / string array ...) is compared as a value, never trusted
            a, r = np.asarray(c), ref
            if mode == "full" and a.ndim and a.shape[-1] == r.shape[-1] + 1:
                r = np.concatenate([r, np.zeros(r.shape[:-1] + (1,))], axis=-1)
            e = rel(a, r)
            return None if e <= 1e-9 else f"rel. error {e}, returned shape {a.shape}"
        return observed(look, "the returned value cannot be compared with an array of numbers")

    def conv_calls(x, w, label, sc):
        """the four spellings of the mode, the arguments afterwards"""
        kx, kw = np.array(x, copy=True), np.array(w, copy=True)
        for how, mode, call in (("mode left out", "full", lambda: f.convolve(x, w)),
                                ("mode='full'", "full", lambda: f.convolve(x, w, mode="full")),
                                ("positional 'same'", "same", lambda: f.convolve(x, w, "same")),
                                ("mode='same'", "same", lambda: f.convolve(x, w, mode="same"))):
            ctx.count(1)
            e = conv_err(guarded(call), kx, kw, mode)
            if e is None and not (np.array_equal(x, kx) and np.array_equal(w, kw)):
                e = "the caller's arrays were modified"
            if e is not None:
                out.append((f"conv:Dense{mode.capitalize()}:{label.split(':')[0]}",
                            f"convolve({label}; x {np.shape(x)} {np.asarray(x).dtype}, w {np.shape(w)}, {how}) is not the direct "
                            f"convolution along the last axis: {e}", sc))

    def draw(shape):
        return rng.standard_normal(shape) + float(rng.choice([0.0, 3.0, -40.0]))     # contents need not be zero-mean

    pairs = [(5, 4), (2, 1), (13, 13), (1, 1), (37, 8), (64, 9), (30, 50), (100, 143)]
    pairs += [(int(rng.integers(1, 200)), int(rng.integers(1, 60))) for _ in range(6 if ctx.quick else 60)]
    for nsx, nsw in pairs:
        sc = {"kind": "forms", "what": "conv", "nsx": nsx, "nsw": nsw}
        conv_calls(draw(nsx), draw(nsw), "dims:1-D signal, 1-D kernel", sc)
        conv_calls(draw((2, 3, nsx)), draw(nsw), "dims:3-D signal, 1-D kernel", sc)
        conv_calls(draw((3, nsx)), draw((3, nsw)), "dims:one kernel per row", sc)
        conv_calls(draw(nsx), draw((2, nsw)), "dims:1-D signal, 2-D kernel", sc)
        conv_calls(draw((2, 1, nsx)), draw((3, nsw)), "dims:broadcast [2,1,.] with [3,.]", sc)
        big, wbig = draw((3, 2 * nsx + 1)), draw(nsw + 2)
        conv_calls(big[:, 1::2], wbig[-2:0:-1], "layout:strided view of a longer buffer, reversed view", sc)
        conv_calls(np.asfortranarray(draw((3, nsx))), draw(nsw), "layout:Fortran-ordered signal", sc)
        conv_calls(draw((nsx, 4)).T, draw((nsw, 1)).T[0], "layout:transposed signal", sc)
        x, w = draw((2, nsx)), draw(nsw)
        x.flags.writeable = False
        w.flags.writeable = False
        conv_calls(x, w, "layout:read-only arrays", sc)
        v = draw(nsx)
        conv_calls(v, v, "alias:the same array as signal and kernel", sc)
        conv_calls(rng.integers(-300, 300, (2, nsx)).astype(np.int16), (draw(nsw) * 0.1), "dtype:int16 signal", sc)
        conv_calls(draw((2, nsx)), rng.integers(-3, 4, nsw).astype(np.int8), "dtype:int8 kernel", sc)
    # a call finds what earlier calls left: same leading shape and same padded size, shorter signal and shorter kernel than
    # the call before; a call that fails in between; the kernel object refilled in place; earlier results stay what they were
    for seq in ([(44, 20), (40, 18), (38, 17), (20, 40), (54, 1), (1, 54)],            # padded size 64
                [(60, 21), (55, 20), (53, 20), (80, 1), (40, 41), (2, 71)],            # padded size 81
                [(700, 29), (690, 10), (650, 5)], [(5, 4), (4, 4), (4, 3), (3, 3), (1, 6)]):
        kept = []
        wobj = np.zeros(max(b for _, b in seq))
        sc = {"kind": "forms", "what": "conv-history", "seq": seq}
        for k, (nsx, nsw) in enumerate(seq):
            x = draw((3, nsx)) + 2
            w = wobj[:nsw]
            w[:] = draw(nsw) + 1
            for mode in ("full", "same"):
                ctx.count(1)
                c = guarded(lambda: f.convolve(x, w, mode=mode))
                e = conv_err(c, x, w, mode)
                if e is not None:
                    out.append((f"conv:Dense{mode.capitalize()}:history",
                                f"convolve([3,{nsx}], [{nsw}], '{mode}') as call {2 * k + 1} of the sequence {seq} (same leading shape "
                                f"and padded size as the calls before, kernel object refilled in place): {e}", sc))
                else:
                    kept.append((c, np.array(c, copy=True), nsx, nsw, mode))
            if k == 1:
                guarded(lambda: f.convolve(x, draw((2, nsw))))             # leading shapes do not broadcast
                guarded(lambda: f.convolve(x, w, mode="valid"))            # not one of the two modes
                guarded(lambda: f.convolve(x[0], w[:0]))                   # empty kernel
        for c, c0, nsx, nsw, mode in kept:
            if not np.array_equal(np.asarray(c), c0):
                out.append((f"conv:Dense{mode.capitalize()}:history",
                            f"the array returned by convolve([3,{nsx}], [{nsw}], '{mode}') changed during later calls of the sequence "
                            f"{seq}", sc))

    # ---- ns_optim_fft --------------------------------------------------------------------------------------------------
    def ns_case(arg, label, klass):
        ctx.count(1)
        v = guarded(lambda: f.ns_optim_fft(arg))
        want = smooth_min(int(math.ceil(float(arg))) if not isinstance(arg, int) else arg)
        ok = not isinstance(v, str) and observed(lambda: bool(np.ndim(v) == 0 and int(v) == v and int(v) == want), "") is True
        if not ok:
            out.append((f"nsoptim:NsOptim:{klass}", f"ns_optim_fft({arg!r}) [{label}] = {v}, the least 2^a 3^b not below it is {want}",
                        {"kind": "forms", "what": "nsoptim", "arg": repr(arg)}))
        return ok

    base = [1, 2, 3, 4, 5, 7, 8, 9, 10, 26, 27, 28, 81, 82, 96, 97, 100, 243, 244, 257, 729, 730, 1000, 2187, 4097, 6561, 6562]
    base += [int(v) for v in rng.integers(1, 70000, size=10 if ctx.quick else 200)]
    for n in base:
        for typ in (np.int32, np.int64, np.uint16 if n < 60000 else np.uint32, np.intp, float, np.float64, np.float32 if n < 2 ** 20 else float):
            ns_case(typ(n), typ.__name__, "argument-type")
        if n > 1:
            ns_case(n - 0.5, "fractional", "argument-type")
            ns_case(np.float64(n) - 0.25, "fractional", "argument-type")
    # calls in other orders than ascending: descending, large / small alternating, repeated
    order = sorted(set(base), reverse=True)
    order += [v for pr in zip(sorted(set(base)), sorted(set(base), reverse=True)) for v in pr]
    order += [730, 730, 3, 3, 6562, 1, 6562]
    for n in order:
        ns_case(n, "after other calls", "call-order")
    # larger sampled lengths (see NSOPTIM_LARGE_CAP)
    large = [2 ** 20 + 1, 3 ** 13, 3 ** 13 + 1, 2 ** 23, 2 ** 23 + 1, 3 ** 14, 3 ** 14 + 1, 2 * 3 ** 14, 2 * 3 ** 14 + 1, NSOPTIM_LARGE_CAP]
    large += [int(v) for v in rng.integers(10 ** 6, NSOPTIM_LARGE_CAP, size=30 if ctx.quick else 500)]
    if NSOPTIM_BEYOND_CAP:
        large += NSOPTIM_BEYOND + [int(10 ** rng.uniform(7.2, 12)) for _ in range(30 if ctx.quick else 500)]
    for n in large:
        ns_case(n, "large", "large")

    # ---- fscale --------------------------------------------------------------------------------------------------------
    def fs_ref(n, si, one):
        k = np.arange(int(n))
        num = np.where(2 * k <= int(n), k, k - int(n))
        num = num[: int(n) // 2 + 1] if one else num
        return num / (int(n) * float(si))

    def fs_case(label, call, n, si, one):
        ctx.count(1)
        r = guarded(call)
        ref = fs_ref(n, si, one) * float(si)
        e = r if isinstance(r, str) else observed(lambda: rel(np.asarray(r, dtype=float) * float(si), ref), "not an array of frequencies")
        if isinstance(e, str) or not e <= (1e-6 if isinstance(si, np.float32) else 1e-12):
            out.append(("fscale:FScale:argument-forms" if not one else "fscale:FScaleOneSided:argument-forms",
                        f"fscale [{label}] for n={n!r}, si={si!r}, one_sided={one} is not k / (n si): {e}",
                        {"kind": "forms", "what": "fscale", "n": int(n)}))
        return r

    for n in [1, 2, 3, 4, 5, 6, 9, 10, 11, 27, 32, 81, 100, 101] + [int(v) for v in rng.integers(1, 3000, size=4 if ctx.quick else 40)]:
        fs_case("si left out", lambda: f.fscale(n), n, 1, False)
        fs_case("si left out, one_sided by name", lambda: f.fscale(n, one_sided=True), n, 1, True)
        for si in (0.002, 1 / 30000, 2, np.float64(0.25), np.float32(0.5)):
            fs_case("all by name", lambda: f.fscale(ns=n, si=si, one_sided=False), n, si, False)
            fs_case("all positional", lambda: f.fscale(n, si, True), n, si, True)
        for typ in (np.int32, np.int64, np.intp):
            fs_case(f"n as {typ.__name__}", lambda: f.fscale(typ(n), 0.5), n, 0.5, False)
            fs_case(f"n as {typ.__name__}", lambda: f.fscale(typ(n), 0.5, one_sided=True), n, 0.5, True)
        # the caller may do what it likes with the returned scale: the next call still returns the bin frequencies
        for one in (False, True):
            r = fs_case("first call", lambda: f.fscale(n, 0.002, one_sided=one), n, 0.002, one)
            if isinstance(r, np.ndarray) and r.flags.writeable:
                r[...] = -1.0
            fs_case("after the caller overwrote the scale returned by the call before", lambda: f.fscale(n, 0.002, one_sided=one), n, 0.002, one)

    # ---- freduce / fexpand: axis left out on 2-/3-D arrays, memory forms, single precision, arguments afterwards -----------------
    for sh in [(3, 1), (3, 2), (2, 5), (4, 6), (3, 27), (2, 3, 9), (2, 3, 12), (3, 2, 1), (2, 2, 28)]:
        n = sh[-1]
        x = draw(sh)
        X = np.fft.fft(x, axis=-1)
        for form in ("c", "f", "view", "ro", "c64"):
            ctx.count(1)
            Xa = _as_form(X, form) if form != "c64" else X.astype(np.complex64)
            keep = np.array(Xa, copy=True)
            tol = 1e-5 if form == "c64" else 1e-12

            def go():
                R = f.freduce(Xa)
                keepR = np.array(R, copy=True)
                E = f.fexpand(R, ns=n)
                e = max(rel(E, X), rel(f.freduce(E), R), rel(R, np.fft.rfft(x, axis=-1)), rel(f.fexpand(R, n, axis=len(sh) - 1), X))
                if not e <= tol:
                    return f"round trip error {e}"
                if not (np.array_equal(Xa, keep) and np.array_equal(R, keepR)):
                    return "the argument array was modified"
                return None
            e = guarded(go)
            if e is not None:
                out.append(("maps:RoundTrip:default-axis", f"freduce / fexpand with `axis` left out on the fft of a real {sh} array "
                            f"(memory form '{form}'): {e}", {"kind": "forms", "what": "roundtrip", "shape": list(sh)}))

    # ---- lp / hp / bp --------------------------------------------------------------------------------------------------
    def filt_case(x, si, b, axis, label, klass, tol=1e-10):
        """lp + hp = Id, bp = hp o lp, acts along the (default: last) axis only, arguments untouched"""
        ctx.count(3)
        nd = np.ndim(x)
        ax = nd - 1 if axis is None else axis
        kw = {} if axis is None else {"axis": axis}
        kx, kb = np.array(x, copy=True), [float(v) for v in b]
        xf = kx.astype(np.float64)

        def go():
            lo, hi, bpp = f.lp(x, si, b[:2], **kw), f.hp(x, si, b[:2], **kw), f.bp(x, si, b, **kw)
            if np.iscomplexobj(lo) or np.shape(lo) != np.shape(x):
                return f"low-pass output {np.asarray(lo).dtype} {np.shape(lo)}"
            e1 = rel(np.asarray(lo, dtype=np.float64) + hi, xf)
            e2 = rel(bpp, f.hp(f.lp(xf, si, kb[2:], axis=ax), si, kb[:2], axis=ax))
            xm = np.moveaxis(xf, ax, -1)
            ref = np.stack([f.lp(tr, si, kb[:2]) for tr in xm.reshape(-1, xm.shape[-1])]).reshape(xm.shape)
            e3 = rel(np.moveaxis(np.asarray(lo), ax, -1), ref)
            if not max(e1, e2, e3) <= tol:
                return f"lp+hp-Id {e1}, bp-hp(lp) {e2}, per-trace {e3}"
            if not (np.array_equal(x, kx) and [float(v) for v in b] == kb):
                return "the caller's array or corner list was modified"
            return None
        e = guarded(go)
        if e is not None:
            out.append((f"filter:LpHpBp:{klass}", f"lp/hp/bp [{label}] on a {np.shape(x)} {np.asarray(x).dtype} array, axis "
                        f"{'left out' if axis is None else axis}, si={si}, corners {kb}: {e}",
                        {"kind": "forms", "what": "lphp", "shape": list(np.shape(x))}))

    def corners(si):
        b = sorted(rng.uniform(0.05, 0.95, size=4) * 0.5 / si)
        if rng.random() < 0.5:
            b = [b[0], b[2], b[1], b[3]]
        return [float(v) for v in b]

    for sh in [(4, 30), (30, 4), (3, 27), (2, 31, 3), (2, 3, 16), (5, 5, 5), (3, 1), (1, 3), (1,), (2, 1, 2), (6, 500)]:
        si = float(rng.choice([1.0, 0.002, 1 / 30000]))
        b = corners(si)
        filt_case(draw(sh), si, b, None, "axis left out", "default-axis")
        filt_case(draw(sh), si, b, None if len(sh) == 1 else 0, "other contents, same corners", "default-axis")
        filt_case(draw(sh), si, corners(si), None, "same shape and sampling interval, other corners", "default-axis")
        x = draw(sh)
        for form in ("f", "view", "ro"):
            filt_case(_as_form(x, form), si, b, None, f"memory form '{form}'", "argument-forms")
            filt_case(_as_form(x, form), si, b, 0, f"memory form '{form}'", "argument-forms")
        filt_case(x, si, tuple(b), None, "corners as a tuple", "argument-forms")
        filt_case(x, si, np.array(b), -1, "corners as an array", "argument-forms")
        filt_case(x, np.float32(si) if si == 1.0 else si, b, None, "corners as a list", "argument-forms")
        for dt in ("int16", "int32", "int64", "uint8", "float32"):
            xi = (rng.integers(0, 200, sh) if dt == "uint8" else rng.integers(-3000, 3000, sh)).astype(dt) if dt != "float32" \
                else draw(sh).astype(dt)
            filt_case(xi, si, b, None, f"{dt} samples", "dtypes", tol=1e-5 if dt == "float32" else 1e-10)
            filt_case(xi, si, b, 0, f"{dt} samples", "dtypes", tol=1e-5 if dt == "float32" else 1e-10)
    # the caller keeps one corner list and refills it between calls
    bobj, xobj = [0.0, 0.0, 0.0, 0.0], np.zeros((3, 64))
    for k in range(4):
        bobj[:] = corners(0.002)
        xobj[...] = draw((3, 64))
        filt_case(xobj, 0.002, bobj, None if k % 2 else 1, "the same corner list and array objects refilled in place", "history")
    # an earlier result stays what it was while the filters are used on other data
    x0 = draw((3, 40))
    lo0 = guarded(lambda: f.lp(x0, 0.002, [50, 100]))
    if isinstance(lo0, np.ndarray):
        c0 = lo0.copy()
        guarded(lambda: f.lp(draw((3, 40)), 0.002, [20, 30]))
        guarded(lambda: f.hp(draw((3, 40)), 0.002, [50, 100]))
        if not np.array_equal(lo0, c0):
            out.append(("filter:LpHpBp:history", "the array returned by lp changed during later calls on other data of the same shape",
                        {"kind": "forms", "what": "lphp", "shape": [3, 40]}))

    # ---- dft / dft2 ----------------------------------------------------------------------------------------------------
    for sh, ax in [((3, 7), None), ((3, 8), None), ((2, 3, 5), None), ((2, 3, 6), None), ((2, 9, 3), 1), ((2, 8, 3), -2), ((7, 2, 3), 0),
                   ((6, 2, 3), -3), ((2, 3, 9), 2), ((4, 1), None), ((1, 4), 0), ((5,), None), ((6,), None)]:
        for kind in ("real", "complex", "int16", "float32", "fortran", "read-only"):
            ctx.count(1)
            x = draw(sh)
            if kind == "complex":
                x = x + 1j * draw(sh)
            elif kind == "int16":
                x = rng.integers(-300, 300, sh).astype(np.int16)
            elif kind == "float32":
                x = x.astype(np.float32)
            elif kind == "fortran":
                x = np.asfortranarray(x)
            elif kind == "read-only":
                x.flags.writeable = False
            keep = np.array(x, copy=True)
            a = len(sh) - 1 if ax is None else ax
            kw = {} if ax is None else {"axis": ax}
            n = sh[a]

            def go():
                full = np.fft.fft(keep.astype(np.complex128 if kind == "complex" else np.float64), axis=a)
                ref = full if kind == "complex" else np.fft.rfft(keep.astype(np.float64), axis=a)
                e1 = rel(f.dft(x, **kw), ref)
                ks = np.unique(rng.integers(0, n, size=3))
                e2 = rel(f.dft(x, kscale=ks, **kw), np.take(full, ks, axis=a))
                e3 = rel(f.dft(x, xscale=np.arange(n), **kw), ref)
                e4 = rel(f.dft(x, np.arange(n), a, np.arange(n)), full)
                ks2 = (ks + 1) % n                                        # as many coefficients as the call before, other ones
                e5 = rel(f.dft(x, kscale=ks2, **kw), np.take(full, ks2, axis=a))
                if not max(e1, e2, e3, e4, e5) <= (1e-5 if kind == "float32" else 1e-9):
                    return f"errors {e1} (defaults) {e2} (kscale subset {ks}) {e3} (explicit xscale) {e4} (all positional) {e5} (kscale {ks2})"
                if not np.array_equal(x, keep):
                    return "the argument array was modified"
                return None
            e = guarded(go)
            if e is not None:
                out.append(("dft:Dft1:argument-forms", f"dft of a {kind} {sh} array along axis {'left out' if ax is None else ax}: {e}",
                            {"kind": "forms", "what": "dft", "shape": list(sh)}))
    for nk, nl in [(1, 1), (2, 3), (4, 4), (5, 7), (9, 2)]:
        for kind in ("shuffled", "complex", "read-only"):
            ctx.count(1)
            nt = 2
            g = draw((nk, nl, nt)) + (1j * draw((nk, nl, nt)) if kind == "complex" else 0)
            r, c = [v.flatten() for v in np.meshgrid(np.arange(nk) / nk, np.arange(nl) / nl, indexing="ij")]
            x = g.reshape(nk * nl, nt)
            o = rng.permutation(nk * nl) if kind != "read-only" else np.arange(nk * nl)
            x, r, c = x[o].copy(), r[o].copy(), c[o].copy()
            if kind == "read-only":
                for v in (x, r, c):
                    v.flags.writeable = False
            kx, kr, kc = x.copy(), r.copy(), c.copy()

            def go():
                e = rel(f.dft2(x, r, c, nk, nl), np.fft.fft2(g, axes=(0, 1)))
                if not e <= 1e-9:
                    return f"error {e}"
                if not (np.array_equal(x, kx) and np.array_equal(r, kr) and np.array_equal(c, kc)):
                    return "an argument array was modified"
                return None
            e = guarded(go)
            if e is not None:
                out.append(("dft:Dft2:argument-forms", f"dft2 on a regular {nk}x{nl} grid ({kind} samples): {e}",
                            {"kind": "forms", "what": "dft2", "nk": nk, "nl": nl}))

    # ---- fcn_cosine ----------------------------------------------------------------------------------------------------
    def cos_err(b0, b1, xs, y, tol=1e-12):
        if isinstance(y, str):
            return y

        def look():
            ya = np.asarray(y)
            if ya.shape != np.shape(xs):
                return f"shape {ya.shape} for an argument of shape {np.shape(xs)}"
            return ya.astype(np.float64).ravel()
        y = observed(look, "the returned value is not an array of numbers")
        if isinstance(y, str):
            return y
        xs = np.asarray(xs, dtype=np.float64).ravel()
        o = np.argsort(xs, kind="stable")
        xs, y = xs[o], y[o]
        m = 1e-3 * (b1 - b0)
        inner = (xs > b0 + m) & (xs < b1 - m)
        ok = np.all(y[xs <= b0] == 0) and np.all(np.abs(y[xs >= b1] - 1) <= tol) and np.all(np.diff(y) >= -tol) \
            and np.all((y >= 0) & (y <= 1 + tol)) and np.all(y[inner] > 0) and np.all(y[inner] < 1) \
            and np.all(np.abs(y[xs == (b0 + b1) / 2] - 0.5) <= max(tol, 1e-9))
        return None if ok else "not a monotone 0 -> 1 taper between the bounds"

    def cos_case(bounds, xs, label, klass="argument-forms", tol=1e-12, fn=None):
        ctx.count(1)
        kx = np.array(xs, copy=True)
        kb = [float(v) for v in bounds]
        y = guarded(lambda: (fn or utils.fcn_cosine(bounds))(xs))
        e = cos_err(kb[0], kb[1], kx, y, tol)
        if e is None and not (np.array_equal(xs, kx) and [float(v) for v in bounds] == kb):
            e = "the argument array or the bounds were modified"
        if e is not None:
            out.append((f"cosine:Monotone:{klass}", f"fcn_cosine({bounds!r}) on {label}: {e}",
                        {"kind": "forms", "what": "cosine", "b": kb}))
        return y

    for b0, b1 in [(0, 8), (0, 1), (3, 4), (-5, 6), (20, 30), (376, 384)] + \
                  [tuple(int(v) for v in sorted(rng.choice(np.arange(-50, 400), size=2, replace=False))) for _ in range(6)]:
        lo_, hi_ = b0 - 3 * (b1 - b0) - 2, b1 + 3 * (b1 - b0) + 2
        for dt in (np.int64, np.int32, np.int16):
            cos_case([b0, b1], np.arange(lo_, hi_, dtype=dt), f"integer samples ({np.dtype(dt).name}) {lo_}..{hi_ - 1}")
        if b0 > 0:
            # sample / channel indices held as unsigned integers, from 0 up: values below the lower bound must not wrap around
            # (seed round i); the bounds as Python integers and as unsigned NumPy scalars
            for dt in (np.uint16, np.uint32, np.uint64, np.uint8):
                if hi_ < np.iinfo(dt).max:
                    cos_case([b0, b1], np.arange(0, hi_, dtype=dt), f"unsigned samples ({np.dtype(dt).name}) 0..{hi_ - 1}")
                    cos_case([dt(b0), dt(b1)], np.arange(0, hi_, dtype=dt), f"unsigned samples and bounds ({np.dtype(dt).name})")
        cos_case((b0, b1), np.arange(lo_, hi_, dtype=np.float64), "bounds as a tuple")
        cos_case(np.array([b0, b1]), np.arange(lo_, hi_, dtype=np.float64), "bounds as an integer array")
        cos_case(np.array([b0, b1], dtype=np.float32), np.linspace(lo_, hi_, 301), "bounds as a float32 array")
        cos_case([float(b0), float(b1)], np.linspace(lo_, hi_, 257).astype(np.float32), "float32 samples", tol=1e-6)
        cos_case([b0, b1], np.linspace(lo_, hi_, 240).reshape(4, 60), "a 2-D argument")
        cos_case([b0, b1], np.linspace(lo_, hi_, 240).reshape(6, 40).T, "a transposed 2-D argument")
        cos_case([b0, b1], rng.permutation(np.linspace(lo_, hi_, 200)), "samples in no order")
        cos_case([b0, b1], np.linspace(hi_, lo_, 200), "descending samples")
        cos_case([b0, b1], np.abs(np.linspace(-hi_, hi_, 200)), "|v| of a symmetric scale")
        cos_case([b0, b1], np.linspace(lo_, hi_, 100)[::3], "a strided view")
        xs = np.linspace(lo_, hi_, 50)
        xs.flags.writeable = False
        cos_case([b0, b1], xs, "a read-only argument")
        # one taper object used again and again, two tapers alive at once
        # (a taper that cannot even be made: the uses below then make it themselves, inside the guard, and report that)
        fa, fb = guarded(lambda: utils.fcn_cosine([b0, b1])), guarded(lambda: utils.fcn_cosine([b0 + 1, b1 + 7]))
        fa, fb = (None if isinstance(fa, str) else fa), (None if isinstance(fb, str) else fb)
        xa, xb, xc = np.linspace(lo_, hi_, 90), np.linspace(lo_, hi_ + 9, 31), np.linspace(b0, b1, 7)
        ya = cos_case([b0, b1], xa, "first use of the taper object", "reuse", fn=fa)
        cos_case([b0 + 1, b1 + 7], xb, "a second taper object made before the first was used", "reuse", fn=fb)
        ka = np.array(ya, copy=True) if isinstance(ya, np.ndarray) else None
        cos_case([b0, b1], xb, "second use of the taper object, other length", "reuse", fn=fa)
        cos_case([b0 + 1, b1 + 7], xc, "second use of the second taper object", "reuse", fn=fb)
        cos_case([b0, b1], xc, "third use of the taper object", "reuse", fn=fa)
        if ka is not None and not np.array_equal(ya, ka):
            out.append(("cosine:Monotone:reuse", f"the array returned by the first use of fcn_cosine([{b0}, {b1}]) changed during later uses",
                        {"kind": "forms", "what": "cosine", "b": [b0, b1]}))
    return out


# ------------------------------------------------------------------------------------------------
def run_models(ctx):
    if ctx.quick:
        runs = [("mc/Spectral_basis_quick.cfg", None), ("mc/Spectral_quick.cfg", "pairs.json")]
    else:
        runs = [("mc/Spectral_basis_thorough.cfg", None), ("mc/Spectral_thorough.cfg", None),
                ("mc/Spectral_export300.cfg", "pairs.json")]

    def one(r):
        cfg, out = r
        return r, tlc.run("mc/MC_Spectral.tla", cfg, workers=2 if ctx.quick else 4, timeout=3000, heap="6g",
                          env={"OUT_FILE": str(ctx.scratch / (out or "unused.json"))})
    exp = None
    with ThreadPoolExecutor(max_workers=3) as ex:
        for (cfg, out), res in ex.map(one, runs):
            ctx.tlc(res, cfg)
            if not res.ok:
                model_cex(ctx, cfg, res)
            elif out:
                exp = json.loads((ctx.scratch / out).read_text())
    return exp


def model_cex(ctx, cfg, res):
    """the implementation layer (which mirrors the code) violates the property layer: reproduce on the real code"""
    st = res.error_trace[-1] if res.error_trace else {}
    try:
        nsx, nsw, mode = int(st["nsx"]), int(st["nsw"]), tlc.parse_value(st["mode"])
    except Exception:
        raise tlc.TLCError(f"{cfg}: model violates {res.invariant_violated}; counterexample not parsable\n{res.out[-1500:]}")
    rec = conv_record(nsx, nsw, mode)
    v = tracecheck.validate(ctx, "trace/SpectralTrace.tla", "trace/SpectralTrace.cfg", [rec], label="cex", jvms=1,
                            nstates=lambda t: 3)
    if v and v[0]["prop"]:
        report(ctx, rec, v[0], f"model counterexample ({res.invariant_violated}, {cfg}) reproduced: ")
    else:
        raise tlc.TLCError(f"{cfg}: model violates {res.invariant_violated} at ({nsx},{nsw},{mode}) but the real code does not: "
                           f"the model is wrong")


def padded(n):
    """least 2^a 3^b >= n, from the definition (only used for scenario-class keys)"""
    v = n
    while True:
        u = v
        while u % 2 == 0:
            u //= 2
        while u % 3 == 0:
            u //= 3
        if u == 1:
            return v
        v += 1


def report(ctx, t, v, prefix=""):
    cl = v["prop"].split(":")[0]
    if t["kind"] == "conv":
        ns = padded(t["nsx"] + t["nsw"])
        i, j = v["pos"] // 1000, v["pos"] % 1000
        ctx.violation(f"conv:{cl}:{'odd' if ns % 2 else 'even'}-padded",
                      f"{prefix}convolve(e_i [{t['nsx']}], e_j [{t['nsw']}], '{t['mode']}'): clause {v['prop']} false, first at i={i}, "
                      f"j={j}: returned length {t['len']}, impulse summary {t['pos'][i][j] if t['pos'] else None} "
                      f"(-1 = not an impulse); padded FFT size {ns}", {"kind": "conv", "nsx": t["nsx"], "nsw": t["nsw"], "mode": t["mode"]})
    else:
        ctx.violation(f"{t['kind']}:{cl}", f"{prefix}{t['kind']} record {json.dumps({k: t[k] for k in t if k != 'kind'})[:300]}: clause "
                      f"{v['prop']} false", {"kind": t["kind"], "rec": t})


def pow3_pairs(limit):
    """every pair of lengths whose padded FFT size is odd (a power of three), n + m <= limit"""
    out = []
    for s in range(2, limit + 1):
        if padded(s) % 2 == 1:
            out += [(a, s - a) for a in range(1, s)]
    return out


def run(ctx):
    ctx.level = "model_checking"
    rng = np.random.default_rng(ctx.seed)
    rnd = random.Random(ctx.seed)
    exp = run_models(ctx)
    nproc = 4

    # ---------------- code -> spec ------------------------------------------------------------
    nfull = 24 if ctx.quick else 40
    jobs = [(a, b, m) for a in range(1, nfull + 1) for b in range(1, nfull + 1) for m in ("full", "same")]
    extra = [p for p in pow3_pairs(27 if ctx.quick else 81) if max(p) > nfull]
    jobs += [(a, b, m) for a, b in extra for m in ("full", "same")]
    rnd.shuffle(jobs)
    with ProcessPoolExecutor(max_workers=nproc) as ex:
        chunks = [jobs[k::nproc * 4] for k in range(nproc * 4)]
        recs = [r for part in ex.map(conv_job, chunks) for r in part]
    for r in recs:
        ctx.count(r["nsx"] * r["nsw"], key=("conv", r["nsx"], r["nsw"], r["mode"]))
    ns_list = list(range(1, 301 if ctx.quick else 2001)) + [2047, 2048, 2049, 65532, 65536, 65537, 177147, 177148, 531441, 999999] + \
        [int(v) for v in rng.integers(2001, 1000000, size=50 if ctx.quick else 500)]
    recs += [nsoptim_record(n) for n in ns_list]
    for n in list(range(1, 81 if ctx.quick else 301)) + [729, 1024]:
        recs.append(fscale_record(n, [1, 0.5, 2, 0.25][n % 4]))
    for n in list(range(1, 81 if ctx.quick else 301)) + [729, 1024]:
        recs.append(maps_record(n, (), 0, use_default_axis=(n % 2 == 0)))
        if n <= (40 if ctx.quick else 100) or n in (81, 243):
            recs.append(maps_record(n, (3,), [0, 1, -1, -2][n % 4]))
        if n <= 30:
            recs.append(maps_record(n, (2, 3), [0, 1, 2, -1, -2, -3][n % 6]))
        if n <= (24 if ctx.quick else 100) or n in (27, 81, 243):
            # `axis` left out on 2-/3-D arrays (the bins are then along the last axis), `ns` by name, other memory forms
            form = ["c", "f", "view", "ro"][n % 4]
            recs.append(maps_record(n, (3,), 1, use_default_axis=True, ns_kw=True, form=form))
            recs.append(maps_record(n, (2, 3), 2, use_default_axis=True, ns_kw=(n % 2 == 0), form=["ro", "c", "f", "view"][n % 4]))
            recs.append(maps_record(n, (3,), [0, -2][n % 2], ns_kw=True, form=["view", "ro", "c", "f"][n % 4]))
    for n in range(2, 41 if ctx.quick else 121):
        for typ in ("lp", "hp"):
            b0 = rnd.randint(0, n // 2)
            b1 = b0 + rnd.randint(1, 3)
            recs.append(filter_record(n, typ, b0, b1))
        # the same filter again on the same length with other corners, handed over in another form; then inside a 2-/3-D
        # array whose last axis is filtered because `axis` is left out, the impulse anywhere on that axis
        typ = ("lp", "hp")[n % 2]
        b0 = rnd.randint(0, n // 2)
        recs.append(filter_record(n, typ, b0, b0 + rnd.randint(1, 3), form=["tuple", "array", "pyfloat"][n % 3]))
        b0 = rnd.randint(0, n // 2)
        recs.append(filter_record(n, typ, b0, b0 + rnd.randint(1, 3), form=["array", "pyfloat", "tuple"][n % 3],
                                  shape_other=[(3,), (2, 2), (n,)][n % 3], pos=rnd.randrange(n)))
    ctx.count(len(recs))
    for r in recs:
        if r["kind"] != "conv":
            ctx._distinct.add((r["kind"], r["n"], r.get("typ"), r.get("axis"), r.get("form"), r.get("default_axis")))
    verd = tracecheck.validate(ctx, "trace/SpectralTrace.tla", "trace/SpectralTrace.cfg", recs, label="spectral", jvms=4, workers=2,
                               nstates=lambda t: 3, timeout=2400)
    ndrift = 0
    for v in verd:
        t = recs[v["index"]]
        if v["prop"]:
            report(ctx, t, v)
        elif v["impl"]:
            ndrift += 1
            if ndrift <= 3:
                ctx.spec_drift(f"{t['kind']} n={t.get('n')}: {v['impl']} differs from spec/lib/Spectral.tla (property layer holds)")
    ctx.sample({k: (v if k != "pos" else v[:2]) for k, v in recs[0].items()})
    ctx.sample(next(r for r in recs if r["kind"] == "maps"))
    ctx.sample(next(r for r in recs if r["kind"] == "filter"))

    # ---------------- spec -> code ------------------------------------------------------------
    if exp is not None:
        pairs = exp["pairs"]
        if len(pairs) != (80 if ctx.quick else 300) ** 2:
            raise tlc.TLCError(f"TLC exported {len(pairs)} pairs")
        have = {(p["nsx"], p["nsw"]) for p in pairs}
        for a, b in pow3_pairs(243):            # always: every pair whose padded size is odd
            if (a, b) not in have and a <= 300 and b <= 300:
                pairs.append({"nsx": a, "nsw": b, "ns": padded(a + b), "off": (b - 1) // 2})
        rnd.shuffle(pairs)
        chunks = [(pairs[k::nproc * 8], ctx.seed + k) for k in range(nproc * 8)]
        with ProcessPoolExecutor(max_workers=nproc) as ex:
            res = list(ex.map(pair_job, chunks))
        for bad, n_eval in res:
            ctx.count(n_eval)
            for (nsx, nsw, mode, cl, ii, jj, obs, e, ln) in bad:
                ns = padded(nsx + nsw)
                clause = ("ConvFull" if mode == "full" else "ConvSame") if not cl.startswith("Raised") else cl
                ctx.violation(f"conv:{clause}:{'odd' if ns % 2 else 'even'}-padded",
                              f"convolve(e_{ii} [{nsx}], e_{jj} [{nsw}], '{mode}'): {cl}: observed {obs} expected {e} (returned length "
                              f"{ln}; -1 = not an impulse, -2 = all zeros); padded FFT size {ns}",
                              {"kind": "conv", "nsx": nsx, "nsw": nsw, "mode": mode})
        for p in pairs[:20000]:
            ctx._distinct.add(("pair", p["nsx"], p["nsw"]))
        f = fourier()
        for L in exp["lens"]:
            n = L["n"]
            ctx.count(3)
            got = nsoptim_record(n)
            if got["exc"] or got["v"] != L["nsopt"]:
                ctx.violation("nsoptim:NsOptim", f"ns_optim_fft({n}) = {got['v']} {got['exc']}, TLC: {L['nsopt']}", {"kind": "nsoptim", "rec": got})
            got = fscale_record(n, 1)
            if got["exc"] or got["two"] != L["fscale"]:
                ctx.violation("fscale:FScale", f"fscale({n}) * {n} = {got['two'][:12]}.. {got['exc']}, TLC: {L['fscale'][:12]}..",
                              {"kind": "fscale", "rec": got})
    for key, what, sc in numeric(ctx, rng):
        ctx.violation(key, what, sc)
    for key, what, sc in forms(ctx, np.random.default_rng([ctx.seed, 18])):
        ctx.violation(key, what, sc)
    selftest(ctx)
    ctx.cov["numeric_postconditions"] = ("impulse samples == 0 / 1 to 1e-9; dense random convolution vs direct (1e-9 rel.); "
                                         "expand(reduce(fft x)) = fft x (1e-12); lp + hp = Id, bp = hp o lp (1e-10); dft / dft2 vs "
                                         "fft / fft2 (1e-9); fcn_cosine monotone 0 -> 1; the same clauses on left-out arguments, other "
                                         "dimensionalities / element types / memory layouts, untouched arguments and earlier results, "
                                         "calls after other calls (forms)")
    ctx.cov["rule"] = ("model: every impulse pair for small lengths, corner impulses for every pair of lengths of the box; traces: the "
                       "real convolve on the full impulse basis of small pairs and of every small pair with odd padded size, helper "
                       "outputs; replay: partial impulse basis on every pair of TLC's box + all pairs with odd padded size; "
                       "non-trivial = a distinct (nsx, nsw, mode) / helper length")
    ctx.cov["exhaustive"] = True
    ctx.assumptions += ["convolve is bilinear (it is a composition of linear maps and one product): the impulse basis determines it; "
                        "the full basis is run for small pairs, a partial basis plus dense random inputs for large ones",
                        "'full' may return n+m samples (last one zero), as the repository's own test accepts",
                        "'same' is the centred window of the full result with the length of the signal (scipy's definition; "
                        "numpy's coincides when the signal is not shorter than the kernel)"]


# ------------------------------------------------------------------------------------------------
def gold():
    """records correct by construction, from the definitions"""
    out = []
    for nsx, nsw in [(5, 4), (4, 5), (3, 3), (6, 1), (1, 6), (7, 2)]:
        for mode in ("full", "same"):
            off = (nsw - 1) // 2
            ln = nsx + nsw - (0 if (nsx + nsw) % 2 else 1) if mode == "full" else nsx
            pos = [[_expect(nsx, nsw, off, mode, i, j) for j in range(nsw)] for i in range(nsx)]
            out.append({"kind": "conv", "nsx": nsx, "nsw": nsw, "mode": mode, "len": ln, "pos": pos, "exc": ""})
    for n, v in [(1, 1), (5, 6), (7, 8), (25, 27), (73, 81), (2049, 2187), (65, 72)]:
        out.append({"kind": "nsoptim", "n": n, "v": v, "exc": ""})
    for n in (1, 2, 5, 6, 9):
        two = [k if 2 * k <= n else k - n for k in range(n)]
        out.append({"kind": "fscale", "n": n, "si": "1", "two": two, "one": list(range(n // 2 + 1)), "exc": ""})
        ex = [[k, 0] if 2 * k <= n else [n - k, 1] for k in range(n)]
        out.append({"kind": "maps", "n": n, "axis": 0, "other": [], "reduce": [[k, 0] for k in range(n // 2 + 1)], "expand": ex, "exc": ""})
    n, b0, b1 = 12, 2, 4
    fr = [k if 2 * k <= n else n - k for k in range(n)]
    out.append({"kind": "filter", "n": n, "typ": "hp", "b0": b0, "b1": b1, "cls": ["0" if f <= b0 else "1" if f >= b1 else "m" for f in fr], "exc": ""})
    out.append({"kind": "filter", "n": n, "typ": "lp", "b0": b0, "b1": b1, "cls": ["1" if f <= b0 else "0" if f >= b1 else "m" for f in fr], "exc": ""})
    return out


def selftest(ctx):
    keep = ctx.cov["traces_validated_against_impl"]
    g = gold()
    mut = []
    for k, r in enumerate(g):
        t = copy.deepcopy(r)
        if t["kind"] == "conv":
            c = k % 4
            if c == 0:
                t["pos"][-1][-1] = -1                      # one pair not an impulse
            elif c == 1:
                t["len"] -= 2 if t["mode"] == "full" else 1  # wrong length
            elif c == 2:
                t["pos"] = [[(p + 1 if p >= 0 else p) for p in row] for row in t["pos"]]   # crop offset off by one
            else:
                t["pos"][0][0] = -2 if t["pos"][0][0] >= 0 else 0
        elif t["kind"] == "nsoptim":
            t["v"] = [t["v"] * 2, t["v"] + 1, 1 << (t["v"] - 1).bit_length() if t["v"] & (t["v"] - 1) else t["v"] * 3][k % 3]
            if t["v"] == r["v"]:
                t["v"] += 1
        elif t["kind"] == "fscale":
            if t["n"] >= 2:
                t["two"][t["n"] // 2] = -t["two"][t["n"] // 2] if t["n"] % 2 == 0 else t["two"][t["n"] // 2] + 1
            else:
                t["one"] = [0, 1]
        elif t["kind"] == "maps":
            if t["n"] >= 3:
                t["expand"][-1] = [t["expand"][-1][0], 0]     # conjugation lost
            else:
                t["expand"] = t["expand"] + [[0, 0]]
        else:
            idx = t["cls"].index("m")
            t["cls"][idx] = "1" if t["typ"] == "hp" else "0"
            t["cls"][0] = {"0": "1", "1": "0"}[t["cls"][0]]
        mut.append(t)
    v = tracecheck.validate(ctx, "trace/SpectralTrace.tla", "trace/SpectralTrace.cfg", g + mut, label="selftest", jvms=1,
                            nstates=lambda t: 3)
    flagged = {x["index"] for x in v if x["prop"]}
    drift = {x["index"] for x in v if x["impl"] and not x["prop"]}
    if flagged != set(range(len(g), len(g) + len(mut))) or drift:
        raise tlc.TLCError(f"binding self-test (SpectralTrace): flagged {sorted(flagged)} drift {sorted(drift)}; expected exactly the "
                           f"{len(mut)} corrupted records after {len(g)} correct ones")
    ctx.cov["traces_validated_against_impl"] = keep
    # replay direction: a perturbed exported offset must be flagged on the real output
    bad, _ = pair_job(([{"nsx": 12, "nsw": 7, "off": 3 + 1}, {"nsx": 9, "nsw": 4, "off": 1 - 1}], 0))
    if len({(b[0], b[1]) for b in bad if b[2] == "same"}) != 2:
        raise tlc.TLCError("binding self-test (replay): perturbed 'same' offsets were not flagged")
    ctx.cov["selftest_corrupted_rejected"] = len(mut) + 2


def replay(ctx, sc):
    kind = sc.get("kind")
    if kind == "conv":
        recs = [conv_record(sc["nsx"], sc["nsw"], sc["mode"])]
    elif kind == "dense":
        for key, what, s2 in numeric(ctx, np.random.default_rng(ctx.seed)):
            ctx.violation(key, "replay: " + what, s2)
        recs = [conv_record(min(sc["nsx"], 60), min(sc["nsw"], 60), sc["mode"])]
    elif kind in ("nsoptim",):
        recs = [nsoptim_record(sc["rec"]["n"])]
    elif kind == "fscale":
        recs = [fscale_record(sc["rec"]["n"], float(sc["rec"]["si"]))]
    elif kind == "maps":
        r = sc["rec"]
        recs = [maps_record(r["n"], tuple(r["other"]), r["axis"], use_default_axis=r.get("default_axis", False), form=r.get("form", "c"))]
    elif kind == "filter":
        r = sc["rec"]
        recs = [filter_record(r["n"], r["typ"], r["b0"], r["b1"], form=r.get("form", "list"), shape_other=tuple(r.get("other", ())),
                              pos=r.get("pos", 0))]
    else:
        for key, what, s2 in numeric(ctx, np.random.default_rng(ctx.seed)) + forms(ctx, np.random.default_rng([ctx.seed, 18])):
            ctx.violation(key, "replay: " + what, s2)
        return
    verd = tracecheck.validate(ctx, "trace/SpectralTrace.tla", "trace/SpectralTrace.cfg", recs, label="replay", jvms=1,
                               nstates=lambda t: 3)
    for v in verd:
        if v["prop"]:
            report(ctx, recs[v["index"]], v, "replay: ")
