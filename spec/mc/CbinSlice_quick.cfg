SPECIFICATION Spec
CONSTANTS
  CH = 5
  MaxNS = 7
  Steps <- QuickSteps
  NoneV <- MCNone
  Variant = "fixed"
INVARIANT Transparent
POSTCONDITION Export
CHECK_DEADLOCK FALSE
