SPECIFICATION Spec
CONSTANTS
  MaxNC = 1
  MaxNS = 11
  Widths <- W12
  Props <- P12
  SlewMode = "zero"
  Variant = "fixed"
INVARIANT Flag
INVARIANT InRange
INVARIANT ZeroOnFlag
INVARIANT OneFar
INVARIANT FlagsOnly
INVARIANT Attenuated
CHECK_DEADLOCK FALSE
