SPECIFICATION Spec
CONSTANTS
  MaxN = 10
  Basis = "all"
  Variant = "orig"
INVARIANT Full
INVARIANT Same
INVARIANT PadFits
INVARIANT Helpers
INVARIANT FilterAxes
CHECK_DEADLOCK FALSE
