SPECIFICATION Spec
CONSTANTS
  MaxN = 10
  Basis = "all"
  Variant = "orig"
INVARIANT Full
INVARIANT Same
INVARIANT PadFits
INVARIANT Helpers
CHECK_DEADLOCK FALSE
