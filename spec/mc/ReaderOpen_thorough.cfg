SPECIFICATION Spec
CONSTANTS
  FSet = {2, 4, 10, 770}
  MaxFrames = 5
  MaxMeta = 7
  Variant = "fixed"
INVARIANT OpenSucceeds
INVARIANT Exposed
INVARIANT WithinFile
INVARIANT Duration
INVARIANT MetaDurationWhole
INVARIANT ByteFormsAgree
CHECK_DEADLOCK FALSE
