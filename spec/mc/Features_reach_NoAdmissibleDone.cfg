SPECIFICATION Spec
CONSTANTS
  MaxT = 3
  NC = 2
  Vals <- V1
  MaxD = 2
  Variant = "fixed"
INVARIANT NoAdmissibleDone
CHECK_DEADLOCK FALSE
