SPECIFICATION Spec
CONSTANTS
  Variant = "orig"
  T = 2
  NSs <- QuickNS
  NBs <- QuickNB
  NPs <- QuickNP
  Pads <- QuickPads
  Offs <- QuickOffs
  MaxP = 4
INVARIANT NoCrash
INVARIANT FinalFileCanonical
INVARIANT FinalLength
INVARIANT FinalRms
INVARIANT FinalPad
INVARIANT OnlyOwnerWrites
CHECK_DEADLOCK FALSE
