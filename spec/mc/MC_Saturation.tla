--------------------------- MODULE MC_Saturation ---------------------------
EXTENDS Saturation, Json, IOUtils, SequencesExt
P15 == {<<1, 5>>}
P12 == {<<1, 2>>}
P3 == {<<1, 5>>, <<1, 2>>, <<1, 3>>}
P2 == {<<1, 5>>, <<1, 2>>}
P4 == P3 \cup {<<2, 5>>}        \* a proportion a / b with a > 1 (2 of 5 channels: not more than it)
W7 == {7}
W4 == {3, 4, 6, 7}
W9 == 1..9
W12 == 1..12
\* spec -> code: every abstract input of the box with the expected flags, classes and gain intervals
FlagsOf(n, s, pr, co, cs) == [t \in 1..s |-> MoreThan(co[t], n, pr) \/ (t < s /\ MoreThan(cs[t], n, pr))]
CasesFor(n, s, pr, m) ==
    {[nc |-> n, ns |-> s, a |-> pr[1], b |-> pr[2], M |-> m, co |-> co, cs |-> cs,
      flags |-> FlagsOf(n, s, pr, co, cs),
      cls |-> ClassOf(FlagsOf(n, s, pr, co, cs), m),
      gain |-> MuteOf(FlagsOf(n, s, pr, co, cs), m)] :
        <<co, cs>> \in [1..s -> 0..n] \X (IF SlewMode = "all" THEN [1..(s - 1) -> 0..n] ELSE {[t \in 1..(s - 1) |-> 0]})}
Cases == UNION {CasesFor(n, s, pr, m) : <<n, s, pr, m>> \in (1..MaxNC) \X (1..MaxNS) \X Props \X Widths}
Export == /\ TLCGet("distinct") >= 0
          /\ JsonSerialize(IOEnv.OUT_FILE, SetToSeq(Cases))
=============================================================================
