SPECIFICATION Spec
CONSTANTS
  MaxLen = 7
  MaxLines = 3
  ExportLen = 6
  ExportNumLen = 8
  Variant = "fixed"
INVARIANT ValueRoundTrip
INVARIANT FileRoundTrip
INVARIANT WrittenInDomain
INVARIANT Framing
CHECK_DEADLOCK FALSE
POSTCONDITION Export
