--------------------------- MODULE MC_ReaderIndex ---------------------------
(***************************************************************************)
(* Exhaustive check of lib/ReaderIndex.tla + lib/PySlice.tla:              *)
(*  mode "rows": every sample selector (int, slice with start/stop in      *)
(*     None + -(n+2)..n+2 and step in None, +-1..+-3, index lists up to     *)
(*     MaxList entries) on ns = 1..MaxNS, bin and cbin (chunks of K in Ks),  *)
(*     against a pool of column selectors on a permuted 2+1 channel file;   *)
(*  mode "cols": every column selector on 1..MaxND data channels + nsync    *)
(*     in 0..MaxSync sync channels (0: a recording saved without its sync   *)
(*     channel; 2: a nidq file with two digital words; at most MaxND + 1    *)
(*     columns in all), every permutation of the data channels as order,    *)
(*     against a pool of sample selectors;                                   *)
(* implementation layer Read/GetItem = property layer RefRead, cell by cell.*)
(* Variant "orig" (tree before the negative-step fix) must fail ReadOK on   *)
(* cbin (F12).  Export: index tables replayed on the real code.             *)
(***************************************************************************)
EXTENDS ReaderIndex, FiniteSets, TLC, Json, IOUtils, SequencesExt

CONSTANTS MaxNS, MaxND, MaxList, MaxSync, Ks, Variant, Modes

VARIABLES mode, api, fmt, K, ns, nsync, order, nsel, csel, pc, res
vars == <<mode, api, fmt, K, ns, nsync, order, nsel, csel, pc, res>>

Bounds(n) == {None} \cup (-(n + 2))..(n + 2)
Steps == {None, 1, 2, 3, -1, -2, -3}
Slices(n) == {[k |-> "slice", a |-> a, b |-> b, s |-> s] : a \in Bounds(n), b \in Bounds(n), s \in Steps}
Ints(n) == {[k |-> "int", i |-> i] : i \in (-n)..(n - 1)}
Lists(n) == {[k |-> "list", l |-> l] : l \in UNION {[1..m -> (-n)..(n - 1)] : m \in 0..MaxList}}
Selectors(n) == Slices(n) \cup Ints(n) \cup Lists(n)

Perms(n) == {p \in [1..n -> 0..(n - 1)] : \A i, j \in 1..n : i # j => p[i] # p[j]}
WithSync(p, k) == p \o [i \in 1..k |-> Len(p) + i - 1]
\* every on-disk data column its own gain class, sync columns the unit class
GainOf(nd, k) == [i \in 1..nd |-> i] \o [i \in 1..k |-> 0]
Gain == GainOf(Len(order) - nsync, nsync)

S(a, b, s) == [k |-> "slice", a |-> a, b |-> b, s |-> s]
ColPool == {AllCols, [k |-> "int", i |-> 0], [k |-> "int", i |-> -1], S(None, None, -1), S(1, None, None),
            [k |-> "list", l |-> <<2, 0>>], [k |-> "list", l |-> <<>>]}
RowPool == {S(None, None, None), [k |-> "int", i |-> -1], S(None, None, -2), S(1, 0, 1), [k |-> "list", l |-> <<0, 0, 2>>]}
Supported(f, sel) == f = "bin" \/ sel.k # "list"

InitRows == /\ mode = "rows" /\ ns \in 1..MaxNS /\ nsel \in Selectors(ns)
            /\ fmt \in {"bin", "cbin"} /\ Supported(fmt, nsel) /\ K \in (IF fmt = "cbin" THEN Ks ELSE {0})
            /\ nsync = 1 /\ order = <<1, 0, 2>> /\ csel \in ColPool
            /\ api \in {"read"} \cup (IF csel = AllCols /\ nsel.k # "list" THEN {"getitem1"} ELSE {})
InitCols == /\ mode = "cols" /\ ns = 3 /\ nsel \in RowPool
            /\ fmt \in {"bin", "cbin"} /\ Supported(fmt, nsel) /\ K = (IF fmt = "cbin" THEN 2 ELSE 0)
            /\ nsync \in 0..MaxSync
            /\ \E nd \in 1..MaxND : nd + nsync <= MaxND + 1 /\ order \in {WithSync(p, nsync) : p \in Perms(nd)}
            /\ csel \in Selectors(Len(order)) /\ api = "getitem2"
Init == /\ mode \in Modes /\ (InitRows \/ InitCols) /\ pc = "open" /\ res = <<>>

DoRead == /\ pc = "open" /\ pc' = "done"
          /\ res' = IF api = "getitem1" THEN GetItem(Variant, fmt, ns, K, order, Gain, <<nsel>>)
                    ELSE IF api = "getitem2" THEN GetItem(Variant, fmt, ns, K, order, Gain, <<nsel, csel>>)
                    ELSE Read(Variant, fmt, ns, K, order, Gain, nsel, csel)
          /\ UNCHANGED <<mode, api, fmt, K, ns, nsync, order, nsel, csel>>
Next == DoRead
Spec == Init /\ [][Next]_vars

Done == pc = "done"
ReadOK == Done => ReadP(ns, order, Gain, nsel, csel, res)
ShapeOK == Done => ShapeP(ns, order, nsel, csel, res)
OwnGain == Done => OwnGainP(Gain, res)
SyncUnit == Done => SyncUnitP(Len(order), nsync, res)
\* the two readings of Python's slice semantics agree (checked on the sample axis, all slices)
SliceAgree == (mode = "rows" /\ nsel.k = "slice") =>
                 LET q == SliceSeq(ns, nsel.a, nsel.b, nsel.s) IN
                 /\ Range(q) = SliceSet(ns, nsel.a, nsel.b, nsel.s) /\ IsMonotone(q, nsel.s)
                 /\ Cardinality(Range(q)) = Len(q)

-----------------------------------------------------------------------------
(* spec -> code: index tables.  small: every selector of every length 1..MaxNS; big: boundary selectors on 385 columns *)
BigN == 385
BigB == {None, 0, 1, 2, 191, 383, 384, 385, 386, 500, -1, -2, -192, -383, -384, -385, -386, -500}
BigS == {None, 1, 2, 3, 7, 384, 385, -1, -2, -3, -7, -384, -385}
BigSel == {S(a, b, s) : a \in BigB, b \in BigB, s \in BigS}
             \cup {[k |-> "int", i |-> i] : i \in {0, 1, 100, 383, 384, -1, -2, -384, -385}}
             \cup {[k |-> "list", l |-> l] : l \in {<<>>, <<0>>, <<384, 0, -1, -385, 5, 5>>, <<383, 382, 10>>, <<-2, 7, 300, 301, 302, 7>>}}
\* the selectors harness/c01.py pairs the table with on the big recordings
BigPool == {S(None, None, None), [k |-> "int", i |-> 7], [k |-> "int", i |-> -1], S(None, None, -3), S(None, None, -5),
            S(380, None, None), S(10, 300, 7), [k |-> "list", l |-> <<384, 0, 200>>], [k |-> "list", l |-> <<384, 0, 0, 17>>]}
Entry(n, sel) == [n |-> n, sel |-> sel, dim |-> Sel(n, sel).dim, idx |-> Sel(n, sel).idx]
Export ==
    /\ TLCGet("distinct") >= 0
    /\ IF "OUT_FILE" \in DOMAIN IOEnv
       THEN JsonSerialize(IOEnv.OUT_FILE,
                [small |-> SetToSeq(UNION {{Entry(n, sel) : sel \in Selectors(n)} : n \in 1..MaxNS}),
                 big |-> SetToSeq({Entry(BigN, sel) : sel \in BigSel \cup BigPool})])
       ELSE TRUE
=============================================================================
