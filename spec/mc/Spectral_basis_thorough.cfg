SPECIFICATION Spec
CONSTANTS
  MaxN = 14
  Basis = "all"
  Variant = "fixed"
INVARIANT Full
INVARIANT Same
INVARIANT PadFits
INVARIANT Helpers
CHECK_DEADLOCK FALSE
