SPECIFICATION Spec
CONSTANTS
  Variant = "fixed"
  NRule = 5
  ModeNC = 2
  ModeNB = {1, 2, 3}
  NDet = 26
  TopMax = 8
INVARIANT RuleFinal
INVARIANT RuleTopBlock
INVARIANT RuleRange
INVARIANT RuleCumsum
INVARIANT ModeIsMode
INVARIANT ModeTie
INVARIANT ModeMajority
INVARIANT ModeUnanimous
INVARIANT ModeBatchOrder
INVARIANT DetectOK
INVARIANT DetectFlagsClean
INVARIANT DetectKnownExact
CHECK_DEADLOCK FALSE
