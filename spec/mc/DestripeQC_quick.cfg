SPECIFICATION QSpec
CONSTANTS
  Variant = "fixed"
  T = 2
  NSs <- QuickNS
  NBs <- QuickNB
  NPs <- QuickNP
  Pads <- NoPad
  Offs <- NoOff
  MaxP = 4
INVARIANT NoCrash
INVARIANT SatSeam
INVARIANT SingleWorkerExact
INVARIANT SatWriters
INVARIANT Times
INVARIANT ClosedForm
CHECK_DEADLOCK FALSE
