SPECIFICATION Spec
CONSTANTS
  CH = 5
  MaxNS = 12
  Steps <- ThorSteps
  NoneV <- MCNone
  Variant = "fixed"
INVARIANT Transparent
POSTCONDITION Export
CHECK_DEADLOCK FALSE
