SPECIFICATION Spec
CONSTANTS
  Part = "reader"
  Box = "quick"
  GlobCases = {}
  SyncCases = {}
  ReconCases = {}
  ReaderKinds = {"bin", "cbin", "flat"}
  MaxLen = 4
INVARIANT LCtor
INVARIANT LNotOpen
INVARIANT LRelease
INVARIANT LTruthful
INVARIANT LWith
INVARIANT LSync
CHECK_DEADLOCK FALSE
POSTCONDITION ExportReader
