SPECIFICATION Spec
CONSTANTS
  Lens = {2, 3, 4}
  NTraces = {1, 2, 3}
  Dens = {1, 2}
  MaxCalls = 2
INVARIANT IntegerShiftIsRoll
INVARIANT ZeroIsIdentity
INVARIANT IsDelay
INVARIANT NyquistNote
INVARIANT ShapeDtype
INVARIANT Untouched
POSTCONDITION Export
CHECK_DEADLOCK FALSE
