---- MODULE MC_DestripeQC ----
EXTENDS DestripeQC, Json, IOUtils, SequencesExt
QuickNS == 5..26
QuickNB == 5..9
QuickNP == 1..4
ThorNS == 5..40
ThorNB == 5..9
ThorNP == 1..4
WideNS == 8..16
WideNB == {5, 6}
WideNP == {5, 6}
NoPad == {0}
NoOff == {0}
OneNS == {6000}
OneNB == {4096}
OneNP == {2}
\* closed form of the implementation layer (the tree with the guard): the batches a worker processes
CLastS(b, n, nb) == Min(b * (nb - 2 * T) + nb, n)
CBatches(w, n, nb, p) ==
    LET ch == n \div p
        b0 == CeilDiv(w * ch, nb)
        maxs == IF w = p - 1 THEN n ELSE (w + 1) * ch
        s == nb - 2 * T
        idle == b0 > 0 /\ b0 * s + 2 * T >= n
        bend == CHOOSE b \in b0..(b0 + n \div s + 2) : CLastS(b, n, nb) >= maxs /\ \A c \in b0..(b - 1) : CLastS(c, n, nb) < maxs
    IN IF idle THEN {} ELSE b0..bend
CLastB(n, nb) == IF n <= nb THEN 0 ELSE CeilDiv(n - nb, nb - 2 * T)
\* seams whose jump flag can be lost: last batch of a worker that is not the last batch of the recording
CLosable(n, nb, p) == {c \in 0..(CLastB(n, nb) - 1) : \E w \in 0..(p - 1) : CBatches(w, n, nb, p) # {} /\
                                                       c = CHOOSE m \in CBatches(w, n, nb, p) : \A x \in CBatches(w, n, nb, p) : x <= m}
\* the closed form agrees with the state machine (checked as an invariant of the bounded model)
ClosedForm == (Terminated /\ NoCrash) => {c \in Seams : Losable(c)} = CLosable(ns, NB, np)
\* real-magnitude tuples for the harness (T = 1024)
RealNB == {3072, 4096, 5120}
RealNP == 1..8
RealNSFor(nb) == {7000, 9100, 10240, 12000, 13000, 16000} \cup {nb + k * (nb - 2 * T) + r : k \in 1..4, r \in {0, 1, 5}}
RealTuples == {t \in (UNION {RealNSFor(nb) : nb \in RealNB}) \X RealNB \X RealNP : t[1] \in RealNSFor(t[2]) /\ t[1] >= t[3]}
ExportTuples == TLCGet("distinct") >= 0 /\
    JsonSerialize(IOEnv.OUT_FILE, SetToSeq({[ns |-> t[1], nb |-> t[2], np |-> t[3], lastb |-> CLastB(t[1], t[2]),
                                             losable |-> SetToSeq(CLosable(t[1], t[2], t[3])),
                                             workers |-> [w \in 1..t[3] |-> SetToSeq(CBatches(w - 1, t[1], t[2], t[3]))]]
                                            : t \in RealTuples}))
====
