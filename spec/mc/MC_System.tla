---- MODULE MC_System ----
EXTENDS System
AllKinds == {"NP24", "NP21"}
Yes == TRUE
SysForms == {"bin", "cbin", "both"}
====
