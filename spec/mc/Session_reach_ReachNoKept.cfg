SPECIFICATION Spec
CONSTANTS
  Part = "recon"
  Box = "quick"
  GlobCases = {}
  SyncCases = {}
  ReconCases <- MCReconCases
  ReaderKinds = {}
  MaxLen = 0
INVARIANT ReachNoKept
CHECK_DEADLOCK FALSE
