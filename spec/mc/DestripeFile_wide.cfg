SPECIFICATION Spec
CONSTANTS
  Variant = "fixed"
  T = 2
  NSs <- WideNS
  NBs <- WideNB
  NPs <- WideNP
  Pads <- NoPad
  Offs <- NoOff
  MaxP = 8
INVARIANT NoCrash
INVARIANT FinalFileCanonical
INVARIANT FinalLength
INVARIANT FinalRms
INVARIANT FinalPad
INVARIANT OnlyOwnerWrites
CHECK_DEADLOCK FALSE
