SPECIFICATION ESpec
CONSTANTS
  Kind = "stack"
  NSort = 1
  NBins = 1
  MaxCnt = 1
  NLab = 3
  LenW = 7
  MaxNX = 1
  MaxNY = 1
  SubNX = 1
  SubNY = 1
CHECK_DEADLOCK FALSE
POSTCONDITION Export
