---------------------------- MODULE MC_SyncBits ----------------------------
EXTENDS SyncBits
AllWords == -32768..32767
\* a few words with analog lines: sign bit, byte boundaries, alternating patterns
FewWords == {-32768, -32767, -21846, -256, -255, -2, -1, 0, 1, 2, 127, 128, 255, 256, 257, 21845, 32767}
NoDiffs == {0}
\* raw - floor around 1.2 V / (5 V / 32768) = 7864.32 and 1.25 V = 8192 exactly
DiffsAround == {-40000, -1, 0, 1, 4095, 4096, 4097, 7864, 7865, 8191, 8192, 8193, 16383, 16384, 16385, 40000}
Thr12 == <<5, 1, 6, 5, 32768>>     \* range 5 V, threshold 1.2 V
Thr125 == <<5, 1, 5, 4, 32768>>    \* range 5 V, threshold 1.25 V (exactly representable: "at threshold")
Thr0625 == <<5, 1, 5, 8, 32768>>   \* 0.625 V = 4096 counts exactly (below 1 V)
Thr25 == <<5, 1, 5, 2, 32768>>     \* 2.5 V = 16384 counts exactly (above 2 V)
=============================================================================
