SPECIFICATION Spec
CONSTANTS
  NSites = 5
  GeomSel = {"np1", "np2x"}
  ExportSites = 5
  MaxCalls = 2
  LabelWrites = "marks"
  Variant = "fixed"
INVARIANT Untouched
INVARIANT Repaired
INVARIANT OrderIndependent
INVARIANT NoSecondHand
INVARIANT ZeroCase
INVARIANT NotYet
CHECK_DEADLOCK FALSE
