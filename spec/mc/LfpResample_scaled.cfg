SPECIFICATION RSpec
CONSTANTS
  MaxNS = 0
  MaxW = 0
  Variant = "fixed"
  Cases <- SCases
INVARIANT InRange
INVARIANT Cover
INVARIANT Overlap
INVARIANT Count
INVARIANT Counter
INVARIANT Monotone
INVARIANT Uniform
INVARIANT Complete
INVARIANT UniformWhenAligned
INVARIANT ClosedForm
POSTCONDITION Export
CHECK_DEADLOCK FALSE
