SPECIFICATION SSpec
CONSTANTS
  NSH = 2
  NW = 1
  MaxRuns = 2
  Variant = "fixed"
  Kinds <- AllKinds
  Publish = "final"
  NCk = 2
INVARIANT TypeOK
INVARIANT Recoverable
INVARIANT FinalNeverPartial
PROPERTY Spec
PROPERTY DeleteGuard
PROPERTY Outcome
CHECK_DEADLOCK FALSE
