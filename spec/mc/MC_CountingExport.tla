------------------------- MODULE MC_CountingExport -------------------------
(* spec -> code for C20: the cases of a box with what the implementation layer of Counting.tla computes,   *)
(* written as JSON to IOEnv.OUT_FILE and replayed on the real code by harness/c20.py.                        *)
(*   venn : every count table (bins x sorters) -> region counts in the order of the code's cond_names       *)
(*   stack: every label vector -> groups, fold, member rows                                                 *)
(*   traj : every layout -> matrix shape, filled entries, multiplicity per cell; and the full-rank table    *)
EXTENDS Counting, Json, IOUtils, SequencesExt

RECURSIVE P2(_)
P2(n) == IF n = 0 THEN 1 ELSE 2 * P2(n - 1)
RegionOfCode(ns, k) == {s \in 1..ns : (k \div P2(ns - s)) % 2 = 1}
VennCases == [1..NBins -> [1..NSort -> 0..MaxCnt]]
VennExp(c) == LET v == VennOf(NSort, c) IN [k \in 1..(P2(NSort) - 1) |-> v[RegionOfCode(NSort, k)]]
StackCases == UNION {[1..n -> 1..NLab] : n \in 1..LenW}
StackExp(w) == LET s == StackOf(w) IN [groups |-> s.groups, fold |-> s.fold,
                                        rows |-> [k \in DOMAIN s.groups |-> SortedSeq(s.rows[k])]]
TrajExp(l) == [shape |-> TShape(l.nx, l.ny), entries |-> SetToSeq(Filled(l.nx, l.ny, l.present)),
               mult |-> SetToSeq({<<c, Mult(l.nx, l.ny, l.present, c)>> : c \in l.present}),
               fullrank |-> FullRank(l.nx, l.ny)]
ESpec == (inp = <<>> /\ pc = "" /\ cuts = {} /\ ci = 0 /\ lvl = 0 /\ res = <<>>) /\ [][UNCHANGED vars]_vars
Export ==
    /\ TLCGet("distinct") >= 0
    /\ JsonSerialize(IOEnv.OUT_FILE,
         IF Kind = "venn" THEN SetToSeq({[cols |-> c, exp |-> VennExp(c)] : c \in VennCases})
         ELSE IF Kind = "stack" THEN SetToSeq({[word |-> w, exp |-> StackExp(w)] : w \in StackCases})
         ELSE <<[layouts |-> SetToSeq({[nx |-> l.nx, ny |-> l.ny, present |-> SetToSeq(l.present), exp |-> TrajExp(l)] : l \in Layouts}),
                 fullrank |-> [nx \in 1..4 |-> [ny \in 1..40 |-> FullRank(nx, ny)]]]>>)
=============================================================================
