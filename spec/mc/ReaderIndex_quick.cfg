SPECIFICATION Spec
CONSTANTS
  MaxNS = 5
  MaxND = 3
  MaxList = 2
  Ks = {2, 3}
  Variant = "fixed"
  Modes = {"rows", "cols"}
INVARIANT ReadOK
INVARIANT ShapeOK
INVARIANT OwnGain
INVARIANT SyncUnit
INVARIANT SliceAgree
POSTCONDITION Export
CHECK_DEADLOCK FALSE
