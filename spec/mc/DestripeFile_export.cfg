SPECIFICATION Spec
CONSTANTS
  Variant = "fixed"
  T = 1024
  NSs <- OneNS
  NBs <- OneNB
  NPs <- OneNP
  Pads <- NoPad
  Offs <- NoOff
  MaxP = 2
POSTCONDITION ExportTuples
CHECK_DEADLOCK FALSE
