--------------------------- MODULE MC_MetaGrammar ---------------------------
EXTENDS MetaGrammar, Json, IOUtils, SequencesExt
CONSTANT ExportLen,    \* every value string up to this length is exported ...
         ExportNumLen  \* ... and every string over the numeric characters up to this one
NumStrings == UNION {[1..m -> NumChar] : m \in (ExportLen + 1)..ExportNumLen}
\* spec -> code: the value strings with what both layers say about them, written once
Export == /\ TLCGet("distinct") >= 0
          /\ JsonSerialize(IOEnv.OUT_FILE, SetToSeq({Case(s) : s \in Strings(ExportLen) \cup NumStrings}))
=============================================================================
