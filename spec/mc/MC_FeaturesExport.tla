------------------------- MODULE MC_FeaturesExport -------------------------
(* spec -> code for C14: every complete waveform of the box together with the outcome the        *)
(* implementation layer of Features.tla computes for every recovery offset 0..min(MaxD, T-1);     *)
(* written as JSON to IOEnv.OUT_FILE, replayed on the real compute_spike_features by harness/c14. *)
EXTENDS MC_Features, Json, IOUtils, SequencesExt

Cases == UNION {[1..T -> [1..NC -> Vals]] : T \in 2..MaxT}
Expected(c) == [i \in 1..(IMin(MaxD, Len(c) - 1) + 1) |-> Feat(c, i - 1)]
ESpec == Init /\ [][UNCHANGED vars]_vars
Export == /\ TLCGet("distinct") >= 0
          /\ JsonSerialize(IOEnv.OUT_FILE, SetToSeq({[w |-> c, exp |-> Expected(c)] : c \in Cases}))
=============================================================================
