SPECIFICATION QSpec
CONSTANTS
  Variant = "fixed"
  T = 1024
  NSs <- OneNS
  NBs <- OneNB
  NPs <- OneNP
  Pads <- NoPad
  Offs <- NoOff
  MaxP = 2
INVARIANT SatSeam
INVARIANT ClosedForm
POSTCONDITION ExportTuples
CHECK_DEADLOCK FALSE
