SPECIFICATION SpecTree
CONSTANTS
  NCH = 24
  NB = 6
  Variant = "orig"
  NGRP = 3
INVARIANT LeafSettingsInv
INVARIANT GroupsPartitionInv
CHECK_DEADLOCK FALSE
