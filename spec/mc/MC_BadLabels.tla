---------------------------- MODULE MC_BadLabels ----------------------------
(***************************************************************************)
(* C15 parts II-IV, three small machines in one model (variable `part`):   *)
(*  "rule"   all (dead, noisy, cand) flag triples on NRule channels; the   *)
(*           three assignments of detect_bad_channels one step each        *)
(*  "mode"   all label matrices ModeNC channels x nb batches, nb in ModeNB *)
(*  "detect" all fault scenarios (silent channel, noisy channel, top block)*)
(*           on NDet channels: abstract coherence -> 11-point median       *)
(*           detrend -> flags -> rule                                      *)
(***************************************************************************)
EXTENDS BadChannels

CONSTANTS NRule, ModeNC, ModeNB, NDet, TopMax

VARIABLES part, inp, lab, pc
vars == <<part, inp, lab, pc>>

Scenarios == {sc \in [n : {NDet}, dead : 0..NDet, noisy : 0..NDet, nrep : {0, 1}, top : 0..TopMax] :
                 /\ sc.dead = 0 \/ sc.dead # sc.noisy
                 /\ sc.nrep = 1 => sc.noisy # 0
                 \* two channels without the common signal are separate faults, not a cluster: more than one
                 \* median window apart
                 /\ (sc.nrep = 1 /\ sc.dead # 0) => (sc.dead - sc.noisy > 10 \/ sc.noisy - sc.dead > 10)}

Init ==
    \/ /\ part = "rule"
       /\ inp \in [dead : SUBSET (1..NRule), noisy : SUBSET (1..NRule), cand : SUBSET (1..NRule)]
       /\ lab = [c \in 1..NRule |-> 0] /\ pc = "zeros"                   \* ichannels = np.zeros(nc)
    \/ /\ part = "mode"
       /\ \E nb \in ModeNB : inp \in [1..ModeNC -> [1..nb -> Labels]]
       /\ lab = <<>> /\ pc = "start"
    \/ /\ part = "detect"
       /\ \E sc \in Scenarios : \E nf \in NoisyFlagSets(sc) : inp = [sc |-> sc, nf |-> nf]
       /\ lab = <<>> /\ pc = "start"

\* rule: ichannels[ioutside] = 3 ; ichannels[idead] = 1 ; ichannels[inoisy] = 2
RuleOutside == /\ part = "rule" /\ pc = "zeros"
               /\ lab' = Step3(NRule, inp.cand) /\ pc' = "outside" /\ UNCHANGED <<part, inp>>
RuleDead == /\ part = "rule" /\ pc = "outside"
            /\ lab' = Step1(lab, inp.dead) /\ pc' = "dead" /\ UNCHANGED <<part, inp>>
RuleNoisy == /\ part = "rule" /\ pc = "dead"
             /\ lab' = Step2(lab, inp.noisy) /\ pc' = "done" /\ UNCHANGED <<part, inp>>
\* mode: channel_flags, _ = scipy.stats.mode(channel_labels, axis=1)
ModeStep == /\ part = "mode" /\ pc = "start"
            /\ lab' = [c \in 1..ModeNC |-> ModeImpl(inp[c])] /\ pc' = "done" /\ UNCHANGED <<part, inp>>
\* detect: features -> flags -> rule
DetectStep == /\ part = "detect" /\ pc = "start"
              /\ lab' = DetectImpl(inp.sc, inp.nf) /\ pc' = "done" /\ UNCHANGED <<part, inp>>

Next == RuleOutside \/ RuleDead \/ RuleNoisy \/ ModeStep \/ DetectStep
Spec == Init /\ [][Next]_vars

-----------------------------------------------------------------------------
(* property layer *)
RuleFinal == (part = "rule" /\ pc = "done") => RuleP(NRule, inp.dead, inp.noisy, inp.cand, lab)
\* after the first assignment label 3 sits exactly on the maximal top-contiguous run of candidates
RuleTopBlock == (part = "rule" /\ pc = "outside") =>
                   \A c \in 1..NRule : lab[c] = (IF c \in TopBlock(NRule, inp.cand) THEN 3 ELSE 0)
RuleCumsum == (part = "rule" /\ pc = "zeros") => LET io == SortedSeq(inp.cand) IN CumGapSum(io) = CumGap(io)
RuleRange == part = "rule" => \A c \in 1..NRule : lab[c] \in Labels

ModeDone == part = "mode" /\ pc = "done"
NB == Len(inp[1])
ModeIsMode == ModeDone => \A c \in 1..ModeNC : ModeP(inp[c], lab[c])
ModeTie == ModeDone => \A c \in 1..ModeNC : ModeTieP(inp[c], lab[c])
ModeMajority == ModeDone => \A c \in 1..ModeNC : \A l \in Labels : 2 * Count(inp[c], l) > NB => lab[c] = l
ModeUnanimous == ModeDone => \A c \in 1..ModeNC : (\A k \in 1..NB : inp[c][k] = inp[c][1]) => lab[c] = inp[c][1]
\* the order of the batches is irrelevant (swap of two neighbours)
Swap(row, k) == [row EXCEPT ![k] = row[k + 1], ![k + 1] = row[k]]
ModeBatchOrder == ModeDone => \A c \in 1..ModeNC : \A k \in 1..(NB - 1) : ModeImpl(Swap(inp[c], k)) = lab[c]

DetectDone == part = "detect" /\ pc = "done"
\* the property, or the known-finding class (P \/ Known, DESIGN 2.4)
DetectOK == DetectDone => (DetectP(inp.sc, lab) \/ DetectKnownP(inp.sc, lab))
\* with no incoherent channel within 5 channels of the block (or of the top) the flags are exactly the injected faults
DetectFlagsClean ==
    (DetectDone /\ \A p \in Incoherent(inp.sc) : p < inp.sc.n - inp.sc.top - 5) =>
        /\ DeadFlags(inp.sc) = Incoherent(inp.sc) \ {c \in 1..NDet : InBlock(inp.sc, c)}
        /\ CandFlags(inp.sc) = {c \in 1..NDet : InBlock(inp.sc, c)}
        /\ Borderline(inp.sc) = {}
\* the known class is not vacuous and is exactly where the model deviates
DetectKnownExact == DetectDone => ((KnownBelowBlock(inp.sc) /\ inp.sc.noisy # inp.sc.n - inp.sc.top) => ~DetectP(inp.sc, lab))
=============================================================================
