SPECIFICATION Spec
CONSTANTS
  MaxT = 6
  NC = 1
  Vals <- V3
  MaxD = 5
  Variant = "fixed"
INVARIANT Succeeds
INVARIANT Peak
INVARIANT Order
INVARIANT Half
INVARIANT RecoveryFallback
INVARIANT StepsAreFeat
INVARIANT ScaleLaw
INVARIANT PermLaw
CHECK_DEADLOCK FALSE
