SPECIFICATION SpecTree
CONSTANTS
  NCH = 24
  NB = 6
  Variant = "fixed"
INVARIANT LeafSettingsInv
INVARIANT GroupsPartitionInv
CHECK_DEADLOCK FALSE
