SPECIFICATION Spec
CONSTANTS
  Lens = {2, 3, 4, 5, 6, 7, 8, 9}
  NTraces = {0}
  Dens = {1, 2, 4, 13, 16, 100}
  MaxCalls = 2
INVARIANT IntegerShiftIsRoll
INVARIANT ZeroIsIdentity
INVARIANT IsDelay
INVARIANT NyquistNote
INVARIANT ShapeDtype
INVARIANT Untouched
CHECK_DEADLOCK FALSE
