SPECIFICATION Spec
CONSTANTS
  MaxNC = 2
  MaxNS = 3
  Widths <- W4
  Props <- P2
  SlewMode = "all"
  Variant = "fixed"
INVARIANT Flag
INVARIANT InRange
INVARIANT ZeroOnFlag
INVARIANT OneFar
INVARIANT FlagsOnly
INVARIANT Attenuated
CHECK_DEADLOCK FALSE
POSTCONDITION Export
