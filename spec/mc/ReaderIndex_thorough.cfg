SPECIFICATION Spec
CONSTANTS
  MaxNS = 8
  MaxND = 5
  MaxList = 2
  MaxSync = 2
  Ks = {1, 2, 3, 4}
  Variant = "fixed"
  Modes = {"rows", "cols"}
INVARIANT ReadOK
INVARIANT ShapeOK
INVARIANT OwnGain
INVARIANT SyncUnit
INVARIANT SliceAgree
POSTCONDITION Export
CHECK_DEADLOCK FALSE
