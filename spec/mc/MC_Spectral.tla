---------------------------- MODULE MC_Spectral ----------------------------
EXTENDS Spectral, Json, IOUtils, SequencesExt
\* spec -> code: per pair of lengths what the harness needs to place the expected impulse, per length the
\* expected helper outputs
Pairs == {[nsx |-> a, nsw |-> b, ns |-> NsOptimImpl(a + b), off |-> SameOffset(b)] : <<a, b>> \in (1..MaxN) \X (1..MaxN)}
Lens == {[n |-> n, nsopt |-> NsOptimImpl(n), fscale |-> FScaleImpl(n)] : n \in 1..MaxN}
Export == /\ TLCGet("distinct") >= 0
          /\ JsonSerialize(IOEnv.OUT_FILE, [pairs |-> SetToSeq(Pairs), lens |-> SetToSeq(Lens)])
=============================================================================
