SPECIFICATION Spec
CONSTANTS
  MaxChans = 3
  MaxNi = 2
  GainPairs <- GP
  Mutant = "none"
INVARIANT AgreeVersion
INVARIANT AgreeType
INVARIANT AgreeCounts
INVARIANT AgreeMaxInt
INVARIANT AgreeS2V
CHECK_DEADLOCK FALSE
POSTCONDITION Export
