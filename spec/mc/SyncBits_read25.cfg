SPECIFICATION Spec
CONSTANTS
  Words <- FewWords
  MaxNA = 2
  Diffs <- DiffsAround
  Thr <- Thr25
INVARIANT Decode
INVARIANT Injective
INVARIANT Row
INVARIANT Binary
CHECK_DEADLOCK FALSE
