---- MODULE MC_NP2Convert ----
EXTENDS NP2Convert
AllKinds == {"NP24", "NP21", "NP1", "split"}
\* initial directories: form of the original x what the shank folders already hold (NP2Convert!Init)
AllForms == {"bin", "cbin", "both", "binS", "cbinS"}
AllFounds == {"none", "dirs", "bins", "cbins", "mixed"}
QuickForms == {"bin", "cbin", "both"}
QuickFounds == {"none", "cbins"}
Yes == TRUE
====
