---- MODULE MC_NP2Convert ----
EXTENDS NP2Convert
AllKinds == {"NP24", "NP21", "NP1", "split"}
====
