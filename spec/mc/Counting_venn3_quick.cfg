SPECIFICATION Spec
CONSTANTS
  Kind = "venn"
  NSort = 3
  NBins = 2
  MaxCnt = 2
  NLab = 1
  LenW = 1
  MaxNX = 1
  MaxNY = 1
  SubNX = 1
  SubNY = 1
INVARIANT Attribution
INVARIANT NeverOver
INVARIANT ChunkFree
CHECK_DEADLOCK FALSE
