SPECIFICATION Spec
CONSTANTS
  NL = 1
  MaxT = 9
  Amps <- A1
  Steps <- S1
INVARIANT HistoryConsistent
INVARIANT Fronts1D
INVARIANT FrontsTL
INVARIANT FrontsLT
INVARIANT Rises
INVARIANT Falls
INVARIANT Split
INVARIANT Alternate
CHECK_DEADLOCK FALSE
POSTCONDITION Export
