---- MODULE MC_WaveformExtract ----
EXTENDS WaveformExtract
Pos == 0..(NS - 1)
Mk(f) == [i \in DOMAIN f |-> <<f[i][1], f[i][2], (f[i][1] + f[i][2]) % 3>>]
TrainsN(n) == {Mk(f) : f \in {g \in [1..n -> Pos \X {1, 2}] :
                               /\ \A i \in 1..(n - 1) : g[i][1] <= g[i + 1][1]
                               /\ \A i, j \in 1..n : i # j => g[i] # g[j]}}
QuickTrains == TrainsN(1) \cup TrainsN(2) \cup TrainsN(3)
ThorTrains == QuickTrains \cup {t \in TrainsN(4) : t[1][1] \in {0, 2, 3} /\ t[4][1] \in {8, 9, 10, 11}}
QuickChunks == {3, 4, 5, 12}
ThorChunks == {2, 3, 4, 5, 7, 11, 12}
WFs == {1, 2, 3}
====
