SPECIFICATION Spec
CONSTANTS
  MaxNC = 1
  MaxNS = 6
  Widths <- W9
  Props <- P12
  SlewMode = "zero"
  Variant = "orig"
INVARIANT Flag
INVARIANT InRange
INVARIANT ZeroOnFlag
INVARIANT OneFar
INVARIANT FlagsOnly
INVARIANT Attenuated
CHECK_DEADLOCK FALSE
