SPECIFICATION Spec
CONSTANTS
  Variant = "fixed"
  T = 2
  NSs <- ThorNS
  NBs <- ThorNB
  NPs <- ThorNP
  Pads <- QuickPads
  Offs <- QuickOffs
  MaxP = 5
INVARIANT NoCrash
INVARIANT FinalFileCanonical
INVARIANT FinalLength
INVARIANT FinalRms
INVARIANT FinalPad
INVARIANT OnlyOwnerWrites
CHECK_DEADLOCK FALSE
