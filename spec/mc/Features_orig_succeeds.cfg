SPECIFICATION Spec
CONSTANTS
  MaxT = 5
  NC = 1
  Vals <- V3
  MaxD = 3
  Variant = "orig"
INVARIANT Succeeds
CHECK_DEADLOCK FALSE
