SPECIFICATION Spec
CONSTANTS
  NChunks = 1
  Variant = "fixed"
POSTCONDITION ExportInits
CHECK_DEADLOCK FALSE
