SPECIFICATION Spec
CONSTANTS
  MaxNC = 6
  MaxNS = 2
  Widths <- W7
  Props <- P4
  SlewMode = "all"
  Variant = "fixed"
INVARIANT Flag
INVARIANT InRange
INVARIANT ZeroOnFlag
INVARIANT OneFar
INVARIANT FlagsOnly
INVARIANT Attenuated
CHECK_DEADLOCK FALSE
POSTCONDITION Export
