---------------------------- MODULE MC_Features ----------------------------
(* constants of the exhaustive boxes of Features.tla (cfg files cannot hold negative numbers) *)
EXTENDS Features
V1 == -1..1
V2 == -2..2
V3 == -3..3
V2N == (-2..2) \cup {NaNV}
V1N == (-1..1) \cup {NaNV}
=============================================================================
