------------------------------- MODULE MC_TTL -------------------------------
EXTENDS TTL, Json, IOUtils, SequencesExt
A1 == {1}
S1 == {1}
A123 == {1, 2, 3}
S1234 == {1, 2, 3, 4}
\* spec -> code: the trains of the box with their ground-truth events, written once at the end of the run
Export == /\ TLCGet("distinct") >= 0
          /\ JsonSerialize(IOEnv.OUT_FILE, SetToSeq(Cases))
=============================================================================
