SPECIFICATION Spec
CONSTANTS
  Lens = {2, 3, 4, 5, 6, 7}
  NTraces = {0}
  Dens = {1, 2, 4, 100}
  MaxCalls = 2
INVARIANT IntegerShiftIsRoll
INVARIANT ZeroIsIdentity
INVARIANT IsDelay
INVARIANT NyquistNote
INVARIANT ShapeDtype
INVARIANT Untouched
CHECK_DEADLOCK FALSE
