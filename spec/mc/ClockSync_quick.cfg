SPECIFICATION SpecBook
CONSTANTS
  MaxN = 8
  MaxMiss = 2
  MaxSpan = 1
  TBin = 100
  Variant = "fixed"
INVARIANT Bookkeeping
POSTCONDITION Export
CHECK_DEADLOCK FALSE
