SPECIFICATION PSpec
CONSTANTS
  NSH = 2
  NW = 2
  MaxRuns = 3
  Variant = "fixed"
  Kinds <- PKinds
INVARIANT NeverLost
CHECK_DEADLOCK FALSE
