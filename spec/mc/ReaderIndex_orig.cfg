SPECIFICATION Spec
CONSTANTS
  MaxNS = 6
  MaxND = 4
  MaxList = 2
  MaxSync = 1
  Ks = {2, 3}
  Variant = "orig"
  Modes = {"rows"}
INVARIANT ReadOK
INVARIANT ShapeOK
INVARIANT OwnGain
INVARIANT SyncUnit
INVARIANT SliceAgree
CHECK_DEADLOCK FALSE
