SPECIFICATION PSpec
CONSTANTS
  NSH = 2
  NW = 2
  MaxRuns = 4
  Variant = "fixed"
  Kinds <- PKinds
INVARIANT TypeOK
INVARIANT RecoverableOrHazard
PROPERTY ReconSafe
PROPERTY UserSafe
PROPERTY ReconRestores
CHECK_DEADLOCK FALSE
