SPECIFICATION Spec
CONSTANTS
  NChunks = 5
  Variant = "fixed"
INVARIANT TypeOK
INVARIANT AtomicPublish
INVARIANT ResolveSame
PROPERTY SourceSafe
PROPERTY Outcome
CHECK_DEADLOCK FALSE
