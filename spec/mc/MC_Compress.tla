---- MODULE MC_Compress ----
EXTENDS Compress, Json, IOUtils, SequencesExt
ExportInits == TLCGet("distinct") >= 0 /\ JsonSerialize(IOEnv.OUT_FILE, SetToSeq(InitDirs))
====
