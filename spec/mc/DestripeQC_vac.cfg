SPECIFICATION QSpec
CONSTANTS
  Variant = "fixed"
  T = 2
  NSs <- QuickNS
  NBs <- QuickNB
  NPs <- QuickNP
  Pads <- NoPad
  Offs <- NoOff
  MaxP = 4
INVARIANT NoSeamLost
CHECK_DEADLOCK FALSE
