SPECIFICATION SSpec
CONSTANTS
  MaxNS = 0
  MaxW = 0
  Variant = "orig"
  RATIO = 3
  OV = 12
  NSs <- QNS
  Ws <- QWs
INVARIANT InRange
INVARIANT Cover
INVARIANT Overlap
INVARIANT Count
INVARIANT APPrefix
INVARIANT APComplete
INVARIANT LFTokens
INVARIANT LFComplete
INVARIANT LFEdges
CHECK_DEADLOCK FALSE
