SPECIFICATION Spec
CONSTANTS
  MaxN = 10
  Basis = "all"
  Variant = "fixed"
INVARIANT Full
INVARIANT Same
INVARIANT PadFits
INVARIANT Helpers
INVARIANT FilterAxes
CHECK_DEADLOCK FALSE
