SPECIFICATION Spec
CONSTANTS
  MaxLen = 7
  MaxLines = 1
  ExportLen = 0
  ExportNumLen = 0
  Variant = "orig"
INVARIANT ValueRoundTrip
INVARIANT FileRoundTrip
CHECK_DEADLOCK FALSE
