---------------------------- MODULE MC_ClockSync ----------------------------
(* wrapper for lib/ClockSync.tla: export of the deletion patterns (scenario enumerator of C19) *)
EXTENDS ClockSync, Json, IOUtils, SequencesExt

Patterns == {<<a, b>> \in Subsets(8, 2) \X Subsets(8, 2) : TRUE}
Export ==
    /\ TLCGet("distinct") >= 0
    /\ JsonSerialize(IOEnv.OUT_FILE,
         [patterns |-> SetToSeq({[missA |-> SetToSortSeq(p[1], <), missB |-> SetToSortSeq(p[2], <),
                                  ntrue |-> Cardinality(TruePairs(8, p[1], p[2]))] : p \in Patterns})])
=============================================================================
