---------------------------- MODULE MC_ClockSync ----------------------------
(* wrapper for lib/ClockSync.tla: export of the deletion patterns (scenario enumerator of C19) *)
EXTENDS ClockSync, Json, IOUtils, SequencesExt

Patterns == {<<a, b>> \in Subsets(8, 2) \X Subsets(8, 2) : TRUE}

(* runs of consecutive deletions (quantifier: 0..5 events missing on each side at ANY position, so five in a row at the   *)
(* start, inside or at the end of a series as well).  Abstract train of 15 events: 1..5 = the first five events of the    *)
(* long train, 6..10 = five consecutive events in its interior, 11..15 = its last five; a run stays inside one block.     *)
RunN == 15
Block(e) == (e - 1) \div 5
RunSets == {{}} \cup {i..j : <<i, j>> \in {q \in (1..RunN) \X (1..RunN) : q[1] <= q[2] /\ Block(q[1]) = Block(q[2])}}
RunPatterns == RunSets \X RunSets
\* the bookkeeping oracle is consistent on every run pattern as well (same formulas as invariant Bookkeeping)
RunBookkeeping ==
    \A p \in RunPatterns :
        /\ IdxIsOrderIsomorphism(RunN, p[1]) /\ IdxIsOrderIsomorphism(RunN, p[2])
        /\ TruthIsMonotoneMatching(RunN, p[1], p[2])
        /\ \A q \in TruePairs(RunN, p[1], p[2]) : ~SoundP({<<q[1], q[2] + 1>>}, TruePairs(RunN, p[1], p[2]))

Export ==
    /\ TLCGet("distinct") >= 0
    /\ RunBookkeeping
    /\ JsonSerialize(IOEnv.OUT_FILE,
         [patterns |-> SetToSeq({[missA |-> SetToSortSeq(p[1], <), missB |-> SetToSortSeq(p[2], <),
                                  ntrue |-> Cardinality(TruePairs(8, p[1], p[2]))] : p \in Patterns}),
          runs |-> SetToSeq({[missA |-> SetToSortSeq(p[1], <), missB |-> SetToSortSeq(p[2], <),
                              ntrue |-> Cardinality(TruePairs(RunN, p[1], p[2]))] : p \in RunPatterns})])
=============================================================================
