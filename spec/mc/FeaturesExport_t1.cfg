SPECIFICATION ESpec
CONSTANTS
  MaxT = 5
  NC = 1
  Vals <- V3
  MaxD = 3
  Variant = "fixed"
POSTCONDITION Export
CHECK_DEADLOCK FALSE
