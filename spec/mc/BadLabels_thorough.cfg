SPECIFICATION Spec
CONSTANTS
  Variant = "fixed"
  NRule = 7
  ModeNC = 2
  ModeNB = {1, 2, 3, 4, 5}
  NDet = 40
  TopMax = 16
INVARIANT RuleFinal
INVARIANT RuleTopBlock
INVARIANT RuleRange
INVARIANT RuleCumsum
INVARIANT ModeIsMode
INVARIANT ModeTie
INVARIANT ModeMajority
INVARIANT ModeUnanimous
INVARIANT ModeBatchOrder
INVARIANT DetectOK
INVARIANT DetectFlagsClean
INVARIANT DetectKnownExact
CHECK_DEADLOCK FALSE
