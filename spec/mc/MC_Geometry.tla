---------------------------- MODULE MC_Geometry ----------------------------
(***************************************************************************)
(* Model of geometry_from_meta as the sequence of its statement groups     *)
(* (operators of lib/Geometry.tla), over an exhaustive box of site tables: *)
(* every ordered selection of at most MaxSel distinct sites of the first   *)
(* GridRows rows / GridShanks shanks of each grid, both encodings, sorted   *)
(* and unsorted, unsplit and split by every shank.  The property layer of  *)
(* Geometry.tla is instantiated with the model's own values.               *)
(* Every site of the small grid carries a draw flag fixed by FlagPattern    *)
(* (0 on about half of the sites, as SpikeGLX writes for reference sites):  *)
(* the selections mix flagged and unflagged entries in every order at no    *)
(* cost in states.                                                         *)
(* Export (POSTCONDITION): every case of a smaller box with the header the  *)
(* specification expects, replayed on the real code by harness/c08.py.     *)
(***************************************************************************)
EXTENDS Geometry, Json, IOUtils, SequencesExt

CONSTANTS GridRows, GridShanks, MaxSel, MaxSelU, ExportSel,
          Mutant      \* "" = the code as it is; other values: seeded model mutants (vacuity control)

VARIABLES g, sites, enc, srt, split, pc, th, inds

vars == <<g, sites, enc, srt, split, pc, th, inds>>

SmallGrid(gen) == {s \in (0..(GridShanks - 1)) \X (0..(GridRows - 1)) \X (0..(Grid(gen).ncol - 1)) : OnGrid(gen, s)}
Sel(gen) == IF gen = "NPU" THEN MaxSelU ELSE MaxSel
\* ordered selections of k distinct sites
Tables(gen, kmax) ==
    UNION {{t \in [1..k -> SmallGrid(gen)] : \A i, j \in 1..k : i # j => t[i] # t[j]} : k \in 1..kmax}
\* the draw flag SpikeGLX would write for a site of the small grid: both values occur in every row of every grid
FlagPattern(s) == (s[1] + s[2] + s[3] + (s[3] \div 2)) % 2
Flagged(t) == [i \in DOMAIN t |-> <<t[i][1], t[i][2], t[i][3], FlagPattern(t[i])>>]
Splits(gen, t) == {-1} \cup (IF gen = "NP2" THEN {t[i][1] : i \in DOMAIN t} ELSE {})

Init == /\ g \in Gens
        /\ sites \in {Flagged(t) : t \in Tables(g, Sel(g))}
        /\ enc \in Encodings(g)
        /\ srt \in BOOLEAN
        /\ split \in Splits(g, sites)
        /\ pc = "meta" /\ th = <<>> /\ inds = <<>>

MapStep == /\ pc = "meta" /\ pc' = "parsed"
           /\ th' = MapChannels(g, enc, sites)
           /\ UNCHANGED <<g, sites, enc, srt, split, inds>>
ConvertStep == /\ pc = "parsed" /\ pc' = "coords"
               /\ th' = Convert(g, enc, th)
               /\ UNCHANGED <<g, sites, enc, srt, split, inds>>
AdcStep == /\ pc = "coords" /\ pc' = "adc"
           /\ th' = AdcShifts(g, th)
           /\ UNCHANGED <<g, sites, enc, srt, split, inds>>
SplitStep == /\ pc = "adc" /\ pc' = "split"
             /\ th' = SplitShanks(th, split)
             /\ UNCHANGED <<g, sites, enc, srt, split, inds>>
\* seeded mutants of the last step (each must be caught by an invariant; see harness/c08.py)
MSortHeader(hs) ==
    CASE Mutant = "asc_col" ->
            LET p == SortSeq([i \in 1..Len(hs) |-> i - 1],
                             LAMBDA a, b : LexLess(<<hs[a + 1].shank, hs[a + 1].row, hs[a + 1].col>>,
                                                   <<hs[b + 1].shank, hs[b + 1].row, hs[b + 1].col>>))
            IN [i \in 1..Len(hs) |-> hs[p[i] + 1]]
      [] Mutant = "adc_after_sort" ->
            LET s == SortHeader(hs, TRUE)
            IN [i \in 1..Len(s) |-> [s[i] EXCEPT !.adc = AdcOf(g, i - 1), !.shift = ShiftNum(g, i - 1)]]
      [] Mutant = "ind_unsorted" ->
            LET s == SortHeader(hs, TRUE) IN [i \in 1..Len(s) |-> [s[i] EXCEPT !.ind = i - 1]]
      [] Mutant = "flag_unsorted" ->
            LET s == SortHeader(hs, TRUE) IN [i \in 1..Len(s) |-> [s[i] EXCEPT !.flag = hs[i].flag]]
      [] OTHER -> SortHeader(hs, TRUE)
SortStep == /\ pc = "split" /\ pc' = "done"
            /\ th' = IF srt THEN MSortHeader(th) ELSE th
            /\ inds' = ReturnedIndex(th, srt)
            /\ UNCHANGED <<g, sites, enc, srt, split>>

Next == MapStep \/ ConvertStep \/ AdcStep \/ SplitStep \/ SortStep
Spec == Init /\ [][Next]_vars

-----------------------------------------------------------------------------
(* intermediate facts (implementation layer) *)
CoordsOnGrid == pc = "coords" => \A i \in 1..Len(th) : SiteOf(th[i]) = Site3(sites[i]) /\ th[i].flag = FlagOf(sites[i]) /\ XYExact(g, th[i].x, th[i].y)
Composition == pc = "done" => th = Header(g, enc, sites, srt, split) /\ inds = HeaderIndex(g, enc, sites, srt, split)

(* property layer on the model's result *)
Done == pc = "done"
OtherEnc == IF enc \in {"shank", "both"} /\ "geom" \in Encodings(g) THEN "geom" ELSE "shank"
SitesOnce == Done => SitesOnceP(sites, split, th)
Describes == Done => DescribesP(g, sites, split, th)
Unsorted == (Done /\ ~srt) => UnsortedP(th, inds)
Sorted == (Done /\ srt) => SortedP(th)
JointPerm == Done => JointPermP(th, Header(g, enc, sites, FALSE, split), inds)
EncAgree == Done => EncAgreeP(th, Header(g, OtherEnc, sites, srt, split))
SplitRestriction == (Done /\ split # -1 /\ ~srt) => SplitP(Header(g, enc, sites, FALSE, -1), split, th)

-----------------------------------------------------------------------------
(* facts about the real grids: evaluated once *)
ASSUME GridInverse
ASSUME EncodingsAgreeOnGrid
ASSUME ShiftClosedForm
ASSUME AdcEven
ASSUME DenseOnGrid
\* the canonical layouts satisfy the property layer as well
ASSUME \A gn \in {<<"NP1", 1>>, <<"NP2", 1>>, <<"NP2", 4>>, <<"NPU", 1>>} :
          LET h == TraceHeader(gn[1], gn[2]) d == DenseLayout(gn[1], gn[2]) IN
          /\ SitesOnceP(d, -1, h) /\ DescribesP(gn[1], d, -1, h) /\ UnsortedP(h, Identity(384))
          /\ \A s \in 0..3 : RestrictionP(h, s, SplitHeader(h, s))

-----------------------------------------------------------------------------
(* spec -> code: cases with the expected header, as arrays <<shank,row,col,x,y,adc,shift,ind,flag>> *)
Flat(h) == <<h.shank, h.row, h.col, h.x, h.y, h.adc, h.shift, h.ind, h.flag>>
ESel(gen) == IF gen = "NPU" THEN 2 ELSE ExportSel
ExportCases ==
    UNION {{[gen |-> gen, sites |-> t, enc |-> e, sort |-> s, split |-> sp] :
                t \in {Flagged(u) : u \in Tables(gen, ESel(gen))}, e \in Encodings(gen), s \in BOOLEAN, sp \in -1..3} : gen \in Gens}
ValidCase(c) == c.split \in Splits(c.gen, c.sites)
Export ==
    /\ TLCGet("distinct") >= 0
    /\ IF "OUT_FILE" \in DOMAIN IOEnv
       THEN JsonSerialize(IOEnv.OUT_FILE,
                SetToSeq({[case |-> c,
                           hdr |-> [i \in 1..Len(Header(c.gen, c.enc, c.sites, c.sort, c.split)) |->
                                        Flat(Header(c.gen, c.enc, c.sites, c.sort, c.split)[i])],
                           idx |-> HeaderIndex(c.gen, c.enc, c.sites, c.sort, c.split)] :
                          c \in {c \in ExportCases : ValidCase(c)}}))
       ELSE TRUE
=============================================================================
