SPECIFICATION Spec
CONSTANTS
  GridRows = 3
  GridShanks = 2
  MaxSel = 5
  MaxSelU = 3
  ExportSel = 3
  Mutant = ""
INVARIANT CoordsOnGrid
INVARIANT Composition
INVARIANT SitesOnce
INVARIANT Describes
INVARIANT Unsorted
INVARIANT Sorted
INVARIANT JointPerm
INVARIANT EncAgree
INVARIANT SplitRestriction
POSTCONDITION Export
CHECK_DEADLOCK FALSE
