SPECIFICATION Spec
CONSTANTS
  Part = "glob"
  Box = "quick"
  GlobCases <- MCGlobCases
  SyncCases = {}
  ReconCases = {}
  ReaderKinds = {}
  MaxLen = 0
CHECK_DEADLOCK FALSE
