SPECIFICATION SpecFlow
CONSTANTS
  NCH = 384
  NB = 6
  Variant = "fixed"
  NGRP = 3
INVARIANT ExcludedInv
INVARIANT NoLeakInv
INVARIANT AllFilteredInv
INVARIANT FlowAgrees
POSTCONDITION Export
CHECK_DEADLOCK FALSE
