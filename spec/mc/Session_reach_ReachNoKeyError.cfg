SPECIFICATION Spec
CONSTANTS
  Part = "sync"
  Box = "quick"
  GlobCases = {}
  SyncCases <- MCSyncCases
  ReconCases = {}
  ReaderKinds = {}
  MaxLen = 0
INVARIANT ReachNoKeyError
CHECK_DEADLOCK FALSE
