SPECIFICATION SpecTree
CONSTANTS
  NCH = 24
  NB = 7
  Variant = "fixed"
INVARIANT LeafSettingsInv
INVARIANT GroupsPartitionInv
CHECK_DEADLOCK FALSE
