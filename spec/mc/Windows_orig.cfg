SPECIFICATION Spec
CONSTANTS
  MaxNS = 120
  MaxW = 24
  Variant = "orig"
INVARIANT InRange
INVARIANT Cover
INVARIANT Overlap
INVARIANT Count
INVARIANT CountPositive
INVARIANT Centre
INVARIANT ValidPartition
INVARIANT SpliceHere
PROPERTY Progress
CHECK_DEADLOCK FALSE
