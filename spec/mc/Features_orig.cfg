SPECIFICATION Spec
CONSTANTS
  MaxT = 5
  NC = 1
  Vals <- V3
  MaxD = 3
  Variant = "orig"
INVARIANT Succeeds
INVARIANT Peak
INVARIANT Order
INVARIANT Half
INVARIANT RecoveryFallback
INVARIANT StepsAreFeat
INVARIANT ScaleLaw
INVARIANT PermLaw
CHECK_DEADLOCK FALSE
