SPECIFICATION Spec
CONSTANTS
  Variant = "orig"
  NRule = 1
  ModeNC = 1
  ModeNB = {1}
  NDet = 24
  TopMax = 3
INVARIANT DetectOK
CHECK_DEADLOCK FALSE
