SPECIFICATION Spec
CONSTANTS
  Variant = "orig"
  NRule = 2
  ModeNC = 2
  ModeNB = {1}
  NDet = 24
  TopMax = 3
INVARIANT RuleFinal
INVARIANT RuleTopBlock
INVARIANT RuleRange
INVARIANT RuleCumsum
INVARIANT ModeIsMode
INVARIANT ModeTie
INVARIANT ModeMajority
INVARIANT ModeUnanimous
INVARIANT ModeBatchOrder
INVARIANT DetectOK
INVARIANT DetectFlagsClean
INVARIANT DetectKnownExact
CHECK_DEADLOCK FALSE
