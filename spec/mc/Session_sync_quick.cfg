SPECIFICATION Spec
CONSTANTS
  Part = "sync"
  Box = "quick"
  GlobCases = {}
  SyncCases <- MCSyncCases
  ReconCases = {}
  ReaderKinds = {}
  MaxLen = 0
INVARIANT SSound
INVARIANT SComplete
INVARIANT SAnalog
CHECK_DEADLOCK FALSE
POSTCONDITION ExportSync
