---- MODULE MC_DestripeFile ----
EXTENDS DestripeFile, Json, IOUtils, SequencesExt
QuickNS == 5..26
QuickNB == 5..9
QuickNP == 1..4
QuickPads == {0, 3}
QuickOffs == {0, 7}
ThorNS == 5..40
ThorNB == 5..10
ThorNP == 1..5
\* all eight workers, smaller lengths
WideNS == 8..22
WideNB == {5, 7}
WideNP == {7, 8}
OneNS == {6000}
OneNB == {4096}
OneNP == {2}
NoPad == {0}
NoOff == {0}
\* real-magnitude tuples (T = 1024) classified by the implementation layer before the fix: which worker
\* would start beyond the canonical last batch ("tail": rewrites the tail from another batch, "crash": reads an
\* empty / too short batch).  Exported for the harness to choose its real runs from (spec -> code).
RealNS == {3072, 3073, 3500, 4096, 4097, 4608, 5000, 5120, 5121, 6000, 6144, 7000, 7168, 8192, 9100, 10240, 12000, 13000}
RealNB == {3072, 4096, 5120}
RealNP == 1..8
Hazard(n, nb, p) ==
    LET s == nb - 2 * T
        lastb == IF n <= nb THEN 0 ELSE CeilDiv(n - nb, s)
        ch == n \div p
        late == {w \in 1..(p - 1) : CeilDiv(w * ch, nb) > lastb}
        len(w) == n - CeilDiv(w * ch, nb) * s
    IN IF late = {} THEN "none"
       ELSE IF \E w \in late : len(w) < T THEN "crash" ELSE "tail"
Seam(n, nb, p) ==   \* where the worker boundaries fall relative to the batch seams
    LET s == nb - 2 * T  ch == n \div p
    IN {IF (w * ch) % nb = 0 THEN "on" ELSE IF (w * ch) % nb < T THEN "after" ELSE IF (w * ch) % nb > nb - T THEN "before" ELSE "mid"
        : w \in 1..(p - 1)}
RealTuples == {<<n, nb, p>> \in RealNS \X RealNB \X RealNP : n >= nb \/ n > 2 * T}
ExportTuples == TLCGet("distinct") >= 0 /\
    JsonSerialize(IOEnv.OUT_FILE, SetToSeq({[ns |-> t[1], nb |-> t[2], np |-> t[3], hazard |-> Hazard(t[1], t[2], t[3]),
                                             seams |-> SetToSeq(Seam(t[1], t[2], t[3])),
                                             nbatches |-> (IF t[1] <= t[2] THEN 0 ELSE CeilDiv(t[1] - t[2], t[2] - 2 * T)) + 1]
                                            : t \in RealTuples}))
====
