---- MODULE MC_DestripeFile ----
EXTENDS DestripeFile, Json, IOUtils, SequencesExt
QuickNS == 5..26
QuickNB == 5..9
QuickNP == 1..4
QuickPads == {0, 3}
QuickOffs == {0, 7}
ThorNS == 5..40
ThorNB == 5..9
ThorNP == 1..4
\* all eight workers, smaller lengths
WideNS == 8..16
WideNB == {5, 6}
WideNP == {7, 8}
OneNS == {6000}
OneNB == {4096}
OneNP == {2}
MidNS == 6..22
MidNB == {5, 6, 8}
MidNP == {5, 6}
NoPad == {0}
NoOff == {0}
\* real-magnitude tuples (T = 1024) classified by the implementation layer before the fix: which worker
\* would start beyond the canonical last batch ("tail": rewrites the tail from another batch, "crash": reads an
\* empty / too short batch).  Exported for the harness to choose its real runs from (spec -> code).
RealNS == {3072, 3073, 3500, 4096, 4097, 4608, 5000, 5120, 5121, 6000, 6144, 7000, 7168, 8192, 9100, 10240, 12000, 13000}
\* batch sizes: the multiples of 1024 in use, an odd one and one that is no multiple of the taper (stride 1025 / 1452)
RealNB == {3072, 3073, 3500, 4096, 5120}
RealNP == 1..8
Hazard(n, nb, p) ==
    LET s == nb - 2 * T
        lastb == IF n <= nb THEN 0 ELSE CeilDiv(n - nb, s)
        ch == n \div p
        late == {w \in 1..(p - 1) : CeilDiv(w * ch, nb) > lastb}
        len(w) == n - CeilDiv(w * ch, nb) * s
    IN IF late = {} THEN "none"
       ELSE IF \E w \in late : len(w) < T THEN "crash" ELSE "tail"
Seam(n, nb, p) ==   \* where the worker boundaries fall relative to the batch seams
    LET s == nb - 2 * T  ch == n \div p
    IN {IF (w * ch) % nb = 0 THEN "on" ELSE IF (w * ch) % nb < T THEN "after" ELSE IF (w * ch) % nb > nb - T THEN "before" ELSE "mid"
        : w \in 1..(p - 1)}
\* ---- mutation-aware selection: plausible slips in the worker arithmetic (implementation-layer variants) and, for each
\* real-magnitude tuple, which of them would break the property there.  The harness runs the real code on tuples that
\* are sensitive to each variant, i.e. exactly where the property is fragile.
Muts == {"guard_off", "maxs_clamp", "start_floor", "start_stride", "break_gt", "maxs_early"}
MLastS(b, n, nb) == Min(b * (nb - 2 * T) + nb, n)
MStart(m, w, n, nb, p) ==
    LET ch == n \div p IN
    CASE m = "start_floor" -> (w * ch) \div nb
      [] m = "start_stride" -> CeilDiv(w * ch, nb - 2 * T)
      [] OTHER -> CeilDiv(w * ch, nb)
MMaxS(m, w, n, nb, p) ==
    LET ch == n \div p IN
    CASE m = "maxs_clamp" -> Min(n, (w + 1) * ch)
      [] m = "maxs_early" -> IF w = p - 1 THEN n ELSE (w + 1) * ch - 1
      [] OTHER -> IF w = p - 1 THEN n ELSE (w + 1) * ch
MStops(m, b, maxs, n, nb) == IF m = "break_gt" THEN MLastS(b, n, nb) > maxs \/ MLastS(b, n, nb) = n ELSE MLastS(b, n, nb) >= maxs
\* batches written by worker w under variant m (the guard of the fix is active unless m = "guard_off")
MBatches(m, w, n, nb, p) ==
    LET b0 == MStart(m, w, n, nb, p)
        maxs == MMaxS(m, w, n, nb, p)
        s == nb - 2 * T
        idle == m # "guard_off" /\ b0 > 0 /\ b0 * s + 2 * T >= n
        bend == CHOOSE b \in b0..(b0 + n \div s + 2) : MStops(m, b, maxs, n, nb) /\ \A c \in b0..(b - 1) : ~MStops(m, c, maxs, n, nb)
    IN IF idle THEN {} ELSE b0..bend
MOutcome(m, n, nb, p) ==
    LET s == nb - 2 * T
        lastb == IF n <= nb THEN 0 ELSE CeilDiv(n - nb, s)
        wr == UNION {MBatches(m, w, n, nb, p) : w \in 0..(p - 1)}
    IN IF \E b \in wr : n - b * s < T THEN "crash"
       ELSE IF wr = 0..lastb THEN "ok"
       ELSE IF \E b \in 0..lastb : b \notin wr THEN "gap" ELSE "tail"
Sens(n, nb, p) == {m \in Muts : MOutcome(m, n, nb, p) # "ok"}
\* lengths around every "last batch exactly full" point (r = -1: the last batch is one sample short of a full one)
RealNSFor(nb) == RealNS \cup {nb + k * (nb - 2 * T) + r : k \in 0..3, r \in {-1, 0, 1, 2, 3, 5, 7}}
RealTuples == {t \in (UNION {RealNSFor(nb) : nb \in RealNB}) \X RealNB \X RealNP : t[1] \in RealNSFor(t[2]) /\ t[1] > 2 * T /\ t[1] >= t[3]}
ExportTuples == TLCGet("distinct") >= 0 /\
    JsonSerialize(IOEnv.OUT_FILE, SetToSeq({[ns |-> t[1], nb |-> t[2], np |-> t[3], hazard |-> Hazard(t[1], t[2], t[3]),
                                             seams |-> SetToSeq(Seam(t[1], t[2], t[3])),
                                             sens |-> SetToSeq(Sens(t[1], t[2], t[3])),
                                             nbatches |-> (IF t[1] <= t[2] THEN 0 ELSE CeilDiv(t[1] - t[2], t[2] - 2 * T)) + 1]
                                            : t \in RealTuples}))
\* the current tree (guard on, no variant) must be "ok" everywhere: checked as an assumption of the export run
ASSUME \A t \in RealTuples : MOutcome("none", t[1], t[2], t[3]) = "ok"
====
