SPECIFICATION Spec
CONSTANTS
  MaxT = 4
  NC = 2
  Vals <- V2
  MaxD = 3
  Variant = "fixed"
INVARIANT Succeeds
INVARIANT Peak
INVARIANT Order
INVARIANT Half
INVARIANT RecoveryFallback
INVARIANT StepsAreFeat
INVARIANT ScaleLaw
INVARIANT PermLaw
CHECK_DEADLOCK FALSE
