SPECIFICATION ESpec
CONSTANTS
  MaxT = 3
  NC = 2
  Vals <- V2N
  MaxD = 2
  Variant = "fixed"
POSTCONDITION Export
CHECK_DEADLOCK FALSE
