SPECIFICATION SSpec
CONSTANTS
  NSH = 2
  NW = 2
  MaxRuns = 3
  Variant = "fixed"
  Kinds <- AllKinds
  Forms <- SysForms
  Publish = "tmp"
  NCk = 3
INVARIANT TypeOK
INVARIANT Recoverable
INVARIANT FinalNeverPartial
PROPERTY Spec
PROPERTY DeleteGuard
PROPERTY Outcome
CHECK_DEADLOCK FALSE
