SPECIFICATION Spec
CONSTANTS
  MaxN = 300
  Basis = "lengths"
  Variant = "fixed"
INVARIANT Full
INVARIANT Same
INVARIANT PadFits
INVARIANT Helpers
INVARIANT FilterAxes
CHECK_DEADLOCK FALSE
POSTCONDITION Export
