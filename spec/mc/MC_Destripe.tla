----------------------------- MODULE MC_Destripe -----------------------------
(* model-checking wrapper for lib/DestripePipeline.tla: the ADC facts (no state graph: assumptions),    *)
(* and the export of the tables / scenarios the harness replays on the real code (C05).                   *)
EXTENDS DestripePipeline, Json, IOUtils, SequencesExt

ASSUME AdcAligned == NCH < 384 \/ AdcFacts

FlowOf(lab) ==
    [infl |-> [j \in Chan |-> SetToSortSeq(FlowInfl(lab, j), <)],
     nearbad |-> [j \in Chan |-> NearBad(lab, j)],
     inside |-> SetToSortSeq({i \in Chan : lab[i] # 3}, <)]

LabelVectors == [0..(NB - 1) -> 0..3]

Export ==
    /\ TLCGet("distinct") >= 0
    /\ JsonSerialize(IOEnv.OUT_FILE,
         [adc |-> [g \in Gens |-> [cycles |-> Cycles(g), nadc |-> AdcChannels(g),
                                   shift |-> LET t == ShiftTable(g) IN [c \in 1..NCH |-> t[c - 1]],
                                   tick |-> [c \in 1..NCH |-> PhysTick(g, c - 1)],
                                   adc |-> [c \in 1..NCH |-> AdcOf(g, c - 1)]]],
          flow |-> SetToSeq({[labels |-> [i \in 1..NB |-> l[i - 1]], exp |-> FlowOf(l)] : l \in LabelVectors})])
=============================================================================
