---------------------------- MODULE MC_BadInterp ----------------------------
(***************************************************************************)
(* C15 part I: the loop of interpolate_bad_channels as a state machine.    *)
(* Every label vector over {0,1,2,3} on the first NSites sites of each     *)
(* geometry; the bad channels are repaired ONE PER STEP IN ANY ORDER (the  *)
(* code takes them in ascending order - one of the explored behaviours),   *)
(* so that "the result does not depend on the order" is an invariant over  *)
(* all interleavings.                                                      *)
(* The label vector is an OBJECT of the caller that outlives the call      *)
(* (destripe / decompress_destripe_cbin hand one vector and one header to  *)
(* every batch of a file): up to MaxCalls calls are made with it, each on  *)
(* a fresh recording.  `lab` is the object, `lab0` what the caller wrote   *)
(* into it (history variable), `entry` the copy a call works from          *)
(* (bad_channels is computed once, at the entry).  The property layer      *)
(* speaks about lab0.  LabelWrites = "marks" is a what-if: the loop notes   *)
(* in the caller's vector that channel i is repaired - invisible in the    *)
(* first call, the second call repairs nothing.                            *)
(***************************************************************************)
EXTENDS BadChannels, Json, IOUtils, SequencesExt

CONSTANTS NSites,      \* sites per geometry in the model
          GeomSel,     \* names of the geometries explored
          ExportSites, \* sites per geometry of the exported replay cases
          MaxCalls,    \* calls made with the same label vector object
          LabelWrites  \* "none" = the code ; "marks" = what-if, see above

\* 8-site geometries <<x, y>> (micrometres), channel order as on the probe
Geoms == [
  np1    |-> << <<43,20>>, <<11,20>>, <<59,40>>, <<27,40>>, <<43,60>>, <<11,60>>, <<59,80>>, <<27,80>> >>,   \* trace_header(1)[:8]
  np2    |-> << <<27,20>>, <<59,20>>, <<27,35>>, <<59,35>>, <<27,50>>, <<59,50>>, <<27,65>>, <<59,65>> >>,   \* trace_header(2)[:8]
  np24   |-> << <<27,20>>, <<59,20>>, <<27,20>>, <<59,20>>, <<27,35>>, <<59,35>>, <<27,35>>, <<59,35>> >>,   \* trace_header(2, 4)[[0,1,48,49,2,3,50,51]]: shanks coincide in (x, y)
  ultra  |-> << <<0,0>>, <<6,0>>, <<12,0>>, <<18,0>>, <<24,0>>, <<30,0>>, <<36,0>>, <<42,0>> >>,            \* NPultra first row
  sparse |-> << <<27,20>>, <<59,20>>, <<27,35>>, <<27,110>>, <<59,125>>, <<27,215>>, <<59,305>>, <<27,320>> >>, \* NP2 selection with isolated sites
  np2x   |-> << <<27,65>>, <<27,50>>, <<27,80>>, <<59,65>>, <<27,35>>, <<27,95>>, <<59,125>>, <<59,170>> >>  \* NP2 selection: site 7 is 68 um from site 1
]
GeomNames == GeomSel
Geo(name) == SubSeq(Geoms[name], 1, NSites)

VARIABLES gname, lab, lab0, entry, val, todo, ncall
vars == <<gname, lab, lab0, entry, val, todo, ncall>>
g == Geo(gname)
Fresh == [i \in 1..NSites |-> Row(i)]

Init == /\ gname \in GeomNames
        /\ lab0 \in [1..NSites -> 0..3]
        /\ lab = lab0 /\ entry = lab0
        /\ val = Fresh
        /\ todo = Bad(lab0)                             \* bad_channels = where(labels == 1 | labels == 2)
        /\ ncall = 1

Repair(i) == /\ i \in todo
             /\ val' = [val EXCEPT ![i] = RepairStep(g, entry, val, i)]
             /\ todo' = todo \ {i}
             /\ lab' = IF LabelWrites = "marks" THEN [lab EXCEPT ![i] = 0] ELSE lab
             /\ UNCHANGED <<gname, lab0, entry, ncall>>
\* the next batch: same label vector object, fresh data
Again == /\ todo = {} /\ ncall < MaxCalls
         /\ ncall' = ncall + 1
         /\ entry' = lab /\ todo' = Bad(lab) /\ val' = Fresh
         /\ UNCHANGED <<gname, lab, lab0>>
Next == (\E i \in todo : Repair(i)) \/ Again
Spec == Init /\ [][Next]_vars

-----------------------------------------------------------------------------
(* property layer on the model's observables, in every call, against the labels the caller wrote (lab0) *)
Untouched == UntouchedP(lab0, {i \in 1..NSites : val[i] = Row(i)})
Repaired == \A i \in Bad(lab0) \ todo : RepairedP(g, lab0, i, Observe(g, lab0, i, val[i]))
\* order independence: a repaired row is what the step yields on the ORIGINAL rows, whatever was repaired before it
OrderIndependent == \A i \in Bad(lab0) \ todo : val[i] = RepairStep(g, lab0, Fresh, i)
\* later bad channels never read earlier repaired ones
NoSecondHand == \A i \in Bad(lab0) \ todo : val[i].src \cap Bad(lab0) = {}
ZeroCase == \A i \in Bad(lab0) \ todo : (val[i].zero <=> Support(g, lab0, i) = {})
NotYet == \A i \in todo : val[i] = Row(i)
\* the call leaves the caller's label vector as it was
LabelsKept == lab = lab0 /\ entry = lab0

-----------------------------------------------------------------------------
(* spec -> code: every label vector on the first ExportSites sites of every geometry with what the
   property layer expects of the real function, plus the constants the harness re-derives numerically *)
ExpGeo(name) == SubSeq(Geoms[name], 1, ExportSites)
Cases == {[g |-> name, lab |-> l] : name \in DOMAIN Geoms, l \in [1..ExportSites -> 0..3]}
Expect(c) == [g |-> c.g, lab |-> c.lab, bad |-> Bad(c.lab),
              supp |-> [i \in 1..ExportSites |-> IF i \in Bad(c.lab) THEN Support(ExpGeo(c.g), c.lab, i) ELSE {}]]
Export == /\ TLCGet("distinct") >= 0
          /\ JsonSerialize(IOEnv.OUT_FILE,
                 [d2cut |-> D2Cut,
                  microw |-> SetToSeq({<<d, MicroW[d]>> : d \in DOMAIN MicroW}),
                  geoms |-> [name \in DOMAIN Geoms |-> ExpGeo(name)],
                  cases |-> SetToSeq({Expect(c) : c \in Cases})])
=============================================================================
