----------------------------- MODULE MC_Session -----------------------------
(***************************************************************************)
(* Boxes for spec/sys/Session.tla and the spec -> code exports: for every   *)
(* case of a box the result the implementation layer expects, written once  *)
(* by a POSTCONDITION (which must not be constant-level, hence TLCGet).     *)
(***************************************************************************)
EXTENDS Session, Json, IOUtils, SequencesExt

CONSTANTS Box        \* sync / reader: "quick" | "thorough"; glob: "q1".."q3" (quick), "t1".."t5" (thorough), run in parallel JVMs

-----------------------------------------------------------------------------
\* 1. glob
Stem == "r_g0_t0.imec0"
Stem2 == "r_g1_t0.imec0"
F(st, sm, e) == [stem |-> st, stream |-> sm, e |-> e]
UFull == {F(Stem, sm, e) : sm \in {"ap", "lf", "nidq"}, e \in {"meta", "bin", "cbin", "ch"}}
UQuick == UFull \ {F(Stem, "lf", "meta"), F(Stem, "nidq", "ch"), F(Stem, "nidq", "cbin")}
UTwo == {F(Stem, "ap", "meta"), F(Stem, "ap", "bin"), F(Stem, "lf", "bin"),
         F(Stem2, "ap", "meta"), F(Stem2, "ap", "cbin"), F(Stem2, "lf", "cbin"), F(Stem2, "lf", "bin")}
Opts(exts, sufs) == [ext : exts, suffix : sufs, recursive : BOOLEAN, binex : BOOLEAN]
OptsQuick == Opts({"bin", "ch", "meta"}, {".meta"})
OptsThorough == Opts({"bin", "ch", "meta", "cbin"}, {".meta"}) \cup Opts({"bin", "ch"}, {".ch", ".bin"})

\* a chain of L folders, files only in the last one: sess / raw_ephys_data|probeXX / probe00|raw_ephys_data
Chain(L, nm, fs) == [name |-> [i \in 1..L |-> IF i = L THEN nm ELSE IF i = 1 THEN "sess" ELSE "raw_ephys_data"],
                     parent |-> [i \in 1..L |-> i - 1],
                     files |-> [i \in 1..L |-> IF i = L THEN fs ELSE {}]]
SingleBox(Ls, U, opts) == {[t |-> Chain(L, nm, fs), o |-> o] : L \in Ls, nm \in {"raw_ephys_data", "probe00"}, fs \in SUBSET U, o \in opts}

\* n1 / n2 / {probe00, probe01}: every folder takes one of a few file profiles
P0 == {}
P1 == {F(Stem, "ap", "meta"), F(Stem, "ap", "bin"), F(Stem, "lf", "meta"), F(Stem, "lf", "bin")}
P2 == {F(Stem, "ap", "meta"), F(Stem, "ap", "cbin"), F(Stem, "ap", "ch"), F(Stem, "lf", "meta"), F(Stem, "lf", "cbin"), F(Stem, "lf", "ch")}
P3 == {F(Stem, "nidq", "meta"), F(Stem, "nidq", "bin")}
P4 == {F(Stem, "nidq", "meta")}
P5 == {F(Stem, "ap", "meta")}
P6 == {F(Stem, "ap", "meta"), F(Stem, "ap", "bin"), F(Stem, "ap", "cbin"), F(Stem, "lf", "bin"),
       F(Stem, "nidq", "meta"), F(Stem, "nidq", "cbin"), F(Stem, "nidq", "ch")}
Fork(n1, n2, f1, f2, f3, f4) == [name |-> <<n1, n2, "probe00", "probe01">>, parent |-> <<0, 1, 2, 2>>, files |-> <<f1, f2, f3, f4>>]
ForkBox(profiles, opts) == {[t |-> Fork(n1, n2, f1, f2, f3, f4), o |-> o] :
                               n1 \in {"sess", "raw_ephys_data"}, n2 \in {"raw_ephys_data", "probe02"},
                               f1 \in profiles, f2 \in profiles, f3 \in profiles, f4 \in profiles, o \in opts}
TwoStemBox(opts) == {[t |-> Chain(3, "probe00", fs), o |-> o] : fs \in SUBSET UTwo, o \in opts}

\* the ap loop and the nidq loop never look at each other's files: all subsets of the ap/lf files x a few nidq profiles, and
\* all subsets of the nidq files x two ap profiles, instead of all subsets of the union
UAp(U) == {f \in U : f.stream # "nidq"}
UNi(U) == {f \in U : f.stream = "nidq"}
SplitBox(Ls, U, opts) ==
    {[t |-> Chain(L, nm, fa \cup fn), o |-> o] : L \in Ls, nm \in {"raw_ephys_data", "probe00"},
        fa \in {x \in SUBSET UAp(U) : F(Stem, "ap", "meta") \in x \/ x \in {{}, {F(Stem, "lf", "bin")}}}, fn \in {P0, P3, P4}, o \in opts}
    \cup {[t |-> Chain(L, nm, fa \cup fn), o |-> o] : L \in Ls, nm \in {"raw_ephys_data", "probe00"},
        fa \in {P0, P1}, fn \in SUBSET UNi(U), o \in opts}
MCGlobCases ==
    IF Part # "glob" THEN {} ELSE
    CASE Box = "q1" -> SplitBox({1, 2}, UQuick \cup {F(Stem, "nidq", "cbin")}, OptsQuick)
      [] Box = "q2" -> SplitBox({3}, UQuick \cup {F(Stem, "nidq", "cbin")}, OptsQuick)
      [] Box = "q3" -> ForkBox({P0, P1, P6}, OptsQuick) \cup TwoStemBox(OptsQuick)
      [] Box = "t1" -> SplitBox({1}, UFull, OptsThorough)
      [] Box = "t2" -> SplitBox({2}, UFull, OptsThorough)
      [] Box = "t3" -> SplitBox({3}, UFull, OptsThorough)
      [] Box = "t4" -> ForkBox({P0, P1, P2, P4, P6}, OptsQuick) \cup TwoStemBox(OptsThorough)
      [] Box = "t5" -> SingleBox({3}, UQuick, OptsQuick)
      [] OTHER -> {}

FName(f) == IF f = NoFile THEN "" ELSE f.stem \o "." \o f.stream \o "." \o f.e
Flat(e) == <<e.kind, e.dir, e.label, FName(e.file), FName(e.lf)>>
GlobExpect(c) ==
    [t |-> [name |-> c.t.name, parent |-> c.t.parent, files |-> [d \in Dirs(c.t) |-> {FName(f) : f \in c.t.files[d]}]],
     o |-> c.o,
     drivers |-> {[dir |-> x[1], f |-> FName(x[2]), allowed |-> {Flat(e) : e \in ApEntries(c.t, c.o, x[1], x[2])}] : x \in ApDrivers(c.t, c.o)}
                 \cup {[dir |-> x[1], f |-> FName(x[2]), allowed |-> {Flat(e) : e \in NidqEntries(c.t, c.o, x[1], x[2])}] : x \in NidqDrivers(c.t, c.o)},
     vfiles |-> IF \E x \in NidqDrivers(c.t, c.o) : NoFile \notin NidqChoices(c.t, c.o, x[1], x[2]) THEN "3B" ELSE "3A",
     probes |-> {<<l, ImplProbes(c.t)[l]>> : l \in DOMAIN ImplProbes(c.t)},
     version |-> ImplVersionFolder(c.t)]
\* vacuity control: every branch of the two loops and every deviation class must occur in the union of the glob boxes of a tier:
\* each run exports which of the facts it witnesses, the harness requires every fact to be witnessed by some run
AllAp(c) == ApDrivers(c.t, c.o)
VacGlob ==
    [skip_missing |-> \E c \in MCGlobCases : \E x \in AllAp(c) : ApBranch(c.t, c.o, x[1], x[2]) = "skip_missing",
     skip_noext |-> \E c \in MCGlobCases : \E x \in AllAp(c) : ApBranch(c.t, c.o, x[1], x[2]) = "skip_noext",
     with_suffix |-> \E c \in MCGlobCases : \E x \in AllAp(c) : ApBranch(c.t, c.o, x[1], x[2]) = "with_suffix",
     found |-> \E c \in MCGlobCases : \E x \in AllAp(c) : ApBranch(c.t, c.o, x[1], x[2]) = "found",
     four_choices |-> \E c \in MCGlobCases : \E x \in AllAp(c) : Cardinality(ApEntries(c.t, c.o, x[1], x[2])) >= 4,
     lf_none |-> \E c \in MCGlobCases : \E x \in AllAp(c) : \E e \in ApEntries(c.t, c.o, x[1], x[2]) : e.lf = NoFile,
     label_empty |-> \E c \in MCGlobCases : \E x \in AllAp(c) : \E e \in ApEntries(c.t, c.o, x[1], x[2]) : e.label = "",
     ghost |-> \E c \in MCGlobCases : \E x \in AllAp(c) : \E e \in ApEntries(c.t, c.o, x[1], x[2]) : ~Exists(c.t, e.fdir, e.file),
     dev_recursive_nidq |-> \E c \in MCGlobCases : \E x \in NidqDrivers(c.t, c.o) : x[1] # 1 /\ ~c.o.recursive,
     dev_nidq_none |-> \E c \in MCGlobCases : \E x \in NidqDrivers(c.t, c.o) : c.o.binex /\ NoFile \in NidqChoices(c.t, c.o, x[1], x[2]),
     dev_probes_nidq |-> \E c \in MCGlobCases : c.o = MetaOpts /\ ~GProbesApP(c.t, ImplProbes(c.t)),
     probe_twice |-> \E c \in MCGlobCases : c.o = MetaOpts /\ \E l \in DOMAIN ImplProbes(c.t) : ImplProbes(c.t)[l] >= 2,
     version_3A |-> \E c \in MCGlobCases : ImplVersionFolder(c.t) = "3A",
     version_3B |-> \E c \in MCGlobCases : ImplVersionFolder(c.t) = "3B"]
ExportGlob == /\ TLCGet("distinct") >= 0
              /\ JsonSerialize(IOEnv.OUT_FILE, [cases |-> SetToSeq({GlobExpect(c) : c \in MCGlobCases}), vac |-> VacGlob])

-----------------------------------------------------------------------------
\* 2. sync map
SeqsUpTo(S, n) == UNION {[1..k -> S] : k \in 0..n}
DistinctPins(w) == \A i, j \in 1..Len(w) : i # j => w[i][1] # w[j][1]
Wirings(pins, names, n) == {w \in SeqsUpTo(pins \X names, n) : DistinctPins(w)}
Absent == [present |-> FALSE, w |-> <<>>]
PinsOf(sy) == CASE sy = "3A" -> {"pin03", "pin05", "pin06", "pin19", "pin25"}
                [] sy = "XX" -> {"P0.1", "P0.12", "pin07", "DI5"}
                [] OTHER -> {"P0.0", "P0.3", "P0.7", "P0.8"}
Names == {"bpod", "audio"}
NDig == IF Box = "quick" THEN 2 ELSE 3
Digs(sy) == {Absent} \cup {[present |-> TRUE, w |-> w] : w \in Wirings(PinsOf(sy), Names, IF sy = "none" THEN 1 ELSE NDig)}
Anas == IF Part # "sync" THEN {} ELSE {Absent} \cup {[present |-> TRUE, w |-> w] : w \in Wirings({"AI0", "AI2", "AI10", "AIN"}, Names, 2)}
MCSyncCases == IF Part # "sync" THEN {} ELSE UNION {{[sys |-> sy, dig |-> d, ana |-> a] : d \in Digs(sy), a \in Anas} : sy \in {"3A", "3B", "XX", "none"}}
SyncExpect(c) == LET r == ImplSyncMap(c) IN [c |-> c, exc |-> r.exc, map |-> {<<n, r.map[n]>> : n \in DOMAIN r.map}]
VacSync == /\ {ImplSyncMap(c).exc : c \in MCSyncCases} = {"", "KeyError", "TypeError", "ValueError"}
           /\ \E c \in MCSyncCases : c.sys = "3A" /\ ImplSyncMap(c).exc = "" /\ \E x \in Lines(c) : ImplSyncMap(c).map[x[1]] # x[2]   \* two pins, one name
           /\ \E c \in MCSyncCases : c.sys = "3A" /\ ImplSyncMap(c).exc = "" /\ \E x \in Wired(c.dig.w) : DocLine("3A", x[1]) = None /\ x[2] \notin DOMAIN ImplSyncMap(c).map
           /\ \E c \in MCSyncCases : ImplSyncMap(c).exc = "" /\ \E n \in DOMAIN ImplSyncMap(c).map : ImplSyncMap(c).map[n] >= 16
ExportSync == /\ TLCGet("distinct") >= 0
              /\ VacSync
              /\ JsonSerialize(IOEnv.OUT_FILE, [cases |-> SetToSeq({SyncExpect(c) : c \in MCSyncCases}),
                                                pinout3A |-> {<<p, PinOut3A[p]>> : p \in DOMAIN PinOut3A},
                                                pinout3B |-> {<<p, PinOut3B[p]>> : p \in DOMAIN PinOut3B},
                                                int3 |-> {<<p, Int3[p]>> : p \in DOMAIN Int3},
                                                int2 |-> {<<p, Int2[p]>> : p \in DOMAIN Int2}])

-----------------------------------------------------------------------------
\* 3. reconstructor
MCReconCases ==
    IF Part # "recon" THEN {} ELSE
    {[kind |-> "NP2.4", nsh |-> n, k |-> k, pre |-> p, compress |-> z] : n \in 1..4, k \in 0..5, p \in {"none", "match", "mismatch"}, z \in BOOLEAN}
    \cup {[kind |-> kd, nsh |-> 1, k |-> k, pre |-> p, compress |-> z] : kd \in {"NP2.1", "3B2"}, k \in 0..2, p \in {"none", "match", "mismatch"}, z \in BOOLEAN}
RECURSIVE ReconPath(_, _)
ReconPath(c, st) == IF ReconFinal(st) THEN <<st>> ELSE <<st>> \o ReconPath(c, ReconStep(c, st))
Fin(c) == ReconRun(c, ReconStart(c))
VacRecon == /\ {<<Fin(c).status, Fin(c).exc>> : c \in MCReconCases} = {<<0, "">>, <<1, "">>, <<-1, "IndexError">>}
            /\ {Fin(c).meta : c \in {x \in MCReconCases : Fin(x).status = 1}} = {"pre", "new"}
            /\ \E c \in MCReconCases : Fin(c).status = 1 /\ c.pre = "mismatch" /\ Fin(c).meta = "new"
            /\ \E c \in MCReconCases : Fin(c).status = 0 /\ c.kind = "NP2.4" /\ c.k > c.nsh
            /\ \E c \in MCReconCases : Fin(c).status = 0 /\ c.kind = "NP2.4" /\ c.k < c.nsh
            /\ \E c \in MCReconCases : Fin(c).status = 0 /\ c.kind # "NP2.4" /\ c.k = c.nsh
ExportRecon == /\ TLCGet("distinct") >= 0
               /\ VacRecon
               /\ JsonSerialize(IOEnv.OUT_FILE, SetToSeq({[c |-> c, path |-> ReconPath(c, ReconStart(c))] : c \in MCReconCases}))

-----------------------------------------------------------------------------
\* 4. reader: every call sequence of length MaxLen, cut before the first read through a closed handle
RECURSIVE SafeLen(_, _, _)
SafeLen(st, seq, i) == IF i > Len(seq) THEN Len(seq)
                       ELSE LET r == RdCall(st, seq[i]) IN IF r[2] = "DANGER" THEN i - 1 ELSE SafeLen(r[1], seq, i + 1)
ReaderSeqs(k, o) == {SubSeq(q, 1, SafeLen(RdNew(k, o), q, 1)) : q \in [1..MaxLen -> Calls]}
ReaderExpect(k, o, q) == [kind |-> k, open |-> o, seq |-> q, new |-> <<"ok", RdNew(k, o).h, IsOpenVal(RdNew(k, o))>>,
                          exp |-> RdRun(RdNew(k, o), q, 1)]
AllObs == UNION {UNION {{<<k, r[1], r[2], r[3]>> : r \in {RdRun(RdNew(k, o), q, 1)[i] : i \in 1..Len(q)}} : q \in ReaderSeqs(k, o)} :
                    <<k, o>> \in ReaderKinds \X BOOLEAN}
VacReader == /\ \E x \in AllObs : DevStale(x[3], x[4])
             /\ \E x \in AllObs : DevFlatUnset(x[1], x[3], x[4])
             /\ {x[2] : x \in AllObs} = {"ok", "data", "IOError", "AttributeError", "True", "False"}
             /\ \E k \in ReaderKinds : \E o \in BOOLEAN : \E q \in [1..MaxLen -> Calls] : SafeLen(RdNew(k, o), q, 1) < MaxLen   \* DANGER is reachable
ExportReader == /\ TLCGet("distinct") >= 0
                /\ VacReader
                /\ JsonSerialize(IOEnv.OUT_FILE,
                      [cases |-> SetToSeq(UNION {{ReaderExpect(k, o, q) : q \in ReaderSeqs(k, o)} : <<k, o>> \in ReaderKinds \X BOOLEAN}),
                       readsync |-> SetToSeq({[kind |-> k, open |-> o, exp |-> ImplReadSync(k, RdNew(k, o)),
                                               holds |-> LSyncP(ImplReadSync(k, RdNew(k, o))),
                                               dev |-> DevFlatSync(k, ImplReadSync(k, RdNew(k, o)))] : <<k, o>> \in ReaderKinds \X BOOLEAN})])
=============================================================================
