SPECIFICATION Spec
CONSTANTS
  NSH = 2
  NW = 2
  MaxRuns = 2
  Variant = "fixed"
  Kinds <- AllKinds
  Forms <- AllForms
  SubRuns <- Yes
  Founds <- AllFounds
  Faults <- Yes
INVARIANT TypeOK
INVARIANT Recoverable
PROPERTY DeleteGuard
PROPERTY Outcome
CHECK_DEADLOCK FALSE
