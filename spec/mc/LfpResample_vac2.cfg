SPECIFICATION RSpec
CONSTANTS
  MaxNS = 0
  MaxW = 0
  Variant = "fixed"
  Cases <- VCases
INVARIANT NoBackward
CHECK_DEADLOCK FALSE
