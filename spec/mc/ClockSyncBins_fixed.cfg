SPECIFICATION SpecBins
CONSTANTS
  MaxN = 8
  MaxMiss = 2
  MaxSpan = 30000
  TBin = 100
  Variant = "fixed"
INVARIANT Binned
CHECK_DEADLOCK FALSE
