SPECIFICATION Spec
CONSTANTS
  Part = "reader"
  Box = "quick"
  GlobCases = {}
  SyncCases = {}
  ReconCases = {}
  ReaderKinds = {"bin", "cbin", "flat"}
  MaxLen = 4
INVARIANT ReachNoFlatUnset
CHECK_DEADLOCK FALSE
