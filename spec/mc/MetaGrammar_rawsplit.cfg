SPECIFICATION Spec
CONSTANTS
  MaxLen = 0
  MaxLines = 2
  ExportLen = 0
  ExportNumLen = 0
  Variant = "rawsplit"
INVARIANT Framing
CHECK_DEADLOCK FALSE
