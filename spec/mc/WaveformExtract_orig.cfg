SPECIFICATION Spec
CONSTANTS
  NS = 12
  LEN = 3
  TROUGH = 1
  MaxWFs <- WFs
  Chunks <- QuickChunks
  Trains <- QuickTrains
  Variant = "orig"
INVARIANT Quotas
INVARIANT RowOrder
INVARIANT AtMostOnce
INVARIANT Content
INVARIANT WithinSnippet
INVARIANT EveryRowInAChunk
CHECK_DEADLOCK FALSE
