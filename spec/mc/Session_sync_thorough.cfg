SPECIFICATION Spec
CONSTANTS
  Part = "sync"
  Box = "thorough"
  GlobCases = {}
  SyncCases <- MCSyncCases
  ReconCases = {}
  ReaderKinds = {}
  MaxLen = 0
INVARIANT SSound
INVARIANT SComplete
INVARIANT SAnalog
CHECK_DEADLOCK FALSE
POSTCONDITION ExportSync
