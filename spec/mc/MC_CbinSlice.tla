---- MODULE MC_CbinSlice ----
EXTENDS CbinSlice, Json, IOUtils, SequencesExt
MCNone == 999
QuickSteps == {999, 1, 2, -1, -2}
ThorSteps == {999, 1, 2, 3, 4, 6, -1, -2, -3}
Cases == {<<nn, a, b, s>> \in (1..MaxNS) \X ({NoneV} \cup (-(MaxNS + 2)..(MaxNS + 2))) \X ({NoneV} \cup (-(MaxNS + 2)..(MaxNS + 2))) \X Steps :
             (a = NoneV \/ (a >= -(nn + 2) /\ a <= nn + 2)) /\ (b = NoneV \/ (b >= -(nn + 2) /\ b <= nn + 2))}
Export == TLCGet("distinct") >= 0 /\
    JsonSerialize(IOEnv.OUT_FILE, SetToSeq({[ns |-> c[1], start |-> c[2], stop |-> c[3], step |-> c[4],
                                             rows |-> Rows(c[1], c[2], c[3], c[4])] : c \in Cases}))
====
