SPECIFICATION Spec
CONSTANTS
  FSet = {4, 10}
  MaxFrames = 4
  MaxMeta = 6
  Variant = "cachedsize"
INVARIANT OpenSucceeds
INVARIANT Exposed
INVARIANT WithinFile
INVARIANT Duration
CHECK_DEADLOCK FALSE
