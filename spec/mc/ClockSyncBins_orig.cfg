SPECIFICATION SpecBins
CONSTANTS
  MaxN = 8
  MaxMiss = 2
  MaxSpan = 30000
  TBin = 100
  Variant = "orig"
INVARIANT Binned
CHECK_DEADLOCK FALSE
