SPECIFICATION Spec
CONSTANTS
  NSH = 2
  NW = 2
  MaxRuns = 2
  Variant = "partdel"
  Kinds <- AllKinds
INVARIANT TypeOK
INVARIANT Recoverable
PROPERTY DeleteGuard
PROPERTY Outcome
CHECK_DEADLOCK FALSE
