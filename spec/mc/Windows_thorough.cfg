SPECIFICATION Spec
CONSTANTS
  MaxNS = 400
  MaxW = 64
  Variant = "fixed"
INVARIANT InRange
INVARIANT Cover
INVARIANT Overlap
INVARIANT Count
INVARIANT CountPositive
INVARIANT Centre
INVARIANT ValidPartition
INVARIANT SpliceHere
PROPERTY Progress
CHECK_DEADLOCK FALSE
