SPECIFICATION Spec
CONSTANTS
  NSites = 7
  GeomSel = {"np1", "np2", "np24", "ultra", "sparse", "np2x"}
  ExportSites = 6
  MaxCalls = 2
  LabelWrites = "none"
  Variant = "fixed"
INVARIANT Untouched
INVARIANT Repaired
INVARIANT OrderIndependent
INVARIANT NoSecondHand
INVARIANT ZeroCase
INVARIANT NotYet
INVARIANT LabelsKept
POSTCONDITION Export
CHECK_DEADLOCK FALSE
