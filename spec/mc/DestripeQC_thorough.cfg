SPECIFICATION QSpec
CONSTANTS
  Variant = "fixed"
  T = 2
  NSs <- ThorNS
  NBs <- ThorNB
  NPs <- ThorNP
  Pads <- NoPad
  Offs <- NoOff
  MaxP = 4
INVARIANT NoCrash
INVARIANT SatSeam
INVARIANT SingleWorkerExact
INVARIANT SatWriters
INVARIANT Times
INVARIANT ClosedForm
CHECK_DEADLOCK FALSE
