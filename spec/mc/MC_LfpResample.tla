---- MODULE MC_LfpResample ----
EXTENDS LfpResample, Json, IOUtils, SequencesExt
\* the constants of the code (window 65536, overlap 1024) for sampled lengths: around 1, 2, 3 windows and whole strides
RNS == {1, 9, 10, 11, 1023, 1024, 65535, 65536, 65537, 65537 + 511, 65537 + 512, 70000, 129023, 129024, 129025, 130047, 130048, 130049,
        140000, 193536, 194560, 194561, 200000, 258049}
QFs == {1, 2, 3, 4, 5, 7, 8, 10, 12, 16, 20, 25, 32, 64, 100, 128, 256, 500, 512, 513, 1000}
TFs == (1..70) \cup {100, 128, 200, 256, 500, 511, 512, 513, 600, 1000, 1024, 2000}
QCases == {<<n, 65536, 1024, k>> : n \in RNS, k \in QFs}
TCases == {<<n, 65536, 1024, k>> : n \in RNS \cup {300000, 322561, 400000}, k \in TFs}
\* a scaled-down family with the same shape (window = 64 x overlap, overlap a power of two) for every length
SCases == {<<n, 64 * o, o, k>> : n \in 1..700, o \in {2, 4, 8}, k \in 1..12}
VCases == {<<n, 65536, 1024, k>> : n \in {70000, 140000}, k \in {3, 10, 16}}
Export == TLCGet("distinct") >= 0 /\
          JsonSerialize(IOEnv.OUT_FILE, SetToSeq({[ns |-> c[1], w |-> c[2], ov |-> c[3], f |-> c[4], segs |-> SegsFrom(c[4], c[1], c[2], c[3], 0),
                                                     uniform |-> UniformP(c[4], SegsFrom(c[4], c[1], c[2], c[3], 0)),
                                                     monotone |-> MonotoneP(c[4], SegsFrom(c[4], c[1], c[2], c[3], 0)),
                                                     complete |-> CompleteP(c[4], c[1], SegsFrom(c[4], c[1], c[2], c[3], 0))] : c \in Cases}))
====
