SPECIFICATION Spec
CONSTANTS
  NL = 2
  MaxT = 4
  Amps <- A123
  Steps <- S1234
INVARIANT HistoryConsistent
INVARIANT Fronts1D
INVARIANT FrontsTL
INVARIANT FrontsLT
INVARIANT Rises
INVARIANT Falls
INVARIANT Split
INVARIANT Alternate
CHECK_DEADLOCK FALSE
