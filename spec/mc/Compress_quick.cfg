SPECIFICATION Spec
CONSTANTS
  NChunks = 3
  Variant = "fixed"
INVARIANT TypeOK
INVARIANT AtomicPublish
INVARIANT ResolveSame
PROPERTY SourceSafe
PROPERTY Outcome
CHECK_DEADLOCK FALSE
