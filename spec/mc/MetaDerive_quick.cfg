SPECIFICATION Spec
CONSTANTS
  MaxChans = 2
  MaxNi = 1
  GainPairs <- GP
  Mutant = "none"
INVARIANT AgreeVersion
INVARIANT AgreeType
INVARIANT AgreeCounts
INVARIANT AgreeMaxInt
INVARIANT AgreeS2V
CHECK_DEADLOCK FALSE
POSTCONDITION Export
