SPECIFICATION Spec
CONSTANTS
  Words <- AllWords
  MaxNA = 0
  Diffs <- NoDiffs
  Thr <- Thr12
INVARIANT Decode
INVARIANT Injective
INVARIANT Row
INVARIANT Binary
CHECK_DEADLOCK FALSE
