SPECIFICATION SpecTree
CONSTANTS
  NCH = 24
  NB = 6
  Variant = "fixed"
  NGRP = 4
INVARIANT LeafSettingsInv
INVARIANT GroupsPartitionInv
CHECK_DEADLOCK FALSE
