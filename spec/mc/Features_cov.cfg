SPECIFICATION Spec
CONSTANTS
  MaxT = 3
  NC = 2
  Vals <- V1
  MaxD = 2
  Variant = "fixed"
INVARIANT Succeeds
INVARIANT Peak
INVARIANT Order
INVARIANT Half
INVARIANT RecoveryFallback
INVARIANT StepsAreFeat
INVARIANT ScaleLaw
INVARIANT PermLaw
CHECK_DEADLOCK FALSE
