SPECIFICATION QSpec
CONSTANTS
  Variant = "fixed"
  T = 2
  NSs <- WideNS
  NBs <- WideNB
  NPs <- WideNP
  Pads <- NoPad
  Offs <- NoOff
  MaxP = 6
INVARIANT NoCrash
INVARIANT SatSeam
INVARIANT SingleWorkerExact
INVARIANT SatWriters
INVARIANT Times
INVARIANT ClosedForm
CHECK_DEADLOCK FALSE
