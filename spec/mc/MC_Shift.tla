------------------------------ MODULE MC_Shift ------------------------------
(* model-checking wrapper for lib/Shift.tla: facts that need no state graph (checked once, as        *)
(* assumptions) and the export of TLC-computed expectations for the spec -> code replay of C07.      *)
EXTENDS Shift, Json, IOUtils, SequencesExt

\* ---- parabolic interpolation: all small integer vectors, all sampled parabolas -------------------
SmallVecs(maxlen, maxval) == UNION {[1..len -> 0..maxval] : len \in 1..maxlen}

ASSUME ParabolicWithinHalf == \A v \in SmallVecs(6, 3) : WithinHalfP(v, Parabolic(v))
ASSUME ParabolicExact ==
    \A len \in 3..9 : \A Q \in {1, 2, 3, 4, 10} : \A P \in 0..((len - 1) * Q) :
        ExactOnParabolaP(len, P, Q, Parabolic(ParabolaSamples(len, P, Q)))
ASSUME CorrelationCentre == \A len \in 1..300 : CentreP(len, SameCentre(len))

\* ---- expectations exported for the replay on the real code ---------------------------------------
Prod(shp) == IF Len(shp) = 1 THEN shp[1] ELSE shp[1] * shp[2]
Unravel(q, shp) == IF Len(shp) = 1 THEN <<q>> ELSE <<q \div shp[2], q % shp[2]>>
\* flat index of the input element found at flat position q of the output (integer shifts), computed
\* with the implementation layer's reshape / broadcast
SrcOf(shp, ax, svec, scalar) ==
    [p \in 1..Prod(shp) |->
        LET idx == Unravel(p - 1, shp)
            s == IF scalar THEN svec[1] ELSE svec[SIndex(idx, shp, ax) + 1]
        IN Ravel([idx EXCEPT ![ax + 1] = (idx[ax + 1] - s) % shp[ax + 1]], shp)]

Cases1D == {[shape |-> <<len>>, axis |-> 0, scalar |-> TRUE, s |-> <<m>>] : len \in 2..9, m \in -9..9}
\* 2-D shapes include a single trace (one column / one row); the shifted axis has at least two samples
Shapes2D == {<<a, b>> : a \in 1..4, b \in 1..4}
Axes2D(shp) == {ax \in {0, 1} : shp[ax + 1] >= 2}
Cases2Dscalar == {[shape |-> shp, axis |-> ax, scalar |-> TRUE, s |-> <<m>>] :
                      shp \in Shapes2D, ax \in {0, 1}, m \in -3..3}
Cases2Dvec == UNION {{[shape |-> shp, axis |-> ax, scalar |-> FALSE, s |-> sv] :
                        sv \in [1..shp[2 - ax] -> -2..2]} : shp \in Shapes2D, ax \in {0, 1}}
RollCases == {c \in Cases1D : c.s[1] > -c.shape[1] /\ c.s[1] < c.shape[1]}
             \cup {c \in Cases2Dscalar \cup Cases2Dvec : c.axis \in Axes2D(c.shape)}

Export ==
    /\ TLCGet("distinct") >= 0
    /\ JsonSerialize(IOEnv.OUT_FILE,
         [roll |-> SetToSeq({[shape |-> c.shape, axis |-> c.axis, scalar |-> c.scalar, s |-> c.s,
                              src |-> SrcOf(c.shape, c.axis, c.s, c.scalar)] : c \in RollCases}),
          parabolic |-> SetToSeq({[v |-> v, exp |-> Parabolic(v)] : v \in SmallVecs(5, 3)})])
=============================================================================
