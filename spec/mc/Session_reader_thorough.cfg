SPECIFICATION Spec
CONSTANTS
  Part = "reader"
  Box = "thorough"
  GlobCases = {}
  SyncCases = {}
  ReconCases = {}
  ReaderKinds = {"bin", "cbin", "flat"}
  MaxLen = 5
INVARIANT LCtor
INVARIANT LNotOpen
INVARIANT LRelease
INVARIANT LTruthful
INVARIANT LWith
INVARIANT LSync
CHECK_DEADLOCK FALSE
POSTCONDITION ExportReader
