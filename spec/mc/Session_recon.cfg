SPECIFICATION Spec
CONSTANTS
  Part = "recon"
  Box = "quick"
  GlobCases = {}
  SyncCases = {}
  ReconCases <- MCReconCases
  ReaderKinds = {}
  MaxLen = 0
INVARIANT RNot24
INVARIANT RCount
INVARIANT RDone
INVARIANT RMeta
INVARIANT RCompress
INVARIANT RNoEarlyWrite
INVARIANT RRunAgrees
CHECK_DEADLOCK FALSE
POSTCONDITION ExportRecon
