---- MODULE MC_NP2Split ----
EXTENDS NP2Split
QNS == 1..80
QWs == {15, 18, 21, 24, 30, 36}
TNS == 1..200
TWs == {15, 18, 21, 24, 27, 30, 33, 36, 45, 60}
\* the real constants of the code (RATIO 12, overlap 576) for sampled lengths
RNS == {1, 11, 12, 13, 575, 576, 577, 1151, 1152, 1153, 1200, 1201, 2399, 2400, 2401, 3000, 3611, 3612, 3613, 5000, 7223, 7224, 7225}
RWs == {1200, 2400, 3612, 60000}
\* windows barely longer than the overlap (thorough tier): 588 = overlap + RATIO (stride of one LF sample, every sample lies in
\* up to 49 windows), 600, 1152 = 2 * overlap (a sample lies in up to two / three windows)
RWsSmall == {588, 600, 1152}
====
