SPECIFICATION Spec
CONSTANTS
  NChunks = 3
  Variant = "orig"
INVARIANT TypeOK
INVARIANT AtomicPublish
INVARIANT ResolveSame
PROPERTY SourceSafe
PROPERTY Outcome
CHECK_DEADLOCK FALSE
