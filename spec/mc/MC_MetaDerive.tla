--------------------------- MODULE MC_MetaDerive ---------------------------
EXTENDS MetaDerive, Json, IOUtils, SequencesExt
GP == {<<500, 250>>, <<250, 500>>, <<1000, 125>>}
\* spec -> code: every configuration with the observables the independent reading expects, written once
Export == /\ TLCGet("distinct") >= 0
          /\ JsonSerialize(IOEnv.OUT_FILE, SetToSeq({[cfg |-> m, exp |-> DocObs(m)] : m \in Configs}))
=============================================================================
