SPECIFICATION SSpec
CONSTANTS
  MaxNS = 0
  MaxW = 0
  Variant = "fixed"
  RATIO = 12
  OV = 576
  NSs <- RNS
  Ws <- RWsSmall
INVARIANT InRange
INVARIANT Cover
INVARIANT Overlap
INVARIANT Count
INVARIANT APPrefix
INVARIANT APComplete
INVARIANT LFTokens
INVARIANT LFComplete
INVARIANT LFEdges
CHECK_DEADLOCK FALSE
