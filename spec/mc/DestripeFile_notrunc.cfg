SPECIFICATION Spec
CONSTANTS
  Variant = "notrunc"
  T = 2
  NSs <- QuickNS
  NBs <- QuickNB
  NPs <- QuickNP
  Pads <- QuickPads
  Offs <- QuickOffs
  MaxP = 4
INVARIANT FinalLength
CHECK_DEADLOCK FALSE
