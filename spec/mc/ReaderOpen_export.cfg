SPECIFICATION Spec
CONSTANTS
  FSet = {4, 10}
  MaxFrames = 5
  MaxMeta = 7
  Variant = "fixed"
INVARIANT OpenSucceeds
INVARIANT Exposed
INVARIANT WithinFile
INVARIANT Duration
INVARIANT MetaDurationWhole
INVARIANT ByteFormsAgree
CHECK_DEADLOCK FALSE
POSTCONDITION Export
