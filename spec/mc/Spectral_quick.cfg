SPECIFICATION Spec
CONSTANTS
  MaxN = 80
  Basis = "corners"
  Variant = "fixed"
INVARIANT Full
INVARIANT Same
INVARIANT PadFits
INVARIANT Helpers
INVARIANT FilterAxes
CHECK_DEADLOCK FALSE
POSTCONDITION Export
