SPECIFICATION Spec
CONSTANTS
  Part = "sync"
  Box = "quick"
  GlobCases = {}
  SyncCases <- MCSyncCases
  ReconCases = {}
  ReaderKinds = {}
  MaxLen = 0
INVARIANT ReachNoOverride
CHECK_DEADLOCK FALSE
