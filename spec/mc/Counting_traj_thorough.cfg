SPECIFICATION Spec
CONSTANTS
  Kind = "traj"
  NSort = 1
  NBins = 1
  MaxCnt = 1
  NLab = 1
  LenW = 1
  MaxNX = 4
  MaxNY = 16
  SubNX = 3
  SubNY = 3
INVARIANT Trajectory
INVARIANT TrajInGrid
INVARIANT TrajOnto
INVARIANT TrajToeplitz
CHECK_DEADLOCK FALSE
