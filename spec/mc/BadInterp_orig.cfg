SPECIFICATION Spec
CONSTANTS
  NSites = 7
  GeomSel = {"np2x"}
  ExportSites = 5
  Variant = "orig"
INVARIANT Untouched
INVARIANT Repaired
INVARIANT OrderIndependent
INVARIANT NoSecondHand
INVARIANT ZeroCase
INVARIANT NotYet
CHECK_DEADLOCK FALSE
