SPECIFICATION Spec
CONSTANTS
  Part = "glob"
  Box = "q3"
  GlobCases <- MCGlobCases
  SyncCases = {}
  ReconCases = {}
  ReaderKinds = {}
  MaxLen = 0
INVARIANT GKeys
INVARIANT GLabel
INVARIANT GPath
INVARIANT GPair
INVARIANT GExt
INVARIANT GComplete
INVARIANT GSound
INVARIANT GRecursive
INVARIANT GExists
INVARIANT GProbes
INVARIANT GProbesLabels
CHECK_DEADLOCK FALSE
POSTCONDITION ExportGlob
