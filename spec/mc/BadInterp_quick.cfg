SPECIFICATION Spec
CONSTANTS
  NSites = 6
  GeomSel = {"np1", "np2", "np24", "ultra", "sparse", "np2x"}
  ExportSites = 5
  MaxCalls = 2
  LabelWrites = "none"
  Variant = "fixed"
INVARIANT Untouched
INVARIANT Repaired
INVARIANT OrderIndependent
INVARIANT NoSecondHand
INVARIANT ZeroCase
INVARIANT NotYet
INVARIANT LabelsKept
POSTCONDITION Export
CHECK_DEADLOCK FALSE
