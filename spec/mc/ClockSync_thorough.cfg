SPECIFICATION SpecBook
CONSTANTS
  MaxN = 9
  MaxMiss = 3
  MaxSpan = 1
  TBin = 100
  Variant = "fixed"
INVARIANT Bookkeeping
POSTCONDITION Export
CHECK_DEADLOCK FALSE
