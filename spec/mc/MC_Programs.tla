---- MODULE MC_Programs ----
EXTENDS Programs
PKinds == {"NP24", "NP21"}
====
