SPECIFICATION Spec
CONSTANTS
  NCH = 7
  NSH = 3
INVARIANT RoundTrip
INVARIANT Identity
POSTCONDITION Export
CHECK_DEADLOCK FALSE
