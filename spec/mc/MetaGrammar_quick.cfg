SPECIFICATION Spec
CONSTANTS
  MaxLen = 6
  MaxLines = 2
  ExportLen = 5
  ExportNumLen = 7
  Variant = "fixed"
INVARIANT ValueRoundTrip
INVARIANT FileRoundTrip
INVARIANT WrittenInDomain
INVARIANT Framing
CHECK_DEADLOCK FALSE
POSTCONDITION Export
