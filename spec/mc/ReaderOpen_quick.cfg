SPECIFICATION Spec
CONSTANTS
  FSet = {4, 10}
  MaxFrames = 4
  MaxMeta = 6
  Variant = "fixed"
INVARIANT OpenSucceeds
INVARIANT Exposed
INVARIANT WithinFile
INVARIANT Duration
INVARIANT MetaDurationWhole
INVARIANT ByteFormsAgree
CHECK_DEADLOCK FALSE
POSTCONDITION Export
