SPECIFICATION Spec
CONSTANTS
  Variant = "fixed"
  T = 2
  NSs <- MidNS
  NBs <- MidNB
  NPs <- MidNP
  Pads <- NoPad
  Offs <- NoOff
  MaxP = 6
INVARIANT NoCrash
INVARIANT FinalFileCanonical
INVARIANT FinalLength
INVARIANT FinalRms
INVARIANT FinalPad
INVARIANT OnlyOwnerWrites
CHECK_DEADLOCK FALSE
