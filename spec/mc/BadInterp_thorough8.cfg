SPECIFICATION Spec
CONSTANTS
  NSites = 8
  GeomSel = {"np1", "np2x"}
  ExportSites = 5
  Variant = "fixed"
INVARIANT Untouched
INVARIANT Repaired
INVARIANT OrderIndependent
INVARIANT NoSecondHand
INVARIANT ZeroCase
INVARIANT NotYet
CHECK_DEADLOCK FALSE
