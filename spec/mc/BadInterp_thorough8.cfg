SPECIFICATION Spec
CONSTANTS
  NSites = 8
  GeomSel = {"np1", "np2x"}
  ExportSites = 5
  MaxCalls = 1
  LabelWrites = "none"
  Variant = "fixed"
INVARIANT Untouched
INVARIANT Repaired
INVARIANT OrderIndependent
INVARIANT NoSecondHand
INVARIANT ZeroCase
INVARIANT NotYet
INVARIANT LabelsKept
CHECK_DEADLOCK FALSE
