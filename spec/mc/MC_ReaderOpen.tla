--------------------------- MODULE MC_ReaderOpen ---------------------------
EXTENDS ReaderOpen, Json, IOUtils, SequencesExt
\* spec -> code: the cases of the box with the observables the property layer expects, written once
Export == /\ TLCGet("distinct") >= 0
          /\ JsonSerialize(IOEnv.OUT_FILE, SetToSeq({[case |-> c, exp |-> Expect(c)] : c \in Cases}))
=============================================================================
