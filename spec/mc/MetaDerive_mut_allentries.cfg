SPECIFICATION Spec
CONSTANTS
  MaxChans = 2
  MaxNi = 1
  GainPairs <- GP
  Mutant = "allentries"
INVARIANT AgreeS2V
CHECK_DEADLOCK FALSE
