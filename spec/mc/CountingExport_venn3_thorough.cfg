SPECIFICATION ESpec
CONSTANTS
  Kind = "venn"
  NSort = 3
  NBins = 3
  MaxCnt = 2
  NLab = 1
  LenW = 1
  MaxNX = 1
  MaxNY = 1
  SubNX = 1
  SubNY = 1
CHECK_DEADLOCK FALSE
POSTCONDITION Export
