SPECIFICATION Spec
CONSTANTS
  MaxNC = 1
  MaxNS = 9
  Widths <- W9
  Props <- P12
  SlewMode = "zero"
  Variant = "fixed"
INVARIANT Flag
INVARIANT InRange
INVARIANT ZeroOnFlag
INVARIANT OneFar
INVARIANT FlagsOnly
INVARIANT Attenuated
CHECK_DEADLOCK FALSE
POSTCONDITION Export
