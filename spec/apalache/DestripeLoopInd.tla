-------------------------- MODULE DestripeLoopInd --------------------------
(***************************************************************************)
(* Unbounded safety of the batch loop of decompress_destripe_cbin (C06) by  *)
(* inductive invariants discharged with Apalache, for ALL recording         *)
(* lengths, batch sizes and taper margins (no bound on ns, NB, T):          *)
(*                                                                         *)
(* (1) one worker (the canonical sequence of batches): every output row p   *)
(*     holds sample p, rows are written once and in order, the loop ends    *)
(*     with ns rows.  The loop is the Write action of                       *)
(*     spec/sys/DestripeFile.tla (first_s, last_s, ind2save, cursor) with   *)
(*     the file abstracted to its length `cur` and the flag `ident`          *)
(*     (exact, because every write appends one contiguous range).           *)
(* (2) hand-over between two workers: worker B starts at batch b0 (the      *)
(*     least b with b * NB >= X, X = the boundary (w+1) * CHUNK, as         *)
(*     ceil(X / NB) in the code) and worker A stops at the first batch      *)
(*     whose last sample reaches X.  Stated on the loop of worker A: when   *)
(*     it stops at batch bs, b0 <= bs + 1 (no batch is left unprocessed     *)
(*     between the two workers) - `Handover`.                                *)
(* What is NOT covered here: the worker arithmetic with division by the      *)
(* number of workers (CHUNK = ns div np) and the guard for workers that      *)
(* start beyond the last batch; those are explored by TLC in the bounded     *)
(* boxes of DestripeFile.                                                    *)
(***************************************************************************)
EXTENDS Integers

VARIABLES
    \* @type: Int;
    ns,
    \* @type: Int;
    NB,
    \* @type: Int;
    T,
    \* @type: Int;
    X,
    \* @type: Int;
    b0,
    \* @type: Str;
    pc,
    \* @type: Int;
    b,
    \* @type: Int;
    firsts,
    \* @type: Int;
    cur,
    \* @type: Bool;
    ident,
    \* @type: Bool;
    passed,
    \* @type: Int;
    bs

Min(x, y) == IF x < y THEN x ELSE y
Max(x, y) == IF x > y THEN x ELSE y
S == NB - 2 * T

Params == /\ T >= 1 /\ NB > 2 * T /\ ns >= 1
          /\ X >= 1 /\ X <= ns
          \* b0 = ceil(X / NB), in multiplication form
          /\ b0 >= 0 /\ b0 * NB >= X /\ (b0 - 1) * NB < X

Init == /\ ns \in Int /\ NB \in Int /\ T \in Int /\ X \in Int /\ b0 \in Int
        /\ Params
        /\ pc = "run" /\ b = 0 /\ firsts = 0 /\ cur = 0 /\ ident = TRUE /\ passed = FALSE /\ bs = -1

\* one iteration of the `while True` loop of worker 0 running alone
Write ==
    /\ pc = "run"
    /\ LET last == Min(firsts + NB, ns)
           len == last - firsts
           i0 == IF firsts = 0 THEN 0 ELSE T
           i1 == IF last = ns THEN NB ELSE NB - T
           rows == Max(Min(i1, len) - i0, 0)
       IN /\ ident' = (ident /\ (rows > 0 => cur = firsts + i0))
          /\ cur' = cur + rows
          /\ firsts' = firsts + S
          /\ b' = b + 1
          \* the first batch whose last sample reaches the boundary X: worker A would stop here
          /\ passed' = (passed \/ last >= X)
          /\ bs' = (IF ~passed /\ last >= X THEN b ELSE bs)
          /\ pc' = IF last >= ns THEN "done" ELSE "run"
    /\ UNCHANGED <<ns, NB, T, X, b0>>
Next == Write

\* the inductive invariant
IndInv ==
    /\ Params
    /\ pc \in {"run", "done"}
    /\ b >= 0 /\ firsts = b * S
    /\ pc = "run" =>
          /\ ident
          /\ cur = (IF firsts = 0 THEN 0 ELSE firsts + T)
          /\ (firsts > 0 => firsts + 2 * T < ns)          \* the previous batch was complete and did not reach the end
          \* hand-over: as long as no batch has reached X, worker B's start batch is not behind us by more than one
          /\ (~passed => (b = 0 \/ (b - 1) * S + NB < X))
    /\ pc = "done" => (ident /\ cur = ns /\ passed)
    /\ (passed <=> bs >= 0)
    /\ bs >= 0 => (bs < b /\ bs * S + NB >= X)

IndInit == /\ ns \in Int /\ NB \in Int /\ T \in Int /\ X \in Int /\ b0 \in Int /\ b \in Int /\ firsts \in Int /\ cur \in Int /\ bs \in Int
           /\ ident \in BOOLEAN /\ passed \in BOOLEAN /\ pc \in {"run", "done"}
           /\ IndInv

\* property layer
Canonical == pc = "done" => (ident /\ cur = ns)
NoDoubleWrite == pc = "run" => cur <= ns
\* worker B's first batch is at most one beyond the batch at which worker A stops: no batch is skipped at a hand-over
Handover == bs >= 0 => b0 <= bs + 1
IndInvAndSafety == IndInv /\ Canonical /\ NoDoubleWrite /\ Handover
=============================================================================
