--------------------------- MODULE ReaderOpenInd ---------------------------
(***************************************************************************)
(* Unbounded form of the arithmetic of spec/sys/ReaderOpen.tla (C11),       *)
(* discharged with Apalache as a one-state theorem (--length=0): for ALL    *)
(* frame sizes f >= 2, complete frames q >= 1, trailing bytes 0 <= r < f    *)
(* and announced frame counts m >= 0                                        *)
(*   - the size test the code writes in bytes (nc * ns * itemsize != size)   *)
(*     agrees with the frame form the model uses (ByteFormsAgree),           *)
(*   - a frame count n fits the file (n * f <= size) iff n <= q: np.memmap    *)
(*     accepts exactly the counts up to floor(size / f),                      *)
(*   - the repaired open() exposes q frames and never raises                  *)
(*     (Exposed / OpenSucceeds for the offline and the online reader).        *)
(* TLC checks the same formulas in the bounded boxes of ReaderOpen.          *)
(***************************************************************************)
EXTENDS Integers

VARIABLES
    \* @type: Int;
    f,
    \* @type: Int;
    q,
    \* @type: Int;
    r,
    \* @type: Int;
    m,
    \* @type: Int;
    n,
    \* @type: Bool;
    online

Init == /\ f \in Int /\ q \in Int /\ r \in Int /\ m \in Int /\ n \in Int /\ online \in BOOLEAN
        /\ f >= 2 /\ q >= 1 /\ r >= 0 /\ r < f /\ m >= 0 /\ n >= 0
Next == UNCHANGED <<f, q, r, m, n, online>>

bytes == q * f + r
NsBefore == IF online THEN q ELSE m
MismatchBytes == NsBefore * f # bytes
Mismatch == ~(NsBefore = q /\ r = 0)
ImplNs == IF online THEN q ELSE IF ~Mismatch THEN m ELSE q
Raises == ImplNs * f > bytes                \* np.memmap: mmap length is greater than file size

ByteFormsAgree == MismatchBytes = Mismatch
Fits == (n * f <= bytes) = (n <= q)
Exposed == ImplNs = q
OpenSucceeds == ~Raises
Theorem == ByteFormsAgree /\ Fits /\ Exposed /\ OpenSucceeds
=============================================================================
