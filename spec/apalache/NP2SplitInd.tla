---------------------------- MODULE NP2SplitInd ----------------------------
(***************************************************************************)
(* Unbounded safety of the NP2 window loop (C03 / C12): the AP stream of    *)
(* a shank is the identity on sample indices and the LF stream holds every  *)
(* RATIO-th sample exactly once, for ALL recording lengths, window sizes    *)
(* and overlaps that pass the asserts of NP2Converter.init_params - by an   *)
(* inductive invariant discharged with Apalache:                            *)
(*    Init => IndInv                 (--length=0)                           *)
(*    IndInv /\ Next => IndInv'      (--init=IndInit --length=1)            *)
(*                                                                         *)
(* Abstraction of spec/sys/NP2Split.tla: a file is described by its length  *)
(* and by the flag `ident` = "every token written so far equals its own    *)
(* position (x RATIO for LF)"; the rows appended by one window are the      *)
(* contiguous range KeptLo..Min(KeptHi, len) of _ind2save, so the flag is   *)
(* preserved iff the first appended token equals the current length.  The   *)
(* asserts of init_params (window, overlap and taper multiples of RATIO,    *)
(* overlap = 4 x taper) are built in by writing w = R*wq, TAP = R*tq,       *)
(* first = R*fq, which keeps every formula linear.                          *)
(* "last window" is `last = ns` here (the generator's count formula         *)
(* `iw = nwin - 1` is proved equal to it only in the bounded model of C17). *)
(***************************************************************************)
EXTENDS Integers

R == 12     \* RATIO = fs_ap / fs_lf

VARIABLES
    \* @type: Int;
    ns,
    \* @type: Int;
    wq,      \* samples_window = R * wq
    \* @type: Int;
    tq,      \* samples_taper = R * tq, samples_overlap = 4 * R * tq
    \* @type: Str;
    pc,
    \* @type: Int;
    fq,      \* first = R * fq
    \* @type: Int;
    last,
    \* @type: Int;
    apLen,
    \* @type: Int;
    lfLen,
    \* @type: Bool;
    ident,   \* AP tokens are 0..apLen-1 in order and LF tokens are 0, R, .., R*(lfLen-1)
    \* @type: Bool;
    edgeok   \* every LF sample was picked at least 2 tapers inside its window, except at the edges of the file

Min(a, b) == IF a < b THEN a ELSE b
W == R * wq
TAP == R * tq
OV == 4 * TAP
First == R * fq
\* ceil(n / R) for n >= 0
CeilR(n) == (n + R - 1) \div R

Params == ns >= 1 /\ wq >= 1 /\ tq >= 0 /\ OV < W

Init == /\ ns \in Int /\ wq \in Int /\ tq \in Int /\ Params
        /\ pc = "ready" /\ fq = 0 /\ last = 0 /\ apLen = 0 /\ lfLen = 0 /\ ident = TRUE /\ edgeok = TRUE

\* one window [f, l): the ranges of _ind2save for ratio 1 and ratio R
Append(f, l, isfirst) ==
    LET len1 == l - f
        lenR == CeilR(l - f)
        islast == l = ns
        lo1 == IF isfirst THEN 0 ELSE 2 * TAP
        hi1 == Min(IF islast THEN W ELSE W - 2 * TAP, len1)
        loR == IF isfirst THEN 0 ELSE 2 * tq
        hiR == Min(IF islast THEN wq ELSE wq - 2 * tq, lenR)
    IN /\ apLen' = apLen + (IF hi1 > lo1 THEN hi1 - lo1 ELSE 0)
       /\ lfLen' = lfLen + (IF hiR > loR THEN hiR - loR ELSE 0)
       \* first appended token = the position it lands on (both streams); nothing appended keeps the flag
       /\ ident' = (ident /\ (hi1 > lo1 => f + lo1 = apLen) /\ (hiR > loR => (f \div R) + loR = lfLen))
       \* LF picks at f + R*j, j in loR..hiR-1: at least 2*TAP inside unless at a file edge
       /\ edgeok' = (edgeok /\ (hiR > loR =>
                                  /\ (R * loR >= 2 * TAP \/ f = 0)
                                  /\ (l - (f + R * (hiR - 1)) > 2 * TAP \/ l = ns)))

YieldFirst == /\ pc = "ready"
              /\ fq' = 0 /\ last' = Min(W, ns) /\ pc' = "first"
              /\ Append(0, Min(W, ns), TRUE)
              /\ UNCHANGED <<ns, wq, tq>>
YieldNext == /\ pc \in {"first", "iter"} /\ last # ns
             /\ fq' = fq + wq - 4 * tq
             /\ last' = Min(First + W - OV + W, ns)
             /\ pc' = "iter"
             /\ Append(First + W - OV, Min(First + W - OV + W, ns), FALSE)
             /\ UNCHANGED <<ns, wq, tq>>
Stop == /\ pc \in {"first", "iter"} /\ last = ns
        /\ pc' = "done" /\ UNCHANGED <<ns, wq, tq, fq, last, apLen, lfLen, ident, edgeok>>
Next == YieldFirst \/ YieldNext \/ Stop

\* the inductive invariant
IndInv ==
    /\ Params
    /\ pc \in {"ready", "first", "iter", "done"}
    /\ ident /\ edgeok
    /\ pc = "ready" => (fq = 0 /\ last = 0 /\ apLen = 0 /\ lfLen = 0)
    /\ pc \in {"first", "iter", "done"} =>
          /\ fq >= 0 /\ last = Min(First + W, ns) /\ First < ns
          /\ (pc = "first" => fq = 0)
          /\ (pc = "iter" => First >= W - OV)
          /\ (pc = "done" => last = ns)
          \* what has been written: everything if this window reaches the end, else up to two tapers before its end
          /\ apLen = (IF last = ns THEN ns ELSE First + W - 2 * TAP)
          /\ lfLen = (IF last = ns THEN CeilR(ns) ELSE fq + wq - 2 * tq)

IndInit == /\ ns \in Int /\ wq \in Int /\ tq \in Int /\ fq \in Int /\ last \in Int /\ apLen \in Int /\ lfLen \in Int
           /\ ident \in BOOLEAN /\ edgeok \in BOOLEAN
           /\ pc \in {"ready", "first", "iter", "done"}
           /\ IndInv

\* property layer (C03 APPrefix / APComplete, C12 LFTokens / LFComplete / LFEdges of spec/sys/NP2Split.tla)
APPrefix == ident
APComplete == pc = "done" => apLen = ns
LFTokens == ident
LFComplete == pc = "done" => lfLen = CeilR(ns)
LFEdges == edgeok
Safety == APPrefix /\ APComplete /\ LFTokens /\ LFComplete /\ LFEdges
IndInvAndSafety == IndInv /\ Safety
=============================================================================
