---------------------------- MODULE WindowsInd ----------------------------
(***************************************************************************)
(* Unbounded safety of the window generator (C17) by an inductive           *)
(* invariant, discharged with Apalache:                                     *)
(*    Init => IndInv                 (--length=0)                           *)
(*    IndInv /\ Next => IndInv'      (--init=IndInv --length=1)             *)
(* for ALL lengths, windows and overlaps (no bound on ns, w, ov).           *)
(* The generator is the implementation layer of spec/lib/Windows.tla        *)
(* (YieldFirst / YieldNext / Stop), written without the count formula       *)
(* (integer division by a variable is outside linear arithmetic).           *)
(* IndInv implies the property-layer clauses InRange, Cover and Overlap.    *)
(***************************************************************************)
EXTENDS Integers

VARIABLES
    \* @type: Int;
    ns,
    \* @type: Int;
    w,
    \* @type: Int;
    ov,
    \* @type: Str;
    pc,
    \* @type: Int;
    first,
    \* @type: Int;
    last,
    \* @type: Int;
    pfirst,
    \* @type: Int;
    plast

Min(a, b) == IF a < b THEN a ELSE b

Init == /\ ns \in Int /\ w \in Int /\ ov \in Int
        /\ ns >= 1 /\ w >= 1 /\ ov >= 0 /\ ov < w
        /\ pc = "ready" /\ first = 0 /\ last = 0 /\ pfirst = 0 /\ plast = 0

YieldFirst == /\ pc = "ready"
              /\ first' = 0 /\ last' = Min(w, ns) /\ pc' = "first"
              /\ UNCHANGED <<ns, w, ov, pfirst, plast>>
YieldNext == /\ pc \in {"first", "iter"} /\ last # ns
             /\ first' = first + w - ov
             /\ last' = Min(first + w - ov + w, ns)
             /\ pfirst' = first /\ plast' = last /\ pc' = "iter"
             /\ UNCHANGED <<ns, w, ov>>
Stop == /\ pc \in {"first", "iter"} /\ last = ns
        /\ pc' = "done" /\ UNCHANGED <<ns, w, ov, first, last, pfirst, plast>>
Next == YieldFirst \/ YieldNext \/ Stop

Params == ns >= 1 /\ w >= 1 /\ ov >= 0 /\ ov < w
\* the inductive invariant
IndInv ==
    /\ Params
    /\ pc \in {"ready", "first", "iter", "done"}
    /\ pc = "ready" => (first = 0 /\ last = 0)
    /\ pc = "first" => (first = 0 /\ last = Min(w, ns))
    /\ pc \in {"iter"} =>
          /\ first >= 0 /\ last = Min(first + w, ns)
          /\ pfirst >= 0 /\ first = pfirst + w - ov
          /\ plast = pfirst + w /\ plast < ns           \* the previous window was complete and did not reach the end
    /\ pc = "done" => last = ns

\* any state satisfying the invariant (initial predicate of the inductive step)
IndInit == /\ ns \in Int /\ w \in Int /\ ov \in Int /\ first \in Int /\ last \in Int /\ pfirst \in Int /\ plast \in Int
           /\ pc \in {"ready", "first", "iter", "done"}
           /\ IndInv

\* property layer (implied by IndInv at every yielded window)
InRange == pc \in {"first", "iter"} => (0 <= first /\ first < last /\ last <= ns /\ last - first <= w)
Cover == /\ pc = "first" => first = 0
         /\ pc = "iter" => (first <= plast /\ first > pfirst /\ last > plast)
         /\ pc = "done" => last = ns
Overlap == pc = "iter" => plast - first = ov
Safety == InRange /\ Cover /\ Overlap
IndInvAndSafety == IndInv /\ Safety
=============================================================================
