---------------------------- MODULE WaveSnipInd ----------------------------
(***************************************************************************)
(* Unbounded form of two invariants of spec/sys/WaveformExtract.tla (C13),  *)
(* discharged with Apalache as a one-state theorem (--length=0): for ALL    *)
(* recording lengths NS, chunk sizes >= TROUGH, waveform lengths LEN and     *)
(* trough offsets 0 <= TROUGH < LEN, every valid spike sample s              *)
(*   - lies in exactly one chunk c (c * chunk <= s < (c+1) * chunk, the last  *)
(*     chunk taking the remainder), and                                      *)
(*   - its window [s - TROUGH, s - TROUGH + LEN) lies inside the snippet      *)
(*     that write_wfs_chunk reads for chunk c (WithinSnippet), at the local   *)
(*     position the code computes, and the snippet itself lies inside the     *)
(*     recording.                                                            *)
(* The number of chunks ceil(NS / chunk) is given in multiplication form.    *)
(* TLC checks the same formulas in the bounded boxes of WaveformExtract; the *)
(* bound `chunk >= TROUGH` is needed: a smaller chunk would make the snippet *)
(* of chunk 1 start before sample 0 (outside the property's chunk sizes).    *)
(***************************************************************************)
EXTENDS Integers

VARIABLES
    \* @type: Int;
    NS,
    \* @type: Int;
    chunk,
    \* @type: Int;
    LEN,
    \* @type: Int;
    TROUGH,
    \* @type: Int;
    nch,
    \* @type: Int;
    s,
    \* @type: Int;
    c,
    \* @type: Int;
    c2

Min(a, b) == IF a < b THEN a ELSE b

InChunk(k) == 0 <= k /\ k < nch /\ k * chunk <= s /\ (s < (k + 1) * chunk \/ k = nch - 1)

Init == /\ NS \in Int /\ chunk \in Int /\ LEN \in Int /\ TROUGH \in Int /\ nch \in Int /\ s \in Int /\ c \in Int /\ c2 \in Int
        /\ NS >= 1 /\ LEN >= 1 /\ TROUGH >= 0 /\ TROUGH < LEN /\ chunk >= 1 /\ chunk >= TROUGH
        /\ nch >= 1 /\ (nch - 1) * chunk < NS /\ NS <= nch * chunk           \* nch = ceil(NS / chunk)
        /\ TROUGH < s /\ s < NS - (LEN - TROUGH)                             \* a valid spike
        /\ InChunk(c) /\ InChunk(c2)

Next == UNCHANGED <<NS, chunk, LEN, TROUGH, nch, s, c, c2>>

Offset == IF c = 0 THEN 0 ELSE TROUGH
SnipFirst == c * chunk - Offset
SnipEnd == Min((IF c = nch - 1 THEN NS ELSE (c + 1) * chunk) + LEN - TROUGH, NS)
Local == s + Offset - c * chunk

OneChunk == c = c2
WithinSnippet == /\ 0 <= SnipFirst /\ SnipEnd <= NS
                 /\ 0 <= Local - TROUGH
                 /\ Local - TROUGH + LEN <= SnipEnd - SnipFirst
                 /\ SnipFirst + Local - TROUGH = s - TROUGH                  \* the token is the spike's own window
Theorem == OneChunk /\ WithinSnippet
=============================================================================
