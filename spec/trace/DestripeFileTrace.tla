------------------------ MODULE DestripeFileTrace ------------------------
(***************************************************************************)
(* code -> spec for C06.  One record of the trace file = one real call of  *)
(* decompress_destripe_cbin: its parameters and, per worker process, the   *)
(* sequence of events emitted by the hooks in `my_function` (row units).   *)
(* The workers share no synchronisation, so EVERY interleaving of the      *)
(* recorded per-worker sequences is a possible execution: TLC explores all *)
(* of them, installs the observed effect of each write on the abstract     *)
(* file, and evaluates the property layer of DestripeFile at every         *)
(* terminal state.  A race is therefore reported even when the recorded    *)
(* run happened to finish in a benign order.                               *)
(*                                                                         *)
(* prop = first false property-layer clause (on any schedule)  -> VIOLATION*)
(* impl = first recorded step that is not a step of DestripeFile's         *)
(*        implementation layer                                  -> drift    *)
(***************************************************************************)
EXTENDS Integers, Sequences, FiniteSets, TLC, Json, IOUtils

CONSTANTS Variant, MaxP, T

Traces == JsonDeserialize(IOEnv.TRACE_FILE)

VARIABLES ns, NB, np, pad, off, wpc, wb, wcur, wmax, file, misplaced, rms, size, pads,
          tid, wpos, prop, impl,
          ord        \* <<>> : every interleaving of the workers' events is explored (runs with few workers);
                     \* otherwise a worker order: the workers run to completion one after the other in that order
                     \* (runs with many workers: R.orders lists orders in which every worker finishes last once)

D == INSTANCE DestripeFile WITH NSs <- {}, NBs <- {}, NPs <- {}, Pads <- {}, Offs <- {}

dvars == <<ns, NB, np, pad, off, wpc, wb, wcur, wmax, file, misplaced, rms, size, pads>>
vars == <<dvars, tid, wpos, prop, impl, ord>>

R == Traces[tid]
Ev(w) == R.workers[w + 1]          \* events of worker w (0-based worker ids, 1-based sequences)

Pick(old, cands) ==
    IF old # "" THEN old
    ELSE IF \E i \in 1..Len(cands) : cands[i][1] = FALSE
         THEN cands[CHOOSE i \in 1..Len(cands) : cands[i][1] = FALSE /\ \A j \in 1..(i-1) : cands[j][1]][2]
         ELSE ""

Init ==
    /\ tid \in 1..Len(Traces)
    /\ ns = R.ns /\ NB = R.NB /\ np = R.np /\ pad = R.pad /\ off = R.off
    /\ wpc = [w \in D!W |-> IF w < np THEN "idle" ELSE "none"]
    /\ wb = [w \in D!W |-> 0] /\ wcur = [w \in D!W |-> 0] /\ wmax = [w \in D!W |-> 0]
    /\ file = [c \in D!Cells |-> -1]
    /\ misplaced = FALSE /\ rms = {} /\ size = off /\ pads = {}
    /\ wpos = [w \in D!W |-> 0] /\ prop = "" /\ impl = ""
    /\ ord \in (IF R.orders = <<>> THEN {<<>>} ELSE {R.orders[i] : i \in DOMAIN R.orders})

Unfinished(w) == wpos[w] < Len(Ev(w))
CanRun(w) == ord = <<>> \/ \E i \in DOMAIN ord : ord[i] = w /\ \A j \in 1..(i - 1) : ~Unfinished(ord[j])

\* WorkerStart + Seek: e = [ev |-> "Start", b, maxs, pos, nothing]
TStart(w) ==
    /\ CanRun(w)
    /\ wpc[w] = "idle" /\ wpos[w] < Len(Ev(w))
    /\ \E e \in {Ev(w)[wpos[w] + 1]} :
        /\ e.ev = "Start"
        /\ wb' = [wb EXCEPT ![w] = e.b]
        /\ wmax' = [wmax EXCEPT ![w] = e.maxs]
        /\ wcur' = [wcur EXCEPT ![w] = e.pos]
        /\ wpc' = [wpc EXCEPT ![w] = IF e.nothing THEN "done" ELSE "run"]
        /\ wpos' = [wpos EXCEPT ![w] = @ + 1]
        /\ UNCHANGED <<ns, NB, np, pad, off, file, misplaced, rms, size, pads, tid, prop, ord>>
        /\ impl' = Pick(impl, << <<D!Start(w), "Start">> >>)

\* WriteBatch (+ Pad, + WorkerDone): e = [ev |-> "Write", s0, s1, p0, rows, i0, rmsrow, padrows, padpos, done, ragged]
\*   samples [s0 + i0, s0 + i0 + rows) of batch s0 / S were written at rows [p0, p0 + rows)
TWrite(w) ==
    /\ CanRun(w)
    /\ wpc[w] = "run" /\ wpos[w] < Len(Ev(w))
    /\ \E e \in {Ev(w)[wpos[w] + 1]} :
        /\ e.ev = "Write"
        /\ LET b == e.s0 \div D!S
               lo == e.p0 - off                         \* first output row written (relative)
               hi == lo + e.rows
               covered == {c \in D!Cells : lo <= D!Lo(c) /\ (IF c + 1 \in D!Cells THEN D!Lo(c + 1) ELSE ns) <= hi}
               partial == {c \in D!Cells : ~(c \in covered) /\ D!Lo(c) < hi /\ lo < (IF c + 1 \in D!Cells THEN D!Lo(c + 1) ELSE ns)}
           IN /\ file' = [c \in DOMAIN file |-> IF c \in covered \cup partial THEN b ELSE file[c]]
              \* every sample at its own position: output row = sample index; whole cells only
              \* (e.ragged: the bytes written were not e.rows whole rows starting at a row boundary of the file)
              /\ misplaced' = (misplaced \/ e.ragged \/ (e.rows > 0 /\ (lo # e.s0 + e.i0 \/ partial # {} \/ e.s0 % D!S # 0)))
              /\ rms' = rms \cup {e.rmsrow}
              /\ wcur' = [wcur EXCEPT ![w] = e.p0 + e.rows]
              /\ pads' = IF e.padrows > 0 THEN pads \cup {e.padpos} ELSE pads
              /\ size' = D!Max(size, D!Max(e.p0 + e.rows, IF e.padrows > 0 THEN e.padpos + e.padrows ELSE 0))
              /\ wb' = [wb EXCEPT ![w] = b + 1]
              /\ wpc' = [wpc EXCEPT ![w] = IF e.done THEN "done" ELSE "run"]
        /\ wpos' = [wpos EXCEPT ![w] = @ + 1]
        /\ UNCHANGED <<ns, NB, np, pad, off, wmax, tid, prop, ord>>
        /\ impl' = Pick(impl, << <<D!Write(w), "Write">> >>)

\* the worker raised: e = [ev |-> "Crash"]
TCrash(w) ==
    /\ CanRun(w)
    /\ wpc[w] \in {"idle", "run"} /\ wpos[w] < Len(Ev(w))
    /\ Ev(w)[wpos[w] + 1].ev = "Crash"
    /\ wpc' = [wpc EXCEPT ![w] = "crashed"]
    /\ wpos' = [wpos EXCEPT ![w] = @ + 1]
    /\ UNCHANGED <<ns, NB, np, pad, off, wb, wcur, wmax, file, misplaced, rms, size, pads, tid, prop, impl, ord>>

\* all events consumed: judge this schedule's final state with the property layer
Judge ==
    /\ \A w \in D!W : wpc[w] \in {"done", "none", "crashed"}
    /\ \E w \in D!W : wpc[w] # "none"
    /\ prop' = Pick(prop, <<
          \* no worker raised, and neither did the call itself (before the fan-out or after it, when it assembles the
          \* quality files): R.raised
          <<D!NoCrash /\ ~R.raised, "NoCrash">>,
          <<D!CanonicalP(file) /\ ~misplaced, "FinalFileCanonical">>,
          <<D!LengthP(size), "Length">>,
          <<R.realsize < 0 \/ D!LengthP(R.realsize), "Length(real file)">>,
          <<D!RmsRowsP(rms), "RmsRows">>,
          <<R.realrms < 0 \/ R.realrms = D!LastB + 1, "RmsRows(real file)">>,
          <<D!PadP(pads), "Pad">>,
          \* observations made on the real output files of this run (projection by harness/c06_run.py)
          <<R.syncbad = 0, "SyncBitExact">>,
          <<R.satlen = ns, "SaturationEntries">>,
          <<R.padbad = 0, "PadRows">>,
          <<R.appendbad = 0, "AppendConcatenates">>,
          <<R.lsb <= 1, "EqualsBatchwise">> >>)
    /\ wpc' = [w \in D!W |-> "none"]
    /\ UNCHANGED <<ns, NB, np, pad, off, wb, wcur, wmax, file, misplaced, rms, size, pads, tid, wpos, impl, ord>>

Report ==
    /\ \A w \in D!W : wpc[w] = "none"
    /\ wpos # [w \in D!W |-> -1]
    /\ (prop # "" \/ impl # "") => PrintT(<<"VERDICT", tid, prop, impl, 0>>)
    /\ wpos' = [w \in D!W |-> -1]
    /\ UNCHANGED <<dvars, tid, prop, impl, ord>>

Next == (\E w \in D!W : TStart(w) \/ TWrite(w) \/ TCrash(w)) \/ Judge \/ Report
Spec == Init /\ [][Next]_vars

\* every schedule consumes every event (a stuck schedule is a machinery error): checked as an invariant on
\* states without successor other than reported ones
Stuck == /\ \E w \in D!W : wpc[w] \in {"idle", "run"} /\ wpos[w] >= Len(Ev(w))
Consumed == ~Stuck
=============================================================================
