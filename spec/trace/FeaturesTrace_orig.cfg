SPECIFICATION Spec
CONSTANTS
  Variant = "orig"
INVARIANT Consumed
CHECK_DEADLOCK FALSE
