--------------------------- MODULE CountingTrace ---------------------------
(***************************************************************************)
(* code -> spec for the discrete clauses of C20.  One record = one call of  *)
(* the real code:                                                           *)
(*  kind "venn"  spikes_venn2/3: ns sorters, N = spikes per sorter (input), *)
(*               chunks = one event per chunk of the loop: the non-empty    *)
(*               columns of bin_counts (read by the harness from the return *)
(*               values of bincount2D), ret = returned counts in the order  *)
(*               of the code's cond_names ("01", "10", "11" / "001".."111") *)
(*  kind "stack" voltage.stack: word, groups (distinct sorted labels as the *)
(*               harness reads them off a label column of the output),      *)
(*               fold, rows[k] = input traces found in output row k         *)
(*               (decoded from power-of-two trace values summed by the call)*)
(*  kind "traj"  cadzow.trajectory: cells[t] = <<ix, iy>> of trace t,       *)
(*               shape of T, entries <<R, C, t>> (it, itr), trcount         *)
(* prop = first false property-layer clause of Counting.tla on the observed *)
(* values, impl = first disagreement with the implementation layer.         *)
(***************************************************************************)
EXTENDS Integers, Sequences, FiniteSets, TLC, Json, IOUtils

Traces == JsonDeserialize(IOEnv.TRACE_FILE)

VARIABLES tid, pos, pc, acc, prop, impl
vars == <<tid, pos, pc, acc, prop, impl>>

K == INSTANCE Counting WITH Kind <- "", NSort <- 0, NBins <- 0, MaxCnt <- 0, NLab <- 0, LenW <- 0, MaxNX <- 0, MaxNY <- 0,
                            SubNX <- 0, SubNY <- 0, inp <- <<>>, pc <- "", cuts <- {}, ci <- 0, lvl <- 0, res <- <<>>

T == Traces[tid]

Pick(old, cands) ==   \* keep the first failure
    IF old # "" THEN old
    ELSE IF \E i \in 1..Len(cands) : cands[i][1] = FALSE
         THEN cands[CHOOSE i \in 1..Len(cands) : cands[i][1] = FALSE /\ \A j \in 1..(i-1) : cands[j][1]][2]
         ELSE ""

Init == /\ tid \in 1..Len(Traces)
        /\ pos = 0 /\ pc = "run" /\ prop = "" /\ impl = ""
        /\ acc = IF T.kind = "venn" THEN K!Zero(T.ns) ELSE <<>>

-----------------------------------------------------------------------------
\* venn: region of the code's condition number k (vec = 2^(ns-1) .. 1: sorter 1 is the most significant bit)
RECURSIVE Pow2(_)
Pow2(n) == IF n = 0 THEN 1 ELSE 2 * Pow2(n - 1)
RegionOf(ns, k) == {s \in 1..ns : (k \div Pow2(ns - s)) % 2 = 1}
RetFn(ns, ret) == [R \in K!Regions(ns) |-> ret[CHOOSE k \in 1..(Pow2(ns) - 1) : RegionOf(ns, k) = R]]

\* one chunk of the real loop: the spec peels the observed bin_counts columns of that chunk
TVennChunk ==
    /\ T.kind = "venn" /\ pc = "run" /\ pos < Len(T.chunks)
    /\ acc' = K!PeelChunk(acc, T.ns, T.chunks[pos + 1])
    /\ pos' = pos + 1
    /\ UNCHANGED <<tid, pc, prop, impl>>

ChunkTotal(s) == K!SumRange(LAMBDA c : K!TotalOf(T.chunks[c], s), 1, Len(T.chunks))

TVennReturn ==
    /\ T.kind = "venn" /\ pc = "run" /\ pos = Len(T.chunks)
    /\ pc' = "done"
    /\ IF T.exc # ""
       THEN prop' = "Raised:" \o T.exc /\ impl' = impl
       ELSE /\ prop' = Pick(prop, <<
                  <<Len(T.ret) = Pow2(T.ns) - 1 /\ \A k \in 1..Len(T.ret) : T.ret[k] >= 0, "Shape">>,
                  <<Len(T.ret) = Pow2(T.ns) - 1 /\ K!AttributionP(T.ns, T.N, RetFn(T.ns, T.ret)), "Attribution">> >>)
            /\ impl' = Pick(impl, <<
                  <<\A s \in 1..T.ns : ChunkTotal(s) = T.N[s], "Binning">>,
                  <<Len(T.ret) = Pow2(T.ns) - 1 /\ RetFn(T.ns, T.ret) = acc, "Peel">> >>)
    /\ UNCHANGED <<tid, pos, acc>>

-----------------------------------------------------------------------------
SeqToSet(s) == {s[i] : i \in 1..Len(s)}

TStack ==
    /\ T.kind = "stack" /\ pc = "run"
    /\ pc' = "done"
    /\ IF T.exc # ""
       THEN prop' = "Raised:" \o T.exc /\ impl' = impl
       ELSE LET rows == [k \in 1..Len(T.rows) |-> SeqToSet(T.rows[k])]
                s == K!StackOf(T.word)
            IN /\ prop' = Pick(prop, << <<K!StackP(T.word, T.groups, T.fold, rows), "Stack">> >>)
               /\ impl' = Pick(impl, << <<T.groups = s.groups /\ T.fold = s.fold /\ rows = s.rows, "StackOf">> >>)
    /\ UNCHANGED <<tid, pos, acc>>

-----------------------------------------------------------------------------
TTraj ==
    /\ T.kind = "traj" /\ pc = "run"
    /\ pc' = "done"
    /\ IF T.exc # ""
       THEN prop' = "Raised:" \o T.exc /\ impl' = impl
       ELSE LET present == SeqToSet(T.cells)
                nt == Len(T.cells)
                okidx == \A i \in 1..Len(T.entries) : T.entries[i][3] \in 1..nt
                entries == {<<T.entries[i][1], T.entries[i][2], T.cells[T.entries[i][3]]>> : i \in 1..Len(T.entries)}
                count == [cell \in present |-> T.trcount[CHOOSE t \in 1..nt : T.cells[t] = cell]]
            IN /\ prop' = Pick(prop, <<
                      <<okidx /\ Len(T.trcount) = nt /\ Cardinality(present) = nt, "TrajShape">>,
                      <<okidx /\ Len(T.trcount) = nt /\ Len(T.entries) = Cardinality(entries)
                        /\ K!TrajP(present, entries, count), "Trajectory">> >>)
               /\ impl' = Pick(impl, <<
                      <<T.shape = K!TShape(T.nx, T.ny), "TShape">>,
                      <<okidx /\ entries = K!Filled(T.nx, T.ny, present), "TCell">> >>)
    /\ UNCHANGED <<tid, pos, acc>>

Report ==
    /\ pc = "done"
    /\ pc' = "reported"
    /\ (prop # "" \/ impl # "") => PrintT(<<"VERDICT", tid, prop, impl, pos>>)
    /\ UNCHANGED <<tid, pos, acc, prop, impl>>

Next == TVennChunk \/ TVennReturn \/ TStack \/ TTraj \/ Report
Spec == Init /\ [][Next]_vars
Consumed == TRUE
=============================================================================
