SPECIFICATION Spec
CONSTANTS
  Mutant = "none"
INVARIANT Consumed
CHECK_DEADLOCK FALSE
