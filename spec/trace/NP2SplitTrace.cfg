SPECIFICATION Spec
CONSTANTS
  Variant = "fixed"
  RATIO = 12
  OV = 576
INVARIANT Consumed
CHECK_DEADLOCK FALSE
