---------------------------- MODULE WaveformTrace ----------------------------
(***************************************************************************)
(* code -> spec for C13.  One trace = one real extract_wfs_cbin call: the   *)
(* spike train handed in, the table the code chose (read back from          *)
(* waveforms.table.pqt), the chunk jobs recorded by the hook in             *)
(* write_wfs_chunk (rows, samples, local coordinates, snippet bounds), and  *)
(* observations on the saved files (harness/c13.py: each traces row         *)
(* compared with the source recording, channel map, templates, loader).     *)
(* The jobs write disjoint rows iff AtMostOnce holds, and then every        *)
(* interleaving yields the same file; they are installed in chunk order.    *)
(* A trace of kind "array" is one direct call of extract_wfs_array (the     *)
(* gather the chunk jobs use): any trough_offset / spike_length_samples /   *)
(* neighbourhood radius / add_nan_trace, its own recording length; the      *)
(* record carries the samples and what the harness observed on the result.  *)
(***************************************************************************)
EXTENDS Integers, Sequences, FiniteSets, TLC, Json, IOUtils

CONSTANTS Variant, NS, LEN, TROUGH

Traces == JsonDeserialize(IOEnv.TRACE_FILE)

VARIABLES train, maxwf, chunk, pc, table, done, writes, tid, pos, prop, impl

vars == <<train, maxwf, chunk, pc, table, done, writes, tid, pos, prop, impl>>
W == INSTANCE WaveformExtract WITH MaxWFs <- {}, Chunks <- {}, Trains <- {}
R == Traces[tid]

Pick(old, cands) ==
    IF old # "" THEN old
    ELSE IF \E i \in 1..Len(cands) : cands[i][1] = FALSE
         THEN cands[CHOOSE i \in 1..Len(cands) : cands[i][1] = FALSE /\ \A j \in 1..(i-1) : cands[j][1]][2]
         ELSE ""
Init ==
    /\ tid \in 1..Len(Traces)
    /\ train = R.train /\ maxwf = R.maxwf /\ chunk = R.chunk
    /\ pc = "new" /\ table = <<>> /\ done = {} /\ writes = <<>>
    /\ pos = 0 /\ prop = "" /\ impl = ""

\* the table the code chose: R.table = sequence of [sp, widx] in spike order
TMakeTable ==
    /\ pc = "new"
    /\ table' = R.table
    /\ writes' = [w \in 0..(Len(R.table) - 1) |-> <<>>]
    /\ pc' = "jobs"
    /\ UNCHANGED <<train, maxwf, chunk, done, tid, pos>>
    /\ impl' = Pick(impl, << <<R.table = W!TableOf(W!SelOf(R.table)), "MakeTable:waveform_index">> >>)
    /\ prop' = Pick(prop, << <<W!QuotaP(R.table), "Quota">>, <<W!RowOrderP(R.table), "RowOrder">> >>)

\* one recorded chunk job: e = [c, rows, samples, local, snip_first, snip_len]
TJob ==
    /\ pc = "jobs" /\ pos < Len(R.jobs)
    /\ \E e \in {R.jobs[pos + 1]} :
        /\ writes' = [w \in DOMAIN writes |->
                        IF \E k \in DOMAIN e.rows : e.rows[k] = w
                        THEN writes[w] \o [k \in 1..Cardinality({kk \in DOMAIN e.rows : e.rows[kk] = w}) |->
                               LET kk == CHOOSE x \in DOMAIN e.rows : e.rows[x] = w
                                   pk == IF \E x \in DOMAIN table : table[x].widx = w
                                         THEN W!P(table[CHOOSE x \in DOMAIN table : table[x].widx = w].sp) ELSE -1
                               IN <<e.snip_first + e.local[kk] - TROUGH, pk>>]
                        ELSE writes[w]]
        /\ done' = done \cup {e.c}
        /\ impl' = Pick(impl, <<
              <<e.c \notin done /\ e.c \in 0..(W!NChunks - 1), "Job:chunk">>,
              <<{e.rows[k] : k \in DOMAIN e.rows} = {table[r].widx : r \in W!RowsOf(e.c)}, "Job:rows">>,
              <<e.snip_first = W!SnipFirst(e.c) /\ e.snip_len = W!SnipLen(e.c), "Job:snippet">>,
              <<\A k \in DOMAIN e.rows : \E r \in W!RowsOf(e.c) : table[r].widx = e.rows[k] /\ e.local[k] = W!Local(e.c, r)
                                                                   /\ e.samples[k] = W!S(table[r].sp), "Job:local">> >>)
        /\ prop' = Pick(prop, <<
              <<\A k \in DOMAIN e.rows : e.rows[k] \in DOMAIN writes, "RowInRange">>,
              <<\A k \in DOMAIN e.rows : 0 <= e.local[k] - TROUGH /\ e.local[k] - TROUGH + LEN <= e.snip_len, "WithinSnippet">>,
              <<W!AtMostOnceP(writes'), "AtMostOnce">> >>)
    /\ pos' = pos + 1 /\ pc' = pc
    /\ UNCHANGED <<train, maxwf, chunk, table, tid>>

TFinalize ==
    /\ pc = "jobs" /\ pos = Len(R.jobs)
    /\ pc' = "done"
    /\ UNCHANGED <<train, maxwf, chunk, table, done, writes, tid, pos>>
    /\ impl' = Pick(impl, << <<\A c \in (0..(W!NChunks - 1)) \ done : W!RowsOf(c) = {}, "Finalize:jobs">> >>)
    /\ prop' = Pick(prop, <<
          <<\A r \in DOMAIN table : table[r].widx \in DOMAIN writes, "RowInRange:table">>,
          <<(\A r \in DOMAIN table : table[r].widx \in DOMAIN writes) => W!ContentP(table, writes), "Content">>,
          \* observations on the saved files
          <<\A i \in DOMAIN R.content : R.content[i] = 1, "TracesEqualSource">>,
          <<R.obs.rows_ok, "Files:rows">>, <<R.obs.table_ok, "Files:table">>, <<R.obs.order_ok, "Files:order">>,
          <<R.obs.chan_ok, "Files:channels">>, <<R.obs.templ_ok, "Files:templates">>,
          <<R.obs.loader_ok, "Loader">> >>)

\* a direct extract_wfs_array call: R.a = [ns, trough, len, samples]; every window asked for lies inside the array
\* (the documented precondition, generated that way), so every returned waveform must be the window of its own row
TArray ==
    /\ pc = "new" /\ R.kind = "array" /\ R.exc = ""
    /\ pc' = "done"
    /\ UNCHANGED <<train, maxwf, chunk, table, done, writes, tid, pos>>
    /\ impl' = Pick(impl, <<
          <<\A i \in DOMAIN R.a.samples : 0 <= R.a.samples[i] - R.a.trough
                                           /\ R.a.samples[i] + (R.a.len - R.a.trough) < R.a.ns, "Array:precondition">> >>)
    /\ prop' = Pick(prop, <<
          <<R.obs.rows_ok /\ Len(R.content) = Len(R.a.samples), "Files:rows">>,
          <<\A i \in DOMAIN R.content : R.content[i] = 1, "TracesEqualSource">>,
          <<R.obs.chan_ok, "Files:channels">> >>)

\* the call raised
TRaise ==
    /\ pc = "new" /\ R.exc # ""
    /\ pc' = "done" /\ prop' = "Raised:" \o R.exc
    /\ UNCHANGED <<train, maxwf, chunk, table, done, writes, tid, pos, impl>>

Report ==
    /\ pc = "done" /\ pc' = "reported"
    /\ (prop # "" \/ impl # "") => PrintT(<<"VERDICT", tid, prop, impl, pos>>)
    /\ UNCHANGED <<train, maxwf, chunk, table, done, writes, tid, pos, prop, impl>>

Next == (IF R.exc # "" THEN TRaise ELSE IF R.kind = "array" THEN TArray ELSE TMakeTable \/ TJob \/ TFinalize) \/ Report
Spec == Init /\ [][Next]_vars
Consumed == TRUE
=============================================================================
