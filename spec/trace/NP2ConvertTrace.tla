-------------------------- MODULE NP2ConvertTrace --------------------------
(***************************************************************************)
(* code -> spec for C04.  One trace = one history of real NP2Converter      *)
(* runs on one directory (fresh converter object per run, or the same object *)
(* again, or an object constructed before the earlier runs; options per run, *)
(* possibly an interruption injected at one instrumentation point).  The     *)
(* first directory is whatever the history found (other files / output of    *)
(* another recording in the shank folders, a second form of the original).   *)
(* Each   *)
(* record is (label of the step about to execute, directory projected       *)
(* before it, check_completed of the object); "begin" carries the options,  *)
(* "end" the status the run returned ("crashed" for an injected             *)
(* interruption, "raised" for an exception nobody injected).                *)
(* Observed directories are installed; impl = first step that is not the    *)
(* implementation-layer action of its label, prop = first false             *)
(* property-layer clause (Recoverable / DeleteGuard at every step, Outcome  *)
(* at every run end).                                                       *)
(***************************************************************************)
EXTENDS Integers, Sequences, TLC, Json, IOUtils

CONSTANTS NSH, NW, Variant

Traces == JsonDeserialize(IOEnv.TRACE_FILE)

VARIABLES kind, fs, opts, rpc, widx, cs, cph, csub, checkDone, verified, status, nruns, fs0, tid, pos, prop, impl

C == INSTANCE NP2Convert WITH MaxRuns <- 1000, Kinds <- {}
Yes == TRUE      \* NP2ConvertTrace.cfg: runs restricted to one shank are accepted (SubRuns of NP2Convert)

cvars == <<kind, fs, opts, rpc, widx, cs, cph, csub, checkDone, verified, status, nruns, fs0>>
vars == <<cvars, tid, pos, prop, impl>>
R == Traces[tid]
St(i) == R.steps[i]

Pick(old, cands) ==
    IF old # "" THEN old
    ELSE IF \E i \in 1..Len(cands) : cands[i][1] = FALSE
         THEN cands[CHOOSE i \in 1..Len(cands) : cands[i][1] = FALSE /\ \A j \in 1..(i-1) : cands[j][1]][2]
         ELSE ""

ActionFor(label) ==
    CASE label = "prepare" -> C!Prepare
      [] label = "window" -> C!Window
      [] label = "close" -> C!Close
      [] label = "meta_ap" -> C!MetaAP
      [] label = "meta_lf" -> C!MetaLF
      [] label = "damage" -> C!Damage
      [] label = "check" -> C!Check
      [] label = "check_closing" -> C!CheckClosing
      [] label = "compress_orig" -> C!CompressOrig
      [] label = "unlink_orig" -> C!CompressOrigRm
      [] label = "stale" -> (C!UnlinkStale \/ C!UnlinkStaleRaises)
      [] label = "comp" -> C!CompressFile
      [] label = "rmbin" -> C!UnlinkBin
      [] label = "comp_begin" -> C!Stutter
      [] label = "cchunk" -> C!Stutter
      [] label = "delete" -> C!Delete
      [] label = "return" -> C!Return
      [] label = "crash" -> C!Crash
      [] OTHER -> FALSE

Init ==
    /\ tid \in 1..Len(Traces)
    /\ kind = R.kind /\ fs = St(1).fs
    /\ opts = [ow |-> FALSE, chk |-> FALSE, cmp |-> FALSE, del |-> FALSE, part |-> FALSE, cb |-> FALSE, sub |-> FALSE]
    /\ rpc = "idle" /\ widx = 0 /\ cs = 0 /\ cph = "ap" /\ csub = "stale" /\ checkDone = FALSE /\ verified = FALSE
    /\ status = "none" /\ nruns = 0 /\ fs0 = fs
    /\ pos = 1 /\ prop = "" /\ impl = ""

\* St(pos) is "begin": a fresh converter is constructed and process() is entered
TBegin ==
    /\ pos >= 1 /\ pos <= Len(R.steps) /\ St(pos).pt = "begin" /\ rpc \in {"idle", "lost"}
    /\ LET A == IF St(pos).reuse THEN C!BeginReuse(St(pos).opts.ow) ELSE C!Begin(St(pos).opts) IN
       IF rpc = "idle" /\ ENABLED A
       THEN A /\ impl' = impl
       ELSE /\ opts' = St(pos).opts /\ rpc' = "lost" /\ fs0' = fs /\ status' = "none"
            /\ verified' = FALSE
            /\ UNCHANGED <<kind, fs, widx, cs, cph, csub, checkDone, nruns>>
            /\ impl' = Pick(impl, << <<FALSE, "begin">> >>)
    /\ pos' = pos + 1 /\ UNCHANGED <<tid, prop>>

\* the step labelled St(pos).pt was executed and led to the directory St(pos+1).fs
TStep ==
    /\ pos >= 1 /\ pos < Len(R.steps) /\ St(pos).pt \notin {"begin", "end"}
    /\ \E lab \in {St(pos).pt} : \E obs \in {St(pos + 1).fs} : \E old \in {fs} : \E cd \in {St(pos + 1).cd} :
       \E vr \in {St(pos + 1).vr} :
        LET A == fs' = obs /\ ActionFor(lab) IN
        /\ IF rpc # "lost" /\ ENABLED A
           THEN A /\ impl' = Pick(impl, << <<checkDone' = cd \/ rpc' = "idle", "check_completed">>,
                                             <<verified' = vr \/ rpc' = "idle", "verified-this-run">> >>)
           ELSE /\ fs' = obs /\ rpc' = "lost" /\ checkDone' = cd /\ verified' = vr
                /\ UNCHANGED <<kind, opts, widx, cs, cph, csub, status, nruns, fs0>>
                /\ impl' = Pick(impl, << <<FALSE, lab>> >>)
        /\ prop' = Pick(prop, <<
              <<C!RecoverableP(kind, obs), "Recoverable">>,
              <<C!DeleteGuardP(kind, old, obs, vr), "DeleteGuard">> >>)
    /\ pos' = pos + 1 /\ UNCHANGED tid

\* St(pos) is "end": the run is over, its status is St(pos).status
TEnd ==
    /\ pos >= 1 /\ pos <= Len(R.steps) /\ St(pos).pt = "end"
    /\ impl' = Pick(impl, << <<rpc = "lost" \/ (rpc = "idle" /\ status = St(pos).status), "status">> >>)
    /\ prop' = Pick(prop, << <<C!OutcomeP(kind, opts, St(pos).status, fs0, fs), "Outcome">> >>)
    /\ rpc' = "idle" /\ status' = St(pos).status
    /\ UNCHANGED <<kind, fs, opts, widx, cs, cph, csub, checkDone, verified, nruns, fs0>>
    /\ pos' = pos + 1 /\ UNCHANGED tid

Report ==
    /\ pos = Len(R.steps) + 1
    /\ (prop # "" \/ impl # "") => PrintT(<<"VERDICT", tid, prop, impl, pos>>)
    /\ pos' = 0 /\ UNCHANGED <<cvars, tid, prop, impl>>

Next == TBegin \/ TStep \/ TEnd \/ Report
Spec == Init /\ [][Next]_vars
Consumed == TRUE
=============================================================================
