--------------------------- MODULE ProgramsTrace ---------------------------
(***************************************************************************)
(* code -> spec for X03.  One trace = one user program executed on a real   *)
(* directory: converter runs recorded step by step as in NP2ConvertTrace    *)
(* (records "begin", <step labels>, "end"), and the three other calls as a  *)
(* pair of records "user" (call, arguments, directory before) / "uend"      *)
(* (directory after, status).  Observed directories are installed.          *)
(*   impl = first step that is not a step of spec/sys/Programs.tla          *)
(*   prop = first false clause of the property layer (UserSafe,             *)
(*          ReconRestores, ReconSafe, Recoverable)                          *)
(*   haz  = the program went through a Reconstruct on incomplete input      *)
(* Verdict roles (the property layer is ours): impl # "" means the code     *)
(* differs from the transcription; prop # "" with haz is the documented     *)
(* deviation (an observation), prop # "" without haz is a violation.        *)
(***************************************************************************)
EXTENDS Integers, Sequences, TLC, Json, IOUtils

CONSTANTS NSH, NW, Variant

Traces == JsonDeserialize(IOEnv.TRACE_FILE)

VARIABLES kind, fs, opts, rpc, widx, cs, cph, csub, checkDone, verified, status, nruns, fs0, hazard, tid, pos, prop, impl

P == INSTANCE Programs WITH MaxRuns <- 1000, Kinds <- {}

cvars == <<kind, fs, opts, rpc, widx, cs, cph, csub, checkDone, verified, status, nruns, fs0>>
vars == <<cvars, hazard, tid, pos, prop, impl>>
R == Traces[tid]
St(i) == R.steps[i]

Pick(old, cands) ==
    IF old # "" THEN old
    ELSE IF \E i \in 1..Len(cands) : cands[i][1] = FALSE
         THEN cands[CHOOSE i \in 1..Len(cands) : cands[i][1] = FALSE /\ \A j \in 1..(i-1) : cands[j][1]][2]
         ELSE ""

ActionFor(label) ==
    CASE label = "prepare" -> P!Prepare
      [] label = "window" -> P!Window
      [] label = "close" -> P!Close
      [] label = "meta_ap" -> P!MetaAP
      [] label = "meta_lf" -> P!MetaLF
      [] label = "check" -> P!Check
      [] label = "check_closing" -> P!CheckClosing
      [] label = "compress_orig" -> P!CompressOrig
      [] label = "unlink_orig" -> P!CompressOrigRm
      [] label = "stale" -> (P!UnlinkStale \/ P!UnlinkStaleRaises)
      [] label = "comp" -> P!CompressFile
      [] label = "rmbin" -> P!UnlinkBin
      [] label = "comp_begin" -> P!Stutter
      [] label = "cchunk" -> P!Stutter
      [] label = "delete" -> P!Delete
      [] label = "return" -> P!Return
      [] label = "crash" -> P!Crash
      [] OTHER -> FALSE

UserOp(op, arg) ==
    CASE op = "ucompress" -> P!UCompress(arg)
      [] op = "udecompress" -> P!UDecompress(arg)
      [] op = "reconstruct" -> P!Reconstruct(arg)
      [] OTHER -> FALSE

Init ==
    /\ tid \in 1..Len(Traces)
    /\ kind = R.kind /\ fs = St(1).fs
    /\ opts = [ow |-> FALSE, chk |-> FALSE, cmp |-> FALSE, del |-> FALSE, part |-> FALSE]
    /\ rpc = "idle" /\ widx = 0 /\ cs = 0 /\ cph = "ap" /\ csub = "stale" /\ checkDone = FALSE /\ verified = FALSE
    /\ status = "none" /\ nruns = 0 /\ fs0 = fs /\ hazard = FALSE
    /\ pos = 1 /\ prop = "" /\ impl = ""

TBegin ==
    /\ pos >= 1 /\ pos <= Len(R.steps) /\ St(pos).pt = "begin" /\ rpc \in {"idle", "lost"}
    /\ LET A == P!Begin(St(pos).opts) IN
       IF rpc = "idle" /\ ENABLED A
       THEN A /\ impl' = impl
       ELSE /\ opts' = St(pos).opts /\ rpc' = "lost" /\ fs0' = fs /\ status' = "none" /\ verified' = FALSE
            /\ UNCHANGED <<kind, fs, widx, cs, cph, csub, checkDone, nruns>>
            /\ impl' = Pick(impl, << <<FALSE, "begin">> >>)
    /\ pos' = pos + 1 /\ UNCHANGED <<tid, prop, hazard>>

TStep ==
    /\ pos >= 1 /\ pos < Len(R.steps) /\ St(pos).pt \notin {"begin", "end", "user", "uend"}
    /\ \E lab \in {St(pos).pt} : \E obs \in {St(pos + 1).fs} : \E cd \in {St(pos + 1).cd} : \E vr \in {St(pos + 1).vr} :
        LET A == fs' = obs /\ ActionFor(lab) IN
        /\ IF rpc # "lost" /\ ENABLED A
           THEN A /\ impl' = impl
           ELSE /\ fs' = obs /\ rpc' = "lost" /\ checkDone' = cd /\ verified' = vr
                /\ UNCHANGED <<kind, opts, widx, cs, cph, csub, status, nruns, fs0>>
                /\ impl' = Pick(impl, << <<FALSE, lab>> >>)
        /\ prop' = Pick(prop, << <<P!RecoverableP(kind, obs) \/ hazard, "Recoverable">> >>)
    /\ pos' = pos + 1 /\ UNCHANGED <<tid, hazard>>

TEnd ==
    /\ pos >= 1 /\ pos <= Len(R.steps) /\ St(pos).pt = "end"
    /\ impl' = Pick(impl, << <<rpc = "lost" \/ (rpc = "idle" /\ status = St(pos).status), "status">> >>)
    /\ rpc' = "idle" /\ status' = St(pos).status
    /\ UNCHANGED <<kind, fs, opts, widx, cs, cph, csub, checkDone, verified, nruns, fs0, prop>>
    /\ pos' = pos + 1 /\ UNCHANGED <<tid, hazard>>

\* a Reader call or a reconstruction: St(pos) = "user" (directory before), St(pos + 1) = "uend" (directory after, status)
TUser ==
    /\ pos >= 1 /\ pos < Len(R.steps) /\ St(pos).pt = "user" /\ rpc \in {"idle", "lost"}
    /\ \E op \in {St(pos).op} : \E arg \in {St(pos).arg} : \E obs \in {St(pos + 1).fs} : \E st \in {St(pos + 1).status} :
       \E old \in {fs} :
        LET A == fs' = obs /\ status' = st /\ UserOp(op, arg) IN
        /\ IF rpc = "idle" /\ ENABLED A
           THEN A /\ impl' = impl
           ELSE /\ fs' = obs /\ status' = st /\ rpc' = "idle" /\ hazard' = hazard
                /\ UNCHANGED <<kind, opts, widx, cs, cph, csub, checkDone, verified, nruns, fs0>>
                /\ impl' = Pick(impl, << <<FALSE, op>> >>)
        /\ prop' = Pick(prop, <<
              <<op = "reconstruct" \/ P!UserSafeP(kind, old, obs), "UserSafe">>,
              <<op # "reconstruct" \/ P!ReconRestoresP(old, obs, st), "ReconRestores">>,
              <<op # "reconstruct" \/ P!ReconSafeP(old, obs), "ReconSafe">> >>)
    /\ pos' = pos + 2 /\ UNCHANGED tid

Report ==
    /\ pos = Len(R.steps) + 1
    /\ (prop # "" \/ impl # "") => PrintT(<<"VERDICT", tid, prop, impl \o (IF hazard THEN "" ELSE ""), IF hazard THEN -pos ELSE pos>>)
    /\ pos' = 0 /\ UNCHANGED <<cvars, hazard, tid, prop, impl>>

Next == TBegin \/ TStep \/ TEnd \/ TUser \/ Report
Spec == Init /\ [][Next]_vars
=============================================================================
