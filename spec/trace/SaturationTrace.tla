-------------------------- MODULE SaturationTrace --------------------------
(***************************************************************************)
(* code -> spec for C16.  One record = one call of the real                 *)
(* ibldsp.voltage.saturation on a voltage array the harness built so that    *)
(* exactly co[t] channels exceed 98 % of their range at t, cs[t] exceed the   *)
(* slew limit into t+1 and ca[t] sit exactly at it (last entries 0).          *)
(* Observed: flags, and the gain projected by the harness on classes          *)
(*   "Z" |g| <= 1e-12, "O" |g - 1| <= 1e-12, "P" strictly between, "X" outside *)
(* [0, 1] by more than 1e-12; q = gain in millionths (implementation layer     *)
(* only); nc2, co2, cs2, ca2, flags2, cls2, q2 = the same for a second call on  *)
(* other voltages realising the same abstract input (other channel count,      *)
(* element type, layout, argument forms); same = whether the two gains agree   *)
(* to 1e-12.  Both calls are judged: the second one by FlagP, and by the gain   *)
(* clauses when its flags differ from the first call's (when they are equal,   *)
(* FlagsOnlyP carries the first call's gain verdict over).                     *)
(***************************************************************************)
EXTENDS Integers, Sequences, TLC, Json, IOUtils

CONSTANTS Variant
Traces == JsonDeserialize(IOEnv.TRACE_FILE)

VARIABLES nc, ns, p, M, cntOver, cntSlew, pc, fOver, fSlew, flags, conv, mute,   \* Saturation's
          tid, prop, impl, pos

S == INSTANCE Saturation WITH MaxNC <- 0, MaxNS <- 0, Widths <- {}, Props <- {}, SlewMode <- "zero"

vars == <<nc, ns, p, M, cntOver, cntSlew, pc, fOver, fSlew, flags, conv, mute, tid, prop, impl, pos>>
T == Traces[tid]

Pick(old, cands) ==
    IF old # "" THEN old
    ELSE IF \E i \in 1..Len(cands) : cands[i][1] = FALSE
         THEN cands[CHOOSE i \in 1..Len(cands) : cands[i][1] = FALSE /\ \A j \in 1..(i-1) : cands[j][1]][2]
         ELSE ""

Init == /\ tid \in 1..Len(Traces)
        /\ nc = 0 /\ ns = 0 /\ p = <<>> /\ M = 0 /\ cntOver = <<>> /\ cntSlew = <<>> /\ pc = "new"
        /\ fOver = <<>> /\ fSlew = <<>> /\ flags = <<>> /\ conv = <<>> /\ mute = <<>>
        /\ prop = "" /\ impl = "" /\ pos = 0

Min(a, b) == IF a < b THEN a ELSE b
\* the observed gain as an interval of the property layer
G == [t \in 1..Len(T.cls) |->
        CASE T.cls[t] = "Z" -> <<0, 0>>
          [] T.cls[t] = "O" -> <<S!UNIT, S!UNIT>>
          [] T.cls[t] = "X" -> <<-1, S!UNIT + 1>>
          [] OTHER -> <<S!Max(1, Min(T.q[t], S!UNIT - 1)), S!Max(1, Min(T.q[t], S!UNIT - 1))>>]

Shape == Len(T.flags) = T.ns /\ Len(T.cls) = T.ns /\ Len(T.q) = T.ns
Shape2 == Len(T.flags2) = T.ns /\ Len(T.cls2) = T.ns /\ Len(T.q2) = T.ns
G2 == [t \in 1..Len(T.cls2) |->
        CASE T.cls2[t] = "Z" -> <<0, 0>>
          [] T.cls2[t] = "O" -> <<S!UNIT, S!UNIT>>
          [] T.cls2[t] = "X" -> <<-1, S!UNIT + 1>>
          [] OTHER -> <<S!Max(1, Min(T.q2[t], S!UNIT - 1)), S!Max(1, Min(T.q2[t], S!UNIT - 1))>>]
\* the second call's gain needs its own verdict only when its flags are not the first call's
Own2 == Shape /\ Shape2 /\ T.flags2 # T.flags
Sum(a, b) == [t \in 1..Len(a) |-> a[t] + b[t]]

Check ==
    /\ pc = "new"
    /\ pc' = "done"
    /\ nc' = T.nc /\ ns' = T.ns /\ p' = <<T.a, T.b>> /\ M' = T.M
    /\ prop' = Pick(prop, <<
          <<T.exc = "", "Raised:" \o T.exc>>,
          <<T.exc # "" \/ Shape, "OneValuePerSample">>,
          <<T.exc # "" \/ ~Shape \/ S!FlagP(T.flags, T.nc, <<T.a, T.b>>, T.co, T.cs, T.ca), "Flag">>,
          <<T.exc # "" \/ ~Shape \/ S!RangeP(G), "Range">>,
          <<T.exc # "" \/ ~Shape \/ S!ZeroP(T.flags, G), "ZeroOnFlag">>,
          <<T.exc # "" \/ ~Shape \/ S!OneP(T.flags, G, T.M), "OneFar">>,
          <<T.exc # "" \/ ~Shape \/ S!FlagsOnlyP(T.flags, T.flags2, T.same), "FlagsOnly">>,
          <<T.exc # "" \/ Shape2, "OneValuePerSample:2">>,
          <<T.exc # "" \/ ~Shape2 \/ S!FlagP(T.flags2, T.nc2, <<T.a, T.b>>, T.co2, T.cs2, T.ca2), "Flag:2">>,
          <<T.exc # "" \/ ~Own2 \/ S!RangeP(G2), "Range:2">>,
          <<T.exc # "" \/ ~Own2 \/ S!ZeroP(T.flags2, G2), "ZeroOnFlag:2">>,
          <<T.exc # "" \/ ~Own2 \/ S!OneP(T.flags2, G2, T.M), "OneFar:2">> >>)
    /\ impl' = Pick(impl, <<
          <<T.exc # "" \/ ~Shape \/ S!FlagP(T.flags, T.nc, <<T.a, T.b>>, T.co, Sum(T.cs, T.ca), [t \in 1..T.ns |-> 0]), "Slew>=">>,
          <<T.exc # "" \/ ~Shape \/ T.M > S!MaxWidth \/
                (LET mo == S!MuteOf(T.flags, T.M) IN \A t \in 1..T.ns : mo[t][1] - 1 <= T.q[t] /\ T.q[t] <= mo[t][2] + 1),
            "Window">> >>)
    /\ UNCHANGED <<cntOver, cntSlew, fOver, fSlew, flags, conv, mute, tid, pos>>

Report ==
    /\ pc = "done"
    /\ pc' = "reported"
    /\ (prop # "" \/ impl # "") => PrintT(<<"VERDICT", tid, prop, impl, pos>>)
    /\ UNCHANGED <<nc, ns, p, M, cntOver, cntSlew, fOver, fSlew, flags, conv, mute, tid, prop, impl, pos>>

Next == Check \/ Report
Spec == Init /\ [][Next]_vars
Consumed == TRUE
=============================================================================
