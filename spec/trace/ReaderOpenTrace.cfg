SPECIFICATION Spec
CONSTANTS
  Variant = "fixed"
INVARIANT Consumed
CHECK_DEADLOCK FALSE
