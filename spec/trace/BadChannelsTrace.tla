------------------------- MODULE BadChannelsTrace -------------------------
(***************************************************************************)
(* code -> spec for C15.  Every record of the trace file is one execution  *)
(* of the real code, reduced to discrete observables by harness/c15.py:    *)
(*  kind "interp": interpolate_bad_channels(data, lab, x, y)               *)
(*       g, lab, same (channels returned bit-identical), rows = for every  *)
(*       dead/noisy channel [i, zero, src, unit, hull, hset]               *)
(*  kind "detect": detect_bad_channels on a synthetic fault scenario       *)
(*       n, dead, noisy, top (0 = none; 1-based), labels, fdead/fnoisy/    *)
(*       fcand = the returned features put through the code's thresholds   *)
(*  kind "rule"  : detect_bad_channels on a recording with several faults: *)
(*       labels and flags only                                             *)
(*  kind "file"  : detect_bad_channels_cbin with detect_bad_channels       *)
(*       wrapped: batches = the per-batch label vectors it returned,       *)
(*       result = the file-level answer, starts/lens = the slices read     *)
(* Verdicts per trace:  prop = first false property-layer clause,          *)
(*                      impl = first deviation from the implementation     *)
(*                             layer (reported as drift)                   *)
(***************************************************************************)
EXTENDS Integers, Sequences, FiniteSets, TLC, Json, IOUtils

CONSTANTS Variant

Traces == JsonDeserialize(IOEnv.TRACE_FILE)

VARIABLES tid, pc, prop, impl
vars == <<tid, pc, prop, impl>>

B == INSTANCE BadChannels

T == Traces[tid]
ToSet(s) == {s[k] : k \in 1..Len(s)}

Pick(cands) ==   \* name of the first failing clause, "" if none
    IF \E i \in 1..Len(cands) : cands[i][1] = FALSE
    THEN cands[CHOOSE i \in 1..Len(cands) : cands[i][1] = FALSE /\ \A j \in 1..(i - 1) : cands[j][1]][2]
    ELSE ""

-----------------------------------------------------------------------------
(* interpolate_bad_channels *)
IRows == T.rows
\* supports are computed once per trace (LET values are cached)
InterpVerdicts ==
  LET n == Len(IRows)
      supp == [k \in 1..n |-> B!Support(T.g, T.lab, IRows[k].i)]
  IN <<
    Pick(<< <<B!UntouchedP(T.lab, ToSet(T.same)), "interp:untouched">>,
            <<{IRows[k].i : k \in 1..n} = B!Bad(T.lab), "interp:rows">>,
            <<\A k \in 1..n : supp[k] = {} => IRows[k].zero, "interp:zero-case">>,
            <<\A k \in 1..n : supp[k] # {} => ~IRows[k].zero, "interp:zeroed">>,
            <<\A k \in 1..n : supp[k] # {} => ToSet(IRows[k].src) \subseteq supp[k], "interp:foreign-source">>,
            <<\A k \in 1..n : supp[k] # {} => IRows[k].unit, "interp:unit-sum">>,
            <<\A k \in 1..n : supp[k] # {} => IRows[k].hull, "interp:hull">>,
            <<\A k \in 1..n : supp[k] # {} => IRows[k].src # <<>>, "interp:repaired">> >>),
    Pick(<< \* the support the harness measured the hull against is the spec's (else the hull flag means nothing)
            <<\A k \in 1..n : ToSet(IRows[k].hset) = supp[k], "interp:oracle-support">>,
            \* every support channel takes part
            <<\A k \in 1..n : ~IRows[k].zero => ToSet(IRows[k].src) = supp[k], "interp:support-used">> >>) >>
\* (the clauses above are B!RepairedP spelled out one by one so that the verdict names the failing one)
InterpProp == InterpVerdicts[1]
InterpImpl == InterpVerdicts[2]

-----------------------------------------------------------------------------
(* detect_bad_channels on a scenario *)
Sc == [n |-> T.n, dead |-> T.dead, noisy |-> T.noisy, nrep |-> T.nrep, top |-> T.top]
DetectProp ==
    IF B!DetectP(Sc, T.labels) THEN ""
    ELSE IF B!DetectKnownP(Sc, T.labels) THEN "detect:dead-below-top-block"
    ELSE Pick(<< <<Sc.noisy = 0 \/ T.labels[Sc.noisy] \in B!Expected(Sc, Sc.noisy), "detect:noisy-channel">>,
                 <<Sc.dead = 0 \/ T.labels[Sc.dead] \in B!Expected(Sc, Sc.dead),
                   IF Sc.dead = 1 THEN "detect:silent-first-channel" ELSE "detect:silent-channel">>,
                 <<\A c \in 1..Sc.n : (B!InBlock(Sc, c) /\ c # Sc.dead /\ c # Sc.noisy) => T.labels[c] = 3, "detect:top-block">>,
                 <<\A c \in 1..Sc.n : (~B!InBlock(Sc, c) /\ c # Sc.dead /\ c # Sc.noisy) => T.labels[c] = 0, "detect:clear-channel">> >>)
\* (the flags of the noisy channel itself are left out: its coherence with the median is dominated by its own
\*  noise and its label is 2 by precedence whatever they are)
DetectImpl ==
    Pick(<< <<ToSet(T.fdead) \ {Sc.noisy} = B!DeadFlags(Sc) \ {Sc.noisy}, "detect:dead-flags">>,
            <<ToSet(T.fcand) \ {Sc.noisy} = B!CandFlags(Sc) \ {Sc.noisy}, "detect:cand-flags">>,
            <<ToSet(T.fnoisy) \in B!NoisyFlagSets(Sc), "detect:noisy-flags">>,
            <<T.labels = B!RuleImpl(Sc.n, ToSet(T.fdead), ToSet(T.fnoisy), ToSet(T.fcand)), "detect:rule">> >>)

-----------------------------------------------------------------------------
(* the label rule alone, on recordings with several faults and incoherent blocks anywhere (no      *)
(* property-layer expectation: these bind the exhaustively checked RuleImpl to the real code)       *)
RuleImplV == Pick(<< <<T.labels = B!RuleImpl(T.n, ToSet(T.fdead), ToSet(T.fnoisy), ToSet(T.fcand)), "rule:labels">> >>)

-----------------------------------------------------------------------------
(* detect_bad_channels_cbin *)
FRow(c) == [k \in 1..T.nb |-> T.batches[k][c]]
FileProp ==
    Pick(<< <<Len(T.result) = T.nc /\ Len(T.batches) = T.nb, "file:shape">>,
            <<\A c \in 1..T.nc : B!ModeP(FRow(c), T.result[c]), "file:mode">> >>)
FileImpl ==
    Pick(<< <<\A c \in 1..T.nc : B!ModeTieP(FRow(c), T.result[c]), "file:tie">>,
            \* evenly spaced: start_i = i (ns - D) / (nb - 1) within one sample, length D within one sample
            <<\A k \in 1..T.nb : LET d == T.starts[k] * B!Max(T.nb - 1, 1) - (k - 1) * (T.ns - T.d)
                                 IN d <= B!Max(T.nb - 1, 1) /\ -d <= B!Max(T.nb - 1, 1), "file:batch-starts">>,
            <<\A k \in 1..T.nb : T.lens[k] \in (T.d - 1)..(T.d + 1), "file:batch-length">> >>)

-----------------------------------------------------------------------------
Init == /\ tid \in 1..Len(Traces)
        /\ pc = "start" /\ prop = "" /\ impl = ""

Verdicts == IF T.exc # "" THEN <<"raised:" \o T.exc, "">>
            ELSE CASE T.kind = "interp" -> InterpVerdicts
                   [] T.kind = "detect" -> <<DetectProp, DetectImpl>>
                   [] T.kind = "rule" -> <<"", RuleImplV>>
                   [] T.kind = "file" -> <<FileProp, FileImpl>>
Step == /\ pc = "start"
        /\ pc' = "done"
        /\ \E v \in {Verdicts} : prop' = v[1] /\ impl' = v[2]
        /\ UNCHANGED tid

Report == /\ pc = "done"
          /\ pc' = "reported"
          /\ (prop # "" \/ impl # "") => PrintT(<<"VERDICT", tid, prop, impl, 0>>)
          /\ UNCHANGED <<tid, prop, impl>>

Next == Step \/ Report
Spec == Init /\ [][Next]_vars
Consumed == TRUE
=============================================================================
