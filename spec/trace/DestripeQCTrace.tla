------------------------- MODULE DestripeQCTrace -------------------------
(***************************************************************************)
(* code -> spec for X04 (quality side files of decompress_destripe_cbin).  *)
(* One record = one real call: its parameters, the batches each worker     *)
(* processed (hook events, worker by worker), and what the files hold      *)
(* afterwards:                                                             *)
(*   kept[c]   the saturation file is TRUE at the seam sample E(c) (a jump  *)
(*             was planted between E(c) and E(c) + 1 for every seam)        *)
(*   otherbad  number of other samples whose flag differs from the flags of *)
(*             the whole recording                                          *)
(*   times2    twice the time rows, in samples                              *)
(* The observed per-worker batches are installed step by step (wfirst, wb:  *)
(* the state DestripeQC's Losable(c) reads); the order of the workers'      *)
(* writes is not observed, so the property layer is evaluated on what the   *)
(* files hold:                                                              *)
(*   impl = first recorded fact that is not what the implementation layer   *)
(*          (DestripeQC / the closed form CBatches) says  -> the code changed*)
(*   prop = first false property-layer clause outside the deviation class   *)
(***************************************************************************)
EXTENDS MC_DestripeQC

Traces == JsonDeserialize(IOEnv.TRACE_FILE)

VARIABLES tid, pos, prop, impl

tvars == <<qvars, tid, pos, prop, impl>>
R == Traces[tid]
Ev(i) == R.events[i]          \* [w, b, s0, s1, sat0, sat1, rmsrow]

Pick(old, cands) ==
    IF old # "" THEN old
    ELSE IF \E i \in 1..Len(cands) : cands[i][1] = FALSE
         THEN cands[CHOOSE i \in 1..Len(cands) : cands[i][1] = FALSE /\ \A j \in 1..(i-1) : cands[j][1]][2]
         ELSE ""

TInit ==
    /\ tid \in 1..Len(Traces)
    /\ ns = R.ns /\ NB = R.NB /\ np = R.np /\ pad = 0 /\ off = 0
    /\ wpc = [w \in W |-> IF w < R.np THEN "run" ELSE "none"]
    /\ wb = [w \in W |-> 0] /\ wcur = [w \in W |-> 0] /\ wmax = [w \in W |-> 0]
    /\ file = [c \in Cells |-> -1] /\ misplaced = FALSE /\ rms = {} /\ size = 0 /\ pads = {}
    /\ satw = [c \in Seams |-> -1] /\ wfirst = [w \in W |-> -1] /\ trow = [b \in AllB |-> -1]
    /\ pos = 0 /\ prop = "" /\ impl = ""

\* one recorded batch of one worker
TBatch ==
    /\ pos < Len(R.events) /\ pos >= 0
    /\ \E e \in {Ev(pos + 1)} :
        /\ wfirst' = [wfirst EXCEPT ![e[1]] = IF @ = -1 THEN e[2] ELSE @]
        /\ wb' = [wb EXCEPT ![e[1]] = e[2] + 1]
        /\ rms' = rms \cup {e[7]}
        /\ impl' = Pick(impl, <<
              <<e[2] \in CBatches(e[1], ns, NB, np), "Batch:not-of-this-worker">>,
              <<wfirst[e[1]] = -1 \/ e[2] = wb[e[1]], "Batch:order">>,
              <<e[3] = FirstS(e[2]) /\ e[4] = LastS(e[2]), "Batch:range">>,
              <<e[5] = e[3] /\ e[6] = e[4], "Saturation:range-is-the-whole-batch">>,
              <<e[7] = e[2], "Rms:row-is-the-batch-index">> >>)
    /\ pos' = pos + 1
    /\ UNCHANGED <<ns, NB, np, pad, off, wpc, wcur, wmax, file, misplaced, size, pads, satw, trow, tid, prop>>

Judge ==
    /\ pos = Len(R.events)
    /\ impl' = Pick(impl, <<
          <<\A w \in 0..(np - 1) : (IF wfirst[w] = -1 THEN {} ELSE wfirst[w]..(wb[w] - 1)) = CBatches(w, ns, NB, np), "Workers:batches">>,
          <<Len(R.times2) = LastB + 1 /\ \A k \in 0..LastB : R.times2[k + 1] = R.t0 + 2 * FirstS(k) + (LastS(k) - FirstS(k)) - 1, "Time:centre">> >>)
    /\ prop' = Pick(prop, <<
          <<R.satlen = ns, "SatEntries">>,
          <<Len(R.kept) = LastB /\ \A c \in Seams : R.kept[c + 1] \/ Losable(c), "SatSeam">>,
          <<R.otherbad = 0, "SatElsewhere">>,
          <<R.rmsrows = LastB + 1 /\ rms = 0..LastB, "RmsRows">>,
          <<Len(R.times2) # LastB + 1 \/ TimeOrderP([k \in 0..LastB |-> R.times2[k + 1]], LastB + 1), "TimeOrder">>,
          <<Len(R.times2) # LastB + 1 \/ TimeInsideP([k \in 0..LastB |-> R.times2[k + 1] - R.t0], LastB + 1), "TimeInside">> >>)
    /\ pos' = -1
    /\ UNCHANGED <<qvars, tid>>

Report ==
    /\ pos = -1
    /\ (prop # "" \/ impl # "") => PrintT(<<"VERDICT", tid, prop, impl, 0>>)
    /\ pos' = -2
    /\ UNCHANGED <<qvars, tid, prop, impl>>

TNext == TBatch \/ Judge \/ Report
TSpec == TInit /\ [][TNext]_tvars
Consumed == TRUE
=============================================================================
