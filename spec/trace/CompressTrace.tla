--------------------------- MODULE CompressTrace ---------------------------
(***************************************************************************)
(* code -> spec for C02.  One trace = one real call of compress_file /     *)
(* decompress_file / decompress_to_scratch (possibly with an injected       *)
(* failure): the directory projected (harness/c02.py: byte comparison with  *)
(* reference images) before every file operation of the call and at its     *)
(* end.  Each observed directory is installed; the step must be the         *)
(* implementation-layer action of that file operation (else impl verdict),  *)
(* and the property layer of Compress is evaluated on every observed state  *)
(* and step (else prop verdict).                                            *)
(***************************************************************************)
EXTENDS Integers, Sequences, TLC, Json, IOUtils

CONSTANTS Variant, NChunks

Traces == JsonDeserialize(IOEnv.TRACE_FILE)

VARIABLES fs, op, keep, pc, k, result, srcAtStart, pubAtStart, tid, pos, prop, impl

C == INSTANCE Compress

cvars == <<fs, op, keep, pc, k, result, srcAtStart, pubAtStart>>
vars == <<cvars, tid, pos, prop, impl>>
R == Traces[tid]
St(i) == R.steps[i]

Pick(old, cands) ==
    IF old # "" THEN old
    ELSE IF \E i \in 1..Len(cands) : cands[i][1] = FALSE
         THEN cands[CHOOSE i \in 1..Len(cands) : cands[i][1] = FALSE /\ \A j \in 1..(i-1) : cands[j][1]][2]
         ELSE ""

\* the implementation-layer action that a file operation (instrumentation point) corresponds to
ActionFor(label) ==
    CASE label = "open_tmp" -> C!COpen
      [] label = "cchunk" -> C!CChunk
      [] label = "open_ch" -> C!CHeaderOpen
      [] label = "cmeta" -> C!CHeader
      [] label = "ccheck" -> C!CCheck
      [] label = "rename" -> C!CRename
      [] label = "unlink_bin" -> C!CUnlink
      [] label = "refuse" -> C!DRefuse
      [] label = "open_out" -> C!DOpen
      [] label = "dchunk" -> (C!DChunk \/ C!SChunk)
      [] label = "dcheck" -> C!DCheck
      [] label = "unlink_cbin" -> C!DUnlink1
      [] label = "unlink_ch" -> C!DUnlink2
      [] label = "copy_meta" -> C!SCopyMeta
      [] label = "nocopy" -> C!SNoCopy       \* decompress_to_scratch(scratch_dir=None): branch without a metadata copy
      [] label = "unlink_stmp" -> C!SRmTmp
      [] label = "open_stmp" -> C!SOpen
      [] label = "move" -> C!SMove
      [] label = "return" -> C!Return
      [] label = "fail" -> C!Fail
      [] OTHER -> FALSE

Init ==
    /\ tid \in 1..Len(Traces)
    /\ fs = St(1).fs
    /\ op = "none" /\ keep = TRUE /\ pc = "idle" /\ k = 0 /\ result = "none" /\ srcAtStart = "A" /\ pubAtStart = FALSE
    /\ pos = 1 /\ prop = "" /\ impl = ""

\* the call starts: steps[1] is the directory at call entry
TStart ==
    /\ pos = 1 /\ op = "none" /\ pc = "idle" /\ R.op # "resolve"
    /\ LET A == CASE R.op = "compress" -> C!CStart(R.keep)
                  [] R.op = "decompress" -> C!DStart(R.keep)
                  [] R.op = "scratch" -> C!SStart
       IN IF ENABLED A
          THEN A /\ impl' = impl
          ELSE /\ op' = R.op /\ keep' = R.keep /\ pc' = "lost" /\ k' = 0 /\ result' = "none"
               /\ srcAtStart' = fs[IF R.op = "compress" THEN "bin" ELSE "cbin"] /\ fs' = fs /\ pubAtStart' = C!PairComplete(fs)
               /\ impl' = Pick(impl, << <<FALSE, "Start:" \o R.op>> >>)
    /\ pos' = 2 /\ UNCHANGED <<tid, prop>>

\* one file operation: St(pos-1).pt was executed and led to the directory St(pos).fs
TStep ==
    /\ op # "none" /\ pos >= 2 /\ pos <= Len(R.steps)
    /\ \E lab \in {St(pos - 1).pt} : \E obs \in {St(pos).fs} : \E old \in {fs} :
        LET A == fs' = obs /\ ActionFor(lab) IN
        /\ IF ENABLED A
           THEN A /\ impl' = impl
           ELSE /\ fs' = obs /\ pc' = "lost" /\ k' = k /\ keep' = keep /\ srcAtStart' = srcAtStart /\ pubAtStart' = pubAtStart
                /\ op' = (IF lab \in {"return", "fail", "refuse"} THEN "none" ELSE op)
                /\ result' = (IF lab = "return" THEN "ok" ELSE IF lab = "fail" THEN "failed"
                              ELSE IF lab = "refuse" THEN "refused" ELSE result)
                /\ impl' = Pick(impl, << <<FALSE, lab>> >>)
        /\ prop' = Pick(prop, <<
              <<C!AtomicPublishP(obs), "AtomicPublish">>,
              <<C!SourceSafeP(old, obs), "SourceSafe">>,
              <<lab \notin {"return", "fail"} \/ C!SourceUntouchedP(R.op, IF lab = "fail" THEN "failed" ELSE "ok", srcAtStart, obs),
                "SourceUntouchedOnFailure">>,
              <<lab # "return" \/ C!CompletedP(R.op, R.keep, "ok", obs), "Completed">>,
              <<lab # "fail" \/ C!FailedAtChunkP(R.op, "failed", IF St(pos - 1).at = "cchunk" THEN "chunk" ELSE "other", pubAtStart, obs),
                "FailedLeavesPublishedComplete">>,
              \* the Reader object that performed the call, re-opened, still exposes the recording
              <<lab # "return" \/ R.reopen \in {"ok", "skip"}, "ReaderFollows">>,
              \* a data file that is a link into a store: the call works on the names it was given, the store stays as it was
              <<pos < Len(R.steps) \/ R.store = "ok", "LinkedDataUntouched">> >>)
    /\ pos' = pos + 1 /\ UNCHANGED tid

\* constructor lookup on one directory: R.resolved[e] = binary that Reader(entry e) opened ("none", "skip", "wrong")
TResolve ==
    /\ pos = 1 /\ R.op = "resolve"
    /\ prop' = Pick(prop, << <<C!ResolveP(fs, LAMBDA e : R.resolved[e]), "ResolveSame">>,
                              <<R.store = "ok", "LinkedDataUntouched">> >>)
    /\ impl' = Pick(impl, << <<\A e \in {"bin", "cbin", "meta"} :
                                  R.resolved[e] = "skip" \/ R.resolved[e] = "wrong" \/ R.resolved[e] = C!ResolveData(fs, e),
                              "Resolve">> >>)
    /\ pos' = 2 /\ UNCHANGED <<cvars, tid>>

Report ==
    /\ pos = Len(R.steps) + 1 /\ pos > 1
    /\ (prop # "" \/ impl # "") => PrintT(<<"VERDICT", tid, prop, impl, pos>>)
    /\ pos' = 0 /\ UNCHANGED <<cvars, tid, prop, impl>>

Next == TStart \/ TStep \/ TResolve \/ Report
Spec == Init /\ [][Next]_vars
Consumed == TRUE
=============================================================================
