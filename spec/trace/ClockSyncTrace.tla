--------------------------- MODULE ClockSyncTrace ---------------------------
(***************************************************************************)
(* code -> spec for C19: every record is one call of the real               *)
(* ibldsp.utils.sync_timestamps on two series derived from one true event   *)
(* train (affine clock map, jitter, events missing on either side).         *)
(* Recorded: the size of the true train, the events deleted on each side,   *)
(* the returned index vectors, and the classes measured on the returned     *)
(* mapping (Matched: max error at held-out events <= 2 ms; Drift: within    *)
(* 5 ppm + 10 sigma of the fit).  The true correspondences are recomputed    *)
(* here from the deletions by lib/ClockSync.tla, never taken from the       *)
(* harness.                                                                  *)
(***************************************************************************)
EXTENDS Integers, Sequences, FiniteSets, TLC, Json, IOUtils

Traces == JsonDeserialize(IOEnv.TRACE_FILE)

VARIABLES tid, pc, prop, impl
vars == <<tid, pc, prop, impl>>

C == INSTANCE ClockSync WITH MaxN <- 0, MaxMiss <- 0, MaxSpan <- 0, TBin <- 100, Variant <- "fixed",
        N <- 0, missA <- {}, missB <- {}, span <- 0

T == Traces[tid]
ToSet(sq) == {sq[i] : i \in DOMAIN sq}

Pick(old, cands) ==
    IF old # "" THEN old
    ELSE IF \E i \in 1..Len(cands) : cands[i][1] = FALSE
         THEN cands[CHOOSE i \in 1..Len(cands) : cands[i][1] = FALSE /\ \A j \in 1..(i-1) : cands[j][1]][2]
         ELSE ""

Init == tid \in 1..Len(Traces) /\ pc = "run" /\ prop = "" /\ impl = ""

Truth == C!TruePairs(T.n, ToSet(T.missA), ToSet(T.missB))
Pairs == {<<T.ia[k], T.ib[k]>> : k \in DOMAIN T.ia}

Step ==
    /\ pc = "run" /\ pc' = "done" /\ UNCHANGED tid
    /\ prop' = Pick(prop,
         IF T.exc # "" THEN << <<FALSE, "Returns:" \o T.exc>> >>
         ELSE << <<~T.indices \/ C!WellFormedP(T.ia, T.ib, T.n - Len(T.missA), T.n - Len(T.missB)), "WellFormed">>,
                 <<~T.indices \/ C!SoundP(Pairs, Truth), "Sound">>,
                 <<~T.indices \/ C!CompleteP(Cardinality(Pairs), Truth, C!Slack(Truth)), "Complete">>,
                 <<T.matched = "ok", "Matched">>,
                 <<T.drift = "ok", "Drift">> >>)
    \* the code as it stands returns every true correspondence
    /\ impl' = Pick(impl, IF T.exc # "" \/ ~T.indices THEN <<>> ELSE << <<Pairs = Truth, "sync:all-pairs">> >>)

Report ==
    /\ pc = "done" /\ pc' = "reported"
    /\ (prop # "" \/ impl # "") => PrintT(<<"VERDICT", tid, prop, impl, 0>>)
    /\ UNCHANGED <<tid, prop, impl>>

Next == Step \/ Report
Spec == Init /\ [][Next]_vars
Consumed == TRUE
=============================================================================
