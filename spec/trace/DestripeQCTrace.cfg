SPECIFICATION TSpec
CONSTANTS
  Variant = "fixed"
  T = 1024
  NSs <- NoPad
  NBs <- NoPad
  NPs <- NoPad
  Pads <- NoPad
  Offs <- NoOff
  MaxP = 8
INVARIANT Consumed
CHECK_DEADLOCK FALSE
