--------------------------- MODULE NP2SplitTrace ---------------------------
(***************************************************************************)
(* code -> spec for C03 / C12.  One trace = one real NP2Converter.process() *)
(* run: the window generator's count, then per window what `_ind2save`      *)
(* returned for the AP and LF streams (tokens read off the sync column =     *)
(* sample counter), then observations made on the files the run left on      *)
(* disk (harness/np2common.py, c03.py).  Observed values are installed;      *)
(* impl = first step that is not a step of NP2Split's implementation layer,  *)
(* prop = first false property-layer clause.                                 *)
(***************************************************************************)
EXTENDS Integers, Sequences, TLC, Json, IOUtils

CONSTANTS Variant, RATIO, OV

Traces == JsonDeserialize(IOEnv.TRACE_FILE)

VARIABLES ns, w, ov, pc, first, last, iw, nwin, pfirst, plast, ap, lf, edgeok, tid, pos, prop, impl

S == INSTANCE NP2Split WITH MaxNS <- 0, MaxW <- 0, NSs <- {}, Ws <- {}

vars == <<ns, w, ov, pc, first, last, iw, nwin, pfirst, plast, ap, lf, edgeok, tid, pos, prop, impl>>
R == Traces[tid]
NEv == Len(R.wins)

Pick(old, cands) ==
    IF old # "" THEN old
    ELSE IF \E i \in 1..Len(cands) : cands[i][1] = FALSE
         THEN cands[CHOOSE i \in 1..Len(cands) : cands[i][1] = FALSE /\ \A j \in 1..(i-1) : cands[j][1]][2]
         ELSE ""

\* all failing clauses are collected ("a|b|c"): C03 and C12 judge different subsets of them
RECURSIVE Collect(_, _)
Collect(acc, cands) ==
    IF cands = <<>> THEN acc
    ELSE Collect(IF Head(cands)[1] THEN acc ELSE (IF acc = "" THEN Head(cands)[2] ELSE acc \o "|" \o Head(cands)[2]), Tail(cands))

\* <<start, n, explicit>> -> token sequence
Tok(c, stride) == IF c[3] # <<>> THEN c[3] ELSE [j \in 1..c[2] |-> c[1] + (j - 1) * stride]

Init ==
    /\ tid \in 1..Len(Traces)
    /\ ns = R.ns /\ w = R.w /\ ov = OV
    /\ pc = "new" /\ first = -1 /\ last = -1 /\ iw = -1 /\ nwin = 0 /\ pfirst = -1 /\ plast = -1
    /\ ap = <<>> /\ lf = <<>> /\ edgeok = TRUE
    /\ pos = 0 /\ prop = "" /\ impl = ""

TConstruct ==
    /\ pc = "new" /\ NEv > 0
    /\ nwin' = R.wins[1].nwin /\ pc' = "ready"
    /\ UNCHANGED <<ns, w, ov, first, last, iw, pfirst, plast, ap, lf, edgeok, tid, pos, prop>>
    /\ impl' = Pick(impl, << <<S!Construct, "Construct:nwin">> >>)

TWindow ==
    /\ pc \in {"ready", "iter"} /\ pos < NEv
    /\ \E e \in {R.wins[pos + 1]} : \E oap \in {ap} : \E olf \in {lf} :
        /\ first' = e.first /\ last' = e.last /\ iw' = e.iw
        /\ pfirst' = first /\ plast' = last /\ pc' = "iter" /\ pos' = pos + 1
        /\ ap' = ap \o Tok(e.ap, 1)
        /\ lf' = lf \o Tok(e.lf, RATIO)
        /\ edgeok' = (edgeok /\ \A j \in DOMAIN Tok(e.lf, RATIO) :
                        LET t == Tok(e.lf, RATIO)[j] IN
                        /\ (t - e.first >= 2 * S!TAP \/ e.first = 0)
                        /\ (e.last - t > 2 * S!TAP \/ e.last = ns))
        /\ UNCHANGED <<ns, w, ov, nwin, tid>>
        /\ impl' = Pick(impl, <<
              <<IF pos = 0 THEN pc = "ready" /\ e.first = 0 /\ e.last = S!Min(w, ns) /\ e.iw = 0
                ELSE last # ns /\ e.first = first + w - ov /\ e.last = S!Min(e.first + w, ns) /\ e.iw = iw + 1, "Yield">>,
              <<e.nwin = nwin, "nwin changed">>,
              <<Tok(e.ap, 1) = S!APRows(e.first, e.last, e.iw), "ind2save:ap">>,
              <<Tok(e.lf, RATIO) = S!LFRows(e.first, e.last, e.iw), "ind2save:lf">> >>)
        /\ prop' = Collect(prop, <<
              <<S!InRange', "InRange">>, <<S!Cover', "Cover">>, <<S!Overlap', "Overlap">>,
              <<S!APPrefixP(oap \o Tok(e.ap, 1)), "APPrefix">>,
              <<S!LFTokensP(olf \o Tok(e.lf, RATIO)), "LFTokens">>,
              <<S!EdgeP(edgeok'), "LFEdges">> >>)

\* files on disk (projection): every shank's AP file has ns rows whose sync column is 0..ns-1 and whose bytes equal the original
\* columns of that shank followed by sync; the reconstructed file and the LF files likewise
FinalClauses ==
    << <<R.final.ap_rows_ok, "APFile:rows">>, <<R.final.ap_tokens_ok, "APFile:order">>,
       <<R.final.ap_bytes_ok, "APFile:bytes">>, <<R.final.ap_meta_ok, "APFile:meta">>,
       <<R.final.recon_bytes_ok, "Reconstruct:bytes">>, <<R.final.recon_meta_ok, "Reconstruct:meta">>,
       <<R.final.lf_rows = S!CeilDiv(ns, RATIO), "LFFile:rows">>, <<R.final.lf_sync_ok, "LFFile:sync">>,
       <<R.final.lf_meta_ok, "LFFile:meta">>,
       <<R.final.lf_interior_lsb <= 1, "LFFile:interior">>, <<R.final.lf_window_lsb <= 1, "LFFile:window">> >>

\* process() returned (status 1): judge the streams and the files left on disk
TStop ==
    /\ pc = "iter" /\ pos = NEv
    /\ pc' = "done"
    /\ UNCHANGED <<ns, w, ov, first, last, iw, nwin, pfirst, plast, ap, lf, edgeok, tid, pos>>
    /\ impl' = Pick(impl, << <<last = ns, "Stop">> >>)
    /\ prop' = Collect(prop, <<
          <<S!Cover', "Cover:end">>, <<S!CountP(nwin)', "Count">>,
          <<S!APCompleteP(ap)', "APComplete">>, <<S!LFCompleteP(lf)', "LFComplete">> >> \o FinalClauses)

\* the per-window instrumentation point does not exist in this code (no window events although the run returned 1): only the
\* clauses on the files left on disk can be judged; the implementation layer is not bound (drift)
TBlackBox ==
    /\ pc = "new" /\ R.status = 1 /\ NEv = 0
    /\ pc' = "done"
    /\ impl' = "unbound:no window events"
    /\ prop' = Collect(prop, FinalClauses)
    /\ UNCHANGED <<ns, w, ov, first, last, iw, nwin, pfirst, plast, ap, lf, edgeok, tid, pos>>

\* the run raised or returned something else than 1
TAbnormal ==
    /\ pc = "new" /\ R.status # 1
    /\ pc' = "done" /\ prop' = "Abnormal:" \o R.exc
    /\ UNCHANGED <<ns, w, ov, first, last, iw, nwin, pfirst, plast, ap, lf, edgeok, tid, pos, impl>>

Report ==
    /\ pc = "done"
    /\ pc' = "reported"
    /\ (prop # "" \/ impl # "") => PrintT(<<"VERDICT", tid, prop, impl, pos>>)
    /\ UNCHANGED <<ns, w, ov, first, last, iw, nwin, pfirst, plast, ap, lf, edgeok, tid, pos, prop, impl>>

Next == (IF R.status # 1 THEN TAbnormal ELSE IF NEv = 0 THEN TBlackBox ELSE TConstruct \/ TWindow \/ TStop) \/ Report
Spec == Init /\ [][Next]_vars
Consumed == TRUE
=============================================================================
