---------------------------- MODULE SpectralTrace ----------------------------
(***************************************************************************)
(* code -> spec for C18.  One record = one observation of ibldsp.fourier:    *)
(*  "conv"    convolve on the full impulse basis of a pair of lengths:        *)
(*            pos[i+1][j+1] = p >= 0 : e_i conv e_j came back as a clean impulse *)
(*            at p; -2 : all zeros; -1 : anything else; len = returned length   *)
(*  "nsoptim" ns_optim_fft(n) = v                                              *)
(*  "fscale"  fscale(n) as numerators over n (two-sided and one-sided); -999999 *)
(*            where the returned value is not a multiple of 1/(n si)            *)
(*  "maps"    freduce / fexpand fed with a tagged spectrum: which input bin      *)
(*            each output bin is, and whether it came back conjugated (k = -1    *)
(*            if not identifiable)                                               *)
(*  "filter"  hp / lp applied to an impulse: class of the gain at every bin       *)
(*            "0", "1" or "m" (strictly between); corners b0 < b1 as numerators    *)
(* The "equal to 1e-9 / 1e-12" decisions are the harness' projection.            *)
(***************************************************************************)
EXTENDS Integers, Sequences, TLC, Json, IOUtils

CONSTANTS Variant
Traces == JsonDeserialize(IOEnv.TRACE_FILE)

VARIABLES nsx, nsw, i, j, mode, pc, ns, p, len, garbage, lo, hi,     \* Spectral's
          tid, prop, impl, pos

S == INSTANCE Spectral WITH MaxN <- 0, Basis <- "all"

vars == <<nsx, nsw, i, j, mode, pc, ns, p, len, garbage, lo, hi, tid, prop, impl, pos>>
T == Traces[tid]

Pick(old, cands) ==
    IF old # "" THEN old
    ELSE IF \E k \in 1..Len(cands) : cands[k][1] = FALSE
         THEN cands[CHOOSE k \in 1..Len(cands) : cands[k][1] = FALSE /\ \A m \in 1..(k-1) : cands[m][1]][2]
         ELSE ""

Init == /\ tid \in 1..Len(Traces)
        /\ nsx = 0 /\ nsw = 0 /\ i = 0 /\ j = 0 /\ mode = "" /\ pc = "new" /\ ns = 0 /\ p = 0 /\ len = 0
        /\ garbage = FALSE /\ lo = 0 /\ hi = 0
        /\ prop = "" /\ impl = "" /\ pos = 0

\* ---- conv
Obs(q, t) == IF q = -1 THEN S!NotImpulse ELSE IF t = q THEN 1 ELSE 0
ConvShape == Len(T.pos) = T.nsx /\ \A a \in 1..T.nsx : Len(T.pos[a]) = T.nsw
ConvOK == \A a \in 1..T.nsx : \A b \in 1..T.nsw :
             IF T.mode = "full" THEN S!FullP(LAMBDA t : Obs(T.pos[a][b], t), T.len, T.nsx, T.nsw, a - 1, b - 1)
             ELSE S!SameP(LAMBDA t : Obs(T.pos[a][b], t), T.len, T.nsx, T.nsw, a - 1, b - 1)
FirstBadPair == IF ConvShape /\ ~ConvOK
                THEN LET ab == CHOOSE ab \in (1..T.nsx) \X (1..T.nsw) :
                                 ~(IF T.mode = "full"
                                   THEN S!FullP(LAMBDA t : Obs(T.pos[ab[1]][ab[2]], t), T.len, T.nsx, T.nsw, ab[1] - 1, ab[2] - 1)
                                   ELSE S!SameP(LAMBDA t : Obs(T.pos[ab[1]][ab[2]], t), T.len, T.nsx, T.nsw, ab[1] - 1, ab[2] - 1))
                     IN (ab[1] - 1) * 1000 + ab[2] - 1
                ELSE 0
CheckConv ==
    /\ pc = "new" /\ T.kind = "conv"
    /\ pc' = "done"
    /\ prop' = Pick(prop, << <<T.exc = "", "Raised:" \o T.exc>>,
                             <<T.exc # "" \/ ConvShape, "ConvShape">>,
                             <<T.exc # "" \/ ~ConvShape \/ ConvOK, IF T.mode = "full" THEN "ConvFull" ELSE "ConvSame">> >>)
    /\ pos' = IF T.exc = "" THEN FirstBadPair ELSE 0
    /\ impl' = impl
    /\ UNCHANGED <<nsx, nsw, i, j, mode, ns, p, len, garbage, lo, hi, tid>>

\* ---- ns_optim_fft
CheckNsOptim ==
    /\ pc = "new" /\ T.kind = "nsoptim"
    /\ pc' = "done"
    /\ prop' = Pick(prop, << <<T.exc = "", "Raised:" \o T.exc>>, <<T.exc # "" \/ S!NsOptimP(T.n, T.v), "NsOptim">> >>)
    /\ impl' = Pick(impl, << <<T.exc # "" \/ 2 * T.n > S!SizeLimit \/ T.v = S!NsOptimImpl(T.n), "NsOptimTable">> >>)
    /\ UNCHANGED <<nsx, nsw, i, j, mode, ns, p, len, garbage, lo, hi, tid, pos>>

\* ---- fscale
CheckFScale ==
    /\ pc = "new" /\ T.kind = "fscale"
    /\ pc' = "done"
    /\ prop' = Pick(prop, << <<T.exc = "", "Raised:" \o T.exc>>,
                             <<T.exc # "" \/ S!FScaleP(T.n, T.two), "FScale">>,
                             <<T.exc # "" \/ S!FScaleOneSidedP(T.n, T.one), "FScaleOneSided">> >>)
    /\ impl' = impl
    /\ UNCHANGED <<nsx, nsw, i, j, mode, ns, p, len, garbage, lo, hi, tid, pos>>

\* ---- freduce / fexpand index maps
AsMap(s) == [m \in 1..Len(s) |-> <<s[m][1], s[m][2] = 1>>]
CheckMaps ==
    /\ pc = "new" /\ T.kind = "maps"
    /\ pc' = "done"
    /\ prop' = Pick(prop, << <<T.exc = "", "Raised:" \o T.exc>>,
                             <<T.exc # "" \/ S!ReduceP(T.n, AsMap(T.reduce)), "Reduce">>,
                             <<T.exc # "" \/ S!ExpandP(T.n, AsMap(T.expand)), "Expand">>,
                             <<T.exc # "" \/ S!ReduceExpandP(T.n, AsMap(T.expand)), "ReduceExpand">> >>)
    /\ impl' = Pick(impl, << <<T.exc # "" \/ AsMap(T.expand) = S!ExpandImpl(T.n \div 2 + 1, T.n), "ExpandMap">> >>)
    /\ UNCHANGED <<nsx, nsw, i, j, mode, ns, p, len, garbage, lo, hi, tid, pos>>

\* ---- hp / lp gain classes per bin
Cls(g) == IF g = <<"0">> THEN "0" ELSE IF g = <<"1">> THEN "1" ELSE "m"
FilterOK == /\ Len(T.cls) = T.n
            /\ LET fs == S!FScaleImpl(T.n) IN
               \A m \in 1..T.n : T.cls[m] = Cls(IF T.typ = "hp" THEN S!Hp(S!Abs(fs[m]), T.b0, T.b1) ELSE S!Lp(S!Abs(fs[m]), T.b0, T.b1))
CheckFilter ==
    /\ pc = "new" /\ T.kind = "filter"
    /\ pc' = "done"
    /\ prop' = Pick(prop, << <<T.exc = "", "Raised:" \o T.exc>>, <<T.exc # "" \/ FilterOK, "FilterBins">> >>)
    /\ impl' = impl
    /\ UNCHANGED <<nsx, nsw, i, j, mode, ns, p, len, garbage, lo, hi, tid, pos>>

Report ==
    /\ pc = "done"
    /\ pc' = "reported"
    /\ (prop # "" \/ impl # "") => PrintT(<<"VERDICT", tid, prop, impl, pos>>)
    /\ UNCHANGED <<nsx, nsw, i, j, mode, ns, p, len, garbage, lo, hi, tid, prop, impl, pos>>

Next == CheckConv \/ CheckNsOptim \/ CheckFScale \/ CheckMaps \/ CheckFilter \/ Report
Spec == Init /\ [][Next]_vars
Consumed == TRUE
=============================================================================
