--------------------------- MODULE MetaDeriveTrace ---------------------------
(***************************************************************************)
(* code -> spec for C09 (derived acquisition parameters).  One record =     *)
(* one metadata file read by the real spikeglx.Reader:                      *)
(*   cfg : the raw fields of the file (see MetaDerive), extracted by the    *)
(*         harness with plain key look-ups, plus nsdoc = fileSizeBytes /    *)
(*         (2 nSavedChans) and fsok / nsobs                                 *)
(*   obs : version, major, type, nc, sync, analog, maxint,                  *)
(*         s2v  = per channel <<"unit">> or <<rangeC, maxint, g>> where g   *)
(*                is the projection of range / maxint / sample2volts[ch]    *)
(*                onto an integer gain (-1: not an integer within 1e-5),    *)
(*         rv   = per channel projection of range / range_volts[ch] (0 on   *)
(*                sync traces), ns, fsok                                    *)
(*   exc : name of the exception if the reader raised                       *)
(* prop = first false property-layer formula (Agree..P against the          *)
(* independent reading), impl = first value that differs from the           *)
(* implementation layer.                                                    *)
(***************************************************************************)
EXTENDS Integers, Sequences, TLC, Json, IOUtils

CONSTANTS Mutant

Traces == JsonDeserialize(IOEnv.TRACE_FILE)

VARIABLES c, tid, pc, prop, impl

D == INSTANCE MetaDerive WITH MaxChans <- 0, GainPairs <- {}, MaxNi <- 0

vars == <<c, tid, pc, prop, impl>>

T == Traces[tid]

Pick(old, cands) ==
    IF old # "" THEN old
    ELSE IF \E i \in 1..Len(cands) : cands[i][1] = FALSE
         THEN cands[CHOOSE i \in 1..Len(cands) : cands[i][1] = FALSE /\ \A j \in 1..(i-1) : cands[j][1]][2]
         ELSE ""

Init == /\ tid \in 1..Len(Traces)
        /\ c = T.cfg
        /\ pc = "file" /\ prop = "" /\ impl = ""

\* range_volts on the data channels = full-scale range / gain
RangeVoltsP(m, rv) == /\ Len(rv) = D!DocNC(m)
                      /\ \A ch \in 0..(D!DocNC(m) - 1) : (~D!DocIsSync(m, ch) /\ ch + 1 <= Len(rv)) => rv[ch + 1] = D!DocGain(m, ch)

TDerive ==
    /\ pc = "file" /\ T.exc = ""
    /\ pc' = "derived"
    /\ UNCHANGED <<c, tid>>
    /\ \E o \in {T.obs} :
        /\ impl' = Pick(impl, <<
              <<o.version = D!ImplVersion(c) /\ o.major = D!ImplMajor(c), "version">>,
              <<o.type = D!ImplType(c), "type">>,
              <<o.nc = D!ImplNC(c) /\ o.sync = D!ImplSync(c) /\ o.analog = D!ImplAnalog(c), "counts">>,
              <<o.maxint = D!ImplMaxInt(c), "maxint">>,
              <<o.s2v = D!ImplS2V(c), "s2v">> >>)
        /\ prop' = Pick(prop, <<
              <<D!AgreeVersionP(c, o), "AgreeVersion">>,
              <<D!AgreeTypeP(c, o), "AgreeType">>,
              <<D!AgreeCountsP(c, o), "AgreeCounts">>,
              <<D!AgreeMaxIntP(c, o), "AgreeMaxInt">>,
              <<D!AgreeS2VP(c, o), "AgreeS2V">>,
              <<RangeVoltsP(c, o.rv), "AgreeRangeVolts">>,
              <<o.fsok, "AgreeSamplingRate">>,
              <<c.nsdoc = -1 \/ o.ns = c.nsdoc, "AgreeSampleCount">> >>)

TRaise ==
    /\ pc = "file" /\ T.exc # ""
    /\ pc' = "derived" /\ prop' = "Raised:" \o T.exc
    /\ UNCHANGED <<c, tid, impl>>

Report ==
    /\ pc = "derived"
    /\ pc' = "reported"
    /\ (prop # "" \/ impl # "") => PrintT(<<"VERDICT", tid, prop, impl, 0>>)
    /\ UNCHANGED <<c, tid, prop, impl>>

Next == TDerive \/ TRaise \/ Report
Spec == Init /\ [][Next]_vars
Consumed == TRUE
=============================================================================
