----------------------------- MODULE ShiftTrace -----------------------------
(***************************************************************************)
(* code -> spec for C07.  Every record of the trace file is one experiment  *)
(* on the real code:                                                        *)
(*  kind "fshift"   : an array (1-D, or 2-D with the shift along either     *)
(*                    axis) taken through one or two fourier.fshift calls;  *)
(*                    after each call the harness recorded shape, dtype,    *)
(*                    whether the input array was left untouched, the index  *)
(*                    map of the full impulse basis per trace (run-length    *)
(*                    coded: where did e_i go, -1 = not an impulse any more) *)
(*                    and the delay measured on a sub-Nyquist signal.        *)
(*  kind "estimate" : waveforms.wave_shift_corrmax / shift_waveform on a    *)
(*                    waveform and its shifted copy: applied and estimated   *)
(*                    delay in 1/100 sample, re-alignment class.             *)
(* The property layer of lib/Shift.tla is evaluated on the observed values;  *)
(* the expected delay of a trace is accumulated here from the shifts the     *)
(* caller passed (t-th trace <- s[t]), never taken from the harness.         *)
(***************************************************************************)
EXTENDS Integers, Sequences, TLC, Json, IOUtils

Traces == JsonDeserialize(IOEnv.TRACE_FILE)

VARIABLES tid, pos, pc, prop, impl,
          want,      \* [trace -> cumulative delay numerator asked for]
          allint     \* [trace -> every shift so far was an integer]

vars == <<tid, pos, pc, prop, impl, want, allint>>

\* only the operators of the property layer are used; the model's variables are not
S == INSTANCE Shift WITH Lens <- {}, NTraces <- {}, Dens <- {}, MaxCalls <- 0,
        n <- 0, ntr <- 0, axis <- 0, D <- 1, basis <- 0, ph <- <<>>, nyq <- <<>>, want <- <<>>,
        ncalls <- 0, shape <- <<>>, dtype <- "", untouched <- TRUE, oshape <- <<>>, odtype <- ""

T == Traces[tid]
NTr == IF T.ntr = 0 THEN 1 ELSE T.ntr
Shape == IF T.ntr = 0 THEN <<T.n>> ELSE IF T.axis = 0 THEN <<T.n, T.ntr>> ELSE <<T.ntr, T.n>>

Pick(old, cands) ==   \* keep the first failure
    IF old # "" THEN old
    ELSE IF \E i \in 1..Len(cands) : cands[i][1] = FALSE
         THEN cands[CHOOSE i \in 1..Len(cands) : cands[i][1] = FALSE /\ \A j \in 1..(i-1) : cands[j][1]][2]
         ELSE ""

\* run-length coded index map: segments <<i0, j0, len>> : e_(i0+r) was found at j0+r, r < len;
\* <<i0, -1, len>> : no impulse found
RECURSIVE MapAt(_, _)
MapAt(segs, i) ==
    IF segs = <<>> THEN -2
    ELSE LET s == Head(segs) IN
         IF i >= s[1] /\ i < s[1] + s[3] THEN (IF s[2] < 0 THEN -1 ELSE s[2] + (i - s[1]))
         ELSE MapAt(Tail(segs), i)

Init == /\ tid \in 1..Len(Traces)
        /\ pos = 0 /\ pc = "run" /\ prop = "" /\ impl = ""
        /\ want = [t \in 1..NTr |-> 0]
        /\ allint = [t \in 1..NTr |-> TRUE]

\* name of the clause a failed comparison belongs to: second call -> additivity, vector of shifts ->
\* per-trace, nothing asked -> identity
Clause(e, base) ==
    IF pos >= 1 THEN "Additive:" \o base
    ELSE IF ~e.scalar THEN "PerTrace:" \o base
    ELSE IF e.s[1] = 0 THEN "Identity"
    ELSE base

TCall ==
    /\ pc = "run" /\ T.kind = "fshift" /\ pos < Len(T.calls)
    /\ \E e \in {T.calls[pos + 1]} :
       \E w \in {[t \in 1..NTr |-> want[t] + (IF e.scalar THEN e.s[1] ELSE e.s[t])]} :
       \E ai \in {[t \in 1..NTr |-> allint[t] /\ (IF e.scalar THEN e.s[1] ELSE e.s[t]) % T.D = 0]} :
        /\ want' = w /\ allint' = ai /\ pos' = pos + 1
        /\ UNCHANGED <<tid, pc, impl>>
        /\ prop' = Pick(prop, <<
             <<S!ShapeDtypeP(Shape, T.dtype, e.oshape, e.odtype), "ShapeDtype">>,
             <<S!UntouchedP(e.untouched), "Untouched">>,
             \* integer delay (and, for an even length, integer shifts only): circular roll of the basis
             <<\A t \in 1..NTr : (w[t] % T.D = 0 /\ (ai[t] \/ T.n % 2 = 1) /\ e.maps # <<>>) =>
                   S!RollMapP(T.n, [i \in 0..(T.n - 1) |-> MapAt(e.maps[t], i)], w[t] \div T.D),
               Clause(e, "Roll")>>,
             \* below Nyquist: a pure delay by the amount asked for, integer or not
             <<\A t \in 1..NTr : e.q[t] # "none" =>
                   (e.q[t] = "pure" /\ S!DelayP(T.n, T.D, e.md[t], w[t])),
               Clause(e, "Delay")>> >>)

TEstimate ==
    /\ pc = "run" /\ T.kind = "estimate" /\ pos = 0
    /\ pos' = 1
    /\ UNCHANGED <<tid, pc, impl, want, allint>>
    /\ prop' = Pick(prop, <<
         <<\A i \in 1..Len(T.est) : S!EstimateP(T.est[i][1], T.est[i][2]), "Estimate">>,
         <<\A i \in 1..Len(T.est) : T.est[i][3] = "ok", "Realign">>,
         <<T.shape_ok, "ShapeDtype">> >>)

TDone ==
    /\ pc = "run"
    /\ pos = (IF T.kind = "fshift" THEN Len(T.calls) ELSE 1)
    /\ pc' = "reported"
    /\ (prop # "" \/ impl # "") => PrintT(<<"VERDICT", tid, prop, impl, pos>>)
    /\ UNCHANGED <<tid, pos, prop, impl, want, allint>>

Next == TCall \/ TEstimate \/ TDone
Spec == Init /\ [][Next]_vars
Consumed == TRUE
=============================================================================
