SPECIFICATION Spec
CONSTANTS
  Variant = "fixed"
  MaxP = 8
  T = 1024
INVARIANT Consumed
CHECK_DEADLOCK FALSE
