-------------------------- MODULE LfpResampleTrace --------------------------
(***************************************************************************)
(* code -> spec for X02.  One trace = one real resample_denoise_lfp_cbin    *)
(* run: per window the tuple the function prints (first, last, last-first,  *)
(* first_valid, last_valid, rows so far) and the segment of tokens read off *)
(* the rows it wrote; then the segments read off the finished file.         *)
(* impl = first step that is not a step of LfpResample's implementation     *)
(* layer; prop = clauses of the property layer on the observed segments,    *)
(* collected ("a|b"): Counter is judged for every run, Monotone / Uniform / *)
(* Complete are the docstring clauses the unchanged code deviates from.     *)
(***************************************************************************)
EXTENDS Integers, Sequences, TLC, Json, IOUtils

Traces == JsonDeserialize(IOEnv.TRACE_FILE)

VARIABLES ns, w, ov, pc, first, last, iw, nwin, pfirst, plast, F, out, rows, tid, pos, prop, impl

L == INSTANCE LfpResample WITH MaxNS <- 0, MaxW <- 0, Variant <- "fixed", Cases <- {}

vars == <<ns, w, ov, pc, first, last, iw, nwin, pfirst, plast, F, out, rows, tid, pos, prop, impl>>
R == Traces[tid]
NEv == Len(R.wins)

Pick(old, cands) ==
    IF old # "" THEN old
    ELSE IF \E i \in 1..Len(cands) : cands[i][1] = FALSE
         THEN cands[CHOOSE i \in 1..Len(cands) : cands[i][1] = FALSE /\ \A j \in 1..(i-1) : cands[j][1]][2]
         ELSE ""
RECURSIVE Collect(_, _)
Collect(acc, cands) ==
    IF cands = <<>> THEN acc
    ELSE Collect(IF Head(cands)[1] THEN acc ELSE (IF acc = "" THEN Head(cands)[2] ELSE acc \o "|" \o Head(cands)[2]), Tail(cands))

Init ==
    /\ tid \in 1..Len(Traces)
    /\ ns = R.ns /\ w = R.w /\ ov = R.ov /\ F = R.f
    /\ pc = "new" /\ first = -1 /\ last = -1 /\ iw = -1 /\ nwin = 0 /\ pfirst = -1 /\ plast = -1
    /\ out = <<>> /\ rows = 0
    /\ pos = 0 /\ prop = "" /\ impl = ""

TConstruct ==
    /\ pc = "new"
    /\ nwin' = R.nwin /\ pc' = "ready"
    /\ UNCHANGED <<ns, w, ov, first, last, iw, pfirst, plast, F, out, rows, tid, pos, prop>>
    /\ impl' = Pick(impl, << <<L!Construct, "Construct:nwin">> >>)

TWindow ==
    /\ pc \in {"ready", "iter"} /\ pos < NEv
    /\ \E e \in {R.wins[pos + 1]} :
        /\ first' = e.first /\ last' = e.last /\ iw' = pos
        /\ pfirst' = first /\ plast' = last /\ pc' = "iter" /\ pos' = pos + 1
        /\ out' = Append(out, e.seg) /\ rows' = e.c
        /\ UNCHANGED <<ns, w, ov, nwin, F, tid, prop>>
        /\ impl' = Pick(impl, <<
              <<IF pos = 0 THEN pc = "ready" /\ e.first = 0 /\ e.last = L!Min(w, ns)
                ELSE last # ns /\ e.first = first + w - ov /\ e.last = L!Min(e.first + w, ns), "Yield">>,
              <<e.fv = L!FVP(F, ov, e.first) /\ e.lv = L!LVP(F, ns, ov, e.first, e.last), "valid-range">>,
              <<e.seg = L!SegP(F, ns, ov, e.first, e.last), "rows-written">>,
              <<e.c = rows + L!KeptP(F, ns, ov, e.first, e.last), "counter">> >>)

TStop ==
    /\ pc = "iter" /\ pos = NEv
    /\ pc' = "done"
    /\ UNCHANGED <<ns, w, ov, first, last, iw, nwin, pfirst, plast, F, out, rows, tid, pos>>
    /\ impl' = Pick(impl, << <<last = ns, "Stop">>, <<R.file = out, "file = rows written">>,
                             <<out = L!SegsFrom(F, ns, w, ov, 0), "closed form">> >>)
    /\ prop' = Collect(prop, <<
          <<L!CounterP(R.file, rows), "Counter">>,
          <<L!MonotoneP(F, R.file), "Monotone">>,
          <<L!UniformP(F, R.file), "Uniform">>,
          <<L!CompleteP(F, ns, R.file), "Complete">> >>)

Report ==
    /\ pc = "done"
    /\ pc' = "reported"
    /\ (prop # "" \/ impl # "") => PrintT(<<"VERDICT", tid, prop, impl, pos>>)
    /\ UNCHANGED <<ns, w, ov, first, last, iw, nwin, pfirst, plast, F, out, rows, tid, pos, prop, impl>>

Next == TConstruct \/ TWindow \/ TStop \/ Report
Spec == Init /\ [][Next]_vars
=============================================================================
