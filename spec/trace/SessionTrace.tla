--------------------------- MODULE SessionTrace ---------------------------
(***************************************************************************)
(* code -> spec for X01.  Every record of the trace file is one execution   *)
(* of the real code, of one of four kinds:                                  *)
(*   glob    a directory tree, the options and what glob_ephys_files,       *)
(*           get_probes_from_folder, get_neuropixel_version_from_* returned *)
(*   sync    a wiring description and what get_sync_map returned / raised   *)
(*   recon   an NP2Reconstructor run: the projected content of <pname>/     *)
(*           before the constructor and after every method of process()     *)
(*   reader  a Reader, a sequence of life-cycle calls and, for each, what   *)
(*           came back and the projected handle state afterwards            *)
(* Two verdicts per trace (see spec/sys/Session.tla for the roles they play *)
(* in this check):                                                          *)
(*   impl - first observed value that is not the one the implementation     *)
(*          layer of Session.tla computes ("" if none)      -> VIOLATION     *)
(*   prop - first property-layer clause that is false on the observed       *)
(*          values; "<clause>:dev" when the observation lies in the         *)
(*          deviation class documented for that clause      -> OBSERVATION   *)
(* A trace is judged in one step and reported in a second one: 3 states.    *)
(***************************************************************************)
EXTENDS Integers, Sequences, FiniteSets, TLC, Json, IOUtils, SequencesExt

Traces == JsonDeserialize(IOEnv.TRACE_FILE)

VARIABLES tid, pc, prop, impl, pos
vars == <<tid, pc, prop, impl, pos>>

S == INSTANCE Session WITH Part <- "none", GlobCases <- {}, SyncCases <- {}, ReconCases <- {}, ReaderKinds <- {}, MaxLen <- 0, s <- pc

T == Traces[tid]

\* first failing candidate <<bool, name>> of a sequence: <<name, index>> or <<"", 0>>
First(cands) ==
    IF \E i \in 1..Len(cands) : ~cands[i][1]
    THEN LET i == CHOOSE i \in 1..Len(cands) : ~cands[i][1] /\ \A j \in 1..(i - 1) : cands[j][1] IN <<cands[i][2], i>>
    ELSE <<"", 0>>
DevName(ok, dev, name) == IF ok THEN <<TRUE, name>> ELSE IF dev THEN <<FALSE, name \o ":dev">> ELSE <<FALSE, name>>

-----------------------------------------------------------------------------
\* glob
GT == [name |-> T.t.name, parent |-> T.t.parent, files |-> [d \in 1..Len(T.t.files) |-> ToSet(T.t.files[d])]]
GO == T.o
GOut == ToSet(T.out)
GDrivers == S!ApDrivers(GT, GO) \cup S!NidqDrivers(GT, GO)
GAllowedOf(x) == IF x[2].stream = "ap" THEN S!ApEntries(GT, GO, x[1], x[2]) ELSE S!NidqEntries(GT, GO, x[1], x[2])
GBag == [l \in {T.probes[i][1] : i \in 1..Len(T.probes)} |-> (CHOOSE i \in 1..Len(T.probes) : T.probes[i][1] = l) ]
GProbeBag == [l \in DOMAIN GBag |-> T.probes[GBag[l]][2]]
GlobImpl == <<
    \* identical entries arise only from {nidq: None}: one per .nidq recording of the folder whose binary is missing
    <<\A e \in GOut : Cardinality({i \in 1..Len(T.out) : T.out[i] = e}) = Cardinality({x \in GDrivers : e \in GAllowedOf(x)}), "glob:entry-count">>,
    <<\A x \in GDrivers : IF GAllowedOf(x) = {} THEN TRUE ELSE Cardinality(GAllowedOf(x) \cap GOut) = 1, "glob:entry-of-recording">>,
    <<\A e \in GOut : \E x \in GDrivers : e \in GAllowedOf(x), "glob:unexpected-entry">>,
    <<T.vfiles = S!ImplVersionFiles(GOut), "glob:version_from_files">>,
    <<T.version = S!ImplVersionFolder(GT), "glob:version_from_folder">>,
    <<GProbeBag = S!ImplProbes(GT), "glob:probes_from_folder">> >>
GlobProp == <<
    <<S!GKeysP(GOut), "GKeys">>, <<S!GLabelP(GT, GOut), "GLabel">>, <<S!GPathP(GT, GO, GOut), "GPath">>,
    <<S!GPairP(GT, GO, GOut), "GPair">>, <<S!GExtP(GO, GOut), "GExt">>, <<S!GCompleteP(GT, GO, GOut), "GComplete">>,
    <<S!GSoundP(GT, GO, GOut), "GSound">>, <<S!GVersionP(GT, T.version), "GVersion">>,
    DevName(S!GRecursiveP(GO, GOut), S!DevRecursiveNidq(GO, GOut), "GRecursive"),
    DevName(S!GExistsP(GT, GO, GOut), S!DevNidqNone(GT, GO, GOut), "GExists"),
    DevName(S!GProbesApP(GT, GProbeBag), S!DevProbesNidq(GT, GProbeBag), "GProbesAp") >>

-----------------------------------------------------------------------------
\* sync
SC == T.c
SMapSet == ToSet(T.map)
SMap == [n \in {x[1] : x \in SMapSet} |-> (CHOOSE x \in SMapSet : x[1] = n)[2]]
SyncImpl == LET r == S!ImplSyncMap(SC) IN <<
    <<T.exc = r.exc, "sync:exception">>,
    <<SMapSet = {<<n, r.map[n]>> : n \in DOMAIN r.map}, "sync:map">>,
    <<Cardinality({x[1] : x \in SMapSet}) = Cardinality(SMapSet), "sync:map-not-a-function">> >>
SyncProp == IF T.exc # "" \/ SC.sys \notin {"3A", "3B"} THEN <<>>
            ELSE << <<S!SSoundP(SC, SMap), "SSound">>, <<S!SCompleteP(SC, SMap), "SComplete">>, <<S!SAnalogP(SC, SMap), "SAnalog">> >>

-----------------------------------------------------------------------------
\* recon: T.events[1] = before the constructor, T.events[i+1] = after the i-th method
RSt(i) == [pc |-> T.events[i].pc, dir |-> T.events[i].dir, files |-> ToSet(T.events[i].files), meta |-> T.events[i].meta,
           status |-> T.events[i].status, exc |-> T.events[i].exc]
RN == Len(T.events)
ReconImpl ==
    << <<RSt(1) = S!ReconStart(T.c), "recon:start">> >>
    \o [i \in 1..(RN - 1) |-> <<~S!ReconFinal(RSt(i)) /\ RSt(i + 1) = S!ReconStep(T.c, RSt(i)), "recon:step-" \o T.events[i + 1].pc>>]
    \o << <<S!ReconFinal(RSt(RN)), "recon:unfinished">>, <<T.data_ok, "recon:data">> >>
ReconProp == LET f == RSt(RN) IN <<
    <<S!RNot24P(T.c, f), "RNot24">>, <<S!RCountP(T.c, f), "RCount">>, <<S!RDoneP(T.c, f) /\ T.data_ok, "RDone">>,
    <<S!RMetaP(T.c, f), "RMeta">>, <<S!RCompressP(T.c, f), "RCompress">> >>

-----------------------------------------------------------------------------
\* reader: T.new = <<obs, h, isopen>> after the constructor, T.obs[i] = the same after call i
LN == Len(T.seq)
ReaderImpl == LET st0 == S!RdNew(T.rkind, T.open) IN
    << <<T.new = <<"ok", st0.h, S!IsOpenVal(st0)>>, "reader:constructor">> >>
    \o [i \in 1..LN |-> <<i <= Len(T.obs) /\ T.obs[i] = S!RdRun(st0, T.seq, 1)[i], "reader:" \o T.seq[i]>>]
    \o << <<Len(T.obs) = LN, "reader:length">> >>
Ever(i) == T.open \/ \E j \in 1..(i - 1) : T.seq[j] \in {"open", "enter"} /\ T.obs[j][1] = "ok"
ReaderProp ==
    << <<S!LCtorP(T.rkind, T.open, T.new[2], T.new[3]), "LCtor">>,
       DevName(S!LTruthfulP(T.new[2], T.new[3]), S!DevFlatUnset(T.rkind, T.new[2], T.new[3]), "LFlat") >>
    \o [i \in 1..Len(T.obs) |->
          LET o == T.obs[i] a == T.seq[i] IN
          IF ~S!LReleaseP(a, o[1], o[2]) THEN <<FALSE, "LRelease">>
          ELSE IF ~S!LNotOpenStrictP(Ever(i), a, o[1]) THEN DevName(FALSE, S!DevFlatUnset(T.rkind, o[2], o[3]), "LNotOpen")
          ELSE IF ~S!LTruthfulP(o[2], o[3]) THEN DevName(FALSE, S!DevStale(o[2], o[3]) \/ S!DevFlatUnset(T.rkind, o[2], o[3]),
                                                         IF S!DevFlatUnset(T.rkind, o[2], o[3]) THEN "LFlat" ELSE "LTruthful")
          ELSE IF ~S!LWithP(a, o[1], o[2]) THEN DevName(FALSE, S!DevStale(o[2], o[3]), "LWith")
          ELSE <<TRUE, "">>]

-----------------------------------------------------------------------------
ImplCands == CASE T.kind = "glob" -> GlobImpl [] T.kind = "sync" -> SyncImpl [] T.kind = "recon" -> ReconImpl [] T.kind = "reader" -> ReaderImpl
PropCands == CASE T.kind = "glob" -> GlobProp [] T.kind = "sync" -> SyncProp [] T.kind = "recon" -> ReconProp [] T.kind = "reader" -> ReaderProp

Init == tid \in 1..Len(Traces) /\ pc = "read" /\ prop = "" /\ impl = "" /\ pos = 0
Judge == /\ pc = "read" /\ pc' = "judged"
         /\ impl' = First(ImplCands)[1] /\ prop' = First(PropCands)[1]
         /\ pos' = IF First(ImplCands)[1] # "" THEN First(ImplCands)[2] ELSE First(PropCands)[2]
         /\ UNCHANGED tid
Report == /\ pc = "judged" /\ pc' = "reported"
          /\ (prop # "" \/ impl # "") => PrintT(<<"VERDICT", tid, prop, impl, pos>>)
          /\ UNCHANGED <<tid, prop, impl, pos>>
Next == Judge \/ Report
Spec == Init /\ [][Next]_vars
=============================================================================
