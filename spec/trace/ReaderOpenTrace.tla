--------------------------- MODULE ReaderOpenTrace ---------------------------
(***************************************************************************)
(* code -> spec for C11.  One record of the trace file = one real file of   *)
(* q * F + r bytes (r < F) with metadata announcing `meta` frames (-1: the  *)
(* metadata of a running acquisition), opened with the real Reader /        *)
(* OnlineReader / Reader-on-.cbin, followed by the reads issued on it:      *)
(*   {kind, F, q, r, meta, quiet, cq, cr, outcome, exc, ns, rows, ncok, rlf, ftsq, *)
(*    ftsw, reads : << <<"slice", a, b, rowsObs, eqObs>> |                  *)
(*                     <<"index", i, 0, rowsObs, eqObs>> >>}                *)
(* rlf = projection of rl * fs, ftsq / ftsw = projection of                 *)
(* meta.fileTimeSecs * fs (whole part, is-whole), rowsObs = rows returned   *)
(* (-1: IndexError), eqObs = the values equal the bytes of the file.        *)
(* cq, cr (-1, 0: none) = frames / trailing bytes the file held at an      *)
(* earlier moment of the object's life: when it was constructed with       *)
(* open=False (possibly followed by an open() that failed while the file   *)
(* was away), or when it was opened a first time (ReaderOpen!Reopen): then *)
(* `meta` is the frame count its metadata held after that first open().    *)
(* The observed state is installed step by step:                           *)
(*   prop = first false property-layer formula     -> VIOLATION             *)
(*   impl = first step the implementation layer does not take -> SPEC-DRIFT *)
(***************************************************************************)
EXTENDS Integers, Sequences, TLC, Json, IOUtils

CONSTANTS Variant

Traces == JsonDeserialize(IOEnv.TRACE_FILE)

VARIABLES F, bytes, meta, kind, quiet, pc, ns, rlf, ftsq, ftsw, cbytes,   \* ReaderOpen's variables
          tid, pos, prop, impl

R == INSTANCE ReaderOpen WITH FSet <- {}, MaxFrames <- 0, MaxMeta <- 0

rvars == <<F, bytes, meta, kind, quiet, pc, ns, rlf, ftsq, ftsw, cbytes>>
vars == <<rvars, tid, pos, prop, impl>>

T == Traces[tid]
NRd == Len(T.reads)

Pick(old, cands) ==   \* keep the first failure
    IF old # "" THEN old
    ELSE IF \E i \in 1..Len(cands) : cands[i][1] = FALSE
         THEN cands[CHOOSE i \in 1..Len(cands) : cands[i][1] = FALSE /\ \A j \in 1..(i-1) : cands[j][1]][2]
         ELSE ""

\* frame counts reach 1e9: `bytes` is kept in frames for large files (the model's byte arithmetic is
\* only used through q and r, see ReaderOpen)
Init == /\ tid \in 1..Len(Traces)
        /\ F = T.F /\ bytes = T.q /\ meta = T.meta /\ kind = T.kind /\ quiet = T.quiet
        /\ pc = "closed" /\ ns = -1 /\ rlf = -1 /\ ftsq = -1 /\ ftsw = TRUE
        /\ cbytes = T.cq             \* frames the early constructor saw (-1: none); trailing bytes in T.cr
        /\ pos = 0 /\ prop = "" /\ impl = ""

\* the constructor returned or raised
TOpen ==
    /\ pc = "closed"
    /\ pc' = T.outcome
    /\ ns' = T.ns /\ rlf' = T.rlf /\ ftsq' = T.ftsq /\ ftsw' = T.ftsw
    /\ UNCHANGED <<F, bytes, meta, kind, quiet, cbytes, tid, pos>>
    /\ impl' = Pick(impl, <<
          <<T.r >= 0 /\ T.r < T.F /\ T.q >= 1, "Input:not-a-file-of-the-domain">>,
          <<T.outcome = R!ImplOutcomeD(T.kind, T.F, T.q, T.r, T.meta, T.quiet, T.cq, T.cr), "Open:outcome">>,
          <<T.outcome # "opened" \/ T.ns = R!ImplNsD(T.kind, T.F, T.q, T.r, T.meta, T.cq, T.cr), "Open:ns">>,
          <<T.outcome # "opened" \/ <<T.ftsq, T.ftsw>> = R!ImplFtsD(T.kind, T.F, T.q, T.r, T.meta, T.cq, T.cr), "Open:fileTimeSecs">> >>)
    /\ prop' = Pick(prop, <<
          <<R!OpenSucceedsP(T.outcome), "OpenSucceeds:" \o T.exc>>,
          <<R!ExposedP(T.ns, T.q), "Exposed:ns">>,
          <<R!ExposedP(T.rows, T.q) /\ T.ncok, "Exposed:shape">>,
          <<R!WithinFileP(T.ns, T.q), "WithinFile">>,
          <<R!DurationP(T.rlf, T.ns), "Duration">> >>)

\* read number pos+1 returned (or raised IndexError)
TRead ==
    /\ pc = "opened" /\ pos < NRd
    /\ \E e \in {T.reads[pos + 1]} :
        /\ pos' = pos + 1
        /\ UNCHANGED <<rvars, tid, impl>>
        /\ prop' = Pick(prop, <<
              <<R!ReadRowsP(<<e[1], e[2], e[3]>>, e[4], T.q), "ReadRows:" \o e[1]>>,
              <<R!ReadValuesP(<<e[1], e[2], e[3]>>, e[5], T.q), "ReadValues:" \o e[1]>> >>)

Report ==
    /\ \/ pc = "raised"
       \/ pc = "opened" /\ pos = NRd
    /\ pc' = "reported"
    /\ (prop # "" \/ impl # "") => PrintT(<<"VERDICT", tid, prop, impl, pos>>)
    /\ UNCHANGED <<F, bytes, meta, kind, quiet, ns, rlf, ftsq, ftsw, cbytes, tid, pos, prop, impl>>

Next == TOpen \/ TRead \/ Report
Spec == Init /\ [][Next]_vars

\* every trace is consumed to its end: the harness compares the number of distinct states with
\* 3 + number of reads (2 + 1 for a constructor that raised) per trace
Consumed == TRUE
=============================================================================
