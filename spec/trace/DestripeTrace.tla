---------------------------- MODULE DestripeTrace ----------------------------
(***************************************************************************)
(* code -> spec for C05.  Every record of the trace file is one experiment  *)
(* on the real code (ibldsp.voltage, neuropixel.adc_shifts):                *)
(*  "adc"      : the table returned by neuropixel.adc_shifts(version, nc)   *)
(*  "pipeline" : one destripe / destripe_lfp call on a record with an       *)
(*               ADC-skewed common disturbance (+ local spikes); events     *)
(*               recorded by wrapping the module-level functions (stage     *)
(*               order, the shift vector handed to fourier.fshift, rows     *)
(*               handed to the spatial filter) and the classes measured on  *)
(*               the output (Removed >= 40 dB, Kept >= 90 %, zero reference *)
(*               per group when referencing was asked for).  The call may   *)
(*               come after other calls of the same process on the same     *)
(*               header / label / settings objects (one record per call     *)
(*               under test; the earlier calls are its history)             *)
(*  "flow"     : destripe with a block label vector; which output blocks    *)
(*               change when one input block is perturbed                   *)
(*  "calltree" : car / kfilt / fk called with channel groups: the recorded  *)
(*               child calls with their effective settings and rows, and    *)
(*               the classes zero-reference / equals-each-group-alone       *)
(*  "agc"      : product class of agc                                       *)
(* The property layer of lib/DestripePipeline.tla is evaluated on what was   *)
(* observed; the implementation layer only decides SPEC-DRIFT.               *)
(***************************************************************************)
EXTENDS Integers, Sequences, FiniteSets, TLC, Json, IOUtils

Traces == JsonDeserialize(IOEnv.TRACE_FILE)

VARIABLES tid, pc, prop, impl
vars == <<tid, pc, prop, impl>>

P == INSTANCE DestripePipeline WITH NCH <- 384, NB <- 6, Variant <- "fixed", NGRP <- 3,
        labels <- <<>>, stage <- "", infl <- {}, spatialIn <- {}, spatialOut <- {},
        fn <- "", settings <- <<>>, collection <- <<>>, todo <- {}, children <- <<>>

T == Traces[tid]

Pick(old, cands) ==   \* keep the first failure
    IF old # "" THEN old
    ELSE IF \E i \in 1..Len(cands) : cands[i][1] = FALSE
         THEN cands[CHOOSE i \in 1..Len(cands) : cands[i][1] = FALSE /\ \A j \in 1..(i-1) : cands[j][1]][2]
         ELSE ""

ToSet(sq) == {sq[i] : i \in DOMAIN sq}
Zero(sq) == [i \in 0..(Len(sq) - 1) |-> sq[i + 1]]         \* JSON array -> function on 0..n-1
IndexOf(sq, x) == IF \E i \in DOMAIN sq : sq[i] = x THEN CHOOSE i \in DOMAIN sq : sq[i] = x ELSE 0

Init == tid \in 1..Len(Traces) /\ pc = "run" /\ prop = "" /\ impl = ""

\* ---- neuropixel.adc_shifts ---------------------------------------------------------------------
AdcProp ==
    LET s == Zero(T.shift) IN
    << <<T.nc < 384 \/ P!AlignedP(T.gen, s), "Aligned">>,
       <<T.nc < 384 \/ P!EvenlySpacedP(T.gen, s), "EvenlySpaced">>,
       <<T.exact, "Aligned:not-a-multiple-of-a-tick">> >>
AdcImpl ==
    << <<\A c \in 0..(T.nc - 1) : T.shift[c + 1] = P!ShiftNum(T.gen, c) /\ T.adc[c + 1] = P!AdcOf(T.gen, c), "adc_shifts:table">> >>

\* ---- destripe ----------------------------------------------------------------------------------
Names(ev) == [i \in DOMAIN ev |-> ev[i][1]]
PipeProp ==
    LET iR == IndexOf(Names(T.events), "realign")
        iS == IndexOf(Names(T.events), "spatial") IN
    << \* the disturbance is recorded with the wiring's delays: after the shifts handed to fshift every channel
       \* carries the same time label (sign, table, channel order), and that happens before the spatial filter
       \* (T.unbound: the run completed and no call of fourier.fshift was seen - the mechanism is not observable on this code,
       \*  which is drift below; the class Removed, measured on the output, is what then decides about the delays)
       <<T.unbound \/ (iR > 0 /\ T.exact /\ Len(T.shift) = 384 /\ P!AlignedP(T.gen, Zero(T.shift))), "Aligned">>,
       <<iS = 0 \/ iR < iS, "Aligned:after-spatial-filter">>,
       <<T.removed \in {"ok", "na"}, "Removed">>,
       <<T.kept \in {"ok", "na"}, "Kept">>,
       \* median / mean referencing requested through destripe (k_filter=False, operator and channel groups in k_kwargs):
       \* the reference of the output is zero at every sample within each group ("na": the k-filter variant)
       <<T.zero \in {"ok", "na"}, "ZeroReference">> >>
PipeImpl ==
    << <<~T.unbound, "destripe:realign-not-through-fshift">>,
       <<Names(T.events) = (IF T.nlabels > 0 THEN <<"hp", "realign", "interp", "spatial">> ELSE <<"hp", "realign", "spatial">>),
         "destripe:stage-order">>,
       <<Len(T.shift) = 384 /\ \A c \in 0..383 : T.shift[c + 1] = P!ShiftNum(T.gen, c), "destripe:shift-table">>,
       <<LET iS == IndexOf(Names(T.events), "spatial") IN iS > 0 /\ T.events[iS][3] = T.ninside, "destripe:spatial-rows">> >>

\* ---- data flow with block labels ---------------------------------------------------------------
FlowProp ==
    LET lab == Zero(T.labels) IN
    << <<\A k \in DOMAIN T.perturb : LET e == T.perturb[k] IN
            P!NoLeakP(lab[e.j], P!NearBad(lab, e.j), Cardinality(ToSet(e.changed) \ {e.j})), "NoLeak">>,
       <<\A k \in DOMAIN T.perturb : LET e == T.perturb[k] IN P!OwnInputOnlyP(lab[e.j], e.own_unfiltered), "OwnInputOnly">> >>
FlowImpl ==
    LET lab == Zero(T.labels) IN
    \* observed influence within the model's (a median need not move; a zeroed block stays zero under AGC), and a
    \* channel that is not discarded reaches at least its own output
    << <<\A k \in DOMAIN T.perturb : LET e == T.perturb[k] IN
            /\ ToSet(e.changed) \subseteq P!FlowInfl(lab, e.j)
            /\ lab[e.j] \notin {1, 2} => e.j \in ToSet(e.changed), "destripe:influence">> >>

\* ---- car / kfilt / fk with channel groups ------------------------------------------------------
TreeProp ==
    LET col == Zero(T.collection) IN
    << \* every recorded child call carries the settings the caller asked for
       <<\A k \in DOMAIN T.children : P!LeafSettingsP(T.fn, T.settings, T.children[k].settings), "LeafSettings:" \o T.fn>>,
       <<T.children = <<>> \/ P!GroupsPartitionP(col, [k \in DOMAIN T.children |-> ToSet(T.children[k].rows)]), "GroupsPartition">>,
       <<T.zero \in {"ok", "na"}, "ZeroReference">>,
       <<T.alone = "ok", "EqualsAlone:" \o T.fn>> >>
TreeImpl ==
    << <<Len(T.children) = Cardinality(P!Groups(Zero(T.collection))), "groups:one-call-per-group">>,
       <<\A k \in DOMAIN T.children : T.children[k].collection_none, "groups:child-collection">>,
       <<T.fn # "kfilt" \/ \A k \in DOMAIN T.children :
              T.children[k].settings.ntr_pad = 0 /\ T.children[k].settings.ntr_tap = -1, "kfilt:child-padding">> >>

AgcProp == << <<T.product = "ok", "AgcProduct">>, <<T.shape_ok, "AgcProduct:shape">> >>

Step ==
    /\ pc = "run" /\ pc' = "done"
    /\ UNCHANGED tid
    /\ prop' = Pick(prop, CASE T.kind = "adc" -> AdcProp [] T.kind = "pipeline" -> PipeProp [] T.kind = "flow" -> FlowProp
                            [] T.kind = "calltree" -> TreeProp [] OTHER -> AgcProp)
    /\ impl' = Pick(impl, CASE T.kind = "adc" -> AdcImpl [] T.kind = "pipeline" -> PipeImpl [] T.kind = "flow" -> FlowImpl
                            [] T.kind = "calltree" -> TreeImpl [] OTHER -> <<>>)

Report ==
    /\ pc = "done" /\ pc' = "reported"
    /\ (prop # "" \/ impl # "") => PrintT(<<"VERDICT", tid, prop, impl, 0>>)
    /\ UNCHANGED <<tid, prop, impl>>

Next == Step \/ Report
Spec == Init /\ [][Next]_vars
Consumed == TRUE
=============================================================================
