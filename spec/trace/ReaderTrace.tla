---------------------------- MODULE ReaderTrace ----------------------------
(***************************************************************************)
(* code -> spec for C01.  One trace = one opened recording and a batch of  *)
(* reads of the real spikeglx.Reader:                                       *)
(*   ns, nc, nsync, fmt ("bin"|"cbin"), K (samples per compressed chunk),    *)
(*   sort, gen + sites (site table written into the metadata; "" / <<>> for *)
(*   nidq), gain (class of every on-disk column, from the metadata written),*)
(*   order (observed raw_channel_order), hdr (observed Reader.geometry),     *)
(*   reads[k] = [api, nsel, csel, shape, toks, exc]: selectors as in        *)
(*   lib/PySlice.tla, toks = returned values decoded to <<t, c, class>>      *)
(*   (<<-1,-1,-1>>: the value is not float32(raw) x factor of any cell).     *)
(* Steps: Open, one per read, Report.  prop = first property-layer clause   *)
(* false on observed values, impl = first observation that is not what the  *)
(* implementation layer of lib/ReaderIndex.tla / lib/Geometry.tla computes. *)
(***************************************************************************)
EXTENDS Integers, Sequences, FiniteSets, TLC, Json, IOUtils

CONSTANTS Variant

Traces == JsonDeserialize(IOEnv.TRACE_FILE)

VARIABLES tid, pos, prop, impl, pc
vars == <<tid, pos, prop, impl, pc>>

R == INSTANCE ReaderIndex
G == INSTANCE Geometry

T == Traces[tid]
NReads == Len(T.reads)
ND == T.nc - T.nsync          \* data columns

Pick(old, cands, k) ==   \* keep the first failure, tagged with the number of the read (0 = open)
    IF old # "" THEN old
    ELSE IF \E i \in 1..Len(cands) : cands[i][1] = FALSE
         THEN cands[CHOOSE i \in 1..Len(cands) : cands[i][1] = FALSE /\ \A j \in 1..(i-1) : cands[j][1]][2]
              \o "@" \o ToString(k)
         ELSE ""

Rec(a) == [shank |-> a[1], row |-> a[2], col |-> a[3], x |-> a[4], y |-> a[5], adc |-> a[6], shift |-> a[7],
           ind |-> a[8], flag |-> a[9]]
H == [i \in 1..Len(T.hdr) |-> Rec(T.hdr[i])]
HasGeom == T.gen # ""
\* the order the property demands: data columns by (shank, row, -col) when sorting is on, sync columns in place
Keys == [i \in 1..Len(T.sites) |-> <<T.sites[i][1], T.sites[i][2], -T.sites[i][3]>>]
SiteRecs == [i \in 1..Len(T.sites) |-> [shank |-> T.sites[i][1], row |-> T.sites[i][2], col |-> T.sites[i][3]]]
POrder == (IF HasGeom /\ T.sort THEN G!SortIndex(SiteRecs) ELSE [i \in 1..ND |-> i - 1])
              \o [i \in 1..T.nsync |-> ND + i - 1]

Init == /\ tid \in 1..Len(Traces)
        /\ pos = 0 /\ prop = "" /\ impl = "" /\ pc = "open"

TOpen ==
    /\ pc = "open" /\ pc' = "run"
    /\ LET h == H                \* evaluated once (definitions are re-evaluated at every use)
           po == POrder
       IN
       /\ prop' = Pick(prop, <<
             <<Len(T.gain) = T.nc /\ (HasGeom => Len(T.sites) = ND), "MACHINERY">>,
             <<R!IsOrderP(IF HasGeom THEN Keys ELSE <<>>, T.nc, T.sort, T.order) /\ T.order = po, "Order">>,
             \* column i of a result is the electrode described by entry i of the reader's geometry
             <<HasGeom => (G!SitesOnceP(T.sites, -1, h) /\ G!DescribesP(T.gen, T.sites, -1, h)), "Geometry">>,
             <<HasGeom => (Len(h) = ND /\ [i \in 1..Len(h) |-> h[i].ind] = SubSeq(po, 1, ND)), "GeometryAligned">>,
             <<(HasGeom /\ T.sort) => G!SortedP(h), "GeometrySorted">> >>, 0)
       /\ impl' = Pick(impl, <<
             <<HasGeom => T.order = G!HeaderIndex(T.gen, "shank", T.sites, T.sort, -1) \o [i \in 1..T.nsync |-> ND + i - 1], "raw_channel_order">>,
             <<HasGeom => h = G!Header(T.gen, "shank", T.sites, T.sort, -1), "geometry">>,
             <<~HasGeom => T.order = [i \in 1..T.nc |-> i - 1] /\ Len(T.hdr) = 0, "nidq">> >>, 0)
    /\ UNCHANGED <<tid, pos>>

TRead ==
    /\ pc = "run" /\ pos < NReads
    /\ \E r \in {T.reads[pos + 1]} :
        LET obs == [shape |-> r.shape, toks |-> r.toks]
            po == POrder
        IN
        /\ prop' = Pick(prop, <<
              <<r.exc = "", "Raised">>,
              <<r.exc # "" \/ R!ShapeP(T.ns, po, r.nsel, r.csel, obs), "Shape">>,
              <<r.exc # "" \/ \A k \in 1..Len(r.toks) : r.toks[k][1] >= 0, "Value">>,
              <<r.exc # "" \/ R!OwnGainP(T.gain, obs), "OwnGain">>,
              <<r.exc # "" \/ R!SyncUnitP(T.nc, T.nsync, obs), "SyncUnit">>,
              <<r.exc # "" \/ R!ReadP(T.ns, po, T.gain, r.nsel, r.csel, obs), "Layout">> >>, pos + 1)
        /\ impl' = Pick(impl, <<
              <<r.exc # "" \/ obs = (IF r.api = "getitem1"
                                     THEN R!GetItem(Variant, T.fmt, T.ns, T.K, T.order, T.gain, <<r.nsel>>)
                                     ELSE IF r.api = "getitem2"
                                     THEN R!GetItem(Variant, T.fmt, T.ns, T.K, T.order, T.gain, <<r.nsel, r.csel>>)
                                     ELSE R!Read(Variant, T.fmt, T.ns, T.K, T.order, T.gain, r.nsel, r.csel)), "Read">> >>, pos + 1)
    /\ pos' = pos + 1
    /\ UNCHANGED <<tid, pc>>

Report ==
    /\ pc = "run" /\ pos = NReads
    /\ pc' = "reported"
    /\ (prop # "" \/ impl # "") => PrintT(<<"VERDICT", tid, prop, impl, pos>>)
    /\ UNCHANGED <<tid, pos, prop, impl>>

Next == TOpen \/ TRead \/ Report
Spec == Init /\ [][Next]_vars
Consumed == TRUE
=============================================================================
