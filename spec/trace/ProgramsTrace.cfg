SPECIFICATION Spec
CONSTANTS
  NSH = 2
  NW = 2
  Variant = "fixed"
CHECK_DEADLOCK FALSE
