----------------------------- MODULE TTLTrace -----------------------------
(***************************************************************************)
(* code -> spec for C10 (front detection, end to end).  One record = one     *)
(* real recording: the harness wrote the sync words (and the levels of the    *)
(* analog lines), the real Reader.read_sync read them back and the real       *)
(* utils.fronts / rises / falls ran on what it returned.  The ground truth    *)
(* is computed here from what was *written* (bit k of each word), the         *)
(* property layer of TTL.tla is evaluated on what was *returned*.             *)
(*   words : uint16 word per sample        aux : levels of the analog lines   *)
(*   nl    : number of lines (16 + analog) lines : 1-based lines looked at    *)
(*   fronts: <<t, l, value>>   rises, falls : <<t, l>>  (lists, as returned)  *)
(***************************************************************************)
EXTENDS Integers, Sequences, FiniteSets, TLC, Json, IOUtils

Traces == JsonDeserialize(IOEnv.TRACE_FILE)

VARIABLES x, events, amp, step,     \* TTL's variables (unused here)
          tid, pc, prop, impl, pos

TT == INSTANCE TTL WITH NL <- 0, MaxT <- 0, Amps <- {}, Steps <- {}
SB == INSTANCE SyncBits WITH Words <- {}, MaxNA <- 0, Diffs <- {}, Thr <- <<>>,
                             w <- 0, bytes <- <<>>, bits <- <<>>, adiff <- <<>>, row <- <<>>

vars == <<x, events, amp, step, tid, pc, prop, impl, pos>>
T == Traces[tid]

Pick(old, cands) ==
    IF old # "" THEN old
    ELSE IF \E i \in 1..Len(cands) : cands[i][1] = FALSE
         THEN cands[CHOOSE i \in 1..Len(cands) : cands[i][1] = FALSE /\ \A j \in 1..(i-1) : cands[j][1]][2]
         ELSE ""

Level(t, l) == IF l <= 16 THEN SB!Bit(T.words[t], l - 1) ELSE T.aux[t][l - 16]
\* ground truth on the lines looked at
Truth == {<<t, l, Level(t + 1, l) - Level(t, l)>> : <<t, l>> \in
              {p \in (1..(Len(T.words) - 1)) \X TT!Range(T.lines) : Level(p[1] + 1, p[2]) # Level(p[1], p[2])}}

Init == /\ tid \in 1..Len(Traces)
        /\ x = <<>> /\ events = <<>> /\ amp = 1 /\ step = 1
        /\ pc = "new" /\ prop = "" /\ impl = "" /\ pos = 0

Check ==
    /\ pc = "new"
    /\ pc' = "done"
    /\ LET F == TT!Range(T.fronts)
           R == TT!Range(T.rises)
           D == TT!Range(T.falls)
           ev == Truth
       IN /\ prop' = Pick(prop, <<
                <<T.exc = "", "Raised:" \o T.exc>>,
                <<T.exc # "" \/ Cardinality(F) = Len(T.fronts), "FrontsNoDuplicate">>,
                <<T.exc # "" \/ TT!FrontsP(F, ev, T.amp, T.step), "Fronts">>,
                <<T.exc # "" \/ (Cardinality(R) = Len(T.rises) /\ TT!RisesP(R, ev, T.amp, T.step)), "Rises">>,
                <<T.exc # "" \/ (Cardinality(D) = Len(T.falls) /\ TT!FallsP(D, ev, T.amp, T.step)), "Falls">>,
                <<T.exc # "" \/ TT!SplitP(F, R, D), "Split">> >>)
          /\ pos' = Cardinality(ev)
    /\ impl' = impl
    /\ UNCHANGED <<x, events, amp, step, tid>>

Report ==
    /\ pc = "done"
    /\ pc' = "reported"
    /\ (prop # "" \/ impl # "") => PrintT(<<"VERDICT", tid, prop, impl, pos>>)
    /\ UNCHANGED <<x, events, amp, step, tid, prop, impl, pos>>

Next == Check \/ Report
Spec == Init /\ [][Next]_vars
Consumed == TRUE
=============================================================================
