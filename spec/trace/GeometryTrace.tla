--------------------------- MODULE GeometryTrace ---------------------------
(***************************************************************************)
(* code -> spec for C08.  One trace = one site table (or one canonical     *)
(* dense layout) and everything the real code returned for it:             *)
(*   obs[k] = [api, enc, sort, split, hdr, idx]                            *)
(*     api  "gfm"      spikeglx.geometry_from_meta(meta, return_index, sort)*)
(*          "rg"       spikeglx.read_geometry(file)          (sort = TRUE)  *)
(*          "reader"   spikeglx.Reader(file, sort).geometry, raw_channel_order *)
(*          "th"       neuropixel.trace_header(version, nshank)             *)
(*          "sth"      neuropixel.split_trace_header(trace_header, split)   *)
(*          "dflt"     a canonical layout obtained another way: metadata    *)
(*                     without a site table through geometry_from_meta /    *)
(*                     read_geometry / Reader, a Reader on a flat binary,   *)
(*                     trace_header with another spelling of the version,   *)
(*                     or a second look at a header after the caller wrote  *)
(*                     into what an earlier call returned                   *)
(*          "blk"      the public building blocks called directly on the    *)
(*                     table: rc2xy, xy2rc, adc_shifts(version, nc)         *)
(* A site of T.sites may carry its draw flag as a fourth component.         *)
(*     hdr  rows <<shank,row,col,x,y,adc,shift numerator,ind,flag>>         *)
(* One step per observation: impl = first observation that differs from    *)
(* the implementation layer of lib/Geometry.tla (-> SPEC-DRIFT), prop =     *)
(* first property-layer clause false on observed values (-> VIOLATION).     *)
(* "MACHINERY:..." in impl: harness and spec disagree about the encodings.  *)
(***************************************************************************)
EXTENDS Integers, Sequences, FiniteSets, TLC, Json, IOUtils

Traces == JsonDeserialize(IOEnv.TRACE_FILE)

VARIABLES tid, pos, prop, impl, pc
vars == <<tid, pos, prop, impl, pc>>

G == INSTANCE Geometry

T == Traces[tid]
S == T.sites
Gen == T.gen
NObs == Len(T.obs)

Rec(a) == [shank |-> a[1], row |-> a[2], col |-> a[3], x |-> a[4], y |-> a[5], adc |-> a[6], shift |-> a[7],
           ind |-> a[8], flag |-> a[9]]
Hdr(o) == [i \in 1..Len(o.hdr) |-> Rec(o.hdr[i])]

Pick(old, cands) ==   \* keep the first failure, tagged with the number of the observation
    IF old # "" THEN old
    ELSE IF \E i \in 1..Len(cands) : cands[i][1] = FALSE
         THEN cands[CHOOSE i \in 1..Len(cands) : cands[i][1] = FALSE /\ \A j \in 1..(i-1) : cands[j][1]][2]
              \o "@" \o ToString(pos + 1)
         ELSE ""

Has(api, enc, srt, split) == \E k \in 1..NObs : T.obs[k].api = api /\ T.obs[k].enc = enc /\ T.obs[k].sort = srt /\ T.obs[k].split = split
Find(api, enc, srt, split) == T.obs[CHOOSE k \in 1..NObs : T.obs[k].api = api /\ T.obs[k].enc = enc /\ T.obs[k].sort = srt /\ T.obs[k].split = split]
Others(enc) == {"shank", "geom", "both"} \ {enc}

\* what the harness wrote into the metadata is what the specification calls the encoding of the table
EntriesOK ==
    /\ "shank" \in DOMAIN T.entries =>
          /\ Len(T.entries.shank) = Len(S)
          /\ \A i \in 1..Len(S) : LET e == G!ShankMapEntry(Gen, S[i]) IN T.entries.shank[i] = <<e.shank, e.col, e.row, e.flag>>
    /\ "geom" \in DOMAIN T.entries =>
          /\ Len(T.entries.geom) = Len(S)
          /\ \A i \in 1..Len(S) : LET e == G!GeomMapEntry(Gen, S[i]) IN T.entries.geom[i] = <<e.shank, e.x, e.y, e.flag>>
    /\ \A i \in 1..Len(S) : G!OnGrid(Gen, S[i])
    /\ \A i, j \in 1..Len(S) : i # j => G!Site3(S[i]) # G!Site3(S[j])

Init == /\ tid \in 1..Len(Traces)
        /\ pos = 0 /\ prop = "" /\ pc = "run"
        /\ impl = IF EntriesOK THEN "" ELSE "MACHINERY:entries"

FromMeta(o) == o.api \in {"gfm", "rg", "reader"}

ImplClauses(o, H) ==
    IF FromMeta(o)
    THEN << <<H = G!Header(Gen, o.enc, S, o.sort, o.split), "Header">>,
            <<o.idx = G!HeaderIndex(Gen, o.enc, S, o.sort, o.split), "Index">> >>
    ELSE IF o.api \in {"th", "dflt"}
    THEN << <<S = G!DenseLayout(Gen, T.dense), "DenseLayout">>, <<H = G!TraceHeader(Gen, T.dense), "TraceHeader">> >>
    ELSE IF o.api = "blk"
    THEN << <<H = G!Header(Gen, "shank", S, FALSE, -1), "Blocks">> >>
    ELSE << <<H = G!SplitHeader(G!TraceHeader(Gen, T.dense), o.split), "SplitHeader">> >>

PropClauses(o, H) ==
    IF FromMeta(o)
    THEN << <<G!SitesOnceP(S, o.split, H), "SitesOnce">>,
            <<G!DescribesP(Gen, S, o.split, H), "Describes">>,
            <<o.sort \/ G!UnsortedP(H, o.idx), "Unsorted">>,
            <<~o.sort \/ G!SortedP(H), "Sorted">>,
            <<~Has(o.api, o.enc, FALSE, o.split) \/ G!JointPermP(H, Hdr(Find(o.api, o.enc, FALSE, o.split)), o.idx), "JointPerm">>,
            <<\A e2 \in Others(o.enc) :
                  ~Has(o.api, e2, o.sort, o.split) \/ G!EncAgreeP(H, Hdr(Find(o.api, e2, o.sort, o.split))), "EncAgree">>,
            <<o.split = -1 \/ o.sort \/ ~Has(o.api, o.enc, FALSE, -1)
                 \/ G!SplitP(Hdr(Find(o.api, o.enc, FALSE, -1)), o.split, H), "SplitRestriction">>,
            <<o.split # -1 \/ o.sort \/ Len(H) # 384
                 \/ G!AdcEvenP(Gen, [c \in 1..Len(H) |-> H[c].adc], [c \in 1..Len(H) |-> H[c].shift]), "AdcEven">> >>
    ELSE IF o.api = "blk"
    THEN << <<G!SitesOnceP(S, -1, H), "SitesOnce">>,
            <<G!DescribesP(Gen, S, -1, H), "Describes">>,
            <<G!UnsortedP(H, [i \in 1..Len(H) |-> i - 1]), "Unsorted">> >>
    ELSE IF o.api \in {"th", "dflt"}
    THEN << <<G!SitesOnceP(S, -1, H), "SitesOnce">>,
            <<G!DescribesP(Gen, S, -1, H), "Describes">>,
            <<G!UnsortedP(H, [i \in 1..Len(H) |-> i - 1]), "Unsorted">>,
            <<G!AdcEvenP(Gen, [c \in 1..Len(H) |-> H[c].adc], [c \in 1..Len(H) |-> H[c].shift]), "AdcEven">> >>
    ELSE << <<~Has("th", o.enc, FALSE, -1) \/ G!RestrictionP(Hdr(Find("th", o.enc, FALSE, -1)), o.split, H), "SplitRestriction">> >>

TObs ==
    /\ pc = "run" /\ pos < NObs
    /\ \E o \in {T.obs[pos + 1]} :
        /\ impl' = Pick(impl, ImplClauses(o, Hdr(o)))
        /\ prop' = Pick(prop, PropClauses(o, Hdr(o)))
    /\ pos' = pos + 1
    /\ UNCHANGED <<tid, pc>>

Report ==
    /\ pc = "run" /\ pos = NObs
    /\ pc' = "reported"
    /\ (prop # "" \/ impl # "") => PrintT(<<"VERDICT", tid, prop, impl, pos>>)
    /\ UNCHANGED <<tid, pos, prop, impl>>

Next == TObs \/ Report
Spec == Init /\ [][Next]_vars
Consumed == TRUE
=============================================================================
