--------------------------- MODULE MetaGrammarTrace ---------------------------
(***************************************************************************)
(* code -> spec for C09 (grammar round trip).  One record = one metadata    *)
(* file pushed through the real read_meta_data -> write_meta_data ->        *)
(* read_meta_data:                                                          *)
(*   lines : per line [t |-> the characters of the line (<<>> for a line    *)
(*           longer than 96 characters), long, isstr (for long lines: the   *)
(*           value contains a character outside [0-9,.]) ]                  *)
(*   obs   : per line [key, k1, w, k2, eqv, big, shadowed] = the key under  *)
(*           which the first parse stored it, the kind of the parsed value  *)
(*           ("str" | "num" | "list"), the characters written for it, the   *)
(*           kind after the second parse, d1[key] == d2[key], a numeric     *)
(*           token with more than 15 digits (the digit-for-digit model of   *)
(*           repr() does not apply), overwritten by a later line            *)
(*   raised1, raised2, equal (d1 == d2), keys1 (keys of d1 in order,        *)
(*   without the two derived ones)                                          *)
(* Characters are abstracted here (Abs), not by the harness.                *)
(***************************************************************************)
EXTENDS Integers, Sequences, TLC, Json, IOUtils

CONSTANTS Variant

Traces == JsonDeserialize(IOEnv.TRACE_FILE)

VARIABLES v, file, tid, pos, pc, prop, impl

G == INSTANCE MetaGrammar WITH MaxLen <- 0, MaxLines <- 0

vars == <<v, file, tid, pos, pc, prop, impl>>

T == Traces[tid]
NL == Len(T.lines)

Abs(ch) == IF ch = "0" THEN "0"
           ELSE IF ch \in {"1", "2", "3", "4", "5", "6", "7", "8", "9"} THEN "1"
           ELSE IF ch \in {",", ".", "=", "~"} THEN ch
           ELSE "a"
AbsSeq(s) == [i \in 1..Len(s) |-> Abs(s[i])]

Pick(old, cands) ==
    IF old # "" THEN old
    ELSE IF \E i \in 1..Len(cands) : cands[i][1] = FALSE
         THEN cands[CHOOSE i \in 1..Len(cands) : cands[i][1] = FALSE /\ \A j \in 1..(i-1) : cands[j][1]][2]
         ELSE ""

Short == SelectSeq(T.lines, LAMBDA l : ~l.long)
LineDomain(l) == IF l.long THEN l.isstr ELSE G!LineOK(l.t) /\ G!InDomain(AbsSeq(G!LineValue(l.t)))
FileDomain == \A i \in 1..NL : LineDomain(T.lines[i])
LineRaises(l) == ~l.long /\ (~G!LineOK(l.t) \/ G!Classify(AbsSeq(G!LineValue(l.t))) = G!Raise)

Init == /\ tid \in 1..Len(Traces)
        /\ v = <<>> /\ file = <<>>
        /\ pos = 0 /\ pc = "lines" /\ prop = "" /\ impl = ""

\* line pos+1 as the first parse stored it, the writer wrote it and the second parse read it
TLine ==
    /\ pc = "lines" /\ ~T.raised1 /\ pos < NL
    /\ pos' = pos + 1
    /\ UNCHANGED <<v, file, tid, pc>>
    /\ \E l \in {T.lines[pos + 1]} : \E o \in {T.obs[pos + 1]} :
        IF l.long \/ o.shadowed THEN UNCHANGED <<prop, impl>>
        ELSE LET val == AbsSeq(G!LineValue(l.t))
                 c1 == G!Classify(val) IN
             /\ impl' = Pick(impl, <<
                   <<G!LineOK(l.t), "line-without-=">>,
                   <<o.key = G!LineKey(l.t), "key">>,
                   <<o.k1 = c1.k, "Classify">>,
                   <<o.big \/ AbsSeq(o.w) = G!Render(c1), "Render">>,
                   <<o.big \/ o.k2 = G!Classify(G!Render(c1)).k, "Classify:second">> >>)
             /\ prop' = Pick(prop, <<
                   <<G!InDomain(val) => o.eqv, "RoundTrip:value:" \o o.k1>> >>)

TEnd ==
    /\ pc = "lines" /\ (T.raised1 \/ pos = NL)
    /\ pc' = "end"
    /\ UNCHANGED <<v, file, tid, pos>>
    /\ impl' = Pick(impl, <<
          <<T.raised1 = (\E i \in 1..NL : LineRaises(T.lines[i])), "raise">>,
          <<T.raised1 \/ Len(Short) # NL \/ NL > 50        \* (the recursion over a long file exhausts TLC's stack)
            \/ T.keys1 = [i \in 1..Len(G!ParseLines([j \in 1..NL |-> T.lines[j].t], <<>>)) |->
                               G!ParseLines([j \in 1..NL |-> T.lines[j].t], <<>>)[i][1]], "key-order">> >>)
    /\ prop' = Pick(prop, <<
          <<FileDomain => G!RoundTripP(T.raised1, T.raised2, T.equal),
            IF T.raised1 THEN "RoundTrip:first-parse-raised" ELSE IF T.raised2 THEN "RoundTrip:second-parse-raised"
            ELSE "RoundTrip:dictionaries-differ">> >>)

Report ==
    /\ pc = "end"
    /\ pc' = "reported"
    /\ (prop # "" \/ impl # "") => PrintT(<<"VERDICT", tid, prop, impl, pos>>)
    /\ UNCHANGED <<v, file, tid, pos, prop, impl>>

Next == TLine \/ TEnd \/ Report
Spec == Init /\ [][Next]_vars
Consumed == TRUE
=============================================================================
