--------------------------- MODULE SyncBitsTrace ---------------------------
(***************************************************************************)
(* code -> spec for C10 (decoding).  Each record of the trace file is one   *)
(* observation of the real code:                                            *)
(*   kind "word" : spikeglx.split_sync on one int16 word -> 16 lines         *)
(*   kind "read" : Reader.read_sync on a real recording whose sync words and *)
(*                 analog raw samples the harness wrote -> rows               *)
(* prop = first property-layer clause of SyncBits.tla false on the observed  *)
(* values, impl = first deviation from the implementation layer.             *)
(***************************************************************************)
EXTENDS Integers, Sequences, TLC, Json, IOUtils

Traces == JsonDeserialize(IOEnv.TRACE_FILE)

VARIABLES w, pc, bytes, bits, adiff, row,      \* SyncBits' variables (unused: the functions are)
          tid, prop, impl, pos

S == INSTANCE SyncBits WITH Words <- {}, MaxNA <- 0, Diffs <- {}, Thr <- <<>>

vars == <<w, pc, bytes, bits, adiff, row, tid, prop, impl, pos>>

T == Traces[tid]

Pick(old, cands) ==
    IF old # "" THEN old
    ELSE IF \E i \in 1..Len(cands) : cands[i][1] = FALSE
         THEN cands[CHOOSE i \in 1..Len(cands) : cands[i][1] = FALSE /\ \A j \in 1..(i-1) : cands[j][1]][2]
         ELSE ""

Init == /\ tid \in 1..Len(Traces)
        /\ w = 0 /\ pc = "new" /\ bytes = <<>> /\ bits = <<>> /\ adiff = <<>> /\ row = <<>>
        /\ prop = "" /\ impl = "" /\ pos = 0

\* first sample of a read whose row violates clause C (0 if none)
FirstBad(C(_)) == IF \E t \in 1..Len(T.words) : ~C(t)
                  THEN CHOOSE t \in 1..Len(T.words) : ~C(t) /\ \A u \in 1..(t - 1) : C(u)
                  ELSE 0

RowLen(t) == Len(T.rows[t]) = 16 + Len(T.diffs[t])
Digital(t) == Len(T.rows[t]) >= 16 /\ S!DecodeP(T.words[t], SubSeq(T.rows[t], 1, 16))
Analog(t) == RowLen(t) => \A i \in 1..Len(T.diffs[t]) :
                 T.rows[t][16 + i] = (IF S!AboveThr(T.diffs[t][i], T.thr) THEN 1 ELSE 0)
AllRow(t) == RowLen(t) /\ S!RowP(T.words[t], T.diffs[t], T.thr, T.rows[t])

CheckWord ==
    /\ pc = "new" /\ T.kind = "word"
    /\ pc' = "done" /\ w' = T.w /\ bits' = T.lines
    /\ prop' = Pick(prop, << <<T.exc = "", "Raised:" \o T.exc>>,
                             <<T.exc # "" \/ S!DecodeP(T.w, T.lines), "Decode">>,
                             <<T.exc # "" \/ S!InjectiveP(T.w, T.lines), "Injective">> >>)
    /\ impl' = Pick(impl, << <<T.exc # "" \/ T.lines = S!SplitSync(T.w), "SplitSync">> >>)
    /\ UNCHANGED <<bytes, adiff, row, tid, pos>>

CheckRead ==
    /\ pc = "new" /\ T.kind = "read"
    /\ pc' = "done"
    /\ prop' = Pick(prop, << <<T.exc = "", "Raised:" \o T.exc>>,
                             <<T.exc # "" \/ Len(T.rows) = Len(T.words), "OneRowPerSample">>,
                             <<T.exc # "" \/ Len(T.rows) # Len(T.words) \/ FirstBad(RowLen) = 0, "RowLayout">>,
                             <<T.exc # "" \/ Len(T.rows) # Len(T.words) \/ FirstBad(Digital) = 0, "DigitalFirst">>,
                             <<T.exc # "" \/ Len(T.rows) # Len(T.words) \/ FirstBad(Analog) = 0, "AnalogThreshold">>,
                             <<T.exc # "" \/ Len(T.rows) # Len(T.words) \/ FirstBad(AllRow) = 0, "Row">> >>)
    /\ pos' = IF T.exc = "" /\ Len(T.rows) = Len(T.words) THEN FirstBad(AllRow) ELSE 0
    /\ impl' = impl
    /\ UNCHANGED <<w, bytes, bits, adiff, row, tid>>

Report ==
    /\ pc = "done"
    /\ pc' = "reported"
    /\ (prop # "" \/ impl # "") => PrintT(<<"VERDICT", tid, prop, impl, pos>>)
    /\ UNCHANGED <<w, bytes, bits, adiff, row, tid, prop, impl, pos>>

Next == CheckWord \/ CheckRead \/ Report
Spec == Init /\ [][Next]_vars
Consumed == TRUE
=============================================================================
