--------------------------- MODULE WindowsTrace ---------------------------
(***************************************************************************)
(* code -> spec for C17: every record of the trace file is one execution   *)
(* of the real WindowGenerator (constructor, then each yielded window with *)
(* everything the object handed out for it).  The observed state is        *)
(* *installed* step by step; two verdicts are computed per trace:          *)
(*   prop  - first property-layer formula that is false on an observed     *)
(*           state ("" if none)           -> VIOLATION                      *)
(*   impl  - first step that is not a step of the implementation layer     *)
(*           ("" if none)                 -> SPEC-DRIFT (only if prop = "") *)
(* One line per non-clean trace is printed; a final line gives the count.  *)
(***************************************************************************)
EXTENDS Integers, Sequences, TLC, Json, IOUtils

CONSTANTS Variant

Traces == JsonDeserialize(IOEnv.TRACE_FILE)

VARIABLES ns, w, ov, pc, first, last, iw, nwin, pfirst, plast,   \* Windows' variables
          tid, pos, prop, impl,                                  \* trace cursor and verdicts
          amp, pamp, lv                                          \* observations kept for the next step

W == INSTANCE Windows WITH MaxNS <- 0, MaxW <- 0

wvars == <<ns, w, ov, pc, first, last, iw, nwin, pfirst, plast>>
vars == <<wvars, tid, pos, prop, impl, amp, pamp, lv>>

T == Traces[tid]
NEv == Len(T.wins)

\* symbolic amplitude at position p of a run-length coded vector: segments <<kind, i0, n>>,
\* kind "one" | "w" (w[i0], w[i0+1], ..) | "wr" (w[i0], w[i0-1], ..) | "other"
RECURSIVE SegAt(_, _)
SegAt(segs, p) ==
    IF segs = <<>> THEN <<"none">>
    ELSE LET s == Head(segs) IN
         IF p < s[3] THEN (IF s[1] = "one" THEN <<"one">>
                           ELSE IF s[1] = "w" THEN <<"w", s[2] + p>>
                           ELSE IF s[1] = "wr" THEN <<"w", s[2] - p>>
                           ELSE <<"other">>)
         ELSE SegAt(Tail(segs), p - s[3])

First(c) == IF c # "" THEN c ELSE ""
Pick(old, cands) ==   \* keep the first failure
    IF old # "" THEN old
    ELSE IF \E i \in 1..Len(cands) : cands[i][1] = FALSE
         THEN cands[CHOOSE i \in 1..Len(cands) : cands[i][1] = FALSE /\ \A j \in 1..(i-1) : cands[j][1]][2]
         ELSE ""

Init == /\ tid \in 1..Len(Traces)
        /\ ns = T.ns /\ w = T.w /\ ov = T.ov
        /\ pc = "new" /\ first = -1 /\ last = -1 /\ iw = -1 /\ nwin = 0 /\ pfirst = -1 /\ plast = -1
        /\ pos = 0 /\ prop = "" /\ impl = "" /\ amp = <<>> /\ pamp = <<>> /\ lv = -1

\* the constructor returned: nwin observed
TConstruct ==
    /\ pc = "new"
    /\ nwin' = T.nwin /\ pc' = "ready"
    /\ UNCHANGED <<ns, w, ov, first, last, iw, pfirst, plast, tid, pos, amp, pamp, lv>>
    /\ impl' = Pick(impl, << <<W!Construct, "Construct:nwin">> >>)
    /\ prop' = Pick(prop, << <<W!CountPositiveP(nwin)', "CountPositive">> >>)

\* window number pos+1 was yielded: e = <<first, last, iw, fv, lv, c2, segs>>
TYield ==
    /\ pc \in {"ready", "iter"} /\ pos < NEv
    \* bound variables are constants: priming a formula below does not prime them
    /\ \E e \in {T.wins[pos + 1]} : \E oldamp \in {amp} : \E oldlv \in {lv} :
        /\ first' = e[1] /\ last' = e[2] /\ iw' = e[3]
        /\ pfirst' = first /\ plast' = last
        /\ pc' = "iter" /\ pos' = pos + 1
        /\ amp' = e[7] /\ pamp' = amp /\ lv' = e[5]
        /\ UNCHANGED <<ns, w, ov, nwin, tid>>
        /\ impl' = Pick(impl, <<
              <<IF pos = 0 THEN pc = "ready" /\ first' = 0 /\ last' = W!Min(w, ns) /\ iw' = 0
                ELSE last # ns /\ first' = first + w - ov /\ last' = W!Min(first' + w, ns) /\ iw' = iw + 1,
                "Yield">>,
              <<ov % 2 # 0 \/ (e[4] = W!FirstValid(e[1]) /\ e[5] = W!LastValid(e[2])), "Valid">>,
              <<e[6] = 2 * e[1] + (e[2] - e[1] - 1), "tscale">>,
              <<\A p \in 0..(e[2] - e[1] - 1) : SegAt(e[7], p) = W!Amp(e[1], e[2], p), "Amp">> >>)
        /\ prop' = Pick(prop, <<
              <<W!InRange', "InRange">>, <<W!Cover', "Cover">>, <<W!Overlap', "Overlap">>,
              <<W!CentreP(e[6])', "Centre">>,
              <<W!ValidP(e[4], e[5], oldlv)', "ValidPartition">>,
              <<W!SpliceP(LAMBDA p : SegAt(e[7], p), LAMBDA p : SegAt(oldamp, p))', "Splice">> >>)

\* the generator stopped (StopIteration) after the last recorded window
TStop ==
    /\ pc = "iter" /\ pos = NEv
    /\ pc' = "done"
    /\ UNCHANGED <<ns, w, ov, first, last, iw, nwin, pfirst, plast, tid, pos, amp, pamp, lv>>
    /\ impl' = Pick(impl, << <<last = ns, "Stop">>, <<T.nslices = NEv, "slice-count">> >>)
    /\ prop' = Pick(prop, << <<W!Cover', "Cover:end">>, <<W!CountP(nwin)', "Count">>,
                             <<ov % 2 # 0 \/ lv = ns, "ValidPartition:end">> >>)

\* the code raised instead of returning (T.exc # ""): nothing to install, verdict is the exception
TRaise ==
    /\ pc = "new" /\ T.exc # ""
    /\ pc' = "raised" /\ prop' = "Raised:" \o T.exc
    /\ UNCHANGED <<ns, w, ov, first, last, iw, nwin, pfirst, plast, tid, pos, impl, amp, pamp, lv>>

Report ==
    /\ pc \in {"done", "raised"}
    /\ pc' = "reported"
    /\ (prop # "" \/ impl # "") => PrintT(<<"VERDICT", tid, prop, impl, pos>>)
    /\ UNCHANGED <<ns, w, ov, first, last, iw, nwin, pfirst, plast, tid, pos, prop, impl, amp, pamp, lv>>

Next == (IF T.exc # "" THEN TRaise ELSE TConstruct \/ TYield \/ TStop) \/ Report
Spec == Init /\ [][Next]_vars

\* every trace is consumed to the end: the harness compares the number of distinct states with
\* the number of events it wrote (a trace that gets stuck is a machinery error, not a verdict)
Consumed == TRUE
=============================================================================
