--------------------------- MODULE FeaturesTrace ---------------------------
(***************************************************************************)
(* code -> spec for C14.  Every record of the trace file is one waveform    *)
(* that went through the real compute_spike_features, with one event per    *)
(* step of the pipeline (the values the step left in the data frame, read   *)
(* by the harness from the step's return value), the returned data-frame    *)
(* row, and the rows returned for scaled / channel-permuted / re-batched    *)
(* copies of the same waveform:                                             *)
(*   w    time x trace integers (1000000 = NaN), d = recovery offset in samples  *)
(*   ev   <<"FindPeak", ptr, pk, pkv>>                                      *)
(*        <<"TipTrough", pk, pkv, tr, trv, tip, tipv, is, a>>               *)
(*        <<"HalfPeak", hpost, hpre, hpostv, hprev>>                        *)
(*        <<"Recovery", rec, recv>>                                         *)
(*   exc  "" or the name of the exception the call ended with               *)
(*   ret  the 13 reported values, order FSeq (<<>> when raised)             *)
(*   laws <<"scale", c, row, exc>> | <<"perm", perm, row, exc>> |           *)
(*        <<"batch", form, row, exc>>   form = 0: the waveform in another   *)
(*        batch; > 0: the waveform handed over in another form (element     *)
(*        type, memory layout, 2-D, option, second call ...: FORMS in        *)
(*        harness/c14.py; only named in reports, BatchP judges them all)     *)
(* The observed state is installed step by step.  prop = first property-    *)
(* layer clause of Features.tla that is false on observed values            *)
(* (VIOLATION), impl = first step that is not the implementation-layer step *)
(* (SPEC-DRIFT when prop = "").                                             *)
(***************************************************************************)
EXTENDS Integers, Sequences, TLC, Json, IOUtils

CONSTANTS Variant

Traces == JsonDeserialize(IOEnv.TRACE_FILE)

VARIABLES tid, pos, pc, st, prop, impl
vars == <<tid, pos, pc, st, prop, impl>>

\* the model's own variables are not used here: only its operators
F == INSTANCE Features WITH MaxT <- 0, NC <- 0, Vals <- {}, MaxD <- 0, w <- <<>>, pc <- "", st <- <<>>, d <- 0

T == Traces[tid]
NEv == Len(T.ev)
Names == <<"FindPeak", "TipTrough", "HalfPeak", "Recovery">>
FSeq == <<"ptr", "pk", "pkv", "tr", "trv", "tip", "tipv", "hpost", "hpre", "hpostv", "hprev", "rec", "recv">>
Row(vals) == [k \in F!Fields |-> vals[CHOOSE i \in 1..Len(FSeq) : FSeq[i] = k]]

Pick(old, cands) ==   \* keep the first failure
    IF old # "" THEN old
    ELSE IF \E i \in 1..Len(cands) : cands[i][1] = FALSE
         THEN cands[CHOOSE i \in 1..Len(cands) : cands[i][1] = FALSE /\ \A j \in 1..(i-1) : cands[j][1]][2]
         ELSE ""

TT == Len(T.w)
CC == Len(T.w[1])
Adm == F!Admissible(T.w, T.d)
\* property-layer clauses are demanded on admissible inputs only
Dem(c) == Adm => c

Init == /\ tid \in 1..Len(Traces)
        /\ pos = 0 /\ pc = "run" /\ st = [ptr |-> -1] /\ prop = "" /\ impl = ""

\* an event that is not the next step of the pipeline: the record is not an execution of the pipeline
TOutOfOrder ==
    /\ pc = "run" /\ pos < NEv /\ (pos >= Len(Names) \/ T.ev[pos + 1][1] # Names[pos + 1])
    /\ impl' = Pick(impl, << <<FALSE, "Sequence:" \o T.ev[pos + 1][1]>> >>)
    /\ pc' = "abort" /\ pos' = pos + 1
    /\ UNCHANGED <<tid, st, prop>>

InOrder(name) == pc = "run" /\ pos < NEv /\ pos < Len(Names) /\ Names[pos + 1] = name /\ T.ev[pos + 1][1] = name

TFindPeak ==
    /\ InOrder("FindPeak")
    /\ \E e \in {T.ev[pos + 1]} :
         LET new == [ptr |-> e[2], pk |-> e[3], pkv |-> e[4]] IN
         /\ st' = new
         /\ impl' = Pick(impl, << <<new = F!FindPeak(T.w), "FindPeak">> >>)
    /\ pos' = pos + 1
    /\ UNCHANGED <<tid, pc, prop>>

TTipTrough ==
    /\ InOrder("TipTrough")
    /\ \E e \in {T.ev[pos + 1]} :
         LET new == [pk |-> e[2], pkv |-> e[3], tr |-> e[4], trv |-> e[5], tip |-> e[6], tipv |-> e[7],
                     is |-> e[8], a |-> e[9]] @@ st
             ok == st.ptr \in 0..(CC - 1) /\ st.pk \in 0..(TT - 1)
         IN
         /\ st' = new
         /\ impl' = Pick(impl, <<
              <<ok /\ LET tt == F!TipTrough(F!RealTrace(T.w, st.ptr), st.pk, st.pkv) IN
                      tt.exc = "" /\ \A k \in {"pk", "pkv", "tr", "trv", "tip", "tipv", "is", "a"} : tt[k] = new[k],
                "TipTrough">> >>)
         /\ prop' = Pick(prop, << <<Dem(F!PeakP(T.w, new)), "Peak">>, <<Dem(F!OrderP(T.w, new)), "Order">> >>)
    /\ pos' = pos + 1
    /\ UNCHANGED <<tid, pc>>

TStateOK == /\ st.ptr \in 0..(CC - 1) /\ st.pk \in 0..(TT - 1) /\ st.tr \in 0..(TT - 1)
            /\ Len(st.a) = TT /\ st.is \in {-1, 0, 1}

THalfPeak ==
    /\ InOrder("HalfPeak")
    /\ \E e \in {T.ev[pos + 1]} :
         LET h == [hpost |-> e[2], hpre |-> e[3], hpostv |-> e[4], hprev |-> e[5]]
             new == h @@ st
         IN
         /\ st' = new
         /\ impl' = Pick(impl, << <<TStateOK /\ h = F!HalfPeak(st.a, st.pk, st.pkv, st.is), "HalfPeak">> >>)
         /\ prop' = Pick(prop, << <<Dem(F!HalfP(T.w, new)), "Half">> >>)
    /\ pos' = pos + 1
    /\ UNCHANGED <<tid, pc>>

TRecovery ==
    /\ InOrder("Recovery")
    /\ \E e \in {T.ev[pos + 1]} :
         LET r == [rec |-> e[2], recv |-> e[3]]
             new == r @@ st
         IN
         /\ st' = new
         /\ impl' = Pick(impl, << <<TStateOK /\ ([exc |-> ""] @@ r) = F!Recovery(st.a, st.tr, st.is, T.d), "Recovery">> >>)
         /\ prop' = Pick(prop, << <<Dem(F!RecoveryP(T.w, T.d, new)), "Recovery">> >>)
    /\ pos' = pos + 1
    /\ UNCHANGED <<tid, pc>>

\* one law entry -> <<holds, name>>
Law(l) ==
    IF l[1] = "scale" THEN <<Dem(l[4] = "" /\ F!ScaleP(st, Row(l[3]), l[2])), "Scale">>
    ELSE IF l[1] = "perm" THEN <<Dem(l[4] = "" /\ F!PermP(T.w, st, Row(l[3]), l[2])), "Permutation">>
    ELSE <<Dem(l[4] = "" /\ F!BatchP(st, Row(l[3]))), "Batch">>

\* the call returned: the returned row is what the steps left; the laws on the copies
TReturn ==
    /\ pc = "run" /\ pos = NEv /\ T.exc = ""
    /\ pc' = "done"
    /\ IF pos = Len(Names)
       THEN /\ impl' = Pick(impl, << <<Len(T.ret) = Len(FSeq) /\ Row(T.ret) = F!Proj(st), "Return">> >>)
            /\ prop' = Pick(prop, [i \in 1..Len(T.laws) |-> Law(T.laws[i])])
       ELSE /\ impl' = Pick(impl, << <<FALSE, "Sequence:short">> >>)
            /\ prop' = prop
    /\ UNCHANGED <<tid, pos, st>>

\* the call raised: a violation exactly when the input is admissible
TRaise ==
    /\ pc = "run" /\ pos = NEv /\ T.exc # ""
    /\ pc' = "raised"
    /\ prop' = Pick(prop, << <<F!SucceedsP(T.w, T.d, T.exc), "Succeeds:" \o T.exc>> >>)
    /\ impl' = Pick(impl, << <<F!Feat(T.w, T.d).exc = T.exc, "Raise">> >>)
    /\ UNCHANGED <<tid, pos, st>>

Report ==
    /\ pc \in {"done", "raised", "abort"}
    /\ pc' = "reported"
    /\ (prop # "" \/ impl # "") => PrintT(<<"VERDICT", tid, prop, impl, pos>>)
    /\ UNCHANGED <<tid, pos, st, prop, impl>>

Next == TOutOfOrder \/ TFindPeak \/ TTipTrough \/ THalfPeak \/ TRecovery \/ TReturn \/ TRaise \/ Report
Spec == Init /\ [][Next]_vars

\* every trace is consumed to the end: the harness compares the number of distinct states with the
\* number it computes from the records (a stuck trace is a machinery error, not a verdict)
Consumed == TRUE
=============================================================================
