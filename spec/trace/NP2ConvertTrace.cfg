SPECIFICATION Spec
CONSTANTS
  NSH = 2
  NW = 2
  Variant = "fixed"
  SubRuns <- [NP2Convert] Yes
  Faults <- [NP2Convert] Yes
INVARIANT Consumed
CHECK_DEADLOCK FALSE
