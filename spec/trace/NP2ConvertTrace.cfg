SPECIFICATION Spec
CONSTANTS
  NSH = 2
  NW = 2
  Variant = "fixed"
INVARIANT Consumed
CHECK_DEADLOCK FALSE
