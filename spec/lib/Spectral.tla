------------------------------ MODULE Spectral ------------------------------
(***************************************************************************)
(* Index structure of the spectral helpers of ibldsp.fourier (C18).         *)
(* Integer / symbolic only: TLC decides which sample or bin goes where; the   *)
(* floating point identities (dft = fft, lp + hp = Id to rounding) are         *)
(* measured by the harness on the real code.                                 *)
(*                                                                         *)
(* Implementation layer                                                      *)
(*   convolve     : Pad (fast size), Transform (product of the spectra of two *)
(*                  impulses), Inverse (irfft and its output length), Crop,     *)
(*                  ModeCrop ('same': first / last as the code computes them)    *)
(*   ns_optim_fft : sorted table of 2^a 3^b, searchsorted                       *)
(*   fscale       : arange(0, floor(n/2)+1)/n  ++  -fsc[slice(-2 + n%2, 0, -1)]  *)
(*   freduce      : take(0 .. floor(n/2 + 1) - 1)                               *)
(*   fexpand      : x ++ conj(flip(take(x, 1 .. ilast-1))), ilast = (n + n%2)/2  *)
(*   _freq_filter : gain on the half scale, fexpand'ed to all bins, reshaped to  *)
(*                  broadcast along the filtered axis                            *)
(* Property layer: FullP, SameP, NsOptimP, FScaleP, ReduceP, ExpandP,           *)
(* FilterBinsP, ComplementP over returned lengths / positions / index maps.     *)
(***************************************************************************)
EXTENDS Integers, Sequences, FiniteSets, TLC

CONSTANTS MaxN,       \* signal and kernel lengths 1..MaxN
          Basis,      \* "all": every impulse pair, "corners": first and last impulse only, "lengths": helper facts only
          Variant     \* "fixed" = irfft(..., n=ns), gain reshaped along `axis`; "orig" = tree before the fix:
                      \* commits: irfft without its length (F9), gain[:, newaxis] unless last axis (F14)

VARIABLES nsx, nsw, i, j, mode, pc, ns, p, len, garbage, lo, hi

vars == <<nsx, nsw, i, j, mode, pc, ns, p, len, garbage, lo, hi>>

Min(a, b) == IF a < b THEN a ELSE b
Max(a, b) == IF a > b THEN a ELSE b

-----------------------------------------------------------------------------
(* ns_optim_fft *)
RECURSIVE Pow(_, _)
Pow(b, e) == IF e = 0 THEN 1 ELSE b * Pow(b, e - 1)
SizeLimit == 1000000
\* implementation: the table of products (here up to SizeLimit), sorted; searchsorted(sz, n) = first entry >= n
P2 == [a \in 0..19 |-> Pow(2, a)]
P3 == [b \in 0..12 |-> Pow(3, b)]
Sizes == {P2[q[1]] * P3[q[2]] : q \in {r \in (0..19) \X (0..12) : P3[r[2]] <= SizeLimit \div P2[r[1]]}}
\* (a power of two lies in n .. 2n-1, so the first entry >= n is found among the entries below 2n)
NsOptimImpl(n) == LET C == {s \in Sizes : s >= n /\ s < 2 * n} IN CHOOSE s \in C : \A u \in C : s <= u
\* property: the smallest number of the form 2^a 3^b not below n
RECURSIVE Strip(_, _)
Strip(u, d) == IF u % d = 0 THEN Strip(u \div d, d) ELSE u
Smooth(u) == u >= 1 /\ Strip(Strip(u, 2), 3) = 1
NsOptimP(n, v) == Smooth(v) /\ v >= n /\ \A u \in n..(v - 1) : ~Smooth(u)

-----------------------------------------------------------------------------
(* convolve on the impulse basis: x = e_i (length nsx), w = e_j (length nsw) *)
Impulses == IF Basis = "all"
            THEN UNION {{<<a, b, c, d>> : <<c, d>> \in (0..(a - 1)) \X (0..(b - 1))} : <<a, b>> \in (1..MaxN) \X (1..MaxN)}
            ELSE IF Basis = "corners"
            THEN UNION {{<<a, b, 0, 0>>, <<a, b, a - 1, b - 1>>} : <<a, b>> \in (1..MaxN) \X (1..MaxN)}
            ELSE {<<a, 1, 0, 0>> : a \in 1..MaxN}          \* "lengths": one signal per length, kernel of one sample

Init == /\ \E q \in Impulses : nsx = q[1] /\ nsw = q[2] /\ i = q[3] /\ j = q[4]
        /\ mode \in {"full", "same"}
        /\ pc = "args" /\ ns = 0 /\ p = -1 /\ len = 0 /\ garbage = FALSE /\ lo = 0 /\ hi = 0

Pad == /\ pc = "args"
       /\ ns' = NsOptimImpl(nsx + nsw)
       /\ pc' = "padded"
       /\ UNCHANGED <<nsx, nsw, i, j, mode, p, len, garbage, lo, hi>>

\* rfft(x_) * rfft(w_): the half spectrum of the impulse at (i + j) mod ns
Transform == /\ pc = "padded"
             /\ p' = (i + j) % ns
             /\ pc' = "product"
             /\ UNCHANGED <<nsx, nsw, i, j, mode, ns, len, garbage, lo, hi>>

\* irfft: with its length it returns ns samples; without, 2 * (number of bins - 1) = 2 * (ns div 2) samples
\* and, when that differs from ns, the half spectrum is read as that of a shorter signal: only the impulse
\* at 0 (flat spectrum) survives, anything else comes back as something that is not an impulse
Inverse == /\ pc = "product"
           /\ len' = IF Variant = "fixed" THEN ns ELSE 2 * (ns \div 2)
           /\ garbage' = (len' # ns /\ p # 0)
           /\ pc' = "time"
           /\ UNCHANGED <<nsx, nsw, i, j, mode, ns, p, lo, hi>>

Crop == /\ pc = "time"
        /\ lo' = 0 /\ hi' = Min(nsx + nsw, len)          \* xw[..., :nsx + nsw]
        /\ pc' = "cropped"
        /\ UNCHANGED <<nsx, nsw, i, j, mode, ns, p, len, garbage>>

First(m) == m \div 2 - ((m + 1) % 2)                     \* int(floor(nsw / 2)) - ((nsw + 1) % 2)
Last(m) == (m + 1) \div 2 + ((m + 1) % 2)                \* int(ceil(nsw / 2)) + ((nsw + 1) % 2)
ModeCrop == /\ pc = "cropped"
            /\ IF mode = "same"
               THEN /\ lo' = Min(First(nsw), hi)            \* xw[..., first:-last]
                    /\ hi' = Max(Min(First(nsw), hi), hi - Last(nsw))
               ELSE UNCHANGED <<lo, hi>>
            /\ pc' = "done"
            /\ UNCHANGED <<nsx, nsw, i, j, mode, ns, p, len, garbage>>

Next == Pad \/ Transform \/ Inverse \/ Crop \/ ModeCrop
Spec == Init /\ [][Next]_vars

NotImpulse == 7   \* token for a sample that is neither 0 nor 1
\* returned sample t (0-based): 1, 0 or NotImpulse
OutLen == hi - lo
Out(t) == IF garbage THEN NotImpulse ELSE IF lo + t = p THEN 1 ELSE 0

-----------------------------------------------------------------------------
(* property layer for convolve: o(t) = returned sample t, n = returned length *)
\* direct convolution of two impulses: e_i * e_j = e_{i+j}, length a + b - 1
Direct(a, b, ii, jj, t) == IF t = ii + jj THEN 1 ELSE 0
\* 'full': the a + b - 1 samples of the direct convolution; one further sample is tolerated if it is zero
FullP(o(_), n, a, b, ii, jj) ==
    /\ n \in {a + b - 1, a + b}
    /\ \A t \in 0..(n - 1) : o(t) = (IF t <= a + b - 2 THEN Direct(a, b, ii, jj, t) ELSE 0)
\* 'same': the a samples of the direct convolution centred on the full output
SameOffset(b) == (b - 1) \div 2
SameP(o(_), n, a, b, ii, jj) ==
    /\ n = a
    /\ \A t \in 0..(n - 1) : o(t) = Direct(a, b, ii, jj, t + SameOffset(b))

-----------------------------------------------------------------------------
(* fscale: frequencies as numerators over n (times 1/si) *)
FScaleHalf(n) == [k \in 1..(n \div 2 + 1) |-> k - 1]
\* python fsc[slice(-2 + n % 2, 0, -1)] on a sequence of length L = n div 2 + 1: start = L - 2 + n % 2, down to 1
FScaleImpl(n) ==
    LET L == n \div 2 + 1
        start == L - 2 + (n % 2)        \* 0-based; may be 0 or negative-wrapped: python clips, nothing is taken then
        cnt == IF start >= 1 THEN start ELSE 0
    IN FScaleHalf(n) \o [m \in 1..cnt |-> -(start - (m - 1))]
\* property: bin k has frequency k / n up to and including Nyquist, (k - n) / n above
FScaleP(n, s) == /\ Len(s) = n
                 /\ \A k \in 0..(n - 1) : s[k + 1] = (IF 2 * k <= n THEN k ELSE k - n)
FScaleOneSidedP(n, s) == Len(s) = n \div 2 + 1 /\ \A k \in 0..(n \div 2) : s[k + 1] = k

-----------------------------------------------------------------------------
(* freduce / fexpand as index maps: entry <<k, c>> = bin k of the input, conjugated iff c *)
ReduceImpl(n) == [m \in 1..(n \div 2 + 1) |-> <<m - 1, FALSE>>]          \* int(floor(n / 2 + 1)) first bins
ExpandImpl(L, n) ==
    LET ilast == (n + (n % 2)) \div 2
        cnt == Max(0, Min(ilast, L) - 1)       \* take(x, arange(1, ilast)), flipped, conjugated
    IN [m \in 1..L |-> <<m - 1, FALSE>>] \o [m \in 1..cnt |-> <<ilast - m, TRUE>>]
\* property: the positive-frequency bins, i.e. 0 .. n div 2
ReduceP(n, r) == Len(r) = n \div 2 + 1 /\ \A m \in 1..Len(r) : r[m] = <<m - 1, FALSE>>
\* property: expanding the reduced spectrum S of a real signal returns S.  S[m] = conj(S[n - m]); bins 0 and
\* n/2 are real, so the conjugation flag is irrelevant there
ExpandP(n, e) ==
    /\ Len(e) = n
    /\ \A m \in 0..(n - 1) :
          LET k == e[m + 1][1]
              c == e[m + 1][2]
              realbin == (k = 0 \/ 2 * k = n)
          IN \/ (k = m /\ (~c \/ realbin))
             \/ (k = n - m /\ (c \/ realbin))
\* mutual inverses: reduce(expand(h)) = h for a half spectrum h
ReduceExpandP(n, e) == \A m \in 1..(n \div 2 + 1) : Len(e) >= m /\ e[m] = <<m - 1, FALSE>>

-----------------------------------------------------------------------------
(* frequency-domain filters: gain classes on the integer frequency axis (numerators over n) *)
\* cosine taper between the corners b0 < b1 (numerators over the same n): "0" below, "1" above, <<"c", f>> inside
Cos(f, b0, b1) == IF f <= b0 THEN <<"0">> ELSE IF f >= b1 THEN <<"1">> ELSE <<"c", f>>
Hp(f, b0, b1) == Cos(f, b0, b1)
Lp(f, b0, b1) == LET c == Cos(f, b0, b1) IN IF c = <<"0">> THEN <<"1">> ELSE IF c = <<"1">> THEN <<"0">> ELSE <<"1-c", f>>
\* the gain the filter applies to bin m: half-scale gain, fexpand'ed
BinGain(n, m, G(_)) == G(ExpandImpl(n \div 2 + 1, n)[m + 1][1])
\* property: bin m is weighted by the gain of |frequency of bin m|
Abs(v) == IF v < 0 THEN -v ELSE v
FilterBinsP(n, B(_), G(_)) == \A m \in 0..(n - 1) : B(m) = G(Abs(FScaleImpl(n)[m + 1]))
\* property: low-pass plus high-pass with the same corners is the identity
Complement(a, b) == \/ (a = <<"0">> /\ b = <<"1">>) \/ (a = <<"1">> /\ b = <<"0">>)
                    \/ (a[1] = "c" /\ b[1] = "1-c" /\ a[2] = b[2]) \/ (a[1] = "1-c" /\ b[1] = "c" /\ a[2] = b[2])
ComplementP(n, L(_), H(_)) == \A m \in 0..(n - 1) : Complement(L(m), H(m))

\* broadcasting of the gain against an array filtered along `axis` (0-based, may be negative):
\* implementation = the shape the gain vector is given before the product with fft(ts, axis)
NoAxis == 99          \* the caller left `axis` out (None): "last axis by default"
NormAxis(nd, axis) == IF axis = NoAxis THEN nd - 1 ELSE IF axis < 0 THEN nd + axis ELSE axis
GainShapeImpl(nd, axis, n) ==
    LET ax == IF axis = NoAxis THEN nd - 1 ELSE axis                           \* if axis is None: axis = ts.ndim - 1
    IN IF Variant = "orig" THEN (IF ax < nd - 1 THEN <<n, 1>> ELSE <<n>>)      \* filc[:, np.newaxis] unless last axis (F14)
       ELSE [d \in 1..nd |-> IF d = (IF ax < 0 THEN nd + ax ELSE ax) + 1 THEN n ELSE 1]   \* shape[axis] = ns, 1 elsewhere
\* property: under NumPy's right-aligned broadcasting against an array of shape sh, the gain varies along the
\* filtered axis and along no other axis
GainAlignedP(sh, axis, g) ==
    LET nd == Len(sh)
        pad == nd - Len(g)
        At(d) == IF d <= pad THEN 1 ELSE g[d - pad]          \* right-aligned, missing leading dims are 1
    IN /\ pad >= 0
       /\ \A d \in 1..nd : At(d) = (IF d = NormAxis(nd, axis) + 1 THEN sh[d] ELSE 1)
FilterAxes == (pc = "args" /\ nsx = 1 /\ nsw = 1 /\ mode = "full") =>
    \A nd \in 1..3 : \A sh \in [1..nd -> 2..4] : \A axis \in ((-nd)..(nd - 1)) \cup {NoAxis} :
        GainAlignedP(sh, axis, GainShapeImpl(nd, axis, sh[NormAxis(nd, axis) + 1]))

-----------------------------------------------------------------------------
(* the model's instances *)
Full == (pc = "done" /\ mode = "full") => FullP(Out, OutLen, nsx, nsw, i, j)
Same == (pc = "done" /\ mode = "same") => SameP(Out, OutLen, nsx, nsw, i, j)
PadFits == pc # "args" => ns >= nsx + nsw /\ NsOptimP(nsx + nsw, ns)
\* the helper facts, checked once per length n = nsx (at the states with nsw = 1)
FilterFacts(n) ==
    LET fs == FScaleImpl(n)
        ex == ExpandImpl(n \div 2 + 1, n)
    IN \A b0 \in 0..Min(n \div 2, 3) : \A b1 \in (b0 + 1)..(b0 + 3) : \A m \in 0..(n - 1) :
          /\ Hp(ex[m + 1][1], b0, b1) = Hp(Abs(fs[m + 1]), b0, b1)          \* FilterBinsP, high-pass
          /\ Lp(ex[m + 1][1], b0, b1) = Lp(Abs(fs[m + 1]), b0, b1)          \* FilterBinsP, low-pass
          /\ Complement(Lp(ex[m + 1][1], b0, b1), Hp(ex[m + 1][1], b0, b1)) \* ComplementP
Helpers == (pc = "args" /\ nsw = 1 /\ i = 0 /\ mode = "full") =>
    LET n == nsx IN
        /\ NsOptimP(n, NsOptimImpl(n))
        /\ FScaleP(n, FScaleImpl(n))
        /\ FScaleOneSidedP(n, FScaleHalf(n))
        /\ ReduceP(n, ReduceImpl(n))
        /\ ExpandP(n, ExpandImpl(n \div 2 + 1, n))
        /\ ReduceExpandP(n, ExpandImpl(n \div 2 + 1, n))
        /\ FilterFacts(n)
=============================================================================
