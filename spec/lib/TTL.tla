-------------------------------- MODULE TTL --------------------------------
(***************************************************************************)
(* TTL lines over discrete time and front detection (property C10, second   *)
(* half).                                                                  *)
(*                                                                         *)
(* Lines toggle tick by tick (`Tick`); the history variable `events`        *)
(* records <<t, line, polarity>> at every change: that is the ground truth  *)
(* the property speaks about.                                               *)
(* Implementation layer: ibldsp.utils.fronts / rises / falls as the code    *)
(* computes them on an n-d array: np.diff along `axis`, np.where on the     *)
(* threshold, +1 on the `axis` coordinate; falls = rises(-x, step=-step).   *)
(* The array is 1-D (one line) or 2-D in either orientation:                *)
(*    "TL" rows = time, columns = lines (what Reader.read_sync returns)     *)
(*    "LT" rows = lines, columns = time                                     *)
(* Property layer: FrontsP / RisesP / FallsP over the returned coordinates. *)
(***************************************************************************)
EXTENDS Integers, Sequences, FiniteSets, TLC

CONSTANTS NL,        \* lines 1..NL
          MaxT,      \* train lengths 1..MaxT
          Amps,      \* TTL amplitude of the trains (0 / amp)
          Steps      \* step thresholds passed to the detector

VARIABLES x,         \* history: x[t+1][l] = level (0/1) of line l at sample t
          events,    \* history: sequence of <<t, l, pol>> (pol = +1 / -1), in time order
          amp, step

vars == <<x, events, amp, step>>

Levels == [1..NL -> {0, 1}]
T == Len(x)

Init == /\ \E v \in Levels : x = <<v>>
        /\ events = <<>>
        /\ amp \in Amps /\ step \in Steps

\* changes between two consecutive level vectors at sample t, as a sequence in line order
RECURSIVE Changes(_, _, _, _)
Changes(old, new, t, l) ==
    IF l > NL THEN <<>>
    ELSE (IF old[l] # new[l] THEN << <<t, l, new[l] - old[l]>> >> ELSE <<>>) \o Changes(old, new, t, l + 1)

Tick == /\ T < MaxT
        /\ \E v \in Levels :
              /\ x' = Append(x, v)
              /\ events' = events \o Changes(x[T], v, T, 1)
        /\ UNCHANGED <<amp, step>>

Next == Tick
Spec == Init /\ [][Next]_vars

-----------------------------------------------------------------------------
(* the ground truth as a set, from any train (used for export and by the trace spec) *)
Range(s) == {s[i] : i \in 1..Len(s)}
EventsOf(tr, nl) == {<<t, l, tr[t + 1][l] - tr[t][l]>> : <<t, l>> \in
                        {p \in (1..(Len(tr) - 1)) \X (1..nl) : tr[p[1] + 1][p[2]] # tr[p[1]][p[2]]}}

-----------------------------------------------------------------------------
(* implementation layer: the detector on an array                                          *)
(* an array is [shape |-> <<n0>> | <<n0, n1>>, kind, l, neg]; At(a, i) = element at the 0-based index tuple i *)
Arr1(l) == [shape |-> <<T>>, kind |-> "1", l |-> l, neg |-> 1]
ArrTL == [shape |-> <<T, NL>>, kind |-> "TL", l |-> 0, neg |-> 1]
ArrLT == [shape |-> <<NL, T>>, kind |-> "LT", l |-> 0, neg |-> 1]
At(a, i) == a.neg * amp * (CASE a.kind = "1" -> x[i[1] + 1][a.l]
                             [] a.kind = "TL" -> x[i[1] + 1][i[2] + 1]
                             [] a.kind = "LT" -> x[i[2] + 1][i[1] + 1])
Dom(a) == IF Len(a.shape) = 1 THEN {<<t>> : t \in 0..(a.shape[1] - 1)}
          ELSE (0..(a.shape[1] - 1)) \X (0..(a.shape[2] - 1))

Abs(v) == IF v < 0 THEN -v ELSE v
NormAxis(a, axis) == IF axis < 0 THEN Len(a.shape) + axis ELSE axis
Bump(i, ax) == [k \in 1..Len(i) |-> IF k = ax + 1 THEN i[k] + 1 ELSE i[k]]      \* ind[axis] += 1
\* index set of np.diff(a, axis)
DiffDom(a, ax) == {i \in Dom(a) : i[ax + 1] < a.shape[ax + 1] - 1}
DiffAt(a, ax, i) == At(a, Bump(i, ax)) - At(a, i)
Neg(a) == [a EXCEPT !.neg = -a.neg]

\* fronts: set of <<index tuple after the +1, sign value>>
FrontsImpl(a, axis, st) ==
    LET ax == NormAxis(a, axis) IN
    {<<Bump(i, ax), DiffAt(a, ax, i)>> : i \in {j \in DiffDom(a, ax) : Abs(DiffAt(a, ax, j)) >= st}}
RisesImpl(a, axis, st) ==
    LET ax == NormAxis(a, axis) IN
    {Bump(i, ax) : i \in {j \in DiffDom(a, ax) : DiffAt(a, ax, j) >= st}}
FallsImpl(a, axis, st) == RisesImpl(Neg(a), axis, -st)       \* falls(x, step) = rises(-x, step=-step)

-----------------------------------------------------------------------------
(* property layer.  Observed coordinates are translated to <<t, line>> by the caller:           *)
(*   F  : set of <<t, l, value>> returned by fronts, R / D : sets of <<t, l>> from rises / falls *)
(*   ev : the ground-truth event set <<t, l, +1|-1>>, a : amplitude, st : step threshold          *)
FrontsP(F, ev, a, st) ==
    IF st <= a THEN F = {<<e[1], e[2], a * e[3]>> : e \in ev}      \* every change, right polarity, nothing else
    ELSE F = {}                                                  \* changes smaller than the step are not fronts
RisesP(R, ev, a, st) == R = (IF st <= a THEN {<<e[1], e[2]>> : e \in {f \in ev : f[3] = 1}} ELSE {})
FallsP(D, ev, a, st) == D = (IF st <= a THEN {<<e[1], e[2]>> : e \in {f \in ev : f[3] = -1}} ELSE {})
SplitP(F, R, D) == /\ R \cup D = {<<f[1], f[2]>> : f \in F}
                   /\ R \cap D = {}

\* coordinate translations of the three array shapes
From1(S, l) == {<<s[1][1], l, s[2]>> : s \in S}
FromTL(S) == {<<s[1][1], s[1][2] + 1, s[2]>> : s \in S}
FromLT(S) == {<<s[1][2], s[1][1] + 1, s[2]>> : s \in S}
I1(S, l) == {<<s[1], l>> : s \in S}
ITL(S) == {<<s[1], s[2] + 1>> : s \in S}
ILT(S) == {<<s[2], s[1] + 1>> : s \in S}

-----------------------------------------------------------------------------
(* the model's instances *)
Ev == Range(events)
HistoryConsistent == Ev = EventsOf(x, NL) /\ Cardinality(Ev) = Len(events)

\* every spelling of the time axis gives the same answer: 0 / -1 on a vector, 0 / -2 on rows = time, 1 / -1 on rows = lines
Fronts1D == \A l \in 1..NL : /\ FrontsP(From1(FrontsImpl(Arr1(l), -1, step), l), {e \in Ev : e[2] = l}, amp, step)
                             /\ FrontsImpl(Arr1(l), 0, step) = FrontsImpl(Arr1(l), -1, step)
FrontsTL == /\ FrontsP(FromTL(FrontsImpl(ArrTL, 0, step)), Ev, amp, step)
            /\ FrontsImpl(ArrTL, -2, step) = FrontsImpl(ArrTL, 0, step)
FrontsLT == /\ FrontsP(FromLT(FrontsImpl(ArrLT, 1, step)), Ev, amp, step)
            /\ FrontsImpl(ArrLT, -1, step) = FrontsImpl(ArrLT, 1, step)
Rises == /\ RisesP(ITL(RisesImpl(ArrTL, 0, step)), Ev, amp, step)
         /\ RisesP(ILT(RisesImpl(ArrLT, -1, step)), Ev, amp, step)
         /\ \A l \in 1..NL : RisesP(I1(RisesImpl(Arr1(l), -1, step), l), {e \in Ev : e[2] = l}, amp, step)
         /\ RisesImpl(ArrTL, -2, step) = RisesImpl(ArrTL, 0, step)
         /\ \A l \in 1..NL : RisesImpl(Arr1(l), 0, step) = RisesImpl(Arr1(l), -1, step)
Falls == /\ FallsP(ITL(FallsImpl(ArrTL, 0, -step)), Ev, amp, step)
         /\ FallsP(ILT(FallsImpl(ArrLT, -1, -step)), Ev, amp, step)
         /\ \A l \in 1..NL : FallsP(I1(FallsImpl(Arr1(l), -1, -step), l), {e \in Ev : e[2] = l}, amp, step)
         /\ FallsImpl(ArrTL, -2, -step) = FallsImpl(ArrTL, 0, -step)
         /\ \A l \in 1..NL : FallsImpl(Arr1(l), 0, -step) = FallsImpl(Arr1(l), -1, -step)
Split == SplitP(FromTL(FrontsImpl(ArrTL, 0, step)), ITL(RisesImpl(ArrTL, 0, step)), ITL(FallsImpl(ArrTL, 0, -step)))

\* events are in time order and alternate per line (a line cannot rise twice in a row)
Alternate == \A i, j \in 1..Len(events) :
                (i < j /\ events[i][2] = events[j][2]
                 /\ ~\E k \in (i + 1)..(j - 1) : events[k][2] = events[i][2]) => events[i][3] = -events[j][3]

-----------------------------------------------------------------------------
(* spec -> code: every train of the box with its ground truth, for replay on the real code *)
Trains == UNION {[1..n -> Levels] : n \in 1..MaxT}
Cases == {[x |-> tr, ev |-> EventsOf(tr, NL)] : tr \in Trains}
=============================================================================
