----------------------------- MODULE MetaGrammar -----------------------------
(***************************************************************************)
(* The SpikeGLX metadata grammar as spikeglx.read_meta_data parses it and   *)
(* spikeglx.write_meta_data serialises it (property C09, first sentence).   *)
(*                                                                         *)
(* A value is a sequence over an abstract alphabet                          *)
(*    "0"  the digit zero          "1"  any digit 1..9                      *)
(*    ","  "."  "="  "~"           "a"  any other character                 *)
(* which is all the two functions distinguish.  A numeric token e (digits   *)
(* with at most one ".") is represented by Num(e) = <<integer digits        *)
(* without leading zeros, fraction digits without trailing zeros>>: two     *)
(* tokens denote the same number iff these agree (digit for digit - the     *)
(* class "1" is instantiated with concrete digits by the harness).          *)
(*                                                                         *)
(* Implementation layer: Classify (read_meta_data's numeric coercion),      *)
(* Render (write_meta_data's three branches; a non-integer float is written *)
(* in the *form* Python gives it: plain positional digits, or exponent      *)
(* notation below 1e-4 - Variant "orig"), ParseLine / ParseFile / WriteFile *)
(* (split at the first "=", tildes removed from keys, later duplicates      *)
(* overwrite, two derived entries appended).                                *)
(* Property layer: RoundTripP over the two parsed dictionaries, InDomain =  *)
(* the values the property quantifies over.                                 *)
(*                                                                         *)
(* File forms.  A file of key=value lines lies on disk as characters with   *)
(* line ends: SpikeGLX runs on Windows and leaves CR LF (5 of the shipped   *)
(* files), tools that touch the file leave LF, and the last line may have   *)
(* no line end at all (2 of the shipped files).  Frame gives the characters *)
(* on disk, ReadLines what read_meta_data makes of them (open() in text     *)
(* mode: universal newlines; str.splitlines()).  Framing: every form gives  *)
(* the same lines back, so that RoundTrip does not depend on the form.      *)
(* Variant "rawsplit" (bytes decoded as they are, split at LF) is a wrong   *)
(* implementation layer that the model must reject.                         *)
(***************************************************************************)
EXTENDS Integers, Sequences, FiniteSets, TLC

CONSTANTS MaxLen,      \* value strings of length 0..MaxLen
          MaxLines,    \* files of 0..MaxLines lines (over FileKeys x FileValues)
          Variant      \* "fixed" | "orig" (before the fix: commit for F11) | "rawsplit" (self-test of Framing)

VARIABLES v, file

vars == <<v, file>>

Alphabet == {"0", "1", ",", ".", "=", "~", "a"}
Digit == {"0", "1"}
NumChar == Digit \cup {",", "."}

-----------------------------------------------------------------------------
(* sequences *)
Count(s, c) == Cardinality({i \in 1..Len(s) : s[i] = c})
Has(s, c) == \E i \in 1..Len(s) : s[i] = c
FirstIdx(s, c) == CHOOSE i \in 1..Len(s) : s[i] = c /\ \A j \in 1..(i - 1) : s[j] # c

\* str.split(c)
RECURSIVE Split(_, _)
Split(s, c) == IF ~Has(s, c) THEN <<s>>
               ELSE LET k == FirstIdx(s, c) IN <<SubSeq(s, 1, k - 1)>> \o Split(SubSeq(s, k + 1, Len(s)), c)

RECURSIVE Join(_, _)
Join(ss, c) == IF Len(ss) = 0 THEN <<>>
               ELSE IF Len(ss) = 1 THEN ss[1]
               ELSE ss[1] \o <<c>> \o Join(Tail(ss), c)

RECURSIVE StripLeft(_, _)
StripLeft(s, c) == IF Len(s) > 0 /\ s[1] = c THEN StripLeft(Tail(s), c) ELSE s
RECURSIVE StripRight(_, _)
StripRight(s, c) == IF Len(s) > 0 /\ s[Len(s)] = c THEN StripRight(SubSeq(s, 1, Len(s) - 1), c) ELSE s
Without(s, c) == SelectSeq(s, LAMBDA x : x # c)

-----------------------------------------------------------------------------
(* numbers *)
\* float(e) succeeds for e over [0-9.] with at most one "." iff there is a digit
ValidFloat(e) == \E i \in 1..Len(e) : e[i] \in Digit
IntPart(e) == IF Has(e, ".") THEN SubSeq(e, 1, FirstIdx(e, ".") - 1) ELSE e
FracPart(e) == IF Has(e, ".") THEN SubSeq(e, FirstIdx(e, ".") + 1, Len(e)) ELSE <<>>
Num(e) == <<StripLeft(IntPart(e), "0"), StripRight(FracPart(e), "0")>>
IsInteger(x) == x[2] = <<>>
\* str(int(x)): truncation towards zero
IntStr(x) == IF x[1] = <<>> THEN <<"0">> ELSE x[1]
LeadingZeros(s) == Len(s) - Len(StripLeft(s, "0"))
\* repr(x) switches to exponent notation below 1e-4
Tiny(x) == x[1] = <<>> /\ x[2] # <<>> /\ LeadingZeros(x[2]) >= 4
Plain(x) == IntStr(x) \o <<".">> \o x[2]
ExpDigits(n) == IF n < 10 THEN <<"0", "1">> ELSE <<"1", IF n % 10 = 0 THEN "0" ELSE "1">>
Exponent(x) == LET m == StripLeft(x[2], "0") IN      \* d[.ddd]e-NN
               <<m[1]>> \o (IF Len(m) > 1 THEN <<".">> \o Tail(m) ELSE <<>>) \o <<"a", "a">>
               \o ExpDigits(LeadingZeros(x[2]) + 1)

-----------------------------------------------------------------------------
(* implementation layer *)
\* read_meta_data: v and re.fullmatch("[0-9,.]*", v) and v.count(".") < 2
LooksNumeric(s) == Len(s) > 0 /\ (\A i \in 1..Len(s) : s[i] \in NumChar) /\ Count(s, ".") < 2

Str(s) == [k |-> "str", s |-> s, xs |-> <<>>]
Raise == [k |-> "raise", s |-> <<>>, xs |-> <<>>]
Classify(s) ==
    IF ~LooksNumeric(s) THEN Str(s)
    ELSE LET parts == Split(s, ",") IN
         IF \E i \in 1..Len(parts) : ~ValidFloat(parts[i]) THEN Raise              \* float('') / float('.')
         ELSE IF Len(parts) = 1 THEN [k |-> "num", s |-> <<>>, xs |-> <<Num(parts[1])>>]  \* scalars are not nested
         ELSE [k |-> "list", s |-> <<>>, xs |-> [i \in 1..Len(parts) |-> Num(parts[i])]]

\* write_meta_data: list -> ints joined by ","; integer-valued float -> int; other float -> "{val}"; else str
RenderFloat(x) == IF IsInteger(x) THEN IntStr(x)
                  ELSE IF Variant = "orig" /\ Tiny(x) THEN Exponent(x)
                  ELSE Plain(x)
Render(val) == IF val.k = "str" THEN val.s
               ELSE IF val.k = "num" THEN RenderFloat(val.xs[1])
               ELSE Join([i \in 1..Len(val.xs) |-> IntStr(val.xs[i])], ",")

\* one line "key=value": split("=", maxsplit=1), tildes removed from the key
LineOK(line) == Has(line, "=")
LineKey(line) == Without(SubSeq(line, 1, FirstIdx(line, "=") - 1), "~")
LineValue(line) == SubSeq(line, FirstIdx(line, "=") + 1, Len(line))

\* a dictionary is a sequence of <<key, value>> in insertion order; assignment to an existing key keeps its place
DictSet(d, key, val) ==
    IF \E i \in 1..Len(d) : d[i][1] = key
    THEN [i \in 1..Len(d) |-> IF d[i][1] = key THEN <<key, val>> ELSE d[i]]
    ELSE Append(d, <<key, val>>)
DictGet(d, key, default) == IF \E i \in 1..Len(d) : d[i][1] = key
                            THEN d[CHOOSE i \in 1..Len(d) : d[i][1] = key][2] ELSE default

\* the two entries read_meta_data derives from the others (neuropixelVersion, serial); here: a function of
\* the entry <<"a">> only - what matters is that it is recomputed from the parsed dictionary on every read
DerivedKey == <<"a", "a">>
Derived(d) == DictGet(d, <<"a">>, Str(<<>>))

RECURSIVE ParseLines(_, _)
ParseLines(lines, d) ==
    IF Len(lines) = 0 THEN d
    ELSE ParseLines(Tail(lines), DictSet(d, LineKey(lines[1]), Classify(LineValue(lines[1]))))
FileRaises(lines) == \E i \in 1..Len(lines) : ~LineOK(lines[i]) \/ Classify(LineValue(lines[i])) = Raise
ParseFile(lines) == LET d == ParseLines(lines, <<>>) IN DictSet(d, DerivedKey, Derived(d))
WriteFile(d) == [i \in 1..Len(d) |-> d[i][1] \o <<"=">> \o Render(d[i][2])]

-----------------------------------------------------------------------------
(* file forms: the characters on disk and how the reader gets its lines from them *)
LF == "N"
CR == "R"
Forms == {"lf", "crlf", "lf-nofinal", "crlf-nofinal"}
LineEnd(form) == IF form \in {"crlf", "crlf-nofinal"} THEN <<CR, LF>> ELSE <<LF>>
RECURSIVE Frame(_, _)
Frame(lines, form) ==
    IF Len(lines) = 0 THEN <<>>
    ELSE IF Len(lines) = 1
         THEN lines[1] \o (IF form \in {"lf-nofinal", "crlf-nofinal"} THEN <<>> ELSE LineEnd(form))
         ELSE lines[1] \o LineEnd(form) \o Frame(Tail(lines), form)

\* open(md_file).read(): text mode with universal newlines (CR LF and a lone CR become LF)
RECURSIVE Universal(_)
Universal(s) ==
    IF Len(s) = 0 THEN <<>>
    ELSE IF s[1] = CR
         THEN <<LF>> \o Universal(IF Len(s) > 1 /\ s[2] = LF THEN SubSeq(s, 3, Len(s)) ELSE Tail(s))
         ELSE <<s[1]>> \o Universal(Tail(s))
\* str.splitlines(): a line ends at LF, CR LF or CR; nothing follows the last line end
IsEnd(ch) == ch \in {LF, CR}
RECURSIVE SplitLines(_)
SplitLines(s) ==
    IF Len(s) = 0 THEN <<>>
    ELSE IF \A i \in 1..Len(s) : ~IsEnd(s[i]) THEN <<s>>
    ELSE LET k == CHOOSE i \in 1..Len(s) : IsEnd(s[i]) /\ \A j \in 1..(i - 1) : ~IsEnd(s[j])
             n == IF s[k] = CR /\ k < Len(s) /\ s[k + 1] = LF THEN 2 ELSE 1
         IN <<SubSeq(s, 1, k - 1)>> \o SplitLines(SubSeq(s, k + n, Len(s)))
\* the wrong layer: the bytes as they are, line ends stripped at both ends of the text, split at LF
RECURSIVE StripEnds(_)
StripEnds(s) == IF Len(s) > 0 /\ IsEnd(s[1]) THEN StripEnds(Tail(s))
                ELSE IF Len(s) > 0 /\ IsEnd(s[Len(s)]) THEN StripEnds(SubSeq(s, 1, Len(s) - 1))
                ELSE s
ReadLines(chars) == IF Variant = "rawsplit" THEN (IF Len(StripEnds(chars)) = 0 THEN <<>> ELSE Split(StripEnds(chars), LF))
                    ELSE SplitLines(Universal(chars))

-----------------------------------------------------------------------------
(* property layer *)
\* the values the property quantifies over: strings, scalars, integer lists
InDomain(s) ==
    \/ ~LooksNumeric(s)
    \/ LET parts == Split(s, ",") IN
       /\ \A i \in 1..Len(parts) : ValidFloat(parts[i])
       /\ Len(parts) > 1 => \A i \in 1..Len(parts) : IsInteger(Num(parts[i]))
FileInDomain(lines) == \A i \in 1..Len(lines) : LineOK(lines[i]) /\ InDomain(LineValue(lines[i]))

\* parse -> write -> parse: both parses succeed and give equal dictionaries
RoundTripP(raised1, raised2, equal) == ~raised1 /\ ~raised2 /\ equal

-----------------------------------------------------------------------------
(* the model *)
Strings(n) == UNION {[1..m -> Alphabet] : m \in 0..n}
\* (the last one is DerivedKey: every file that write_meta_data wrote carries the derived entries as lines of their own)
FileKeys == {<<"a">>, <<"~", "a">>, <<"a", "~">>, <<"1">>, <<"a", "a">>}
FileValues == {<<>>, <<"a", "=", "1">>, <<"=">>, <<"1", ".", "0">>, <<".", "0", "0", "0", "0", "1">>, <<"1", ",", "0", "1">>,
               <<"~", "a">>}
Lines == {kk \o <<"=">> \o vv : kk \in FileKeys, vv \in FileValues}

Init == \/ v \in Strings(MaxLen) /\ file = <<>>
        \/ v = <<>> /\ file \in UNION {[1..m -> Lines] : m \in 1..MaxLines}
Next == UNCHANGED vars
Spec == Init /\ [][Next]_vars

\* the model's instances of the property layer
ValueRoundTrip ==
    InDomain(v) => LET c1 == Classify(v) IN
                   /\ c1 # Raise
                   /\ RoundTripP(FALSE, Classify(Render(c1)) = Raise, Classify(Render(c1)) = c1)
FileRoundTrip ==
    FileInDomain(file) => LET d1 == ParseFile(file)
                              f2 == WriteFile(d1) IN
                          RoundTripP(FileRaises(file), FileRaises(f2), ParseFile(f2) = d1)
\* the lines the reader sees do not depend on the form the file has on disk
Framing == \A form \in Forms : ReadLines(Frame(file, form)) = file
\* sanity of the implementation layer: what was written is again a line of the grammar
WrittenInDomain == (InDomain(v) /\ Classify(v) # Raise) => InDomain(Render(Classify(v)))

\* spec -> code: every string with what the two layers say about it
Case(s) == LET c == Classify(s) IN
           [v |-> s, dom |-> InDomain(s), k |-> c.k,
            w |-> IF c = Raise THEN <<>> ELSE Render(c),
            k2 |-> IF c = Raise THEN "none" ELSE Classify(Render(c)).k,
            same |-> IF c = Raise THEN FALSE ELSE Classify(Render(c)) = c]
=============================================================================
