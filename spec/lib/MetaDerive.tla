------------------------------ MODULE MetaDerive ------------------------------
(***************************************************************************)
(* Acquisition parameters derived from a SpikeGLX metadata dictionary       *)
(* (property C09, second sentence): probe generation, stream type, channel  *)
(* and sync counts, indices of the sync traces, max integer, and the        *)
(* per-channel volts-per-bit = full-scale range / max integer / gain.       *)
(*                                                                         *)
(* A configuration c is what the metadata *says* (raw fields only):         *)
(*   typeThis "imec"|"nidq", typeEnabled (key present), prbType             *)
(*   (imDatPrb_type, -1 absent), port, slot (keys present), aplfsy          *)
(*   (snsApLfSy, <<>> absent), nSaved (nSavedChans), imro (entries of       *)
(*   imroTbl after the header, each a sequence of integers), rangeC         *)
(*   (im/niAiRangeMax in 1/100 V), maxInt (imMaxInt, -1 absent),            *)
(*   mnmaxadw (snsMnMaXaDw, <<>> absent), mnGain, maGain.                   *)
(* A volts-per-bit value is kept exact: <<"unit">> (gain 1, no conversion)  *)
(* or <<rangeC, maxint, gain>> = rangeC / 100 / maxint / gain.              *)
(*                                                                         *)
(* Implementation layer (Impl..): the decision tables with the branches,    *)
(* defaults, slices and regular-expression groups of spikeglx.py            *)
(* (_get_neuropixel_version_from_meta, _get_type_from_meta,                 *)
(*  _get_sync_trace_indices_from_meta, _get_analog_sync_..., _get_max_int,  *)
(*  _conversion_sample2v_from_meta).                                        *)
(* Property layer (Doc..): an independent reading of the same fields,       *)
(* channel by channel, from the SpikeGLX metadata documentation; AgreeP      *)
(* compares observed values with it.                                        *)
(***************************************************************************)
EXTENDS Integers, Sequences, FiniteSets, TLC

CONSTANTS MaxChans,    \* saved data channels 1..MaxChans
          GainPairs,   \* set of <<ap gain, lf gain>> an IMRO entry may carry
          MaxNi,       \* nidq: 0..MaxNi channels of each of MN, MA, XA, DW
          Mutant       \* "none"; "swapgain" | "allentries" | "nidqorder": deliberately wrong implementation
                       \* layers, which the property layer must reject (model self-test)

VARIABLE c
vars == <<c>>

None == "None"
Unit == <<"unit">>

Rep(n, x) == [i \in 1..n |-> x]
Range(a, b) == [i \in 1..(b - a) |-> a + i - 1]          \* list(range(a, b))

-----------------------------------------------------------------------------
(* implementation layer *)

ImplVersion(m) ==
    IF m.typeEnabled THEN "3A"
    ELSE IF m.prbType = 0 THEN (IF m.port /\ m.slot THEN "3B2" ELSE "3B1")
    ELSE IF m.prbType = 21 \/ m.prbType = 1030 THEN "NP2.1"
    ELSE IF m.prbType = 24 \/ m.prbType = 2013 THEN "NP2.4"
    ELSE IF m.prbType = 1100 THEN "NPultra"
    ELSE None

\* MAJOR_VERSION = {"3A": 1, "3B2": 1, "3B1": 1, "NP2.1": 2, "NP2.4": 2.4, "NPultra": "NPultra"}
ImplMajor(m) ==
    LET ver == ImplVersion(m) IN
    IF ver \in {"3A", "3B1", "3B2"} THEN "1"
    ELSE IF ver = "NP2.1" THEN "2"
    ELSE IF ver = "NP2.4" THEN "2.4"
    ELSE IF ver = "NPultra" THEN "NPultra"
    ELSE None

\* snsApLfSy = md.get("snsApLfSy", [-1, -1, -1])
ImplType(m) ==
    LET a == IF m.aplfsy = <<>> THEN <<-1, -1, -1>> ELSE m.aplfsy IN
    IF a[1] = 0 /\ a[2] # 0 THEN "lf"
    ELSE IF a[1] # 0 /\ a[2] = 0 THEN "ap"
    ELSE IF a = <<-1, -1, -1>> /\ m.typeThis = "nidq" THEN "nidq"
    ELSE None

ImplNC(m) == m.nSaved

ImplSync(m) ==
    LET typ == ImplType(m)
        nsync == IF typ = "nidq" THEN m.mnmaxadw[Len(m.mnmaxadw)] ELSE m.aplfsy[3] IN
    Range(m.nSaved - nsync, m.nSaved)

ImplAnalog(m) ==
    IF ImplType(m) # "nidq" THEN <<>>
    ELSE LET tr == m.mnmaxadw IN Range(tr[1] + tr[2], tr[1] + tr[2] + tr[3])

ImplMaxInt(m) ==
    IF m.typeThis = "imec"
    THEN IF ImplVersion(m) \in {"NP2.1", "NP2.4"}
         THEN m.maxInt                                     \* md["imMaxInt"]
         ELSE (IF m.maxInt = -1 THEN 512 ELSE m.maxInt)
    ELSE (IF m.maxInt = -1 THEN 32768 ELSE m.maxInt)

\* re.findall(r"([0-9]* [0-9]* [0-9]* [0-9]* [0-9]*)", imroTbl): the first five numbers of every entry that
\* has at least five (the header "(0,384)" and the four-number NP2.1 entries do not match)
Groups(m) == LET e5 == SelectSeq(m.imro, LAMBDA e : Len(e) >= 5) IN [i \in 1..Len(e5) |-> SubSeq(e5[i], 1, 5)]
Prefix(s, n) == SubSeq(s, 1, IF n < Len(s) THEN n ELSE Len(s))

\* out[stream]: gains of the first n_chn groups (last number: lf, last but one: ap), then ones for the sync traces
ImplS2V(m) ==
    LET i2v(g) == <<m.rangeC, ImplMaxInt(m), g>> IN
    IF m.typeThis = "imec"
    THEN LET sy == Rep(m.aplfsy[3], Unit)
             nchn == m.nSaved - Len(ImplSync(m))
             typ == ImplType(m)
         IN IF ImplVersion(m) \in {"NP2.1", "NP2.4"}
            THEN Rep(nchn, i2v(80)) \o sy
            ELSE LET g == IF Mutant = "allentries" THEN Groups(m) ELSE Prefix(Groups(m), nchn)
                     lfcol == IF Mutant = "swapgain" THEN 4 ELSE 5 IN
                 [i \in 1..Len(g) |-> i2v(IF typ = "lf" THEN g[i][lfcol] ELSE g[i][9 - lfcol])] \o sy
    ELSE LET tr == m.mnmaxadw IN
         IF Mutant = "nidqorder"
         THEN Rep(tr[2], i2v(m.maGain)) \o Rep(tr[1], i2v(m.mnGain)) \o Rep(tr[3], i2v(1)) \o Rep(tr[4], Unit)
         ELSE Rep(tr[1], i2v(m.mnGain)) \o Rep(tr[2], i2v(m.maGain)) \o Rep(tr[3], i2v(1)) \o Rep(tr[4], Unit)

ImplObs(m) == [version |-> ImplVersion(m), major |-> ImplMajor(m), type |-> ImplType(m), nc |-> ImplNC(m),
               sync |-> ImplSync(m), analog |-> ImplAnalog(m), maxint |-> ImplMaxInt(m), s2v |-> ImplS2V(m)]

-----------------------------------------------------------------------------
(* property layer: the independent reading *)

\* probe generation from the documented keys: phase 3A metadata carries "typeEnabled" (3B replaced it by
\* typeImEnabled / typeNiEnabled); 3B carries imDatPrb_type; the PXI system (3B2) adds port and slot
DocProbeTable == {<<0, "NP1">>, <<21, "NP2.1">>, <<1030, "NP2.1">>, <<24, "NP2.4">>, <<2013, "NP2.4">>, <<1100, "NPultra">>}
DocVersion(m) ==
    IF m.typeThis = "nidq" /\ ~m.typeEnabled THEN None
    ELSE IF m.typeEnabled THEN "3A"
    ELSE IF \E p \in DocProbeTable : p[1] = m.prbType
         THEN LET g == (CHOOSE p \in DocProbeTable : p[1] = m.prbType)[2] IN
              IF g = "NP1" THEN (IF m.port /\ m.slot THEN "3B2" ELSE "3B1") ELSE g
         ELSE None
DocGeneration(m) == LET ver == DocVersion(m) IN
                    IF ver \in {"3A", "3B1", "3B2"} THEN "1" ELSE IF ver = "NP2.1" THEN "2"
                    ELSE IF ver = "NP2.4" THEN "2.4" ELSE ver
DocTwo(m) == DocVersion(m) \in {"NP2.1", "NP2.4"}

DocType(m) == IF m.typeThis = "nidq" THEN "nidq"
              ELSE IF m.aplfsy[1] > 0 THEN "ap" ELSE "lf"
DocNC(m) == m.nSaved
DocNSync(m) == IF m.typeThis = "nidq" THEN m.mnmaxadw[4] ELSE m.aplfsy[3]
\* channel ch (0-based, file order) is a sync trace iff it is one of the last DocNSync ones
DocIsSync(m, ch) == ch >= DocNC(m) - DocNSync(m)
\* nidq order: MN, MA, XA, DW ; the analog sync traces are the XA ones
DocIsAnalog(m, ch) == /\ m.typeThis = "nidq"
                      /\ ch >= m.mnmaxadw[1] + m.mnmaxadw[2]
                      /\ ch < m.mnmaxadw[1] + m.mnmaxadw[2] + m.mnmaxadw[3]
DocMaxInt(m) == IF m.maxInt # -1 THEN m.maxInt
                ELSE IF m.typeThis = "imec" THEN 512 ELSE 32768
\* NP1 IMRO entry: (channel bank refid apgain lfgain [apfilter]); NP2: fixed gain 80.  Saved channels are
\* the first nSaved - nsync acquired ones (snsSaveChanSubset = 0:n-1,sync), entry ch + 1 belongs to channel ch.
DocGain(m, ch) ==
    IF m.typeThis = "imec"
    THEN IF DocTwo(m) THEN 80
         ELSE LET e == m.imro[ch + 1] IN IF DocType(m) = "ap" THEN e[4] ELSE e[5]
    ELSE IF ch < m.mnmaxadw[1] THEN m.mnGain
         ELSE IF ch < m.mnmaxadw[1] + m.mnmaxadw[2] THEN m.maGain
         ELSE 1
DocS2V(m, ch) == IF DocIsSync(m, ch) THEN Unit ELSE <<m.rangeC, DocMaxInt(m), DocGain(m, ch)>>

\* observed values (o has the fields of ImplObs) agree with the independent reading
AgreeVersionP(m, o) == o.version = DocVersion(m) /\ o.major = DocGeneration(m)
AgreeTypeP(m, o) == o.type = DocType(m)
AgreeCountsP(m, o) == /\ o.nc = DocNC(m)
                      /\ Len(o.sync) = DocNSync(m)
                      /\ \A ch \in 0..(DocNC(m) - 1) : (\E i \in 1..Len(o.sync) : o.sync[i] = ch) <=> DocIsSync(m, ch)
                      /\ \A ch \in 0..(DocNC(m) - 1) : (\E i \in 1..Len(o.analog) : o.analog[i] = ch) <=> DocIsAnalog(m, ch)
AgreeMaxIntP(m, o) == o.maxint = DocMaxInt(m)
AgreeS2VP(m, o) == /\ Len(o.s2v) = DocNC(m)
                   /\ \A ch \in 0..(DocNC(m) - 1) : ch + 1 <= Len(o.s2v) => o.s2v[ch + 1] = DocS2V(m, ch)

-----------------------------------------------------------------------------
(* the configuration space *)
\* (typeEnabled, prbType, port, slot, numbers per IMRO entry)
Probes == {<<TRUE, -1, FALSE, FALSE, 5>>,                                    \* 3A
           <<FALSE, 0, FALSE, FALSE, 6>>, <<FALSE, 0, TRUE, FALSE, 6>>, <<FALSE, 0, FALSE, TRUE, 6>>,   \* 3B1
           <<FALSE, 0, TRUE, TRUE, 6>>,                                      \* 3B2
           <<FALSE, 21, TRUE, TRUE, 4>>, <<FALSE, 1030, TRUE, TRUE, 6>>,    \* NP2.1
           <<FALSE, 24, TRUE, TRUE, 5>>, <<FALSE, 2013, TRUE, TRUE, 5>>,    \* NP2.4
           <<FALSE, 1100, TRUE, TRUE, 6>>}                                   \* NPultra
IsTwo(p) == p[2] \in {21, 1030, 24, 2013}
\* an IMRO entry of k numbers for channel ch with gain pair g (NP2 entries carry no gains)
Entry(p, ch, g) == IF p[5] = 4 THEN <<ch, 1, 0, ch>>
                   ELSE IF IsTwo(p) /\ p[5] = 5 THEN <<ch, 0, 0, 0, ch>>
                   ELSE IF p[5] = 5 THEN <<ch, 0, 0, g[1], g[2]>>
                   ELSE <<ch, 0, 0, g[1], g[2], 1>>
Filler == <<7, 9>>     \* the acquired-but-not-saved channels behind the saved ones carry another gain pair

ImecConfigs == UNION {
    {[typeThis |-> "imec", typeEnabled |-> p[1], prbType |-> p[2], port |-> p[3], slot |-> p[4],
      aplfsy |-> IF st = "ap" THEN <<n, 0, sy>> ELSE <<0, n, sy>>, nSaved |-> n + sy,
      imro |-> [i \in 1..(n + 1) |-> Entry(p, i - 1, IF i <= n THEN gs[i] ELSE Filler)],
      rangeC |-> rg, maxInt |-> mi, mnmaxadw |-> <<>>, mnGain |-> -1, maGain |-> -1] :
        p \in Probes, st \in {"ap", "lf"}, sy \in {0, 1}, gs \in [1..n -> GainPairs],
        rg \in {50, 60, 62}, mi \in {-1, 512, 2048, 8192}} : n \in 1..MaxChans}
ImecOK(m) == /\ Len(m.imro) = (m.nSaved - m.aplfsy[3]) + 1
             /\ (m.maxInt = -1 => m.prbType \in {-1, 0})        \* SpikeGLX writes imMaxInt for every newer probe
\* (typeEnabled TRUE: the nidq stream of a phase-3A rig, whose header carries `typeEnabled=imec,nidq`)
NidqConfigs ==
    {[typeThis |-> "nidq", typeEnabled |-> te, prbType |-> -1, port |-> FALSE, slot |-> FALSE,
      aplfsy |-> <<>>, nSaved |-> t[1] + t[2] + t[3] + t[4], imro |-> <<>>, rangeC |-> rg, maxInt |-> mi,
      mnmaxadw |-> t, mnGain |-> g1, maGain |-> g2] :
        t \in (0..MaxNi) \X (0..MaxNi) \X (0..MaxNi) \X (0..MaxNi), rg \in {500, 200}, mi \in {-1, 32768},
        g1 \in {1, 200}, g2 \in {1, 10}, te \in BOOLEAN}
Configs == {m \in ImecConfigs : ImecOK(m)} \cup {m \in NidqConfigs : m.nSaved > 0}

Init == c \in Configs
Next == UNCHANGED c
Spec == Init /\ [][Next]_vars

\* the model's instances of the property layer
AgreeVersion == AgreeVersionP(c, ImplObs(c))
AgreeType == AgreeTypeP(c, ImplObs(c))
AgreeCounts == AgreeCountsP(c, ImplObs(c))
AgreeMaxInt == AgreeMaxIntP(c, ImplObs(c))
AgreeS2V == AgreeS2VP(c, ImplObs(c))

\* spec -> code: what the property layer expects of a configuration
DocObs(m) == [version |-> DocVersion(m), major |-> DocGeneration(m), type |-> DocType(m), nc |-> DocNC(m),
              nsync |-> DocNSync(m),
              sync |-> SelectSeq(Range(0, DocNC(m)), LAMBDA ch : DocIsSync(m, ch)),
              analog |-> SelectSeq(Range(0, DocNC(m)), LAMBDA ch : DocIsAnalog(m, ch)),
              maxint |-> DocMaxInt(m),
              s2v |-> [i \in 1..DocNC(m) |-> DocS2V(m, i - 1)]]
=============================================================================
