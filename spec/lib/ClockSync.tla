----------------------------- MODULE ClockSync -----------------------------
(***************************************************************************)
(* Clock synchronisation (property C19): ibldsp.utils.sync_timestamps.      *)
(*                                                                         *)
(* Honest scope.  The estimator (cross-correlation, nearest-neighbour       *)
(* assignment on real-valued times, polynomial fit / interpolant) is        *)
(* numeric; TLA+ contributes                                                *)
(*  - the ground-truth bookkeeping: which index pair of the two series is   *)
(*    a true correspondence once events are missing on either side          *)
(*    (property layer Sound / Complete are stated on it), checked for       *)
(*    consistency on all deletion patterns of a small train, which are also *)
(*    the scenarios the harness maps onto long trains;                      *)
(*  - the one piece of integer structure inside the estimator: the binning  *)
(*    of both series for the coarse cross-correlation (implementation       *)
(*    layer NBins / BinOf, times in milliseconds, bins of TBin ms).         *)
(* Accuracy of the fitted map and of the drift are measured on the real     *)
(* output (projection) and enter the trace specification as classes.        *)
(***************************************************************************)
EXTENDS Integers, Sequences, FiniteSets, TLC

CONSTANTS MaxN,         \* events of the true train: 2..MaxN
          MaxMiss,      \* events missing on each side: 0..MaxMiss
          MaxSpan,      \* spans (tmax - tmin) in ms: 1..MaxSpan
          TBin,         \* bin length in ms (the code's tbin = 0.1 s)
          Variant       \* "fixed" = current tree, "orig" = tree before the fix: commit

VARIABLES N, missA, missB, span
vars == <<N, missA, missB, span>>

-----------------------------------------------------------------------------
(* ground truth bookkeeping; events are numbered 1..n in time order, series indices are 0-based *)

Present(n, miss) == (1..n) \ miss
\* position of event e in a series from which the events `miss` were deleted
Idx(e, miss) == e - 1 - Cardinality({m \in miss : m < e})
TruePairs(n, ma, mb) == {<<Idx(e, ma), Idx(e, mb)>> : e \in Present(n, ma) \cap Present(n, mb)}

\* property layer: the returned index pairs (ia[k], ib[k]) against the truth
SoundP(pairs, truth) == pairs \subseteq truth
CompleteP(npairs, truth, slack) == npairs >= Cardinality(truth) - slack
\* "nearly all": at most 5 % of the true correspondences may be left out
Slack(truth) == Cardinality(truth) \div 20
WellFormedP(ia, ib, na, nb) ==
    /\ Len(ia) = Len(ib)
    /\ \A k \in DOMAIN ia : ia[k] \in 0..(na - 1) /\ ib[k] \in 0..(nb - 1)
    /\ \A k \in 1..(Len(ia) - 1) : ia[k] < ia[k + 1]

\* consistency of the bookkeeping itself
IdxIsOrderIsomorphism(n, miss) ==
    /\ {Idx(e, miss) : e \in Present(n, miss)} = 0..(Cardinality(Present(n, miss)) - 1)
    /\ \A e, f \in Present(n, miss) : e < f => Idx(e, miss) < Idx(f, miss)
TruthIsMonotoneMatching(n, ma, mb) ==
    LET t == TruePairs(n, ma, mb) IN
    /\ Cardinality(t) = Cardinality(Present(n, ma) \cap Present(n, mb))
    /\ \A p, q \in t : (p[1] < q[1]) <=> (p[2] < q[2])
    /\ \A p, q \in t : (p[1] = q[1]) <=> (p[2] = q[2])

Bookkeeping ==
    span = 0 =>
        /\ IdxIsOrderIsomorphism(N, missA) /\ IdxIsOrderIsomorphism(N, missB)
        /\ TruthIsMonotoneMatching(N, missA, missB)
        /\ SoundP(TruePairs(N, missA, missB), TruePairs(N, missA, missB))
        \* not vacuous: pairing an event with its neighbour is not sound
        /\ \A p \in TruePairs(N, missA, missB) : ~SoundP({<<p[1], p[2] + 1>>}, TruePairs(N, missA, missB))

-----------------------------------------------------------------------------
(* binning for the coarse cross-correlation; times in ms relative to tmin, S = tmax - tmin *)

CeilDiv(a, b) == -((-a) \div b)
\* x = np.zeros(int(np.ceil(tmax - tmin) / tbin))   [orig: the span is rounded up to whole seconds first]
\* x = np.zeros(int(np.ceil((tmax - tmin) / tbin)) + 1)   [fixed]
NBins(S) == IF Variant = "orig" THEN (CeilDiv(S, 1000) * 1000) \div TBin
            ELSE CeilDiv(S, TBin) + 1
\* x[np.int32(np.floor((ts - tmin) / tbin))] = 1
BinOf(t) == t \div TBin

\* property layer: every event of either series, the latest one included, has a bin
BinnedP(S, nbins) == \A t \in {0, S} : BinOf(t) \in 0..(nbins - 1)
Binned == span > 0 => BinnedP(span, NBins(span))

-----------------------------------------------------------------------------
Subsets(n, k) == {s \in SUBSET (1..n) : Cardinality(s) <= k}
InitBook == /\ N \in 2..MaxN /\ missA \in Subsets(N, MaxMiss) /\ missB \in Subsets(N, MaxMiss) /\ span = 0
InitBins == /\ N = 0 /\ missA = {} /\ missB = {} /\ span \in 1..MaxSpan
SpecBook == InitBook /\ [][FALSE]_vars
SpecBins == InitBins /\ [][FALSE]_vars
=============================================================================
