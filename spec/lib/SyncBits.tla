------------------------------ MODULE SyncBits ------------------------------
(***************************************************************************)
(* Decoding of 16-bit sync words into TTL lines (property C10, first half). *)
(*                                                                         *)
(* Implementation layer: one action per array operation of                 *)
(* spikeglx.split_sync                                                     *)
(*   View    = np.int16(x).view(np.uint8)   (two bytes, little endian)      *)
(*   Unpack  = np.unpackbits(...)           (each byte MSB first)           *)
(*   Roll    = np.roll(out, 8, axis=1)                                      *)
(*   Flip    = np.flip(out, axis=1)                                         *)
(* and of Reader.read_sync                                                 *)
(*   Analog  = one thresholded value per analog line, floor removed         *)
(*   Concat  = np.concatenate((digital, analog), axis=1)                    *)
(* Property layer: DecodeP, RowP speak about the returned row only.        *)
(***************************************************************************)
EXTENDS Integers, Sequences, FiniteSets, TLC

CONSTANTS Words,        \* signed int16 words explored by the model
          MaxNA,        \* analog lines 0..MaxNA
          Diffs,        \* raw(sample) - raw(floor) of an analog sample, explored by the model
          Thr           \* <<rn, rd, tn, td, maxint>> : range rn/rd volts, threshold tn/td volts

VARIABLES w, pc, bytes, bits, adiff, row

vars == <<w, pc, bytes, bits, adiff, row>>

-----------------------------------------------------------------------------
(* vocabulary shared by both layers *)
U16(sw) == sw % 65536                       \* two's complement view of an int16 (TLC: % is non-negative)
Pow2(k) == CASE k = 0 -> 1 [] k = 1 -> 2 [] k = 2 -> 4 [] k = 3 -> 8 [] k = 4 -> 16 [] k = 5 -> 32
             [] k = 6 -> 64 [] k = 7 -> 128 [] k = 8 -> 256 [] k = 9 -> 512 [] k = 10 -> 1024
             [] k = 11 -> 2048 [] k = 12 -> 4096 [] k = 13 -> 8192 [] k = 14 -> 16384 [] k = 15 -> 32768
Bit(u, k) == (u \div Pow2(k)) % 2

\* exact thresholding of an analog sample: (diff * range / maxint) >= threshold, in integers
\* th = <<rn, rd, tn, td, maxint>>
AboveThr(diff, th) == diff * th[1] * th[4] >= th[3] * th[5] * th[2]

-----------------------------------------------------------------------------
(* implementation layer *)
ByteBitsMSB(b) == [i \in 1..8 |-> Bit(b, 8 - i)]          \* np.unpackbits: big-endian bit order
RollRight(s, n) == [i \in 1..Len(s) |-> s[((i - 1 - n) % Len(s)) + 1]]   \* np.roll(s, n)
Reverse(s) == [i \in 1..Len(s) |-> s[Len(s) + 1 - i]]     \* np.flip

Init == /\ w \in Words
        /\ pc = "word" /\ bytes = <<>> /\ bits = <<>> /\ adiff = <<>> /\ row = <<>>

View == /\ pc = "word"
        /\ bytes' = <<U16(w) % 256, U16(w) \div 256>>       \* little endian: low byte first
        /\ pc' = "bytes"
        /\ UNCHANGED <<w, bits, adiff, row>>

Unpack == /\ pc = "bytes"
          /\ bits' = ByteBitsMSB(bytes[1]) \o ByteBitsMSB(bytes[2])
          /\ pc' = "unpacked"
          /\ UNCHANGED <<w, bytes, adiff, row>>

Roll == /\ pc = "unpacked"
        /\ bits' = RollRight(bits, 8)
        /\ pc' = "rolled"
        /\ UNCHANGED <<w, bytes, adiff, row>>

Flip == /\ pc = "rolled"
        /\ bits' = Reverse(bits)
        /\ pc' = "digital"
        /\ UNCHANGED <<w, bytes, adiff, row>>

\* Reader.read_sync: the analog lines of this sample (floor already subtracted: adiff = raw - floor)
Analog == /\ pc = "digital"
          /\ \E na \in 0..MaxNA : adiff' \in [1..na -> Diffs]
          /\ pc' = "analog"
          /\ UNCHANGED <<w, bytes, bits, row>>

Concat == /\ pc = "analog"
          /\ row' = bits \o [i \in 1..Len(adiff) |-> IF AboveThr(adiff[i], Thr) THEN 1 ELSE 0]
          /\ pc' = "row"
          /\ UNCHANGED <<w, bytes, bits, adiff>>

Next == View \/ Unpack \/ Roll \/ Flip \/ Analog \/ Concat
Spec == Init /\ [][Next]_vars

\* the whole of split_sync as a function (used by the trace spec to detect drift)
SplitSync(sw) ==
    LET u == U16(sw) IN Reverse(RollRight(ByteBitsMSB(u % 256) \o ByteBitsMSB(u \div 256), 8))

-----------------------------------------------------------------------------
(* property layer: over the word written and the lines / row returned *)

\* line k equals bit k of the word
DecodeP(sw, lines) == /\ Len(lines) = 16
                      /\ \A k \in 0..15 : lines[k + 1] = Bit(U16(sw), k)

\* a row of read_sync: digital lines first, then one thresholded value per analog line
RowP(sw, diffs, th, r) ==
    /\ Len(r) = 16 + Len(diffs)
    /\ DecodeP(sw, SubSeq(r, 1, 16))
    /\ \A i \in 1..Len(diffs) : r[16 + i] = (IF AboveThr(diffs[i], th) THEN 1 ELSE 0)

\* distinct words decode to distinct line vectors (no information lost): stated pointwise as
\* "the word is recovered from the lines"
Recompose(lines) == LET S[k \in 0..16] == IF k = 0 THEN 0 ELSE S[k - 1] + lines[k] * Pow2(k - 1) IN S[16]
InjectiveP(sw, lines) == Len(lines) = 16 /\ Recompose(lines) = U16(sw)

-----------------------------------------------------------------------------
(* the model's instances *)
Decode == pc \in {"digital", "analog", "row"} => DecodeP(w, bits)
Injective == pc \in {"digital", "analog", "row"} => InjectiveP(w, bits)
Row == pc = "row" => RowP(w, adiff, Thr, row)
Binary == pc = "row" => \A i \in 1..Len(row) : row[i] \in {0, 1}
=============================================================================
