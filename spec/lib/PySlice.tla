------------------------------ MODULE PySlice ------------------------------
(***************************************************************************)
(* Python / NumPy indexing along one axis of length n (property C01: "laid *)
(* out as NumPy indexing of the whole calibrated array would lay it out"). *)
(*                                                                         *)
(* A selector is a record                                                  *)
(*    [k |-> "int",   i |-> i]                      an integer             *)
(*    [k |-> "slice", a |-> start, b |-> stop, s |-> step]   (None below)  *)
(*    [k |-> "list",  l |-> <<i1, i2, ...>>]         list / integer array   *)
(* Sel(n, sel) = [dim |-> 0 | 1, idx |-> sequence of 0-based positions]:    *)
(* an integer drops the axis (dim 0, one position), the others keep it.    *)
(*                                                                         *)
(* SliceSeq is CPython's PySlice_AdjustIndices + range; SliceSet is the    *)
(* language reference's declarative wording; MC_ReaderIndex checks that    *)
(* they agree, harness/c01.py checks SliceSeq against NumPy itself.        *)
(* No constants, no variables.                                             *)
(***************************************************************************)
EXTENDS Integers, Sequences

\* TLC cannot compare a string with an integer: Python's None is the integer 10^6 (no length reaches it);
\* harness/c01.py uses the same convention in traces
None == 1000000
Min(a, b) == IF a < b THEN a ELSE b
Max(a, b) == IF a > b THEN a ELSE b
Clip(x, lo, hi) == Max(lo, Min(x, hi))

Step(s) == IF s = None THEN 1 ELSE s
\* slice.indices(n): start and stop after defaulting, wrapping of negatives and clipping
SliceStart(n, a, s) ==
    IF Step(s) > 0 THEN (IF a = None THEN 0 ELSE IF a < 0 THEN Max(a + n, 0) ELSE Min(a, n))
    ELSE (IF a = None THEN n - 1 ELSE IF a < 0 THEN Max(a + n, -1) ELSE Min(a, n - 1))
SliceStop(n, b, s) ==
    IF Step(s) > 0 THEN (IF b = None THEN n ELSE IF b < 0 THEN Max(b + n, 0) ELSE Min(b, n))
    ELSE (IF b = None THEN -1 ELSE IF b < 0 THEN Max(b + n, -1) ELSE Min(b, n - 1))
SliceLen(n, a, b, s) ==
    LET st == Step(s) lo == SliceStart(n, a, s) hi == SliceStop(n, b, s) IN
    IF st > 0 THEN (IF hi > lo THEN (hi - lo - 1) \div st + 1 ELSE 0)
    ELSE (IF hi < lo THEN (lo - hi - 1) \div (-st) + 1 ELSE 0)
\* the positions selected, in order
SliceSeq(n, a, b, s) == [k \in 1..SliceLen(n, a, b, s) |-> SliceStart(n, a, s) + (k - 1) * Step(s)]

\* the reference manual's wording: items x = i + m*k, m >= 0, "before" j in the direction of k, where omitted
\* bounds are the ends, negative bounds count from the end, and bounds past an end are reduced to it
SliceSet(n, a, b, s) ==
    LET st == Step(s)
        i == IF a = None THEN (IF st > 0 THEN 0 ELSE n - 1) ELSE IF a < 0 THEN a + n ELSE a
        j == IF b = None THEN (IF st > 0 THEN n ELSE -1) ELSE IF b < 0 THEN b + n ELSE b
        \* first position actually on the axis in the direction of travel
    IN IF st > 0
       THEN LET i0 == Max(i, 0) IN {x \in 0..(n - 1) : x >= i0 /\ x < j /\ (x - i0) % st = 0}
       ELSE LET i0 == Min(i, n - 1) IN {x \in 0..(n - 1) : x <= i0 /\ x > j /\ (i0 - x) % (-st) = 0}

IsMonotone(q, s) == \A k \in 1..(Len(q) - 1) : q[k + 1] - q[k] = Step(s)
Range(q) == {q[k] : k \in DOMAIN q}

\* integer index: negative counts from the end; defined for -n <= i < n only (NumPy raises otherwise)
IntValid(n, i) == -n <= i /\ i < n
IntIndex(n, i) == IF i < 0 THEN i + n ELSE i

SelValid(n, sel) ==
    CASE sel.k = "int" -> IntValid(n, sel.i)
      [] sel.k = "slice" -> Step(sel.s) # 0
      [] sel.k = "list" -> \A k \in DOMAIN sel.l : IntValid(n, sel.l[k])
Sel(n, sel) ==
    CASE sel.k = "int" -> [dim |-> 0, idx |-> <<IntIndex(n, sel.i)>>]
      [] sel.k = "slice" -> [dim |-> 1, idx |-> SliceSeq(n, sel.a, sel.b, sel.s)]
      [] sel.k = "list" -> [dim |-> 1, idx |-> [k \in 1..Len(sel.l) |-> IntIndex(n, sel.l[k])]]

Reverse(q) == [k \in 1..Len(q) |-> q[Len(q) + 1 - k]]
=============================================================================
