-------------------------- MODULE DestripePipeline --------------------------
(***************************************************************************)
(* Destriping (property C05): ibldsp.voltage.destripe / destripe_lfp and    *)
(* the spatial filters car / kfilt / fk with channel groups, agc,           *)
(* neuropixel.adc_shifts.                                                   *)
(*                                                                         *)
(* Three small models of the *discrete* structure the numeric code is      *)
(* threaded through:                                                        *)
(*  A. ADC time.  One sample period is C ticks (13 for NP1 / NPultra, 16    *)
(*     for NP2).  Channel c is converted at tick k_c of every period.  The   *)
(*     implementation layer is the loop of adc_shifts; the property layer    *)
(*     is the wiring of the probe (odd/even channels of consecutive blocks   *)
(*     share an ADC and are converted in channel order).  Re-alignment by s  *)
(*     moves the time label of a channel by -s*C ticks.                      *)
(*  B. Data flow of destripe: HighPass -> Realign -> Interpolate -> Spatial  *)
(*     as an influence relation between channels; labels decide who is       *)
(*     interpolated and who enters the spatial filter.                       *)
(*  C. Call tree of car / kfilt / fk when channel groups (collection) are    *)
(*     given: one child call per group, with which settings.                 *)
(* The dB / percent / rounding figures of the property are NOT decided here: they  *)
(* are measured on the real output by the harness (projection) and enter     *)
(* the trace specification as classes.                                       *)
(***************************************************************************)
EXTENDS Integers, Sequences, FiniteSets, TLC

CONSTANTS NCH,          \* channels of a probe (384)
          NB,           \* channels of the abstract data-flow / call-tree models (6)
          Variant,      \* "fixed" = group recursion forwards the settings (after the three fix: commits for car /
                        \* kfilt / fk, DESIGN 8 F6), "orig" = the recursion as it was before them
          NGRP          \* group names of the call-tree model: a collection maps each channel to one of 0..NGRP-1 (the code
                        \* takes any values - sparse, negative, float, strings, a list; the harness spells them so)

Gens == {"NP1", "NP2", "NPultra"}

-----------------------------------------------------------------------------
(* A. ADC time *)

\* implementation layer: neuropixel.adc_shifts
AdcChannels(g) == IF g = "NP2" THEN 16 ELSE 12       \* channels converted by one ADC
Cycles(g) == IF g = "NP2" THEN 16 ELSE 13            \* ticks per sample period (NP1: 12 AP + 1 LF slot)
\* adc = floor(arange(NC) / (adc_channels * 2)) * 2 + mod(arange(NC), 2)
AdcOf(g, c) == (c \div (AdcChannels(g) * 2)) * 2 + (c % 2)
\* for a in adc: sample_shift[adc == a] = arange(adc_channels) / n_cycles
\* i.e. the r-th channel (ascending) of an ADC gets r / n_cycles.  Numerator over Cycles(g):
ShiftNum(g, c) == Cardinality({d \in 0..(c - 1) : AdcOf(g, d) = AdcOf(g, c)})
ShiftTable(g) == [c \in 0..(NCH - 1) |-> ShiftNum(g, c)]

\* property layer: the wiring.  Channels come in blocks of 2*A; within a block the even channels hang on
\* one ADC and the odd ones on the next, each converted in channel order, one per tick.
PhysTick(g, c) == (c % (2 * AdcChannels(g))) \div 2
\* channel c holds, as its sample n, the signal at tick n*C + PhysTick.  After a delay of s = snum/C samples
\* its sample n holds the signal at tick n*C + PhysTick - snum.
LabelAfter(g, c, snum) == PhysTick(g, c) - snum
\* a disturbance common to all channels is the same on every channel after re-alignment iff all labels agree
AlignedP(g, snum) == \A c \in 0..(NCH - 1) : LabelAfter(g, c, snum[c]) = LabelAfter(g, 0, snum[0])
\* within an ADC the conversions are distinct and evenly spaced, one tick apart
EvenlySpacedP(g, snum) ==
    \A a \in {AdcOf(g, c) : c \in 0..(NCH - 1)} :
        {snum[c] : c \in {d \in 0..(NCH - 1) : AdcOf(g, d) = a}} = 0..(AdcChannels(g) - 1)

AdcFacts ==
    \A g \in Gens :
        LET t == ShiftTable(g) IN
        /\ AlignedP(g, t)
        /\ EvenlySpacedP(g, t)
        /\ \A c \in 0..(NCH - 1) : t[c] < Cycles(g)
        \* not vacuous: the opposite sign, no shift, or the table of another generation do not align
        /\ ~AlignedP(g, [c \in 0..(NCH - 1) |-> -t[c]])
        /\ ~AlignedP(g, [c \in 0..(NCH - 1) |-> 0])
        /\ \A g2 \in Gens : AdcChannels(g2) # AdcChannels(g) => ~AlignedP(g, ShiftTable(g2))

-----------------------------------------------------------------------------
(* B. data flow of destripe on NB channels on a line; Near = adjacent *)

VARIABLES labels,       \* [0..NB-1 -> 0..3], or <<>> when destripe is called without labels
          stage,        \* "in" -> "hp" -> "realigned" -> "interp" -> "out"
          infl,         \* set of <<j, i>> : input channel j influences channel i of the current stage
          spatialIn, spatialOut,    \* history: channels the spatial filter read / wrote
          (* C. call tree *)
          fn, settings, collection, todo, children

varsB == <<labels, stage, infl, spatialIn, spatialOut>>
varsC == <<fn, settings, collection, todo, children>>
vars == <<varsB, varsC>>

Chan == 0..(NB - 1)
Near(i, j) == i # j /\ (i - j \in {-1, 1})
HasLabels == labels # <<>>
Bad(i) == HasLabels /\ labels[i] \in {1, 2}
Outside(i) == HasLabels /\ labels[i] = 3
Inside == {i \in Chan : ~Outside(i)}
\* channels an interpolated channel is computed from: neighbours that are not themselves dead / noisy
Support(i) == {j \in Chan : Near(i, j) /\ ~Bad(j)}
\* input channels that influence some channel of the set src, under the influence relation r
Reads(r, src) == {p[1] : p \in {q \in r : q[2] \in src}}

InitB == /\ labels \in [Chan -> 0..3] \cup {<<>>}
         /\ stage = "in"
         /\ infl = {<<i, i>> : i \in Chan}
         /\ spatialIn = {} /\ spatialOut = {}

\* scipy.signal.sosfiltfilt(sos, x): along time, channel by channel
HighPass == /\ stage = "in" /\ stage' = "hp"
            /\ UNCHANGED <<labels, infl, spatialIn, spatialOut>>
\* fourier.fshift(x, h["sample_shift"], axis=1): along time, channel by channel
Realign == /\ stage = "hp" /\ stage' = "realigned"
           /\ UNCHANGED <<labels, infl, spatialIn, spatialOut>>
\* interpolate_bad_channels: a dead / noisy channel is replaced by a weighted sum of its support (zero if none);
\* the weights of dead / noisy channels are zero, so the order of the loop does not matter
Interpolate ==
    /\ stage = "realigned" /\ stage' = "interp"
    /\ infl' = IF HasLabels
               THEN {p \in infl : ~Bad(p[2])} \cup
                    UNION {{<<j, i>> : j \in Reads(infl, Support(i))} : i \in {k \in Chan : Bad(k)}}
               ELSE infl
    /\ UNCHANGED <<labels, spatialIn, spatialOut>>
\* x[inside_brain, :] = spatial_fcn(x[inside_brain, :])   (all channels when there are no labels)
Spatial ==
    /\ stage = "interp" /\ stage' = "out"
    /\ spatialIn' = Inside /\ spatialOut' = Inside
    /\ infl' = {p \in infl : p[2] \notin Inside} \cup (Reads(infl, Inside) \X Inside)
    /\ UNCHANGED labels

NextB == (HighPass \/ Realign \/ Interpolate \/ Spatial) /\ UNCHANGED varsC

\* the relation the four stages compose to, as a function of the labels (lab = <<>> : no labels); the model
\* checks that the actions arrive exactly here (FlowAgrees), the trace specification compares it with the
\* influence observed on the real code
FlowFinal(lab) ==
    LET bad(i) == lab # <<>> /\ lab[i] \in {1, 2}
        inside == {i \in Chan : ~(lab # <<>> /\ lab[i] = 3)}
        supp(i) == {j \in Chan : Near(i, j) /\ ~bad(j)}
        r0 == {<<i, i>> : i \in Chan}
        r1 == {p \in r0 : ~bad(p[2])} \cup UNION {{<<j, i>> : j \in Reads(r0, supp(i))} : i \in {k \in Chan : bad(k)}}
    IN {p \in r1 : p[2] \notin inside} \cup (Reads(r1, inside) \X inside)
FlowInfl(lab, j) == {i \in Chan : <<j, i>> \in FlowFinal(lab)}
NearBad(lab, j) == lab # <<>> /\ \E k \in Chan : lab[k] \in {1, 2} /\ Near(k, j) /\ lab[j] \notin {1, 2}
FlowAgrees == stage = "out" => infl = FlowFinal(labels)

\* property layer (observables: labels, which outputs change when an input channel is perturbed)
\* an outside channel is neither read nor written by the spatial filter ...
ExcludedP(lab, sIn, sOut) == \A i \in DOMAIN lab : lab[i] = 3 => (i \notin sIn /\ i \notin sOut)
\* ... so its output depends on its own input only, and it reaches another channel only through the
\* interpolation of a dead / noisy neighbour (nearbad: some dead / noisy channel has j in its support)
NoLeakP(labj, nearbad, othersChanged) == (labj = 3 /\ ~nearbad) => othersChanged = 0
OwnInputOnlyP(labj, rowIsUnfiltered) == labj = 3 => rowIsUnfiltered

ExcludedInv == (stage = "out" /\ HasLabels) => ExcludedP(labels, spatialIn, spatialOut)
NoLeakInv ==
    (stage = "out" /\ HasLabels) =>
        \A j \in Chan :
            /\ NoLeakP(labels[j], (\E k \in Chan : Bad(k) /\ j \in Support(k)),
                       Cardinality({i \in Chan : i # j /\ <<j, i>> \in infl}))
            /\ OwnInputOnlyP(labels[j], {q \in Chan : <<q, j>> \in infl} = {j})
\* without labels every channel is filtered
AllFilteredInv == (stage = "out" /\ ~HasLabels) => spatialIn = Chan

-----------------------------------------------------------------------------
(* C. call tree of car / kfilt / fk with channel groups *)

\* settings the property speaks about ("the same filter, gain-control and operator settings"), per function
PropKeys(f) == IF f = "car" THEN {"operator"}
               ELSE IF f = "kfilt" THEN {"butter", "lagc"}
               ELSE {"vbounds", "btype", "kfilt", "lagc", "si", "dx"}
\* everything a call carries (padding is not fixed by the property)
AllKeys(f) == IF f = "car" THEN {"operator"}
              ELSE IF f = "kfilt" THEN {"butter", "lagc", "ntr_pad", "ntr_tap"}
              ELSE {"vbounds", "btype", "kfilt", "lagc", "si", "dx", "ntr_pad", "ntr_tap"}
Default(f) == IF f = "car" THEN [operator |-> "median"]
              ELSE IF f = "kfilt" THEN [butter |-> "default", lagc |-> 300, ntr_pad |-> 0, ntr_tap |-> -1]
              ELSE [vbounds |-> "none", btype |-> "highpass", kfilt |-> "none", lagc |-> 500, si |-> 2, dx |-> 1,
                    ntr_pad |-> 0, ntr_tap |-> -1]
SettingsOf(f) ==
    IF f = "car" THEN [operator : {"median", "average"}]
    ELSE IF f = "kfilt" THEN [butter : {"default", "b2"}, lagc : {0, 300, 3000}, ntr_pad : {0, 60}, ntr_tap : {-1, 0}]
    ELSE [vbounds : {"v1"}, btype : {"highpass", "lowpass"}, kfilt : {"none", "k1"}, lagc : {0, 500, 250}, si : {2},
          dx : {1, 5}, ntr_pad : {0, 10}, ntr_tap : {-1, 15}]

\* implementation layer: the arguments of the recursive call, as written in the code
Forward(f, s) ==
    IF f = "car"
    THEN (IF Variant = "orig" THEN Default("car")                         \* car(x=x[sel], collection=None, **kwargs)
          ELSE [operator |-> s.operator])
    ELSE IF f = "kfilt"
    THEN (IF Variant = "orig"
          THEN [Default("kfilt") EXCEPT !.butter = s.butter]              \* ntr_pad=0, ntr_tap=None, butter_kwargs only
          ELSE [Default("kfilt") EXCEPT !.butter = s.butter, !.lagc = s.lagc])
    ELSE (IF Variant = "orig"
          THEN [s EXCEPT !.btype = "highpass", !.kfilt = "none"]          \* btype / kfilt not passed on
          ELSE s)

Groups(col) == {col[i] : i \in DOMAIN col}
RowsOf(col, c) == {i \in DOMAIN col : col[i] = c}

InitC == /\ fn \in {"car", "kfilt", "fk"}
         /\ settings \in SettingsOf(fn)
         /\ collection \in [Chan -> 0..(NGRP - 1)] \cup {<<>>}
         /\ todo = (IF collection = <<>> THEN {} ELSE Groups(collection))
         /\ children = <<>>

\* for c in np.unique(collection): xout[sel, :] = f(x[sel, :], ..., collection=None)   (ascending c)
IssueChild ==
    /\ todo # {}
    /\ LET c == CHOOSE m \in todo : \A k \in todo : m <= k IN
         /\ children' = Append(children, [fn |-> fn, settings |-> Forward(fn, settings), rows |-> RowsOf(collection, c),
                                          collection |-> <<>>])
         /\ todo' = todo \ {c}
    /\ UNCHANGED <<fn, settings, collection>>

NextC == IssueChild /\ UNCHANGED varsB

\* property layer: observed parent call and observed child calls
LeafSettingsP(f, parentSettings, childSettings) ==
    \A k \in PropKeys(f) : childSettings[k] = parentSettings[k]
GroupsPartitionP(col, childRows) ==      \* childRows: sequence of row sets
    /\ {childRows[i] : i \in DOMAIN childRows} = {RowsOf(col, c) : c \in Groups(col)}
    /\ Len(childRows) = Cardinality(Groups(col))

LeafSettingsInv ==
    \A i \in DOMAIN children : LeafSettingsP(fn, settings, children[i].settings) /\ children[i].collection = <<>>
GroupsPartitionInv ==
    (todo = {} /\ collection # <<>>) => GroupsPartitionP(collection, [i \in DOMAIN children |-> children[i].rows])

-----------------------------------------------------------------------------
\* the two models do not interact: one specification each (the other model's variables are parked)
ParkB == labels = <<>> /\ stage = "parked" /\ infl = {} /\ spatialIn = {} /\ spatialOut = {}
ParkC == fn = "none" /\ settings = <<>> /\ collection = <<>> /\ todo = {} /\ children = <<>>
SpecFlow == (InitB /\ ParkC) /\ [][NextB]_vars
SpecTree == (InitC /\ ParkB) /\ [][NextC]_vars
=============================================================================
