---------------------------- MODULE ReaderIndex ----------------------------
(***************************************************************************)
(* spikeglx.Reader.read / __getitem__ (property C01).                      *)
(*                                                                         *)
(* A recording has ns samples and nc on-disk channels (columns 0..nc-1).    *)
(* The value the reader returns for one cell is abstracted to a *token*    *)
(*        <<t, c, q>>  =  float32(raw[t, c]) * factor of gain class q       *)
(* (t sample, c on-disk column, q gain class; class 0 = "unit", the factor  *)
(* 1 of sync channels).  harness/c01.py evaluates tokens on concrete random *)
(* int16 data (spec -> code) and decodes returned values into tokens        *)
(* (code -> spec).  gain = sequence: on-disk column c has class gain[c+1].   *)
(* order = sequence: returned column i is on-disk column order[i+1].         *)
(* A result is [shape |-> <<..>>, toks |-> tokens in C order].              *)
(*                                                                         *)
(* Implementation layer: Read = the statements of Reader.read              *)
(*     csel = raw_channel_order[csel]                                       *)
(*     darray = _raw[nsel, :].astype(float32)[..., csel]                    *)
(*     darray *= channel_conversion_sample2v[type][csel]                    *)
(* with _raw[nsel, :] = NumPy indexing of the memmap (bin) or               *)
(* mtscomp.Reader.__getitem__ (cbin: chunked, forward only) preceded by     *)
(* the negative-step branch of Reader._read_raw ("fixed"; "orig" = the      *)
(* tree before that fix: commit), and GetItem = the int|slice|2-tuple       *)
(* dispatch.  Property layer: RefRead = index the whole calibrated array.   *)
(* No constants, no variables.                                             *)
(***************************************************************************)
EXTENDS Integers, Sequences, PySlice

Tok(t, c, q) == <<t, c, q>>
\* rows x cols -> result (an "int" selector drops its axis)
Outer(rsel, csel, Cell(_, _)) ==
    [shape |-> (IF rsel.dim = 1 THEN <<Len(rsel.idx)>> ELSE <<>>) \o (IF csel.dim = 1 THEN <<Len(csel.idx)>> ELSE <<>>),
     toks |-> [k \in 1..(Len(rsel.idx) * Len(csel.idx)) |->
                    Cell(rsel.idx[(k - 1) \div Len(csel.idx) + 1], csel.idx[((k - 1) % Len(csel.idx)) + 1])]]

-----------------------------------------------------------------------------
(* implementation layer *)

\* mtscomp.Reader: chunks of K samples, bounds 0, K, 2K, .., ns
MtsValidate(ns, i, dflt) == Clip(IF i = None THEN dflt ELSE IF i < 0 THEN i + ns ELSE i, 0, ns)
MtsSlice(ns, K, a, b, s) ==
    LET i0 == MtsValidate(ns, a, 0)
        i1 == MtsValidate(ns, b, ns)
    IN IF i1 <= i0 THEN <<>>
       ELSE LET first == Clip(i0, 0, ns - 1) \div K
                last == Clip(i1, i0, ns - 1) \div K
                base == K * first
                L == Min(K * (last + 1), ns) - base            \* samples in the concatenated chunks
                q == SliceSeq(L, i0 - base, i1 - base, s)       \* arr[a:b:step]
            IN [k \in 1..Len(q) |-> base + q[k]]
\* mtscomp integer: negatives wrapped, then self[i:i+1][0]
MtsInt(ns, K, i) == MtsSlice(ns, K, IntIndex(ns, i), IntIndex(ns, i) + 1, None)

\* Reader._read_raw: rows of _raw[nsel, :]
RawRows(variant, fmt, ns, K, nsel) ==
    IF fmt = "bin" THEN Sel(ns, nsel)
    ELSE CASE nsel.k = "int" -> [dim |-> 0, idx |-> MtsInt(ns, K, nsel.i)]
           [] nsel.k = "slice" ->
                IF variant = "fixed" /\ Step(nsel.s) < 0
                THEN LET ind == SliceSeq(ns, nsel.a, nsel.b, nsel.s)     \* range(*nsel.indices(ns)), descending
                     IN [dim |-> 1, idx |-> IF Len(ind) = 0 THEN <<>>
                                            ELSE Reverse(MtsSlice(ns, K, ind[Len(ind)], ind[1] + 1, -nsel.s))]
                ELSE [dim |-> 1, idx |-> MtsSlice(ns, K, nsel.a, nsel.b, nsel.s)]
           \* lists raise NotImplementedError in mtscomp: outside the property's quantifier
           [] OTHER -> [dim |-> 1, idx |-> <<>>]

\* Reader.read
Read(variant, fmt, ns, K, order, gain, nsel, csel) ==
    LET sel == Sel(Len(order), csel)
        raw == [dim |-> sel.dim, idx |-> [k \in 1..Len(sel.idx) |-> order[sel.idx[k] + 1]]]   \* raw_channel_order[csel]
        rows == RawRows(variant, fmt, ns, K, nsel)
        gains == [k \in 1..Len(raw.idx) |-> gain[raw.idx[k] + 1]]                           \* s2v[csel]
    IN [shape |-> (IF rows.dim = 1 THEN <<Len(rows.idx)>> ELSE <<>>) \o (IF raw.dim = 1 THEN <<Len(raw.idx)>> ELSE <<>>),
        toks |-> [k \in 1..(Len(rows.idx) * Len(raw.idx)) |->
                     Tok(rows.idx[(k - 1) \div Len(raw.idx) + 1], raw.idx[((k - 1) % Len(raw.idx)) + 1],
                         gains[((k - 1) % Len(raw.idx)) + 1])]]

AllCols == [k |-> "slice", a |-> None, b |-> None, s |-> None]
\* Reader.__getitem__: item = <<nsel>> (int or slice alone) or <<nsel, csel>>
GetItem(variant, fmt, ns, K, order, gain, item) ==
    IF Len(item) = 1 THEN Read(variant, fmt, ns, K, order, gain, item[1], AllCols)
    ELSE Read(variant, fmt, ns, K, order, gain, item[1], item[2])

-----------------------------------------------------------------------------
(* property layer *)

\* the whole calibrated array in returned layout: cell (t, i) = sample t of on-disk column order[i] with that column's
\* own factor; indexing it the NumPy way (selector on samples, selector on columns)
RefRead(ns, order, gain, nsel, csel) ==
    Outer(Sel(ns, nsel), Sel(Len(order), csel), LAMBDA t, i : Tok(t, order[i + 1], gain[order[i + 1] + 1]))
ReadP(ns, order, gain, nsel, csel, OBS) == OBS = RefRead(ns, order, gain, nsel, csel)
\* clauses of the same statement, named separately for the verdict
ShapeP(ns, order, nsel, csel, OBS) == OBS.shape = RefRead(ns, order, [i \in 1..Len(order) |-> 0], nsel, csel).shape
OwnGainP(gain, OBS) == \A k \in 1..Len(OBS.toks) : OBS.toks[k][2] \in 0..(Len(gain) - 1) /\ OBS.toks[k][3] = gain[OBS.toks[k][2] + 1]
SyncUnitP(nc, nsync, OBS) == \A k \in 1..Len(OBS.toks) : OBS.toks[k][2] >= nc - nsync => OBS.toks[k][3] = 0
\* order demanded by the property: sorting on -> data columns by (shank, row, -col) of the site table (keys = sequence
\* of <<shank, row, -col>> per on-disk data column), sync columns stay; sorting off -> on-disk order
LexLess3(a, b) == a[1] < b[1] \/ (a[1] = b[1] /\ (a[2] < b[2] \/ (a[2] = b[2] /\ a[3] < b[3])))
IsOrderP(keys, nc, srt, ORDER) ==
    /\ Len(ORDER) = nc
    /\ {ORDER[i] : i \in 1..nc} = 0..(nc - 1)
    /\ \A i \in (Len(keys) + 1)..nc : ORDER[i] = i - 1
    /\ \A i \in 1..Len(keys) : ORDER[i] \in 0..(Len(keys) - 1)
    /\ IF srt THEN \A i \in 1..(Len(keys) - 1) : LexLess3(keys[ORDER[i] + 1], keys[ORDER[i + 1] + 1])
       ELSE \A i \in 1..Len(keys) : ORDER[i] = i - 1
=============================================================================
