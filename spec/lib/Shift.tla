------------------------------- MODULE Shift -------------------------------
(***************************************************************************)
(* Fourier time shift (property C07): ibldsp.fourier.fshift, the delay      *)
(* estimator waveforms.wave_shift_corrmax / shift_waveform and               *)
(* utils.parabolic_max.                                                     *)
(*                                                                         *)
(* What is modelled is the *discrete* skeleton of the computation; all       *)
(* arithmetic is on integers:                                                *)
(*  - a trace of length n is followed on the impulse basis.  In the          *)
(*    frequency domain the code works in, the basis vector e_i is the phase *)
(*    ramp  k |-> -k*i/n turns  (k = 0..n \div 2, the rfft bins).  Phases    *)
(*    are kept as numerators over n*D turns, D the denominator of the shifts.*)
(*  - implementation layer: one action per fshift call, shaped like the     *)
(*    code: the one-sample ramp (rfft of the delayed impulse), the reshape  *)
(*    of the shift vector to the array shape with the shift axis set to 1,  *)
(*    NumPy broadcasting of that vector over the frequency-domain array,     *)
(*    multiplication (= addition of phases), irfft (keeps only the real      *)
(*    part of the Nyquist bin), astype.                                      *)
(*  - property layer: statements about time-domain observables only: the    *)
(*    index an impulse lands on, the delay of a trace, shape, dtype, whether *)
(*    the caller's array was written to.                                     *)
(* The sizes of residuals (1e-5, 1e-10, 0.05 sample) are *not* decided here; *)
(* they are measured by the harness on the real output (projection).         *)
(***************************************************************************)
EXTENDS Integers, Sequences, FiniteSets, TLC

CONSTANTS Lens,         \* trace lengths n
          NTraces,      \* numbers of traces of 2-D arrays; 0 stands for a 1-D array
          Dens,         \* denominators of the shifts
          MaxCalls      \* successive calls followed (2 is enough for additivity)

VARIABLES n, ntr, axis, D,      \* the case: length, traces, shift axis (0-based), denominator
          basis,                \* trace t holds the impulse e_((t + basis) % n)
          ph,                   \* [trace -> [bin -> phase numerator mod n*D]] : frequency-domain array
          nyq,                  \* [trace -> "unit" | "atten"] : Nyquist bin still a pure phase?
          want,                 \* history: [trace -> cumulative delay numerator the caller asked for]
          ncalls,
          shape, dtype, untouched, oshape, odtype   \* stuttering observables of the call

vars == <<n, ntr, axis, D, basis, ph, nyq, want, ncalls, shape, dtype, untouched, oshape, odtype>>

Traces == 0..(IF ntr = 0 THEN 0 ELSE ntr - 1)
Bins(len) == 0..(len \div 2)
Rank == IF ntr = 0 THEN 1 ELSE 2

-----------------------------------------------------------------------------
(* NumPy index arithmetic used by the code *)

\* row-major ravel of a 0-based multi-index
RECURSIVE RavelFrom(_, _, _)
RavelFrom(idx, shp, i) ==
    IF i > Len(shp) THEN 0
    ELSE LET rest == RavelFrom(idx, shp, i + 1)
             RECURSIVE Stride(_)
             Stride(j) == IF j > Len(shp) THEN 1 ELSE shp[j] * Stride(j + 1)
         IN idx[i] * Stride(i + 1) + rest
Ravel(idx, shp) == RavelFrom(idx, shp, 1)

\* s_shape = np.array(w.shape); s_shape[axis] = 1 ; s = s.reshape(s_shape)
SShape(shp, ax) == [i \in 1..Len(shp) |-> IF i = ax + 1 THEN 1 ELSE shp[i]]
\* broadcasting: along a dimension of size one the same entry is used
\* element of the flat shift vector (0-based) that multiplies array element idx
SIndex(idx, shp, ax) ==
    LET ss == SShape(shp, ax)
    IN Ravel([i \in 1..Len(shp) |-> IF ss[i] = 1 THEN 0 ELSE idx[i]], ss)

\* array element (multi-index) holding frequency bin k of trace t
Elem(t, k) == IF ntr = 0 THEN <<k>> ELSE IF axis = 0 THEN <<k, t>> ELSE <<t, k>>

-----------------------------------------------------------------------------
(* implementation layer *)

\* rfft of the impulse delayed by one sample: bin k has angle -k/n turns (np.angle wraps it into
\* (-1/2, 1/2], which for k <= n/2 leaves it as it is; at k = n/2 the sign of the half turn is
\* immaterial because irfft discards the imaginary part of that bin)
Ramp1(k) == -k

\* phase ramp of the basis vector e_i delayed by d/D samples, as numerators over n*D turns
RampOf(len, den, i, d) == [k \in Bins(len) |-> (-(k * (i * den + d))) % (len * den)]

SNums(len, den) ==      \* shifts in (-n, n) as numerators over den; a thinned set for large den
    IF den <= 16 THEN (1 - len * den)..(len * den - 1)
    ELSE {m \in (1 - len * den)..(len * den - 1) : m % 25 = 0 \/ m % den \in {1, 7, den - 1}}

Init == /\ n \in Lens /\ ntr \in NTraces /\ D \in Dens
        /\ axis \in (IF ntr = 0 THEN {0} ELSE {0, 1})
        /\ basis \in 0..(n - 1)
        /\ ph = [t \in Traces |-> RampOf(n, D, (t + basis) % n, 0)]
        /\ nyq = [t \in Traces |-> "unit"]
        /\ want = [t \in Traces |-> 0]
        /\ ncalls = 0
        /\ shape = (IF ntr = 0 THEN <<n>> ELSE IF axis = 0 THEN <<n, ntr>> ELSE <<ntr, n>>)
        /\ dtype \in {"f4", "f8"}
        /\ untouched = TRUE /\ oshape = shape /\ odtype = dtype

\* one call fshift(w, s, axis): svec is the flat shift vector (numerators), one entry when scalar
Call(svec, scalar) ==
    /\ ncalls < MaxCalls
    /\ ncalls' = ncalls + 1
    \* W = rfft(w) is a new array; W *= exp(1j * angle(dephas) * s) with s broadcast over it
    /\ ph' = [t \in Traces |-> [k \in Bins(n) |->
                LET sv == IF scalar THEN svec[1] ELSE svec[SIndex(Elem(t, k), shape, axis) + 1]
                IN (ph[t][k] + Ramp1(k) * sv) % (n * D)]]
    \* irfft keeps the real part of the Nyquist bin only: a fractional shift attenuates it
    /\ nyq' = [t \in Traces |->
                LET sv == IF scalar THEN svec[1] ELSE svec[SIndex(Elem(t, n \div 2), shape, axis) + 1]
                IN IF n % 2 = 0 /\ sv % D # 0 THEN "atten" ELSE nyq[t]]
    \* what the caller asked for: the t-th trace (C order of the other axis) is delayed by s[t]
    /\ want' = [t \in Traces |-> want[t] + (IF scalar THEN svec[1] ELSE svec[t + 1])]
    \* W = real(irfft(W, ns, axis)).astype(w.dtype): same shape, same dtype, w itself never written
    /\ oshape' = shape /\ odtype' = dtype /\ untouched' = untouched
    /\ UNCHANGED <<n, ntr, axis, D, basis, shape, dtype>>

\* the second call of a 2-D case re-uses the first vector (as is / reversed) or a scalar: additivity is
\* a per-trace statement, so nothing is lost, and the box stays small
Reverse(sq) == [i \in 1..Len(sq) |-> sq[Len(sq) + 1 - i]]
Next ==
    \/ \E s \in SNums(n, D) : Call(<<s>>, TRUE)
    \/ /\ ntr > 0 /\ ncalls = 0
       /\ \E sv \in [1..ntr -> SNums(n, D)] : Call(sv, FALSE)
    \/ /\ ntr > 0 /\ ncalls > 0
       /\ \E sv \in {[t \in 1..ntr |-> want[t - 1]], Reverse([t \in 1..ntr |-> want[t - 1]])} :
             (\A t \in 1..ntr : sv[t] \in SNums(n, D)) /\ Call(sv, FALSE)

Spec == Init /\ [][Next]_vars

-----------------------------------------------------------------------------
(* property layer: time-domain observables *)

\* the sample an impulse at i is found at after an integer delay of m samples: circular roll
RollP(len, i, m, j) == j = (i + m) % len

\* the observed index map of a trace (mp[i] = where e_i went) is the roll by m
RollMapP(len, mp, m) == \A i \in 0..(len - 1) : RollP(len, i, m, mp[i])

\* delays compose additively: the total delay observed is the sum asked for (mod the period)
DelayP(len, den, observed, asked) == observed % (len * den) = asked % (len * den)

ShapeDtypeP(shp, dt, oshp, odt) == oshp = shp /\ odt = dt
UntouchedP(u) == u = TRUE

\* delay estimate (in 1/100 sample) within a few hundredths of the applied one
EstimateP(applied100, est100) == est100 - applied100 \in -5..5

-----------------------------------------------------------------------------
(* the model's instances of the property layer: decode the frequency-domain state *)

\* position of the impulse a phase vector stands for, -1 if it is not an impulse at an integer position
\* (bin 1 exists for every n >= 2 and determines the candidate; all bins must agree)
Decode(pv) ==
    LET j == IF pv[1] % D = 0 THEN (-(pv[1] \div D)) % n ELSE -1
    IN IF j >= 0 /\ pv = RampOf(n, D, j, 0) THEN j ELSE -1

\* (an impulse has Nyquist content: for an even length the statement needs every shift so far to have
\* been an integer, see NyquistNote; below Nyquist IsDelay says it for any shifts)
IntegerShiftIsRoll ==
    \A t \in Traces : (want[t] % D = 0 /\ nyq[t] = "unit") =>
        RollP(n, (t + basis) % n, want[t] \div D, Decode(ph[t]))
ZeroIsIdentity ==
    \A t \in Traces : (want[t] = 0 /\ nyq[t] = "unit") => Decode(ph[t]) = (t + basis) % n
\* every bin carries exactly the phase of the delay asked for: composition adds delays, and each trace
\* got its own entry of the vector
IsDelay ==
    \A t \in Traces : ph[t] = RampOf(n, D, (t + basis) % n, want[t])
\* below Nyquist nothing else happens; the Nyquist bin of an even length is a pure phase as long as
\* every shift applied so far was an integer
NyquistNote ==
    \A t \in Traces : nyq[t] = "atten" => n % 2 = 0
ShapeDtype == ShapeDtypeP(shape, dtype, oshape, odtype)
Untouched == UntouchedP(untouched)

-----------------------------------------------------------------------------
(* parabolic_max: three-point parabolic interpolation of the maximum (utils.parabolic_max), on   *)
(* integer-valued vectors, exact rational result <<num, den>> with den > 0                        *)

\* np.argmax: first occurrence of the maximum (0-based)
ArgMax(v) == CHOOSE i \in 1..Len(v) : (\A j \in 1..Len(v) : v[j] <= v[i]) /\ (\A j \in 1..(i - 1) : v[j] < v[i])

Min(a, b) == IF a < b THEN a ELSE b
Max(a, b) == IF a > b THEN a ELSE b

\* returns <<ipeak_num, ipeak_den, max_num, max_den>>
Parabolic(v) ==
    LET len == Len(v)
        im == ArgMax(v)                           \* 1-based
        a == v[Max(im - 1, 1)]  b == v[im]  c == v[Min(im + 1, len)]
        p0 == a - 2 * b + c                       \* 2*poly[0]
        p1 == c - a                               \* 2*poly[1]
    IN IF im = 1 \/ im = len \/ p0 = 0 THEN <<im - 1, 1, b, 1>>      \* edges; flat top: ipeak = imax
       ELSE \* ipeak = imax - p1/(2 p0) ; maxi = b + ipk*p1/2 + ipk^2*p0/2 with ipk = -p1/(2 p0)
            \*       = b - p1^2/(8 p0)
            <<(im - 1) * 2 * (-p0) + p1, 2 * (-p0), b * 8 * (-p0) + p1 * p1, 8 * (-p0)>>

\* property layer for the interpolation, on an observed result (num/den)
\* (a) the interpolated peak lies within half a sample of the largest sample
WithinHalfP(v, r) == LET im == ArgMax(v) - 1 IN
    /\ 2 * r[1] >= (2 * im - 1) * r[2] /\ 2 * r[1] <= (2 * im + 1) * r[2]
\* (b) on samples of a parabola  -(Q*i - P)^2  (vertex at P/Q, strictly inside) the vertex is returned exactly
ParabolaSamples(len, P, Q) == [i \in 1..len |-> -((Q * (i - 1) - P) * (Q * (i - 1) - P))]
ExactOnParabolaP(len, P, Q, r) ==
    LET v == ParabolaSamples(len, P, Q)  im == ArgMax(v) IN
    (im > 1 /\ im < len) => r[1] * Q = P * r[2] /\ r[3] = 0
\* (c) centre of scipy's 'same' cross-correlation of two length-n vectors = lag zero
SameCentre(len) == (len - 1) - ((2 * len - 1 - len) \div 2)
CentreP(len, c) == c = len \div 2
=============================================================================
