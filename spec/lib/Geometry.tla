------------------------------ MODULE Geometry ------------------------------
(***************************************************************************)
(* Probe geometry of spikeglx.geometry_from_meta / neuropixel.trace_header *)
(* (property C08; the sort order is re-used by ReaderIndex for C01).        *)
(*                                                                         *)
(* All integer.  A *site* is <<shank, row, col>> in the IBL convention of   *)
(* neuropixel.py.  A recording's site table is a sequence of sites in      *)
(* on-disk channel order (entry k = channel k, 0-based k = position - 1).  *)
(* A site may carry a fourth component, the draw flag SpikeGLX writes for  *)
(* it (0 for reference / disabled sites, 1 otherwise; absent = 1): it is    *)
(* data that travels with the site, not part of its identity.              *)
(*                                                                         *)
(* Implementation layer: one operator per statement group of the code      *)
(*   MapChannels  = _map_channels_from_meta  (what is parsed from the text) *)
(*   Convert      = the x/y <-> row/col branch of geometry_from_meta        *)
(*                  (NP1 column flip, 20 um tip offset, xy2rc / rc2xy)      *)
(*   AdcShifts    = neuropixel.adc_shifts(version, nc)[:n]                  *)
(*   SplitShanks  = _split_geometry_into_shanks, then ind = arange          *)
(*   SortHeader   = lexsort((-col, row, shank)) and joint re-indexing       *)
(*   Header       = their composition; DenseLayout/TraceHeader/SplitHeader  *)
(*                  = neuropixel.dense_layout/trace_header/split_trace_hdr. *)
(* spec/mc/MC_Geometry.tla steps through them as a state machine.          *)
(* Property layer (bottom): formulas over a site table and *observed*       *)
(* headers only; the model instantiates them with the operators above, the *)
(* trace spec with what the real code returned.                            *)
(* This module has no constants and no variables: INSTANCE it freely.      *)
(***************************************************************************)
EXTENDS Integers, Sequences, FiniteSets, TLC

Gens == {"NP1", "NP2", "NPU"}

\* neuropixel.CHANNEL_GRID (+ the extent of the physical site grids)
Grid(g) ==
    CASE g = "NP1" -> [DX |-> 16, X0 |-> 11, DY |-> 20, Y0 |-> 20, ncol |-> 4, nrow |-> 480, nshank |-> 1]
      [] g = "NP2" -> [DX |-> 32, X0 |-> 27, DY |-> 15, Y0 |-> 20, ncol |-> 2, nrow |-> 640, nshank |-> 4]
      [] g = "NPU" -> [DX |-> 6,  X0 |-> 0,  DY |-> 6,  Y0 |-> 0,  ncol |-> 8, nrow |-> 48,  nshank |-> 1]

\* NP1 is a checkerboard: even rows use columns 0 and 2, odd rows 1 and 3
OnGrid(g, s) ==
    /\ s[1] \in 0..(Grid(g).nshank - 1)
    /\ s[2] \in 0..(Grid(g).nrow - 1)
    /\ s[3] \in 0..(Grid(g).ncol - 1)
    /\ g = "NP1" => s[3] % 2 = s[2] % 2

\* identity of a site / its draw flag (<<shank, row, col>> or <<shank, row, col, flag>>)
Site3(s) == <<s[1], s[2], s[3]>>
FlagOf(s) == IF Len(s) >= 4 THEN s[4] ELSE 1

RC2XY(g, row, col) == <<Grid(g).X0 + Grid(g).DX * col, Grid(g).Y0 + Grid(g).DY * row>>
\* the code divides in floating point; on the grid the quotient is exact (XYExact)
XY2RC(g, x, y) == <<(y - Grid(g).Y0) \div Grid(g).DY, (x - Grid(g).X0) \div Grid(g).DX>>
XYExact(g, x, y) == (y - Grid(g).Y0) % Grid(g).DY = 0 /\ (x - Grid(g).X0) % Grid(g).DX = 0

-----------------------------------------------------------------------------
(* the two metadata encodings of a site (what SpikeGLX writes)                                 *)
\* snsShankMap (shank:col:row:flag) -- NP1 numbers the two sites of a row right to left
ShankMapEntry(g, s) ==
    [shank |-> s[1], col |-> IF g = "NP1" THEN (2 + (s[2] % 2) - s[3]) \div 2 ELSE s[3], row |-> s[2], flag |-> FlagOf(s)]
\* snsGeomMap (shank:x:y:flag) -- x mirrored on NP1, y measured from the first site (no tip offset)
GeomMapEntry(g, s) ==
    [shank |-> s[1],
     x |-> IF g = "NP1" THEN 70 - (Grid(g).X0 + Grid(g).DX * s[3]) ELSE Grid(g).X0 + Grid(g).DX * s[3],
     y |-> Grid(g).DY * s[2], flag |-> FlagOf(s)]
\* "both": metadata that carries the two encodings of the same table (a geometry map added to metadata that kept its shank map)
Encodings(g) == IF g = "NPU" THEN {"shank"} ELSE {"shank", "geom", "both"}
\* _map_channels_from_meta looks for the shank map first: with both maps present it is the one that is parsed
Encode(g, e, s) == IF e \in {"shank", "both"} THEN ShankMapEntry(g, s) ELSE GeomMapEntry(g, s)

-----------------------------------------------------------------------------
(* implementation layer *)

\* _map_channels_from_meta: the parsed table, one record per entry
MapChannels(g, e, sites) == [i \in 1..Len(sites) |-> Encode(g, e, sites[i])]

\* geometry_from_meta, coordinates
ConvertEntry(g, e, cm) ==
    IF e = "geom"
    THEN LET x == IF g = "NP1" THEN 70 - cm.x ELSE cm.x
             y == cm.y + 20
             rc == XY2RC(g, x, y)
         IN [shank |-> cm.shank, row |-> rc[1], col |-> rc[2], x |-> x, y |-> y, flag |-> cm.flag]
    ELSE LET col == IF g = "NP1" THEN 2 + (cm.row % 2) - 2 * cm.col ELSE cm.col
             xy == RC2XY(g, cm.row, col)
         IN [shank |-> cm.shank, row |-> cm.row, col |-> col, x |-> xy[1], y |-> xy[2], flag |-> cm.flag]
Convert(g, e, cms) == [i \in 1..Len(cms) |-> ConvertEntry(g, e, cms[i])]

\* adc_shifts: channels per ADC / ADC cycles per sample; ADCs serve odd and even channels of a block
AdcChannels(g) == IF g = "NP2" THEN 16 ELSE 12
AdcCycles(g) == IF g = "NP2" THEN 16 ELSE 13
AdcOf(g, ch) == (ch \div (2 * AdcChannels(g))) * 2 + (ch % 2)
\* "sample_shift[adc == a] = arange(adc_channels) / n_cycles": rank among the channels of the same ADC
ShiftRank(g, ch) == Cardinality({c \in 0..(ch - 1) : AdcOf(g, c) = AdcOf(g, ch)})
\* closed form (ShiftClosedForm asserts they agree on a whole probe)
ShiftNum(g, ch) == (ch % (2 * AdcChannels(g))) \div 2
\* the code takes the first n values: channel = position in the table
AdcShifts(g, hs) ==
    [i \in 1..Len(hs) |-> [shank |-> hs[i].shank, row |-> hs[i].row, col |-> hs[i].col, x |-> hs[i].x, y |-> hs[i].y,
                           flag |-> hs[i].flag, adc |-> AdcOf(g, i - 1), shift |-> ShiftNum(g, i - 1)]]

WithInd(h, k) == [shank |-> h.shank, row |-> h.row, col |-> h.col, x |-> h.x, y |-> h.y, flag |-> h.flag,
                  adc |-> h.adc, shift |-> h.shift, ind |-> k]
\* _split_geometry_into_shanks (split = -1: key absent) followed by th["ind"] = arange
SplitShanks(hs, split) ==
    LET kept == IF split = -1 THEN hs ELSE SelectSeq(hs, LAMBDA h : h.shank = split)
    IN [i \in 1..Len(kept) |-> WithInd(kept[i], i - 1)]

\* lexsort((-col, row, shank)): primary shank, then row, then descending col; stable
KeyOf(h) == <<h.shank, h.row, -h.col>>
LexLess(a, b) == a[1] < b[1] \/ (a[1] = b[1] /\ (a[2] < b[2] \/ (a[2] = b[2] /\ a[3] < b[3])))
SortIndex(hs) ==        \* sequence of 0-based positions, as returned with return_index=True
    LET keys == [i \in 1..Len(hs) |-> KeyOf(hs[i])] IN
    SortSeq([i \in 1..Len(hs) |-> i - 1],
            LAMBDA a, b : LexLess(keys[a + 1], keys[b + 1]) \/ (keys[a + 1] = keys[b + 1] /\ a < b))
Identity(n) == [i \in 1..n |-> i - 1]
SortHeader(hs, srt) == IF srt THEN LET p == SortIndex(hs) IN [i \in 1..Len(hs) |-> hs[p[i] + 1]] ELSE hs
ReturnedIndex(hs, srt) == IF srt THEN SortIndex(hs) ELSE Identity(Len(hs))

Unsplit(g, e, sites) == AdcShifts(g, Convert(g, e, MapChannels(g, e, sites)))
Header(g, e, sites, srt, split) == SortHeader(SplitShanks(Unsplit(g, e, sites), split), srt)
HeaderIndex(g, e, sites, srt, split) == ReturnedIndex(SplitShanks(Unsplit(g, e, sites), split), srt)

\* neuropixel.dense_layout: site of channel c (0-based) of the canonical layouts; nsh = 1 or 4 (NP2 only)
DenseSite(g, nsh, c) ==
    CASE g = "NP1" -> <<0, c \div 2, (<<2, 0, 3, 1>>)[(c % 4) + 1]>>
      [] g = "NPU" -> <<0, c \div 8, c % 8>>
      [] g = "NP2" /\ nsh = 1 -> <<0, c \div 2, c % 2>>
      [] g = "NP2" /\ nsh = 4 ->
            LET block == c \div 48 IN
            <<(<<0, 1, 0, 1, 2, 3, 2, 3>>)[block + 1], (c % 48) \div 2 + 24 * (<<0, 0, 1, 1, 0, 0, 1, 1>>)[block + 1], c % 2>>
DenseLayout(g, nsh) == [i \in 1..384 |-> DenseSite(g, nsh, i - 1)]
\* neuropixel.trace_header: dense layout, rc2xy, adc_shifts; no 'flag' key (modelled as flag = 1), ind = arange
TraceHeader(g, nsh) ==
    LET d == DenseLayout(g, nsh) IN
    [i \in 1..384 |-> [shank |-> d[i][1], row |-> d[i][2], col |-> d[i][3], x |-> RC2XY(g, d[i][2], d[i][3])[1],
                       y |-> RC2XY(g, d[i][2], d[i][3])[2], flag |-> 1, adc |-> AdcOf(g, i - 1),
                       shift |-> ShiftNum(g, i - 1), ind |-> i - 1]]
\* neuropixel.split_trace_header: plain restriction (ind keeps the parent's numbering)
SplitHeader(hs, s) == SelectSeq(hs, LAMBDA h : h.shank = s)

-----------------------------------------------------------------------------
(* property layer: S = the site table the metadata describes (on-disk order), split = the shank a   *)
(* split file is restricted to (-1: none), H, HU, HS, ... = observed headers (sequences of records  *)
(* shank,row,col,x,y,adc,shift,ind,flag), IDX = the observed returned index.                        *)

Range(f) == {f[i] : i \in DOMAIN f}
SiteOf(h) == <<h.shank, h.row, h.col>>
\* positions (1-based) of the table that the file contains: all, or those of the split shank
Kept(S, split) == IF split = -1 THEN [i \in 1..Len(S) |-> i]
                  ELSE SelectSeq([i \in 1..Len(S) |-> i], LAMBDA i : S[i][1] = split)

\* each recorded site is listed once
SitesOnceP(S, split, H) ==
    LET kept == Kept(S, split) IN
    /\ Len(H) = Len(kept)
    /\ {SiteOf(H[i]) : i \in 1..Len(H)} = {Site3(S[kept[k]]) : k \in 1..Len(kept)}
    /\ Range([i \in 1..Len(H) |-> H[i].ind]) = 0..(Len(H) - 1)

\* entry i describes the site stored at on-disk column H[i].ind of its own file, completely: row/col and
\* x/y are images of each other under the grid maps (both directions), ADC and delay are those of the
\* original channel number (position in the unsplit table) for this probe generation
DescribesP(g, S, split, H) ==
    LET kept == Kept(S, split) IN
    \A i \in 1..Len(H) :
        /\ H[i].ind \in 0..(Len(kept) - 1)
        /\ LET orig == kept[H[i].ind + 1] - 1        \* original channel number, 0-based
               s == Site3(S[orig + 1])
           IN /\ SiteOf(H[i]) = s
              /\ <<H[i].x, H[i].y>> = RC2XY(g, s[2], s[3])
              /\ XYExact(g, H[i].x, H[i].y) /\ XY2RC(g, H[i].x, H[i].y) = <<H[i].row, H[i].col>>
              /\ H[i].adc = AdcOf(g, orig)
              /\ H[i].shift = ShiftNum(g, orig)

\* sorting off: on-disk order
UnsortedP(H, IDX) == Len(IDX) = Len(H) /\ \A i \in 1..Len(H) : H[i].ind = i - 1 /\ IDX[i] = i - 1
\* sorting on: ordered by shank, row, descending column (strict: sites are distinct)
SortedP(H) == \A i \in 1..(Len(H) - 1) : LexLess(<<H[i].shank, H[i].row, -H[i].col>>, <<H[i + 1].shank, H[i + 1].row, -H[i + 1].col>>)
\* a true permutation that moves every attribute together: HS is HU re-indexed by IDX, and IDX is the ind column
JointPermP(HS, HU, IDX) ==
    /\ Len(HS) = Len(HU) /\ Len(IDX) = Len(HU)
    /\ Range(IDX) = 0..(Len(HU) - 1)
    /\ \A i \in 1..Len(HS) : IDX[i] \in 0..(Len(HU) - 1) /\ HS[i] = HU[IDX[i] + 1] /\ HS[i].ind = IDX[i]
\* both encodings of the same table give the same geometry
EncAgreeP(HA, HB) == HA = HB
\* a split shank's geometry is the restriction of its parent's (HP: parent, on-disk order); the original index
\* of a split *file* counts the columns of that file
SplitP(HP, s, HC) ==
    LET r == SelectSeq(HP, LAMBDA h : h.shank = s)
    IN Len(HC) = Len(r) /\ \A i \in 1..Len(r) : HC[i] = WithInd(r[i], i - 1)
RestrictionP(HP, s, HC) == HC = SelectSeq(HP, LAMBDA h : h.shank = s)
\* each ADC serves its channels at distinct, evenly spaced delays: the numerators of one ADC's channels are
\* exactly 0..AdcChannels-1 (over AdcCycles).  A, SH: ADC and numerator of channel c at position c + 1, for the
\* channels of a whole probe (384)
AdcEvenP(g, A, SH) ==
    /\ Len(A) = Len(SH)
    /\ \A a \in Range(A) :
          LET chans == {c \in 1..Len(A) : A[c] = a}
          IN /\ Cardinality(chans) = AdcChannels(g)
             /\ {SH[c] : c \in chans} = 0..(AdcChannels(g) - 1)

-----------------------------------------------------------------------------
(* facts about the constants, checked by TLC at start-up (ASSUME) on the real grids *)
AllSites(g) == {s \in (0..(Grid(g).nshank - 1)) \X (0..(Grid(g).nrow - 1)) \X (0..(Grid(g).ncol - 1)) : OnGrid(g, s)}
GridInverse ==      \* XY2RC o RC2XY = Id and RC2XY o XY2RC = Id on every grid
    \A g \in Gens : \A s \in AllSites(g) :
        LET xy == RC2XY(g, s[2], s[3]) IN
        /\ XYExact(g, xy[1], xy[2]) /\ XY2RC(g, xy[1], xy[2]) = <<s[2], s[3]>>
        /\ RC2XY(g, XY2RC(g, xy[1], xy[2])[1], XY2RC(g, xy[1], xy[2])[2]) = xy
EncodingsAgreeOnGrid ==  \* decoding either encoding of a site gives the same coordinates, those of the site
    \A g \in Gens : \A s \in AllSites(g) : \A e \in Encodings(g) :
        LET h == ConvertEntry(g, e, Encode(g, e, s)) IN
        SiteOf(h) = s /\ <<h.x, h.y>> = RC2XY(g, s[2], s[3])
ShiftClosedForm == \A g \in Gens : \A c \in 0..383 : ShiftRank(g, c) = ShiftNum(g, c) /\ ShiftNum(g, c) < AdcCycles(g)
AdcEven == \A g \in Gens : AdcEvenP(g, [c \in 1..384 |-> AdcOf(g, c - 1)], [c \in 1..384 |-> ShiftNum(g, c - 1)])
DenseOnGrid ==
    \A gn \in {<<"NP1", 1>>, <<"NP2", 1>>, <<"NP2", 4>>, <<"NPU", 1>>} :
        /\ \A c \in 0..383 : OnGrid(gn[1], DenseSite(gn[1], gn[2], c))
        /\ Cardinality({DenseSite(gn[1], gn[2], c) : c \in 0..383}) = 384
=============================================================================
