------------------------------ MODULE Windows ------------------------------
(***************************************************************************)
(* Sliding windows of ibldsp.utils.WindowGenerator (property C17; the same  *)
(* generator drives NP2Converter (C03, C12), NP2Reconstructor, check_NP24). *)
(*                                                                         *)
(* Implementation layer: one action per statement group of the generator   *)
(*   Construct  = __init__            (count formula)                      *)
(*   Yield      = one iteration of `firstlast` (first window / stride)     *)
(*   Stop       = the `break` when the end is reached                      *)
(* and the per-window functions Valid / Amp as the code computes them.     *)
(* Property layer: Cover, Overlap, Count, Centre, ValidPartition, Splice   *)
(* speak only about the yielded windows.                                   *)
(***************************************************************************)
EXTENDS Integers, Sequences, FiniteSets, TLC

CONSTANTS MaxNS,        \* lengths 1..MaxNS
          MaxW,         \* windows 1..MaxW, overlaps 0..w-1
          Variant       \* "fixed" = current tree, "orig" = tree before the fix: commits (F1)

VARIABLES ns, w, ov, pc, first, last, iw, nwin, pfirst, plast

vars == <<ns, w, ov, pc, first, last, iw, nwin, pfirst, plast>>

Min(a, b) == IF a < b THEN a ELSE b
Max(a, b) == IF a > b THEN a ELSE b
\* Python: int(np.ceil(float(a) / float(b))), b > 0, any sign of a
CeilDiv(a, b) == -((-a) \div b)

-----------------------------------------------------------------------------
(* implementation layer *)

NWinFormula(n, win, o) ==
    IF Variant = "orig" THEN CeilDiv(n - win, win - o) + 1
    ELSE Max(CeilDiv(n - win, win - o), 0) + 1

Params == {<<n, win, o>> \in (1..MaxNS) \X (1..MaxW) \X (0..MaxW) : o < win}

Init == /\ \E p \in Params : ns = p[1] /\ w = p[2] /\ ov = p[3]
        /\ pc = "new" /\ first = -1 /\ last = -1 /\ iw = -1 /\ nwin = 0
        /\ pfirst = -1 /\ plast = -1

Construct == /\ pc = "new"
             /\ nwin' = NWinFormula(ns, w, ov)
             /\ pc' = "ready"
             /\ UNCHANGED <<ns, w, ov, first, last, iw, pfirst, plast>>

YieldFirst == /\ pc = "ready"
              /\ first' = 0 /\ last' = Min(w, ns) /\ iw' = 0
              /\ pc' = "iter"
              /\ UNCHANGED <<ns, w, ov, nwin, pfirst, plast>>

YieldNext == /\ pc = "iter" /\ last # ns
             /\ first' = first + w - ov
             /\ last' = Min(first' + w, ns)
             /\ iw' = iw + 1
             /\ pfirst' = first /\ plast' = last
             /\ UNCHANGED <<ns, w, ov, nwin, pc>>

Stop == /\ pc = "iter" /\ last = ns
        /\ pc' = "done"
        /\ UNCHANGED <<ns, w, ov, first, last, iw, nwin, pfirst, plast>>

Next == Construct \/ YieldFirst \/ YieldNext \/ Stop

Spec == Init /\ [][Next]_vars

\* firstlast_valid as the code computes it (the code asserts an even overlap)
FirstValid(f) == IF f = 0 THEN 0 ELSE f + ov \div 2
LastValid(l) == IF l = ns THEN l ELSE l - ov \div 2

\* firstlast_splicing: amplitude of position p (0-based) of the window [f, l).  Symbolic values:
\*   <<"one">>, <<"w", i>> = Hann ramp w[i], i in 0..ov-1 ; flipud(w)[j] = w[ov-1-j].
\* "raise" models the ValueError of a shape-mismatched slice assignment.
LeadLen(f, l) == IF f = 0 THEN 0 ELSE ov
TrailLen(f, l) == IF l = ns THEN 0 ELSE ov
AmpFixed(f, l, p) ==
    LET len == l - f IN
    IF l # ns /\ p >= len - ov THEN <<"w", ov - 1 - (p - (len - ov))>>
    ELSE IF f # 0 /\ p < ov THEN <<"w", p>>
    ELSE <<"one">>
\* before the fix: amp[:ov] = 1|w ; amp[-ov:] = 1|flipud(w), in that order, unconditionally
AmpOrig(f, l, p) ==
    LET len == l - f IN
    IF ov = 0 THEN (IF l = ns THEN <<"one">> ELSE <<"raise">>)   \* amp[-0:] is the whole array
    ELSE IF p >= len - ov THEN (IF l = ns THEN <<"one">> ELSE <<"w", ov - 1 - (p - (len - ov))>>)
    ELSE IF p < ov THEN (IF f = 0 THEN <<"one">> ELSE <<"w", p>>)
    ELSE <<"one">>
Amp(f, l, p) == IF Variant = "orig" THEN AmpOrig(f, l, p) ELSE AmpFixed(f, l, p)

-----------------------------------------------------------------------------
(* property layer: statements about the yielded windows and the values handed out with them.    *)
(* Every formula takes the *observed* quantities as arguments: the model instantiates them with  *)
(* the implementation-layer functions above, WindowsTrace with what the real code returned.       *)

Yielded == pc \in {"iter", "done"}

InRange == Yielded => 0 <= first /\ first < last /\ last <= ns /\ last - first <= w
Cover == /\ (Yielded /\ iw = 0) => first = 0
         /\ (Yielded /\ iw > 0) => (first <= plast /\ first > pfirst /\ last > plast)
         /\ pc = "done" => last = ns
Overlap == (Yielded /\ iw > 0) => plast - first = ov
CountP(n) == pc = "done" => n = iw + 1
CountPositiveP(n) == pc # "new" => n >= 1
\* centre of a window in samples, times two: the middle of first..last-1
CentreP(c2) == Yielded => c2 = first + last - 1

\* the valid sub-windows partition 0..ns-1 (stated for even overlaps, as the code asserts).
\* fv, lv: valid range of the current window, plv: last_valid of the previous one
ValidP(fv, lv, plv) ==
    (ov % 2 = 0 /\ Yielded) =>
        /\ iw = 0 => fv = 0
        /\ iw > 0 => fv = plv
        /\ fv <= lv /\ first <= fv /\ lv <= last
        /\ pc = "done" => lv = ns

\* splice: with the Hann identity w[i] + w[ov-1-i] = 1 the amplitudes sum to one at sample t iff the
\* contributions at t are {one} or {w[i], w[ov-1-i]}.  A(p) / PA(p): symbolic amplitude at position p
\* of the current / previous window.
Complement(a, b) == a[1] = "w" /\ b[1] = "w" /\ a[2] + b[2] = ov - 1
SpliceP(A(_), PA(_)) ==
    (2 * ov <= w /\ Yielded) =>
        \* samples shared with the previous window: complementary pair
        /\ iw > 0 => \A t \in first..(plast - 1) : Complement(PA(t - pfirst), A(t - first))
        \* samples of this window shared with neither neighbour: exactly one
        /\ \A t \in (IF iw > 0 THEN plast ELSE first)..(IF last = ns THEN last - 1 ELSE last - ov - 1) :
                        A(t - first) = <<"one">>

-----------------------------------------------------------------------------
(* the model's instances of the property layer *)
Count == CountP(nwin)
CountPositive == CountPositiveP(nwin)
Centre == CentreP(2 * first + (last - first - 1))     \* the code: first + (last - first - 1) / 2
ValidPartition == ValidP(FirstValid(first), LastValid(last), LastValid(plast))
SpliceHere == SpliceP(LAMBDA p : Amp(first, last, p), LAMBDA p : Amp(pfirst, plast, p))

\* termination within the bound (first strictly increases)
Progress == [][pc = "iter" /\ pc' = "iter" => first' > first]_vars
=============================================================================
