------------------------------ MODULE Counting ------------------------------
(***************************************************************************)
(* The discrete cores of property C20:                                      *)
(*  (a) Venn peeling of ibldsp.spiketrains._spikes_venn                     *)
(*  (b) grouping of ibldsp.voltage.stack                                    *)
(*  (c) trajectory-matrix indices of ibldsp.cadzow.traj_matrix_indices /    *)
(*      trajectory (block-Toeplitz embedding of an nx x ny site grid)       *)
(* Implementation layer: the code's loops / index formulas.  Property layer *)
(* (AttributionP, StackP, TrajP): the given property over inputs and        *)
(* returned values only.  The SVD / least-squares / filter clauses of C20   *)
(* are numeric and are decided by projections in harness/c20.py on the      *)
(* scenario grid (layout x rank) this module defines (FullRank).            *)
(* One state machine, three kinds of input (constant Kind).                 *)
(***************************************************************************)
EXTENDS Integers, Sequences, FiniteSets, TLC

CONSTANTS Kind,           \* "venn" | "stack" | "traj"
          NSort, NBins, MaxCnt,     \* venn: sorters, bins, spikes per sorter and bin 0..MaxCnt
          NLab, LenW,               \* stack: labels 1..NLab, label vectors of length 1..LenW
          MaxNX, MaxNY, SubNX, SubNY  \* traj: full and staggered grids up to MaxNX x MaxNY, every covering
                                      \* subset of the cells of grids up to SubNX x SubNY

VARIABLES inp, pc, cuts, ci, lvl, res
vars == <<inp, pc, cuts, ci, lvl, res>>

IMin(a, b) == IF a < b THEN a ELSE b
IMax(a, b) == IF a > b THEN a ELSE b
\* folds over an index range, divide-and-conquer (evaluation depth logarithmic: a real chunk has thousands of bins)
RECURSIVE SumRange(_, _, _)
SumRange(f(_), lo, hi) ==
    IF lo > hi THEN 0 ELSE IF lo = hi THEN f(lo)
    ELSE LET mid == (lo + hi) \div 2 IN SumRange(f, lo, mid) + SumRange(f, mid + 1, hi)
RECURSIVE MaxRange(_, _, _)
MaxRange(f(_), lo, hi) ==
    IF lo > hi THEN 0 ELSE IF lo = hi THEN f(lo)
    ELSE LET mid == (lo + hi) \div 2 IN IMax(MaxRange(f, lo, mid), MaxRange(f, mid + 1, hi))
RECURSIVE SumSet(_, _)      \* small sets only (regions)
SumSet(f(_), S) == IF S = {} THEN 0 ELSE LET x == CHOOSE y \in S : TRUE IN f(x) + SumSet(f, S \ {x})

-----------------------------------------------------------------------------
(* (a) Venn peeling *)

Regions(ns) == (SUBSET (1..ns)) \ {{}}
\* bin_counts as a set of columns: cols is a sequence of <<count of sorter 1, .., count of sorter ns>>
MaxPer(col) == MaxRange(LAMBDA s : col[s], 1, Len(col))                  \* max_per_spike
Overall(cols) == MaxRange(LAMBDA b : MaxPer(cols[b]), 1, Len(cols))      \* overall_max
\* one iteration i of `for i in range(0, overall_max)`: ind = max_per - i > 0; a sorter belongs to the
\* region of a bin when its count reaches max_per - i
LevelRegion(col, i) == {s \in DOMAIN col : col[s] >= MaxPer(col) - i}
AddLevel(r, ns, cols, i) ==
    [R \in Regions(ns) |-> r[R] + Cardinality({b \in DOMAIN cols : MaxPer(cols[b]) - i > 0 /\ LevelRegion(cols[b], i) = R})]
RECURSIVE PeelFrom(_, _, _, _)
PeelFrom(r, ns, cols, i) == IF i >= Overall(cols) THEN r ELSE PeelFrom(AddLevel(r, ns, cols, i), ns, cols, i + 1)
Zero(ns) == [R \in Regions(ns) |-> 0]
\* one chunk of the loop over chunks
PeelChunk(r, ns, cols) == PeelFrom(r, ns, cols, 0)
\* chunk-free reference: a bin with maximum m contributes one group per level 1..m
VennOf(ns, cols) ==
    [R \in Regions(ns) |-> SumRange(LAMBDA b : Cardinality({l \in 1..MaxPer(cols[b]) : {s \in 1..ns : cols[b][s] >= l} = R}), 1, Len(cols))]

\* property layer: every spike of every sorter is attributed to exactly one region.
\* N[s] = number of spikes of sorter s, r = returned region counts
AttributionP(ns, N, r) == \A s \in 1..ns : SumSet(LAMBDA R : r[R], {R \in Regions(ns) : s \in R}) = N[s]
NeverOverP(ns, N, r) == \A s \in 1..ns : SumSet(LAMBDA R : r[R], {R \in Regions(ns) : s \in R}) <= N[s]

\* the model: inp = sequence of bin columns; chunks = runs of consecutive bins delimited by `cuts`
Starts == {1} \cup {c + 1 : c \in cuts}
NChunks == Cardinality(Starts)
KthStart(k) == CHOOSE s \in Starts : Cardinality({u \in Starts : u < s}) = k - 1
ChunkBins(k) == KthStart(k)..(IF k = NChunks THEN Len(inp) ELSE KthStart(k + 1) - 1)
ChunkCols(k) == [b \in 1..Cardinality(ChunkBins(k)) |-> inp[KthStart(k) + b - 1]]
TotalOf(cols, s) == SumRange(LAMBDA b : cols[b][s], 1, Len(cols))

VennInit == /\ inp \in [1..NBins -> [1..NSort -> 0..MaxCnt]]
            /\ cuts \in SUBSET (1..(NBins - 1))
            /\ pc = "peel" /\ ci = 1 /\ lvl = 0 /\ res = Zero(NSort)
PeelLevel == /\ Kind = "venn" /\ pc = "peel" /\ lvl < Overall(ChunkCols(ci))
             /\ res' = AddLevel(res, NSort, ChunkCols(ci), lvl)
             /\ lvl' = lvl + 1
             /\ UNCHANGED <<inp, pc, cuts, ci>>
EndChunk == /\ Kind = "venn" /\ pc = "peel" /\ lvl = Overall(ChunkCols(ci))
            /\ IF ci = NChunks THEN pc' = "done" /\ ci' = ci ELSE pc' = "peel" /\ ci' = ci + 1
            /\ lvl' = 0
            /\ UNCHANGED <<inp, cuts, res>>

Attribution == (Kind = "venn" /\ pc = "done") => AttributionP(NSort, [s \in 1..NSort |-> TotalOf(inp, s)], res)
NeverOver == Kind = "venn" => NeverOverP(NSort, [s \in 1..NSort |-> TotalOf(inp, s)], res)
ChunkFree == (Kind = "venn" /\ pc = "done") => res = VennOf(NSort, inp)

-----------------------------------------------------------------------------
(* (b) stack: np.unique(word, return_inverse, return_counts), one aggregate per group *)

RECURSIVE SortedSeq(_)
SortedSeq(S) == IF S = {} THEN <<>> ELSE LET m == CHOOSE x \in S : \A y \in S : x <= y IN <<m>> \o SortedSeq(S \ {m})
StackOf(word) ==
    LET groups == SortedSeq({word[i] : i \in DOMAIN word})
        uinds == [i \in DOMAIN word |-> CHOOSE k \in DOMAIN groups : groups[k] = word[i]]
    IN [groups |-> groups,
        fold |-> [k \in DOMAIN groups |-> Cardinality({i \in DOMAIN word : uinds[i] = k})],
        rows |-> [k \in DOMAIN groups |-> {i \in DOMAIN word : uinds[i] = k}]]          \* i2stack = sind == uinds

\* property layer: one output row per label present, the aggregate of exactly the traces carrying that label,
\* fold = their number.  rows[k] = set of input traces aggregated into output row k
StackP(word, groups, fold, rows) ==
    /\ Len(groups) = Cardinality({word[i] : i \in DOMAIN word})
    /\ Len(fold) = Len(groups) /\ Len(rows) = Len(groups)
    /\ \A k \in DOMAIN groups :
         /\ rows[k] = {i \in DOMAIN word : word[i] = groups[k]}
         /\ rows[k] # {}
         /\ fold[k] = Cardinality(rows[k])

StackInit == /\ \E n \in 1..LenW : inp \in [1..n -> 1..NLab]
             /\ pc = "compute" /\ cuts = {} /\ ci = 0 /\ lvl = 0 /\ res = <<>>
StackCompute == /\ Kind = "stack" /\ pc = "compute"
                /\ res' = StackOf(inp) /\ pc' = "done"
                /\ UNCHANGED <<inp, cuts, ci, lvl>>
Stacked == (Kind = "stack" /\ pc = "done") => StackP(inp, res.groups, res.fold, res.rows)
StackSorted == (Kind = "stack" /\ pc = "done") => \A k \in 1..(Len(res.groups) - 1) : res.groups[k] < res.groups[k + 1]

-----------------------------------------------------------------------------
(* (c) trajectory matrix of an nx x ny grid; all indices 0-based as in the code *)

TRows(n) == n \div 2 + 1                 \* int(np.floor(n / 2 + 1))
TCols(n) == (n + 1) \div 2               \* int(np.ceil(n / 2))
TMI(n, r, c) == r + (TCols(n) - 1 - c)   \* np.tile(arange(nrows), (ncols, 1)).T + flipud(arange(ncols))
TShape(nx, ny) == <<TRows(nx) * TRows(ny), TCols(nx) * TCols(ny)>>
\* tix = repeat(repeat(tix_, rows_y, 0), cols_y, 1) ; tiy = tile(tiy_, tix_.shape)
TCell(nx, ny, R, C) == <<TMI(nx, R \div TRows(ny), C \div TCols(ny)), TMI(ny, R % TRows(ny), C % TCols(ny))>>
TEntries(nx, ny, present) ==
    {<<R, C, TCell(nx, ny, R, C)>> : R \in 0..(TShape(nx, ny)[1] - 1), C \in 0..(TShape(nx, ny)[2] - 1)}
Filled(nx, ny, present) == {e \in TEntries(nx, ny, present) : e[3] \in present}
Mult(nx, ny, present, cell) == Cardinality({e \in Filled(nx, ny, present) : e[3] = cell})
\* the largest rank that can be asked of derank(): min of the matrix dimensions
FullRank(nx, ny) == IMin(TShape(nx, ny)[1], TShape(nx, ny)[2])

\* property layer: every trace sits somewhere in the matrix, trcount is its number of occurrences, so that
\* averaging an unmodified matrix over the occurrences of a trace gives the trace back.
\* entries = observed set of <<R, C, cell>>, count = observed function cell -> count
TrajP(present, entries, count) ==
    /\ \A cell \in present : \E e \in entries : e[3] = cell
    /\ \A cell \in present : count[cell] = Cardinality({e \in entries : e[3] = cell}) /\ count[cell] >= 1
    /\ \A e \in entries : e[3] \in present
    /\ Cardinality({<<e[1], e[2]>> : e \in entries}) = Cardinality(entries)      \* one trace per matrix position

Cells(nx, ny) == (0..(nx - 1)) \X (0..(ny - 1))
Covers(nx, ny, S) == (\A i \in 0..(nx - 1) : \E c \in S : c[1] = i) /\ (\A j \in 0..(ny - 1) : \E c \in S : c[2] = j)
Layouts ==
    {[nx |-> nx, ny |-> ny, present |-> Cells(nx, ny)] : nx \in 1..MaxNX, ny \in 1..MaxNY}
    \cup {[nx |-> nx, ny |-> ny, present |-> {c \in Cells(nx, ny) : (c[1] + c[2]) % 2 = 0}] : nx \in 2..MaxNX, ny \in 2..MaxNY}
    \cup UNION {{[nx |-> g[1], ny |-> g[2], present |-> S] : S \in {Q \in SUBSET Cells(g[1], g[2]) : Covers(g[1], g[2], Q)}} :
                  g \in (1..SubNX) \X (1..SubNY)}

TrajInit == /\ inp \in Layouts
            /\ pc = "compute" /\ cuts = {} /\ ci = 0 /\ lvl = 0 /\ res = <<>>
TrajCompute == /\ Kind = "traj" /\ pc = "compute"
               /\ res' = [entries |-> Filled(inp.nx, inp.ny, inp.present),
                          count |-> [cell \in inp.present |-> Mult(inp.nx, inp.ny, inp.present, cell)]]
               /\ pc' = "done"
               /\ UNCHANGED <<inp, cuts, ci, lvl>>
Trajectory == (Kind = "traj" /\ pc = "done") => TrajP(inp.present, res.entries, res.count)
\* the index formulas stay inside the grid and reach every cell of the full grid
TrajInGrid == (Kind = "traj" /\ pc = "done") =>
                 \A e \in TEntries(inp.nx, inp.ny, inp.present) : e[3] \in Cells(inp.nx, inp.ny)
TrajOnto == (Kind = "traj" /\ pc = "done") =>
                 \A cell \in Cells(inp.nx, inp.ny) : \E e \in TEntries(inp.nx, inp.ny, inp.present) : e[3] = cell
\* Hankel structure: the cell depends only on the anti-diagonal (R - C) of each level
TrajToeplitz == (Kind = "traj" /\ pc = "done") =>
                 \A e1, e2 \in TEntries(inp.nx, inp.ny, inp.present) :
                    ((e1[1] \div TRows(inp.ny)) - (e1[2] \div TCols(inp.ny)) = (e2[1] \div TRows(inp.ny)) - (e2[2] \div TCols(inp.ny))
                     /\ (e1[1] % TRows(inp.ny)) - (e1[2] % TCols(inp.ny)) = (e2[1] % TRows(inp.ny)) - (e2[2] % TCols(inp.ny)))
                    => e1[3] = e2[3]

-----------------------------------------------------------------------------
Init == IF Kind = "venn" THEN VennInit ELSE IF Kind = "stack" THEN StackInit ELSE TrajInit
Next == PeelLevel \/ EndChunk \/ StackCompute \/ TrajCompute
Spec == Init /\ [][Next]_vars
=============================================================================
