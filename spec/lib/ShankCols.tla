----------------------------- MODULE ShankCols -----------------------------
(***************************************************************************)
(* C03 - column bookkeeping of the shank split and of its inverse.          *)
(* A recording has data channels 0..NCH-1 and the sync channel NCH.  A      *)
(* shank map assigns every data channel to a shank.                         *)
(* Implementation layer (transcribed):                                      *)
(*   Chns(m, s)      columns written to shank s: its channels ascending,    *)
(*                   then sync              (_prepare_files_NP24)           *)
(*   Format(chns)    run-length form stored as snsSaveChanSubset_orig       *)
(*                   (spikeglx._get_savedChans_subset: "a:b" per run, a     *)
(*                   bare number only for a run that starts at the last     *)
(*                   element)                                               *)
(*   Parse(runs)     NP2Reconstructor._get_chans                            *)
(*   Scatter(m)      NP2Reconstructor._reconstruct: first shank folder      *)
(*                   writes all its columns (incl. sync), the others all    *)
(*                   but their last                                         *)
(* Property layer: Parse(Format(c)) = c ; the reassembled frame is the      *)
(* identity: column c of the frame holds original column c, exactly once.   *)
(***************************************************************************)
EXTENDS Integers, Sequences, FiniteSets, TLC, Json, IOUtils, SequencesExt

CONSTANTS NCH, NSH

VARIABLES m, pc, frame

vars == <<m, pc, frame>>
Sync == NCH
Shanks(mm) == {mm[c] : c \in DOMAIN mm}

\* ascending sequence of a set of naturals
RECURSIVE Asc(_)
Asc(S) == IF S = {} THEN <<>> ELSE LET x == CHOOSE y \in S : \A z \in S : y <= z IN <<x>> \o Asc(S \ {x})
Chns(mm, s) == Asc({c \in DOMAIN mm : mm[c] = s}) \o <<Sync>>

\* _get_savedChans_subset: group starts = 1, positions after a jump, (and Len+1 as terminator); 1-based here
Starts(c) == <<1>> \o Asc({i \in 2..Len(c) : c[i] - c[i - 1] # 1}) \o <<Len(c) + 1>>
Format(c) == LET g == Starts(c) IN
             [i \in 1..(Len(g) - 1) |->
                 IF g[i] < Len(c)                      \* code: chn_grps[i] < len(chns) - 1 (0-based)
                 THEN <<c[g[i]], c[g[i + 1] - 1]>>     \* "a:b"
                 ELSE <<c[g[i]]>>]                     \* "a"
\* _get_chans
RECURSIVE Parse(_)
Parse(runs) == IF runs = <<>> THEN <<>>
               ELSE LET r == Head(runs) IN
                    (IF Len(r) = 2 THEN [j \in 1..(r[2] - r[1] + 1) |-> r[1] + j - 1] ELSE <<r[1]>>) \o Parse(Tail(runs))

\* _reconstruct: frame[col] = set of <<shank, position in that shank's file>> written there
Scatter(mm) ==
    LET order == Asc(Shanks(mm))            \* folders sorted: probe00a, b, ...
        P(s) == Parse(Format(Chns(mm, s)))  \* the column list the reconstructor derives from the shank's metadata
    IN [col \in 0..NCH |->
          {p \in (Shanks(mm) \X (1..(NCH + 1))) :
               /\ p[2] <= Len(P(p[1]))
               /\ P(p[1])[p[2]] = col
               /\ (p[1] = order[1] \/ p[2] < Len(Chns(mm, p[1])))}]

Init == m \in [0..(NCH - 1) -> 0..(NSH - 1)] /\ pc = "new" /\ frame = [c \in 0..NCH |-> {}]
Reassemble == pc = "new" /\ pc' = "done" /\ frame' = Scatter(m) /\ UNCHANGED m
Next == Reassemble
Spec == Init /\ [][Next]_vars

RoundTrip == \A s \in Shanks(m) : Parse(Format(Chns(m, s))) = Chns(m, s)
\* every column of the reassembled frame comes from exactly one place, and that place held original column c
Identity == pc = "done" =>
    \A c \in 0..NCH : /\ Cardinality(frame[c]) = 1
                      /\ \A p \in frame[c] : Chns(m, p[1])[p[2]] = c

\* spec -> code: every map with the strings the code must produce
RunStr(r) == IF Len(r) = 2 THEN ToString(r[1]) \o ":" \o ToString(r[2]) ELSE ToString(r[1])
RECURSIVE Join(_)
Join(rs) == IF Len(rs) = 0 THEN "" ELSE IF Len(rs) = 1 THEN RunStr(rs[1]) ELSE RunStr(rs[1]) \o "," \o Join(Tail(rs))
Export == TLCGet("distinct") >= 0 /\
    JsonSerialize(IOEnv.OUT_FILE,
        SetToSeq({[map |-> [c \in 1..NCH |-> mm[c - 1]],
                   shanks |-> [k \in 1..Len(Asc(Shanks(mm))) |->
                                 [shank |-> Asc(Shanks(mm))[k], chns |-> Chns(mm, Asc(Shanks(mm))[k]),
                                  subset |-> Join(Format(Chns(mm, Asc(Shanks(mm))[k])))]]]
                  : mm \in [0..(NCH - 1) -> 0..(NSH - 1)]}))
=============================================================================
