---------------------------- MODULE BadChannels ----------------------------
(***************************************************************************)
(* Property C15: bad-channel repair touches only bad channels; detection   *)
(* finds injected faults; file-level labels are the per-channel mode over  *)
(* the batches.   Code: src/ibldsp/voltage.py                              *)
(*     interpolate_bad_channels, detect_bad_channels,                      *)
(*     detect_bad_channels_cbin   (+ geometry of neuropixel.trace_header)  *)
(*                                                                         *)
(* This module holds operators only (no variables); the state machines     *)
(* that step through them live in spec/mc/MC_Bad*.tla, the trace spec in   *)
(* spec/trace/BadChannelsTrace.tla.  Four parts:                           *)
(*   I   interpolation  : which channels change, from which channels       *)
(*   II  label rule     : flags -> labels (top block, precedence)          *)
(*   III mode           : per-batch labels -> file-level labels            *)
(*   IV  detection      : abstract features of a fault scenario ->         *)
(*                        median detrend -> flags  (the discrete skeleton  *)
(*                        of detect_bad_channels; the numeric features are *)
(*                        NOT modelled, they are measured on the real code)*)
(* Each part has an IMPLEMENTATION LAYER (shaped like the code, statement  *)
(* by statement) and a PROPERTY LAYER (the given property over observables *)
(* only; every operator there takes the observed values as arguments).     *)
(* Channels are 1-based here (channel c of the code is c+1).               *)
(***************************************************************************)
EXTENDS Integers, Sequences, FiniteSets, TLC

CONSTANT Variant      \* "fixed" = current tree ; "orig" = tree before the fix: commits

Min(a, b) == IF a < b THEN a ELSE b
Max(a, b) == IF a > b THEN a ELSE b
SetMax(S) == CHOOSE x \in S : \A y \in S : y <= x
SetMin(S) == CHOOSE x \in S : \A y \in S : x <= y

\* sum of f[x] over x in S (f a function)
RECURSIVE SumOver(_, _)
SumOver(S, f) == IF S = {} THEN 0 ELSE LET x == CHOOSE y \in S : TRUE IN f[x] + SumOver(S \ {x}, f)

-----------------------------------------------------------------------------
(*                    PART I - interpolate_bad_channels                    *)
-----------------------------------------------------------------------------
(* Geometry: g[i] = <<x, y>> in integer micrometres (all Neuropixels site   *)
(* tables are integer).  weight = exp(-(d/20)^1.3); the code keeps a weight *)
(* iff it is >= 0.005  <=>  d <= 20 * (-ln 0.005)^(1/1.3) = 72.1205..       *)
(* <=> d^2 <= 5201  (5201 -> 0.0050012.., 5202 -> 0.0049979..).  The       *)
(* harness re-derives this constant from the formula on every run.         *)
D2Cut == 5201
Sq(a) == a * a
Dist2(g, i, j) == Sq(g[i][1] - g[j][1]) + Sq(g[i][2] - g[j][2])
Near(g, i, j) == Dist2(g, i, j) <= D2Cut

Chans(lab) == 1..Len(lab)
Bad(lab) == {i \in Chans(lab) : lab[i] \in {1, 2}}              \* dead or noisy
\* the channels a repaired channel may be built from: near, and good or outside-brain
Support(g, lab, i) == {j \in Chans(lab) \ Bad(lab) : Near(g, i, j)}

(* ---- implementation layer ------------------------------------------------ *)
(* Symbolic row values.  A row is a linear combination of ORIGINAL rows with *)
(* positive coefficients on `src`; `unit` <=> the coefficients sum to one;   *)
(* `zero` <=> the row was overwritten with zeros.                            *)
Row(i) == [src |-> {i}, unit |-> TRUE, zero |-> FALSE]
ZeroRow == [src |-> {}, unit |-> FALSE, zero |-> TRUE]

\* round(1e6 * exp(-(sqrt(d2)/20)^1.3)) for the squared distances of the NP1 / NP2 / NPultra
\* grids below the cut-off.  Used only to mirror the tree before the fix ("orig"), where the kept
\* set was taken AFTER normalisation (weights/sum > 0.005), so that small weights were dropped
\* from a sum that had been normalised with them.  The harness checks the table against NumPy.
MicroW ==
    0 :> 1000000 @@ 36 :> 811352 @@ 72 :> 720334 @@ 144 :> 597650 @@ 180 :> 551509 @@ 225 :> 502587 @@
    288 :> 445869 @@ 324 :> 418116 @@ 360 :> 393054 @@ 468 :> 330403 @@ 576 :> 281545 @@ 612 :> 267561 @@
    648 :> 254537 @@ 656 :> 251763 @@ 720 :> 231008 @@ 900 :> 183779 @@ 936 :> 175914 @@ 1024 :> 158456 @@
    1044 :> 154805 @@ 1152 :> 136851 @@ 1224 :> 126337 @@ 1249 :> 122926 @@ 1296 :> 116821 @@ 1332 :> 112400 @@
    1440 :> 100329 @@ 1476 :> 96665 @@ 1600 :> 85240 @@ 1620 :> 83555 @@ 1764 :> 72547 @@ 1800 :> 70074 @@
    1872 :> 65426 @@ 1908 :> 63240 @@ 1924 :> 62297 @@ 2025 :> 56716 @@ 2088 :> 53535 @@ 2196 :> 48559 @@
    2304 :> 44119 @@ 2340 :> 42746 @@ 2448 :> 38918 @@ 2592 :> 34418 @@ 2624 :> 33502 @@ 2628 :> 33389 @@
    2664 :> 32396 @@ 2704 :> 31332 @@ 2880 :> 27106 @@ 2916 :> 26325 @@ 2952 :> 25569 @@ 3049 :> 23654 @@
    3060 :> 23447 @@ 3204 :> 20923 @@ 3240 :> 20342 @@ 3492 :> 16749 @@ 3528 :> 16297 @@ 3600 :> 15434 @@
    3636 :> 15022 @@ 3744 :> 13858 @@ 3816 :> 13139 @@ 3856 :> 12757 @@ 3924 :> 12137 @@ 4068 :> 10932 @@
    4176 :> 10116 @@ 4212 :> 9859 @@ 4356 :> 8903 @@ 4392 :> 8680 @@ 4500 :> 8049 @@ 4624 :> 7386 @@
    4680 :> 7106 @@ 4896 :> 6134 @@ 4932 :> 5986 @@ 5184 :> 5058

(* one iteration of `for i in bad_channels:` on the current rows `val`            *)
(*   weights = exp(..); weights[bad] = 0; weights[weights < 0.005] = 0   -> S     *)
(*   weights /= sum(weights)                                                     *)
(*   imult = where(weights > 0.005)   ("orig")  |  where(weights > 0)  ("fixed") *)
(*   if imult.size == 0: data[i] = 0 ; else data[i] = weights[imult] @ data[imult]*)
Kept(g, lab, i) ==
    LET S == Support(g, lab, i) IN
    IF Variant = "orig"
    THEN LET tot == SumOver(S, [j \in S |-> MicroW[Dist2(g, i, j)]])
         IN {j \in S : 1000 * MicroW[Dist2(g, i, j)] > 5 * tot}
    ELSE S
RepairStep(g, lab, val, i) ==
    LET S == Support(g, lab, i)
        K == Kept(g, lab, i)
    IN IF K = {} THEN ZeroRow
       ELSE [src |-> UNION {val[j].src : j \in K},
             unit |-> (K = S) /\ (\A j \in K : val[j].unit),
             zero |-> FALSE]

(* ---- property layer -------------------------------------------------------- *)
(* observed: same = set of channels returned bit-identical to the input         *)
UntouchedP(lab, same) == \A i \in Chans(lab) \ Bad(lab) : i \in same
(* observed for a dead/noisy channel i: o.zero (row is all zeros), o.src (set of *)
(* channels whose content reaches the row), o.unit (a constant across channels   *)
(* is reproduced), o.hull (every sample within the range of the Support rows -   *)
(* numeric, measured by the harness)                                             *)
RepairedP(g, lab, i, o) ==
    LET S == Support(g, lab, i) IN
    IF S = {} THEN o.zero
    ELSE /\ ~o.zero
         /\ o.src \subseteq S       \* nothing from bad, far or the channel itself
         /\ o.src # {}
         /\ o.unit                  \* convex: coefficients sum to one
         /\ o.hull
\* what the model "observes" of a symbolic row
Observe(g, lab, i, v) == [zero |-> v.zero, src |-> v.src, unit |-> v.unit,
                          hull |-> v.unit /\ v.src \subseteq Support(g, lab, i)]

-----------------------------------------------------------------------------
(*                PART II - the label rule of detect_bad_channels           *)
-----------------------------------------------------------------------------
(* flags: dead, noisy, cand are SETS of channels of 1..N:                    *)
(*   dead  : xcor_hf < -0.5    noisy : psd_hf > thr or xcor_hf > 1           *)
(*   cand  : xcor_lf < -0.75   (candidate outside-brain)                     *)

RECURSIVE SortedSeq(_)
SortedSeq(S) == IF S = {} THEN <<>> ELSE LET m == SetMin(S) IN <<m>> \o SortedSeq(S \ {m})

(* ---- implementation layer ------------------------------------------------ *)
\* ioutside = np.where(cand)[0]; if ioutside.size > 0 and ioutside[-1] == nc - 1:
\*     a = np.cumsum(np.r_[0, np.diff(ioutside) - 1]); ioutside = ioutside[a == np.max(a)]
\* the cumulative sum literally, and its telescoped form (equal: checked by TLC on every candidate set of the box)
CumGapSum(io) == [n \in 1..Len(io) |-> SumOver(2..n, [m \in 2..n |-> io[m] - io[m - 1] - 1])]
CumGap(io) == [n \in 1..Len(io) |-> io[n] - io[1] - (n - 1)]
TopRunImpl(N, cand) ==
    LET io == SortedSeq(cand) IN
    IF io = <<>> \/ io[Len(io)] # N THEN {}
    ELSE LET a == CumGap(io)
             mx == SetMax({a[n] : n \in 1..Len(io)})
         IN {io[n] : n \in {m \in 1..Len(io) : a[m] = mx}}
\* the three assignments, in the order of the code
Step3(N, cand) == LET tr == TopRunImpl(N, cand) IN [c \in 1..N |-> IF c \in tr THEN 3 ELSE 0]
Step1(lab, dead) == [c \in DOMAIN lab |-> IF c \in dead THEN 1 ELSE lab[c]]
Step2(lab, noisy) == [c \in DOMAIN lab |-> IF c \in noisy THEN 2 ELSE lab[c]]
RuleImpl(N, dead, noisy, cand) == Step2(Step1(Step3(N, cand), dead), noisy)

(* ---- property layer -------------------------------------------------------- *)
\* the outside-brain block is the maximal run of candidates that reaches the top channel
TopBlock(N, cand) == {c \in 1..N : \A d \in c..N : d \in cand}
\* precedence 2 over 1 over 3 over 0
RuleP(N, dead, noisy, cand, lab) ==
    \A c \in 1..N : lab[c] = (IF c \in noisy THEN 2 ELSE IF c \in dead THEN 1
                              ELSE IF c \in TopBlock(N, cand) THEN 3 ELSE 0)

-----------------------------------------------------------------------------
(*              PART III - mode over batches (detect_bad_channels_cbin)     *)
-----------------------------------------------------------------------------
(* row = sequence of the labels one channel got in the successive batches    *)
Labels == 0..3
Count(row, l) == Cardinality({k \in 1..Len(row) : row[k] = l})
Modes(row) == {l \in Labels : \A m \in Labels : Count(row, l) >= Count(row, m)}

(* ---- implementation layer: scipy.stats.mode = first maximum of the counts of the sorted
   unique values, i.e. a scan over the labels in ascending order that keeps a strictly better one *)
RECURSIVE ModeScan(_, _, _, _)
ModeScan(row, l, best, bestn) ==
    IF l > 3 THEN best
    ELSE IF Count(row, l) > bestn THEN ModeScan(row, l + 1, l, Count(row, l))
    ELSE ModeScan(row, l + 1, best, bestn)
ModeImpl(row) == ModeScan(row, 0, -1, 0)

(* ---- property layer: the file-level label of a channel is a most frequent label of its
   batches (the text says "mode"; on ties every most frequent label is a mode) -------------- *)
ModeP(row, res) == res \in Modes(row)
\* tie rule of the implementation (smallest label), reported as drift if it changes
ModeTieP(row, res) == res = SetMin(Modes(row))

-----------------------------------------------------------------------------
(*       PART IV - discrete skeleton of the detection on a fault scenario    *)
-----------------------------------------------------------------------------
(* scenario sc = [n, dead, noisy, nrep, top]: n channels with a coherent background; *)
(* channel sc.dead is silent (0 = none); channel sc.noisy carries strong broadband   *)
(* noise (0 = none) - added to the common signal (nrep = 0) or instead of it         *)
(* (nrep = 1, e.g. a floating input); the top sc.top channels lack the common signal. *)
(* Abstract feature: coh[c] in {0,1} = regression coefficient of the channel on the  *)
(* median trace (1 with the common signal, 0 without).                               *)
InBlock(sc, c) == c > sc.n - sc.top
\* channels below the block that do not carry the common signal
Incoherent(sc) == ({sc.dead} \cup (IF sc.nrep = 1 THEN {sc.noisy} ELSE {})) \ {0}
Coh(sc, c) == IF c \in Incoherent(sc) \/ InBlock(sc, c) THEN 0 ELSE 1

(* ---- implementation layer ------------------------------------------------ *)
\* detrend(x, 11): ntap = 6 values are appended on both sides, medfilt(11), the trend is subtracted.
\*   "orig" : both pads replicate the edge value x[0] / x[-1]
\*   "fixed": the pad at the tip is the median of the first 11 values (the top one still replicates)
Ones(x, S) == Cardinality({c \in S : x[c] = 1})
Med01(x, S) == IF 2 * Ones(x, S) > Cardinality(S) THEN 1 ELSE 0          \* median of an odd count of 0/1
LeftPad(sc, x) == IF Variant = "orig" THEN x[1] ELSE Med01(x, 1..Min(11, sc.n))
Ext(sc, x) == [k \in -5..(sc.n + 6) |-> IF k < 1 THEN LeftPad(sc, x) ELSE IF k > sc.n THEN x[sc.n] ELSE x[k]]
Trend(sc, x) == LET e == Ext(sc, x) IN [c \in 1..sc.n |-> Med01(e, (c - 5)..(c + 5))]

CohVec(sc) == [c \in 1..sc.n |-> Coh(sc, c)]
\* xcor_hf = detrend(xcor, 11) in {-1, 0, 1};  xcor_lf = trend of the high-passed similarity - 1
XHf(sc) == LET x == CohVec(sc) t == Trend(sc, x) IN [c \in 1..sc.n |-> x[c] - t[c]]
DeadFlags(sc) == LET h == XHf(sc) IN {c \in 1..sc.n : h[c] = -1}
CandFlags(sc) == LET t == Trend(sc, CohVec(sc)) IN {c \in 1..sc.n : t[c] = 0}
\* a coherent channel whose trend collapsed sits exactly at the "xcor_hf > 1" threshold: either way
Borderline(sc) == LET h == XHf(sc) IN {c \in 1..sc.n : h[c] = 1}
NoisyFlagSets(sc) == {({sc.noisy} \ {0}) \cup B : B \in SUBSET Borderline(sc)}
DetectImpl(sc, noisyflags) == LET d == DeadFlags(sc) k == CandFlags(sc) IN RuleImpl(sc.n, d, noisyflags, k)

(* ---- property layer -------------------------------------------------------- *)
(* "a silent channel is labelled dead, a channel with strong broadband noise     *)
(*  noisy, a top block lacking the common signal outside-brain, wherever they    *)
(*  are placed, all other channels staying clear".                               *)
(* A silent channel inside, or directly below, the top block (or the top channel *)
(* itself) lacks the common signal AND is contiguous with the block: both        *)
(* clauses apply to it, so either label is accepted there.                       *)
Ambiguous(sc) == sc.dead >= sc.n - sc.top
Expected(sc, c) ==
    IF c = sc.noisy THEN {2}
    ELSE IF c = sc.dead THEN (IF Ambiguous(sc) THEN {1, 3} ELSE {1})
    ELSE IF InBlock(sc, c) THEN {3}
    ELSE {0}
DetectP(sc, lab) == \A c \in 1..sc.n : lab[c] \in Expected(sc, c)

(* Known-finding class (KNOWN_FINDINGS.txt, key detect:dead-below-top-block):     *)
(* a silent (or noise-only) channel 1..5 channels below the last in-brain channel tips the 11-point median at *)
(* the last channel inside the brain, which is then labelled outside (or noisy).  *)
KnownBelowBlock(sc) == sc.top >= 1 /\ \E p \in Incoherent(sc) : p >= sc.n - sc.top - 5 /\ p <= sc.n - sc.top - 1
\* ... and everything else is as the property demands
DetectKnownP(sc, lab) ==
    /\ KnownBelowBlock(sc)
    /\ \A c \in 1..sc.n : c # sc.n - sc.top => lab[c] \in Expected(sc, c)
    /\ lab[sc.n - sc.top] \in {0, 2, 3}
(* Known-finding class of the tree before the fix (key detect:dead-first-channel) *)
KnownFirst(sc) == sc.dead = 1
=============================================================================
