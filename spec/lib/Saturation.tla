----------------------------- MODULE Saturation -----------------------------
(***************************************************************************)
(* Saturation flags and mute gain of ibldsp.voltage.saturation (C16).       *)
(*                                                                         *)
(* Abstract input: per sample t the number of channels whose |v| exceeds    *)
(* 98 % of their range (cntOver[t]) and the number whose step into the next *)
(* sample reaches the slew limit (cntSlew[t], t < ns; cntAt[t] of them sit   *)
(* exactly at the limit).  The harness realises these counts with real       *)
(* voltages just below / at / just above both thresholds.                    *)
(*                                                                         *)
(* Implementation layer, one action per statement of the function:          *)
(*   Fractions  = np.mean(|data| > 0.98 range, 0), np.mean(|diff|/fs >= lim) *)
(*                with the trailing 0 of np.r_[.., 0]                        *)
(*   Or         = logical_or(frac > proportion, frac_diff > proportion)      *)
(*   Convolve   = scipy.signal.convolve(flags, cosine(M), mode='same')       *)
(*   Clip       = np.maximum(0, 1 - conv)                                    *)
(*   ZeroFlagged= mute[saturation] = 0      (Variant "fixed" only, F13)      *)
(* Gains are intervals <<lo, hi>> in millionths: the cosine window enters    *)
(* through a table of lower / upper bounds of its taps (numeric fact about   *)
(* sin(pi (k + 1/2) / M), cross-checked against scipy by the harness).       *)
(* Property layer: FlagP, RangeP, ZeroP, OneP, FlagsOnlyP over flags / gain. *)
(***************************************************************************)
EXTENDS Integers, Sequences, FiniteSets, TLC

CONSTANTS MaxNC,       \* channel counts 1..MaxNC
          MaxNS,       \* lengths 1..MaxNS
          Widths,      \* mute_window_samples
          Props,       \* proportions <<a, b>> = a/b
          SlewMode,    \* "all": every slew count explored, "zero": no slew (flags come from cntOver only)
          Variant      \* "fixed" = mute[saturation] = 0 after the clip, "orig" = tree before the fix (F13)

VARIABLES nc, ns, p, M, cntOver, cntSlew, pc, fOver, fSlew, flags, conv, mute

vars == <<nc, ns, p, M, cntOver, cntSlew, pc, fOver, fSlew, flags, conv, mute>>

UNIT == 1000000

WinLoTab == <<<<1000000>>,
              <<707106, 707106>>,
              <<499999, 1000000, 499999>>,
              <<382683, 923879, 923879, 382683>>,
              <<309016, 809016, 1000000, 809016, 309016>>,
              <<258819, 707106, 965925, 965925, 707106, 258819>>,
              <<222520, 623489, 900968, 1000000, 900968, 623489, 222520>>,
              <<195090, 555570, 831469, 980785, 980785, 831469, 555570, 195090>>,
              <<173648, 499999, 766044, 939692, 1000000, 939692, 766044, 499999, 173648>>,
              <<156434, 453990, 707106, 891006, 987688, 987688, 891006, 707106, 453990, 156434>>,
              <<142314, 415415, 654860, 841253, 959492, 1000000, 959492, 841253, 654860, 415415, 142314>>,
              <<130526, 382683, 608761, 793353, 923879, 991444, 991444, 923879, 793353, 608761, 382683, 130526>>>>
WinHiTab == <<<<1000000>>,
              <<707107, 707107>>,
              <<500001, 1000000, 500001>>,
              <<382684, 923880, 923880, 382684>>,
              <<309017, 809017, 1000000, 809017, 309017>>,
              <<258820, 707107, 965926, 965926, 707107, 258820>>,
              <<222521, 623490, 900969, 1000000, 900969, 623490, 222521>>,
              <<195091, 555571, 831470, 980786, 980786, 831470, 555571, 195091>>,
              <<173649, 500001, 766045, 939693, 1000000, 939693, 766045, 500001, 173649>>,
              <<156435, 453991, 707107, 891007, 987689, 987689, 891007, 707107, 453991, 156435>>,
              <<142315, 415416, 654861, 841254, 959493, 1000000, 959493, 841254, 654861, 415416, 142315>>,
              <<130527, 382684, 608762, 793354, 923880, 991445, 991445, 923880, 793354, 608762, 382684, 130527>>>>
MaxWidth == Len(WinLoTab)

Max(a, b) == IF a > b THEN a ELSE b
Abs(a) == IF a < 0 THEN -a ELSE a

-----------------------------------------------------------------------------
(* implementation layer *)

\* np.mean(boolean column) > proportion, in integers: cnt / n > a / b
MoreThan(cnt, n, pr) == cnt * pr[2] > pr[1] * n

Init == /\ nc \in 1..MaxNC /\ ns \in 1..MaxNS /\ p \in Props /\ M \in Widths
        /\ cntOver \in [1..ns -> 0..nc]
        /\ cntSlew \in (IF SlewMode = "all" THEN [1..(ns - 1) -> 0..nc] ELSE {[t \in 1..(ns - 1) |-> 0]})
        /\ pc = "data"
        /\ fOver = <<>> /\ fSlew = <<>> /\ flags = <<>> /\ conv = <<>> /\ mute = <<>>

Fractions == /\ pc = "data"
             /\ fOver' = [t \in 1..ns |-> MoreThan(cntOver[t], nc, p)]
             \* np.diff has ns - 1 columns; np.r_[n_diff_saturated, 0] appends a zero for the last sample
             /\ fSlew' = [t \in 1..ns |-> IF t < ns THEN MoreThan(cntSlew[t], nc, p) ELSE MoreThan(0, nc, p)]
             /\ pc' = "fractions"
             /\ UNCHANGED <<nc, ns, p, M, cntOver, cntSlew, flags, conv, mute>>

Or == /\ pc = "fractions"
      /\ flags' = [t \in 1..ns |-> fOver[t] \/ fSlew[t]]
      /\ pc' = "flags"
      /\ UNCHANGED <<nc, ns, p, M, cntOver, cntSlew, fOver, fSlew, conv, mute>>

\* scipy.signal.convolve(f, win, mode='same')[t] = sum_i f[i] * win[c + t - i], c = (M - 1) div 2 (0-based taps)
Tap(m, t, i) == (m - 1) \div 2 + t - i
SumTaps(f, m, t, tab) ==
    LET S[i \in 0..Len(f)] == IF i = 0 THEN 0
                              ELSE S[i - 1] + (IF f[i] /\ Tap(m, t, i) >= 0 /\ Tap(m, t, i) <= m - 1
                                               THEN tab[m][Tap(m, t, i) + 1] ELSE 0)
    IN S[Len(f)]
ConvOf(f, m) == [t \in 1..Len(f) |-> <<SumTaps(f, m, t, WinLoTab), SumTaps(f, m, t, WinHiTab)>>]
ClipOf(cv) == [t \in 1..Len(cv) |-> <<Max(0, UNIT - cv[t][2]), Max(0, UNIT - cv[t][1])>>]
MuteOf(f, m) ==       \* the whole gain computation, a function of the flags and the width only
    LET cl == ClipOf(ConvOf(f, m)) IN
    IF Variant = "fixed" THEN [t \in 1..Len(f) |-> IF f[t] THEN <<0, 0>> ELSE cl[t]] ELSE cl

Convolve == /\ pc = "flags"
            /\ conv' = ConvOf(flags, M)
            /\ pc' = "conv"
            /\ UNCHANGED <<nc, ns, p, M, cntOver, cntSlew, fOver, fSlew, flags, mute>>

Clip == /\ pc = "conv"
        /\ mute' = ClipOf(conv)
        /\ pc' = IF Variant = "fixed" THEN "clip" ELSE "done"
        /\ UNCHANGED <<nc, ns, p, M, cntOver, cntSlew, fOver, fSlew, flags, conv>>

ZeroFlagged == /\ pc = "clip" /\ Variant = "fixed"
               /\ mute' = [t \in 1..ns |-> IF flags[t] THEN <<0, 0>> ELSE mute[t]]
               /\ pc' = "done"
               /\ UNCHANGED <<nc, ns, p, M, cntOver, cntSlew, fOver, fSlew, flags, conv>>

Next == Fractions \/ Or \/ Convolve \/ Clip \/ ZeroFlagged
Spec == Init /\ [][Next]_vars

-----------------------------------------------------------------------------
(* property layer: f = returned flags (sequence of booleans), g = returned gain as intervals      *)
(* <<lo, hi>> in millionths (an observed gain v is the interval <<v, v>>)                          *)

\* flagged exactly when more than the proportion of channels exceed 98 % of range, or more than the
\* proportion exceed the slew limit into the next sample.  co / cs: counts strictly exceeding,
\* ca: counts sitting exactly at the slew limit (either reading of "exceed" is accepted for those)
FlagP(f, n, pr, co, cs, ca) ==
    /\ Len(f) = Len(co)
    /\ \A t \in 1..Len(f) :
          LET lo == MoreThan(co[t], n, pr) \/ (t < Len(f) /\ MoreThan(cs[t], n, pr))
              hi == MoreThan(co[t], n, pr) \/ (t < Len(f) /\ MoreThan(cs[t] + ca[t], n, pr))
          IN (lo => f[t]) /\ (f[t] => hi)
RangeP(g) == \A t \in 1..Len(g) : 0 <= g[t][1] /\ g[t][2] <= UNIT
ZeroP(f, g) == \A t \in 1..Len(f) : f[t] => g[t] = <<0, 0>>
\* 1 farther than the taper half-width (M div 2) from any flagged sample
Far(f, m, t) == \A i \in 1..Len(f) : f[i] => Abs(t - i) > m \div 2
OneP(f, g, m) == \A t \in 1..Len(f) : Far(f, m, t) => g[t] = <<UNIT, UNIT>>
\* two calls whose flags are equal return the same gain
FlagsOnlyP(f1, f2, same) == f1 = f2 => same

\* expected class of every sample: "Z" zero, "O" one, "P" anything in [0, 1]
ClassOf(f, m) == [t \in 1..Len(f) |-> IF f[t] THEN "Z" ELSE IF Far(f, m, t) THEN "O" ELSE "P"]

-----------------------------------------------------------------------------
(* the model's instances *)
NoAt == [t \in 1..ns |-> 0]
Flag == pc \notin {"data", "fractions"} => FlagP(flags, nc, p, cntOver, cntSlew \o <<0>>, NoAt)
InRange == pc \in {"clip", "done"} => RangeP(mute)
ZeroOnFlag == pc = "done" => ZeroP(flags, mute)
OneFar == pc = "done" => OneP(flags, mute, M)
FlagsOnly == pc = "done" => mute = MuteOf(flags, M)
\* the window is strictly positive on its support: a sample within reach of a flag is attenuated
Attenuated == pc = "done" => \A t \in 1..ns :
                 (\E i \in 1..ns : flags[i] /\ Tap(M, t, i) >= 0 /\ Tap(M, t, i) <= M - 1) => mute[t][2] < UNIT
=============================================================================
