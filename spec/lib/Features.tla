------------------------------ MODULE Features ------------------------------
(***************************************************************************)
(* Spike features of ibldsp.waveforms.compute_spike_features (property C14) *)
(*                                                                         *)
(* A waveform is a sequence (time, 1..T) of rows (trace, 1..C) of integers; *)
(* NaNV stands for NaN (a NaN-padded sample).  All reported indices are     *)
(* 0-based, as in the code: a vector `a` is read at index i as a[i + 1].    *)
(*                                                                         *)
(* Implementation layer: one operator per function of the code, with        *)
(* NumPy's semantics (first occurrence for argmax / nanargmax, masks as     *)
(* index ranges, defaults of argmax over an all-False vector):              *)
(*   FindPeak   = find_peak -> pick_maximum -> pick_maxima (+ NaN -> 0)     *)
(*   TipTrough  = invert_peak_waveform, find_trough, peak_to_trough_ratio,  *)
(*                the swap branch of find_tip_trough, find_tip              *)
(*   HalfPeak   = half_peak_point                                           *)
(*   Recovery   = recovery_point                                            *)
(* and the state machine Grow* ; FindPeakA ; TipTroughA ; HalfPeakA ;       *)
(* RecoveryA that enumerates every waveform of a box and runs them.         *)
(* Property layer (PeakP, OrderP, HalfP, RecoveryP, SucceedsP, ScaleP,      *)
(* PermP, BatchP): the given property over the waveform and the *reported*  *)
(* values only; the model instantiates it with the implementation layer,   *)
(* FeaturesTrace with what the real code returned.                          *)
(***************************************************************************)
EXTENDS Integers, Sequences, FiniteSets, TLC

CONSTANTS MaxT,        \* waveform lengths 2..MaxT
          NC,          \* number of traces
          Vals,        \* sample values (may contain NaNV)
          MaxD,        \* recovery offsets 0..min(MaxD, T-1)
          Variant      \* "fixed" = current tree, "orig" = tree before the fix: commits (F7, F7b)

NaNV == 1000000

VARIABLES w, pc, st, d
vars == <<w, pc, st, d>>

Abs(x) == IF x < 0 THEN -x ELSE x
Sgn(x) == IF x > 0 THEN 1 ELSE IF x < 0 THEN -1 ELSE 0
IMin(a, b) == IF a < b THEN a ELSE b

\* All folds below are divide-and-conquer so that the evaluation depth stays logarithmic in the length
\* (a 200-sample trace would overflow TLC's stack with a linear recursion).
\* np.argmax / np.nanargmax restricted to the unmasked index range lo..hi (0-based): <<first index of the
\* maximum, maximum>>; the left half wins ties
RECURSIVE AMF(_, _, _)
AMF(a, lo, hi) ==
    IF lo = hi THEN <<lo, a[lo + 1]>>
    ELSE LET mid == (lo + hi) \div 2
             l == AMF(a, lo, mid)
             r == AMF(a, mid + 1, hi)
         IN IF r[2] > l[2] THEN r ELSE l
ArgMaxFirst(a, lo, hi) == AMF(a, lo, hi)[1]
\* np.argmax(mask) over lo..hi where mask = P: first index with P, -1 when none (callers substitute the default)
RECURSIVE FirstUpR(_, _, _)
FirstUpR(P(_), lo, hi) ==
    IF lo > hi THEN -1
    ELSE IF lo = hi THEN (IF P(lo) THEN lo ELSE -1)
    ELSE LET mid == (lo + hi) \div 2
             l == FirstUpR(P, lo, mid)
         IN IF l # -1 THEN l ELSE FirstUpR(P, mid + 1, hi)
FirstUp(P(_), lo, hi, dflt) == LET i == FirstUpR(P, lo, hi) IN IF i = -1 THEN dflt ELSE i
RECURSIVE LastDownR(_, _, _)
LastDownR(P(_), lo, hi) ==
    IF lo > hi THEN -1
    ELSE IF lo = hi THEN (IF P(lo) THEN lo ELSE -1)
    ELSE LET mid == (lo + hi) \div 2
             r == LastDownR(P, mid + 1, hi)
         IN IF r # -1 THEN r ELSE LastDownR(P, lo, mid)
\* nearest index below `from` (scanning from..lo downwards) with P
FirstDown(P(_), from, lo, dflt) == LET i == LastDownR(P, lo, from) IN IF i = -1 THEN dflt ELSE i

-----------------------------------------------------------------------------
(* implementation layer: functions *)

\* _validate_arr_in: arr_in[np.isnan(arr_in)] = 0
Clean(w0) == [t \in 1..Len(w0) |-> [c \in 1..Len(w0[1]) |-> IF w0[t][c] = NaNV THEN 0 ELSE w0[t][c]]]
Column(wc, c) == [t \in 1..Len(wc) |-> wc[t][c]]

\* pick_maxima: per trace, first time index of max |.| and that maximum
\* pick_maximum: first trace whose maximum is largest; its time index; the signed value there
FindPeak(w0) ==
    LET wc == Clean(w0)
        T == Len(wc)
        C == Len(wc[1])
        idx == [c \in 1..C |-> ArgMaxFirst([t \in 1..T |-> Abs(wc[t][c])], 0, T - 1)]
        mv == [c \in 1..C |-> Abs(wc[idx[c] + 1][c])]
        ptr == ArgMaxFirst(mv, 0, C - 1)
        pk == idx[ptr + 1]
    IN [ptr |-> ptr, pk |-> pk, pkv |-> wc[pk + 1][ptr + 1]]

\* get_array_peak
RealTrace(w0, ptr) == Column(Clean(w0), ptr + 1)
\* invert_peak_waveform: positive spikes are flipped, invert_sign_peak = -sign(peak_val)
Invert(r, v) == IF v > 0 THEN [t \in 1..Len(r) |-> -r[t]] ELSE r
ISign(v) == -Sgn(v)
\* find_trough: nanargmax of the post-peak part (peak included) of the inverted trace
Trough(a, pk) == ArgMaxFirst(a, pk, Len(a) - 1)
\* (peak_val > 0) & (|peak_val / trough_val| <= 1.5); x/0 = inf, 0/0 = nan: both compare False
SwapCond(pkv, trv) == pkv > 0 /\ trv # 0 /\ 2 * Abs(pkv) <= 3 * Abs(trv)

\* find_tip_trough up to (not including) find_tip
TroughSwap(real, pk, pkv) ==
    LET a0 == Invert(real, pkv)
        is0 == ISign(pkv)
        tr0 == Trough(a0, pk)
        trv0 == a0[tr0 + 1] * is0
    IN IF SwapCond(pkv, trv0)
       THEN LET rows == Invert(real, trv0)        \* arr_peak_rows after invert_peak_waveform
                is1 == ISign(trv0)
                tr1 == Trough(rows, tr0)
            IN [pk |-> tr0, pkv |-> trv0, is |-> is1, tr |-> tr1, trv |-> rows[tr1 + 1] * is1,
                \* before fix F7b the rows were stored into arr_peak *before* being re-inverted
                a |-> IF Variant = "orig" THEN real ELSE rows]
       ELSE [pk |-> pk, pkv |-> pkv, is |-> is0, tr |-> tr0, trv |-> trv0, a |-> a0]
\* find_tip: nanargmax of the pre-peak part; all-NaN (peak at index 0) raises ValueError
TipTrough(real, pk, pkv) ==
    LET s == TroughSwap(real, pk, pkv) IN
    IF s.pk = 0 THEN [exc |-> "ValueError"] @@ s @@ [tip |-> -1, tipv |-> 0]
    ELSE LET tip == ArgMaxFirst(s.a, 0, s.pk - 1) IN
         [exc |-> "", tip |-> tip, tipv |-> s.a[tip + 1] * s.is] @@ s

\* half_peak_point: (arr_peak - half_max) > 0 with half_max = peak_val / 2 * invert_sign_peak, doubled
HalfPeak(a, pk, pkv, is) ==
    LET T == Len(a)
        Up(i) == 2 * a[i + 1] - pkv * is > 0
        hpost == FirstUp(Up, pk, T - 1, 0)           \* argmax of an all-False row is 0
        hpre == FirstDown(Up, pk - 1, 0, T - 1)      \* ... flipped twice: T - 1
    IN [hpost |-> hpost, hpre |-> hpre, hpostv |-> a[hpost + 1] * is, hprev |-> a[hpre + 1] * is]

\* recovery_point
Recovery(a, tr, is, dd) ==
    LET T == Len(a)
        idx == tr + dd
        over == IF Variant = "orig" THEN idx > T ELSE idx >= T
        rec == IF over THEN T - 1 ELSE idx
    IN IF dd >= T THEN [exc |-> "ValueError", rec |-> -1, recv |-> 0]
       ELSE IF rec >= T THEN [exc |-> "IndexError", rec |-> -1, recv |-> 0]
       ELSE [exc |-> "", rec |-> rec, recv |-> a[rec + 1] * is]

Fields == {"ptr", "pk", "pkv", "tr", "trv", "tip", "tipv", "hpost", "hpre", "hpostv", "hprev", "rec", "recv"}
Proj(r) == [k \in Fields |-> r[k]]

\* compute_spike_features as one function: record with field exc ("" = returned) and, if returned, Fields
Feat(w0, dd) ==
    LET p == FindPeak(w0)
        real == RealTrace(w0, p.ptr)
        tt == TipTrough(real, p.pk, p.pkv)
    IN IF tt.exc # "" THEN [exc |-> tt.exc]
       ELSE LET h == HalfPeak(tt.a, tt.pk, tt.pkv, tt.is)
                r == Recovery(tt.a, tt.tr, tt.is, dd)
            IN IF r.exc # "" THEN [exc |-> r.exc]
               ELSE [exc |-> ""] @@ Proj([ptr |-> p.ptr] @@ tt @@ h @@ r)

ScaleW(w0, c) == [t \in 1..Len(w0) |-> [k \in 1..Len(w0[1]) |-> IF w0[t][k] = NaNV THEN NaNV ELSE c * w0[t][k]]]
\* perm[j] = old (1-based) trace shown at new position j
PermW(w0, perm) == [t \in 1..Len(w0) |-> [k \in 1..Len(w0[1]) |-> w0[t][perm[k]]]]

-----------------------------------------------------------------------------
(* property layer: only the waveform, the offset and the reported values *)

\* a NaN sample is no deflection
RECURSIVE MaxIn(_, _, _)      \* max of a[lo..hi], 1-based
MaxIn(a, lo, hi) ==
    IF lo = hi THEN a[lo]
    ELSE LET mid == (lo + hi) \div 2 l == MaxIn(a, lo, mid) r == MaxIn(a, mid + 1, hi) IN IF r > l THEN r ELSE l
MaxUpTo(a, n) == MaxIn(a, 1, n)
ColAbsMax(wc, c) == MaxUpTo([t \in 1..Len(wc) |-> Abs(wc[t][c])], Len(wc))
GMax(wc) == MaxUpTo([c \in 1..Len(wc[1]) |-> ColAbsMax(wc, c)], Len(wc[1]))
MinFrom(a, i) == -MaxIn([t \in 1..Len(a) |-> -a[t]], i, Len(a))     \* min of a[i..Len(a)], 1-based

\* "whose largest deflection is not on the first sample" (no trace attains the global |max| at time 0),
\* and the recovery offset fits the window (the code documents a ValueError otherwise)
Admissible(w0, dd) ==
    LET wc == Clean(w0) G == GMax(wc) IN
    /\ Len(wc) >= 2 /\ dd >= 0 /\ dd < Len(wc)
    /\ \A c \in 1..Len(wc[1]) : Abs(wc[1][c]) < G

SucceedsP(w0, dd, exc) == Admissible(w0, dd) => exc = ""

\* the reported peak is the global absolute extremum or, for a weakly positive spike
\* (peak > 0 and |peak / trough| <= 1.5, trough = the minimum from the peak on), that trough, same trace.
\* Ties (several samples at the extremum) may be resolved either way.
PeakP(w0, f) ==
    LET wc == Clean(w0)
        T == Len(wc)
        C == Len(wc[1])
        G == GMax(wc)
    IN /\ f.ptr \in 0..(C - 1) /\ f.pk \in 0..(T - 1)
       /\ LET col == Column(wc, f.ptr + 1) IN
          /\ f.pkv = col[f.pk + 1]
          /\ \E p \in 0..(T - 1) :
               /\ Abs(col[p + 1]) = G
               /\ LET m == MinFrom(col, p + 1) IN
                  IF col[p + 1] > 0 /\ m # 0 /\ 2 * G <= 3 * Abs(m)
                  THEN f.pk >= p /\ f.pkv = m
                  ELSE f.pk = p

\* tip precedes peak which does not follow trough
OrderP(w0, f) == 0 <= f.tip /\ f.tip < f.pk /\ f.pk <= f.tr /\ f.tr <= Len(w0) - 1

\* half-peak points: nearest sample on either side of the reported peak at which the trace is back within
\* half of the peak value, whenever such a sample exists.  A sample exactly at half may or may not count.
HalfP(w0, f) ==
    LET wc == Clean(w0)
        T == Len(wc)
        col == Column(wc, f.ptr + 1)
        v == col[f.pk + 1]
        s == Sgn(v)
        Strict(i) == 2 * s * col[i + 1] < Abs(v)
        Loose(i) == 2 * s * col[i + 1] <= Abs(v)
    IN /\ f.ptr \in 0..(Len(wc[1]) - 1) /\ f.pk \in 0..(T - 1)
       /\ (\E j \in (f.pk + 1)..(T - 1) : Strict(j)) =>
            /\ f.hpost \in (f.pk + 1)..(T - 1) /\ Loose(f.hpost)
            /\ \A k \in (f.pk + 1)..(f.hpost - 1) : ~Strict(k)
       /\ (\E j \in 0..(f.pk - 1) : Strict(j)) =>
            /\ f.hpre \in 0..(f.pk - 1) /\ Loose(f.hpre)
            /\ \A k \in (f.hpre + 1)..(f.pk - 1) : ~Strict(k)

\* recovery point = trough + offset, the last sample when that runs past the end
RecoveryP(w0, dd, f) == f.rec = IMin(f.tr + dd, Len(w0) - 1)

IdxFields == {"ptr", "pk", "tr", "tip", "hpost", "hpre", "rec"}
ValFields == Fields \ IdxFields
\* f: features of w, g: features of c * w
ScaleP(f, g, c) == (\A k \in IdxFields : g[k] = f[k]) /\ (\A k \in ValFields : g[k] = c * f[k])
\* g: features of the waveform with traces permuted (perm[j] = old trace at new position j); required
\* when a single trace carries the global extremum (otherwise either of them may be reported)
UniqueMaxTrace(w0) ==
    LET wc == Clean(w0) G == GMax(wc) IN Cardinality({c \in 1..Len(wc[1]) : ColAbsMax(wc, c) = G}) = 1
PermP(w0, f, g, perm) ==
    UniqueMaxTrace(w0) => /\ g.ptr \in 0..(Len(perm) - 1) /\ perm[g.ptr + 1] = f.ptr + 1
                          /\ \A k \in Fields \ {"ptr"} : g[k] = f[k]
\* g: features of the same waveform computed in another batch
BatchP(f, g) == \A k \in Fields : g[k] = f[k]

-----------------------------------------------------------------------------
(* the model: every waveform of the box, run through the steps of compute_spike_features *)

Init == w = <<>> /\ pc = "grow" /\ st = [exc |-> ""] /\ d = -1

Grow == /\ pc = "grow" /\ Len(w) < MaxT
        /\ \E row \in [1..NC -> Vals] : w' = Append(w, row)
        /\ UNCHANGED <<pc, st, d>>

FindPeakA == /\ pc = "grow" /\ Len(w) >= 2
             /\ st' = [exc |-> ""] @@ FindPeak(w)
             /\ pc' = "tiptrough"
             /\ UNCHANGED <<w, d>>

TipTroughA == /\ pc = "tiptrough"
              /\ LET tt == TipTrough(RealTrace(w, st.ptr), st.pk, st.pkv) IN
                 /\ st' = tt @@ st            \* fields of tt take precedence (peak may have been swapped)
                 /\ pc' = IF tt.exc = "" THEN "half" ELSE "raised"
              /\ UNCHANGED <<w, d>>

HalfPeakA == /\ pc = "half"
             /\ st' = HalfPeak(st.a, st.pk, st.pkv, st.is) @@ st
             /\ pc' = "recovery"
             /\ UNCHANGED <<w, d>>

RecoveryA == /\ pc = "recovery"
             /\ \E dd \in 0..IMin(MaxD, Len(w) - 1) :
                  LET r == Recovery(st.a, st.tr, st.is, dd) IN
                  /\ d' = dd
                  /\ st' = r @@ st
                  /\ pc' = IF r.exc = "" THEN "done" ELSE "raised"
             /\ UNCHANGED w

Next == Grow \/ FindPeakA \/ TipTroughA \/ HalfPeakA \/ RecoveryA
Spec == Init /\ [][Next]_vars

\* the property layer instantiated with the implementation layer
DD == IF d < 0 THEN 0 ELSE d       \* before the recovery step any admissible offset
Adm == Admissible(w, DD)
Succeeds == pc = "raised" => SucceedsP(w, DD, st.exc)
Peak == (pc \in {"half", "recovery", "done"} /\ Adm) => PeakP(w, st)
Order == (pc \in {"half", "recovery", "done"} /\ Adm) => OrderP(w, st)
Half == (pc \in {"recovery", "done"} /\ Adm) => HalfP(w, st)
RecoveryFallback == (pc = "done" /\ Adm) => RecoveryP(w, d, st)
\* the step functions and the one-shot function agree (so the laws below speak about the same thing)
StepsAreFeat == pc = "done" => Proj(st) = Proj(Feat(w, d))
ScaleLaw == (pc = "done" /\ Adm) =>
              \A c \in {2, 3} : LET g == Feat(ScaleW(w, c), d) IN g.exc = "" /\ ScaleP(st, g, c)
Perms == {p \in [1..NC -> 1..NC] : \A i, j \in 1..NC : i # j => p[i] # p[j]}
PermLaw == (pc = "done" /\ Adm) =>
              \A p \in Perms : LET g == Feat(PermW(w, p), d) IN g.exc = "" /\ PermP(w, st, g, p)

\* vacuity control (expected to be VIOLATED: the states the invariants above speak about are reachable, which
\* needs every action of the pipeline)
NoAdmissibleDone == ~(pc = "done" /\ Adm)
NoRaise == pc # "raised"

\* spec -> code: every complete waveform of the box with the expected outcome for every offset
\* (exported by the harness configuration; see spec/mc/MC_FeaturesExport.tla)
=============================================================================
