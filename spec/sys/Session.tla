------------------------------- MODULE Session -------------------------------
(***************************************************************************)
(* X01 - behaviours of a recording *session* that none of the listed        *)
(* properties C01..C20 covers (DESIGN.md section 6).  Four parts, one       *)
(* module; the constant `Part` selects which state machine a configuration  *)
(* explores (the single variable `s` is a record whose shape depends on it).*)
(*                                                                         *)
(*  1 "glob"    spikeglx.glob_ephys_files / get_probes_from_folder /        *)
(*              get_neuropixel_version_from_files / _from_folder            *)
(*  2 "sync"    spikeglx.get_hardware_config / _sync_map_from_hardware_     *)
(*              config / get_sync_map                                       *)
(*  3 "recon"   neuropixel.NP2Reconstructor.process                         *)
(*  4 "reader"  spikeglx.Reader open / close / __enter__ / __exit__ / read  *)
(*              / is_open / read_sync, module function spikeglx.read        *)
(*                                                                         *)
(* There is no properties.jsonl entry for X01: the PROPERTY LAYER below is  *)
(* written from the docstrings and comments of the code.  Every clause      *)
(* names the text it is taken from.  The IMPLEMENTATION LAYER is a          *)
(* transcription of the code, branch by branch.  TLC checks                 *)
(* implementation => property over the boxes of spec/mc/Session_*.cfg and   *)
(* exports, for every case, the result the transcription expects; the       *)
(* harness replays every case on the real code.                            *)
(*                                                                         *)
(* Verdict roles in this check (they differ from C01..C20 because the       *)
(* property text is ours): real code /= expected result of the              *)
(* implementation layer -> VIOLATION (the code changed); a property-layer   *)
(* clause that the *unchanged* code contradicts is listed as a DEVIATION    *)
(* class Dev* here (the invariant checked is Clause \/ Dev), confirmed on   *)
(* the real code by the harness and reported as an OBSERVATION, never as a  *)
(* failure.  Vacuity: spec/mc/MC_Session.tla has TLC establish that every   *)
(* branch and every deviation class occurs in the boxes (facts exported     *)
(* with the cases for glob, conjuncts of the postcondition for the other    *)
(* parts), and the small parts run with -coverage 1 (every action taken).   *)
(* Modelling choices: the result of glob_ephys_files is a *set* of entries  *)
(* (directory order is arbitrary; two identical {nidq: None} entries of     *)
(* one folder collapse - the trace spec and the replay count them);         *)
(* `next(glob)` is a free choice among the matching files; file names are   *)
(* stem.stream.ext and fnmatch is transcribed by ExtTable / SufMatch.       *)
(*                                                                         *)
(* ---------------- property layer: clauses and their sources -------------- *)
(* glob_ephys_files (docstring = D, comments in the body = C)               *)
(*  GKeys      D ":returns: a list of dictionaries with keys 'ap': apfile,  *)
(*             'lf': lffile and 'label'"; C "for 3b probes, need also to    *)
(*             get the nidq dataset type" -> entries are ap-entries         *)
(*             {label, ap, lf, path} or nidq-entries {label, nidq, path}    *)
(*  GLabel     C "the label is the current directory except if it is bare   *)
(*             in raw_ephys_data"                                           *)
(*  GPath      D "gets the ap and lf files and labels associated to the     *)
(*             subfolders where they are" -> path = folder of the file      *)
(*  GPair      C "then get the corresponding lf file if it exists" -> same  *)
(*             folder, same name with .lf. for .ap., lf = None iff no such  *)
(*             file                                                         *)
(*  GExt       D ":param ext: file extension to look for, default 'bin' but *)
(*             could also be 'meta' or 'ch'" -> every returned name ends    *)
(*             with ext (so .cbin answers to 'bin')                         *)
(*  GComplete  D first sentence + the folder tree drawn in D: every         *)
(*  GSound     recording (an .ap<suffix> / .nidq<suffix> file) in scope     *)
(*             whose `ext` file exists gives exactly one entry, and every   *)
(*             entry comes from one                                        *)
(*  GRecursive D ":param recursive:" (name only, no text): recursive=False  *)
(*             -> only files directly in session_path.  DEVIATION           *)
(*             DevRecursiveNidq: the nidq loop uses rglob.                  *)
(*  GExists    D ":param bin_exists:" (name only): bin_exists=True -> every *)
(*             returned file exists.  DEVIATION DevNidqNone: a .nidq.meta   *)
(*             without its binary gives an entry with nidq = None (an       *)
(*             .ap.meta in the same situation is skipped).                  *)
(* get_probes_from_folder                                                   *)
(*  GProbes    C "should glob the ephys files and get out the labels"       *)
(*  GProbesAp  the function's name: every returned label is the label of a  *)
(*             probe (an entry with an ap file), once.  DEVIATION           *)
(*             DevProbesNidq: the folder of a nidq file that is not         *)
(*             raw_ephys_data is returned as a probe (it is on the tree     *)
(*             drawn in the docstring of glob_ephys_files: '3B').           *)
(* get_neuropixel_version_from_folder                                       *)
(*  GVersion   C "for 3b probes, need also to get the nidq dataset type":   *)
(*             "3B" iff the tree holds a nidq recording, else "3A"          *)
(* _sync_map_from_hardware_config / get_sync_map / get_hardware_config      *)
(*  SSound     D ":return: dictionary where key names refer to object and   *)
(*  SComplete  values to sync channel index"; the index of a pin is         *)
(*             neuropixel.SYNC_PIN_OUT (3A: 24-pin connector, ground pins   *)
(*             have none; 3B: P0.0..P0.7), transcribed in PinOut below and  *)
(*             compared with the real table by the harness                  *)
(*  SAnalog    Reader.read_sync D "Convert analog to digital ... and append *)
(*             to array" + split_sync D "16 single bits channels": analog   *)
(*             input k is column 16 + k                                     *)
(*  SNone      get_hardware_config D ":param config_file: folder or json    *)
(*             file :return: dictionary or None"                            *)
(* NP2Reconstructor                                                         *)
(*  RNot24     class D "Only applicable for NP2.4" + warning "Not           *)
(*             Neuropixel 2.4 nothing to do" -> status 0, nothing written   *)
(*  RCount     warning "Number of expected subfolders and number of shanks  *)
(*             do not match" -> status 0, no binary written                 *)
(*  RDone      process D "Function to reconstruct the original ap file from *)
(*             split files" -> matching folders: status 1, data = original  *)
(*  RMeta      write_metadata D "If it already exists and the file size     *)
(*             matches, does not replace the original file"                 *)
(*  RCompress  __init__ D ":param compress: whether to compress the         *)
(*             reconstructed file"                                          *)
(* Reader life-cycle                                                        *)
(*  LCtor      __init__ D ":param open: when True the file is opened"       *)
(*  LNotOpen   read: IOError("Reader not open; call `open` before `read`")  *)
(*  LRelease   class D "Note: To release system resources the close method  *)
(*             must be called" -> after close()/__exit__ no handle is live  *)
(*  LTruthful  the name of the property `is_open` + the IOError text: it is *)
(*             True iff a read would be served.  DEVIATION DevStale:        *)
(*             close() does not reset `_raw`, so is_open stays True (and    *)
(*             `with sr:` on a closed reader does not re-open it).          *)
(*  LSync      read_sync_digital: warning "Sync trace not labeled in           *)
(*             metadata. Assuming last trace" -> a reader without metadata  *)
(*             answers read_sync / read(sync=True) from the last column.    *)
(*             DEVIATION DevFlatSync: the column list is then taken from    *)
(*             the absent metadata: AttributeError.                         *)
(*  LFlat      class D "To open a flat binary file: Reader(bin, nc=, ns=,    *)
(*             fs=)" + LCtor: open=False gives a closed reader.  DEVIATION  *)
(*             DevFlatUnset: `_raw` is never initialised on that branch:    *)
(*             is_open / read / close raise AttributeError.                 *)
(***************************************************************************)
EXTENDS Integers, Sequences, FiniteSets, TLC

CONSTANTS Part,          \* "glob" | "sync" | "recon" | "reader" | "none" (trace spec)
          GlobCases,     \* set of [t |-> tree, o |-> options]
          SyncCases,     \* set of [sys, dig, ana]
          ReconCases,    \* set of [kind, nsh, k, pre, compress]
          ReaderKinds,   \* subset of {"bin", "cbin", "flat"}
          MaxLen         \* reader: number of method calls after the constructor

VARIABLE s

-----------------------------------------------------------------------------
(***************************************************************************)
(* 1. glob_ephys_files                                                      *)
(* A file is [stem, stream, e] and is called stem.stream.e ; a tree is      *)
(* [name, parent, files] (sequences indexed by folder, folder 1 =            *)
(* session_path, parent[d] < d).                                            *)
(***************************************************************************)
NoFile == [stem |-> "", stream |-> "", e |-> ""]

\* fnmatch(name, stem + ".*" + ext) for the names of the universe: "e ends with ext"
ExtTable == {<<"bin", "bin">>, <<"cbin", "bin">>, <<"cbin", "cbin">>, <<"ch", "ch">>, <<"meta", "meta">>}
ExtMatch(f, ext) == <<f.e, ext>> \in ExtTable
\* fnmatch(name, "*.ap*" + suffix): the name ends with suffix (suffixes of the universe are "." + an extension)
SufMatch(f, suf) == suf = "." \o f.e

Dirs(t) == 1..Len(t.name)
Companions(t, d, stem, stream, ext) ==
    {g \in t.files[d] : g.stem = stem /\ g.stream = stream /\ ExtMatch(g, ext)}

---- (* implementation layer *)
\* get_label
ImplLabel(t, d) == IF t.name[d] # "raw_ephys_data" THEN t.name[d] ELSE ""

\* Path(session_path).glob(f"{recurse}*.ap*{suffix}")
ApDrivers(t, o) == {<<d, f>> \in UNION {{<<d, f>> : f \in t.files[d]} : d \in Dirs(t)} :
                        /\ f.stream = "ap" /\ SufMatch(f, o.suffix)
                        /\ (d = 1 \/ o.recursive)}
\* Path(session_path).rglob(f"{recurse}*.nidq*{suffix}")  -- rglob: every depth whatever `recursive` says
NidqDrivers(t, o) == {<<d, f>> \in UNION {{<<d, f>> : f \in t.files[d]} : d \in Dirs(t)} :
                        f.stream = "nidq" /\ SufMatch(f, o.suffix)}

\* which branch one iteration of the ap loop takes
ApBranch(t, o, d, f) ==
    LET found == Companions(t, d, f.stem, "ap", o.ext) IN
    IF found = {} /\ o.binex THEN "skip_missing"
    ELSE IF found = {} /\ o.ext # "bin" THEN "skip_noext"
    ELSE IF ~o.binex /\ o.ext = "bin" THEN "with_suffix"
    ELSE "found"
\* the ap files it may settle on: next(glob) takes the first directory entry, any order is possible
ApChoices(t, o, d, f) ==
    LET b == ApBranch(t, o, d, f) IN
    IF b \in {"skip_missing", "skip_noext"} THEN {}
    ELSE IF b = "with_suffix" THEN {[f EXCEPT !.e = "bin"]}
    ELSE Companions(t, d, f.stem, "ap", o.ext)
LfChoices(t, o, d, a) ==
    LET c == Companions(t, d, a.stem, "lf", o.ext) IN IF c = {} THEN {NoFile} ELSE c
ApEntries(t, o, d, f) ==
    {[kind |-> "ap", dir |-> d, fdir |-> d, label |-> ImplLabel(t, d), file |-> a, lf |-> l, lfdir |-> d] :
        <<a, l>> \in UNION {{<<a, l>> : l \in LfChoices(t, o, d, a)} : a \in ApChoices(t, o, d, f)}}
NidqChoices(t, o, d, f) ==
    LET found == Companions(t, d, f.stem, "nidq", o.ext) IN
    IF ~o.binex /\ o.ext = "bin" THEN {[f EXCEPT !.e = "bin"]}
    ELSE IF found = {} THEN {NoFile} ELSE found
NidqEntries(t, o, d, f) ==
    {[kind |-> "nidq", dir |-> d, fdir |-> d, label |-> ImplLabel(t, d), file |-> v, lf |-> NoFile, lfdir |-> d] :
        v \in NidqChoices(t, o, d, f)}

\* options of glob_ephys_files(session_path, ext="meta") as used by the two *_from_folder functions
MetaOpts == [ext |-> "meta", suffix |-> ".meta", recursive |-> TRUE, binex |-> TRUE]
\* get_probes_from_folder: one label per entry whose label is not empty, as a bag label -> number of times returned
MetaDrivers(t) == ApDrivers(t, MetaOpts) \cup NidqDrivers(t, MetaOpts)
ImplProbes(t) == [l \in {ImplLabel(t, x[1]) : x \in MetaDrivers(t)} \ {""} |->
                    Cardinality({x \in MetaDrivers(t) : ImplLabel(t, x[1]) = l})]
\* get_neuropixel_version_from_files on a result: any([ef.get("nidq") ...])
ImplVersionFiles(out) == IF \E e \in out : e.kind = "nidq" /\ e.file # NoFile THEN "3B" ELSE "3A"
ImplVersionFolder(t) == IF NidqDrivers(t, MetaOpts) # {} THEN "3B" ELSE "3A"

---- (* property layer: (t, o) is the input, `out` the set of entries that came back *)
Exists(t, d, f) == d \in Dirs(t) /\ f \in t.files[d]
GKeysP(out) == \A e \in out : e.kind \in {"ap", "nidq"}
GLabelP(t, out) == \A e \in out : e.label = (IF t.name[e.dir] = "raw_ephys_data" THEN "" ELSE t.name[e.dir])
GPathP(t, o, out) == \A e \in out : e.file # NoFile => e.dir = e.fdir
GPairP(t, o, out) ==
    \A e \in out : e.kind = "ap" =>
        LET cands == {g \in t.files[e.fdir] : g.stem = e.file.stem /\ g.stream = "lf" /\ ExtMatch(g, o.ext)} IN
        IF e.lf = NoFile THEN cands = {} ELSE e.lf \in cands /\ e.lfdir = e.fdir
GExtP(o, out) == \A e \in out : (e.file # NoFile => ExtMatch(e.file, o.ext)) /\ (e.lf # NoFile => ExtMatch(e.lf, o.ext))
Recordings(t, o, stream) ==   \* <<folder, stem>> of the recordings of a stream in scope of the call
    {<<d, f.stem>> : <<d, f>> \in {x \in UNION {{<<d, f>> : f \in t.files[d]} : d \in Dirs(t)} :
                                      x[2].stream = stream /\ SufMatch(x[2], o.suffix) /\ (x[1] = 1 \/ o.recursive)}}
HasExt(t, o, d, stem, stream) == \E g \in t.files[d] : g.stem = stem /\ g.stream = stream /\ ExtMatch(g, o.ext)
GCompleteP(t, o, out) ==
    /\ \A r \in Recordings(t, o, "ap") : HasExt(t, o, r[1], r[2], "ap") =>
            Cardinality({e \in out : e.kind = "ap" /\ e.dir = r[1] /\ e.file.stem = r[2]}) = 1
    /\ \A r \in Recordings(t, o, "nidq") : HasExt(t, o, r[1], r[2], "nidq") =>
            Cardinality({e \in out : e.kind = "nidq" /\ e.dir = r[1] /\ e.file.stem = r[2]}) = 1
GSoundP(t, o, out) ==       \* every entry comes from a recording of the tree (scope is the business of GRecursiveP)
    \A e \in out : e.file # NoFile =>
        \E f \in t.files[e.dir] : f.stem = e.file.stem /\ f.stream = e.kind /\ SufMatch(f, o.suffix)
GRecursiveP(o, out) == ~o.recursive => \A e \in out : e.dir = 1
DevRecursiveNidq(o, out) == \A e \in out : e.dir # 1 => e.kind = "nidq"
GExistsP(t, o, out) == o.binex => \A e \in out : e.file # NoFile /\ Exists(t, e.fdir, e.file)
DevNidqNone(t, o, out) == \A e \in out : ~(e.file # NoFile /\ Exists(t, e.fdir, e.file)) => (e.kind = "nidq" /\ e.file = NoFile)

\* probes: bag label -> number of times the label was returned
MetaFilesNamed(t, l, stream) == {x \in UNION {{<<d, f>> : f \in t.files[d]} : d \in Dirs(t)} :
                                    t.name[x[1]] = l /\ x[2].stream = stream /\ x[2].e = "meta"}
GProbesP(bag, metaout) == /\ DOMAIN bag = {e.label : e \in metaout} \ {""}
                          /\ \A l \in DOMAIN bag : bag[l] = Cardinality({e \in metaout : e.label = l})
GProbesApP(t, bag) == \A l \in DOMAIN bag : bag[l] = Cardinality(MetaFilesNamed(t, l, "ap"))
DevProbesNidq(t, bag) == \A l \in DOMAIN bag : bag[l] = Cardinality(MetaFilesNamed(t, l, "ap")) + Cardinality(MetaFilesNamed(t, l, "nidq"))
GVersionP(t, v) == v = (IF \E d \in Dirs(t) : \E f \in t.files[d] : f.stream = "nidq" /\ f.e = "meta" THEN "3B" ELSE "3A")

---- (* state machine: one action per loop iteration and branch; canonical iteration order (the result is a set) *)
GlobInit == s \in {[c |-> c, pc |-> "ap", todo |-> ApDrivers(c.t, c.o), out |-> {}] : c \in GlobCases}
Pick(S) == CHOOSE x \in S : TRUE
GlobApSkip ==
    /\ Part = "glob" /\ s.pc = "ap" /\ s.todo # {}
    /\ LET x == Pick(s.todo) IN
        /\ ApBranch(s.c.t, s.c.o, x[1], x[2]) \in {"skip_missing", "skip_noext"}
        /\ s' = [s EXCEPT !.todo = @ \ {x}]
GlobApAppend ==
    /\ Part = "glob" /\ s.pc = "ap" /\ s.todo # {}
    /\ LET x == Pick(s.todo) IN
        \E e \in ApEntries(s.c.t, s.c.o, x[1], x[2]) : s' = [s EXCEPT !.todo = @ \ {x}, !.out = @ \cup {e}]
GlobApEnd ==
    /\ Part = "glob" /\ s.pc = "ap" /\ s.todo = {}
    /\ s' = [s EXCEPT !.pc = "nidq", !.todo = NidqDrivers(s.c.t, s.c.o)]
GlobNidqAppend ==
    /\ Part = "glob" /\ s.pc = "nidq" /\ s.todo # {}
    /\ LET x == Pick(s.todo) IN
        \E e \in NidqEntries(s.c.t, s.c.o, x[1], x[2]) : s' = [s EXCEPT !.todo = @ \ {x}, !.out = @ \cup {e}]
GlobEnd ==
    /\ Part = "glob" /\ s.pc = "nidq" /\ s.todo = {}
    /\ s' = [s EXCEPT !.pc = "done"]
GlobNext == GlobApSkip \/ GlobApAppend \/ GlobApEnd \/ GlobNidqAppend \/ GlobEnd

GDone == Part = "glob" /\ s.pc = "done"
GKeys == GDone => GKeysP(s.out)
GLabel == GDone => GLabelP(s.c.t, s.out)
GPath == GDone => GPathP(s.c.t, s.c.o, s.out)
GPair == GDone => GPairP(s.c.t, s.c.o, s.out)
GExt == GDone => GExtP(s.c.o, s.out)
GComplete == GDone => GCompleteP(s.c.t, s.c.o, s.out)
GSound == GDone => GSoundP(s.c.t, s.c.o, s.out)
GRecursive == GDone => (GRecursiveP(s.c.o, s.out) \/ DevRecursiveNidq(s.c.o, s.out))
GExists == GDone => (GExistsP(s.c.t, s.c.o, s.out) \/ DevNidqNone(s.c.t, s.c.o, s.out))
\* the two *_from_folder functions are pure functions of the tree: judged once per case (at the initial state)
GProbes == (Part = "glob" /\ s.pc = "ap" /\ s.out = {} /\ s.c.o = MetaOpts) =>
              /\ (GProbesApP(s.c.t, ImplProbes(s.c.t)) \/ DevProbesNidq(s.c.t, ImplProbes(s.c.t)))
              /\ GVersionP(s.c.t, ImplVersionFolder(s.c.t))
GProbesLabels == (GDone /\ s.c.o = MetaOpts) => GProbesP(ImplProbes(s.c.t), s.out)

-----------------------------------------------------------------------------
(***************************************************************************)
(* 2. sync map.  A case is [sys, dig, ana]: sys = value of "SYSTEM" ("none" *)
(* = key missing), dig / ana = [present, w] with w a sequence of <<pin,      *)
(* object name>> in file order (pins distinct: they are JSON keys).         *)
(***************************************************************************)
None == -1
\* neuropixel.SYNC_PIN_OUT
PinOut3A == [p \in {"pin01", "pin02", "pin03", "pin04", "pin05", "pin06", "pin07", "pin08", "pin09", "pin10", "pin11", "pin12",
                    "pin13", "pin14", "pin15", "pin16", "pin17", "pin18", "pin19", "pin20", "pin21", "pin22", "pin23", "pin24"} |->
    CASE p = "pin01" -> 0 [] p = "pin02" -> 1 [] p = "pin03" -> 2 [] p = "pin04" -> 3 [] p = "pin06" -> 4 [] p = "pin07" -> 5
      [] p = "pin08" -> 6 [] p = "pin09" -> 7 [] p = "pin11" -> 8 [] p = "pin12" -> 9 [] p = "pin13" -> 10 [] p = "pin14" -> 11
      [] p = "pin16" -> 12 [] p = "pin17" -> 13 [] p = "pin18" -> 14 [] p = "pin19" -> 15 [] OTHER -> None]
PinOut3B == [p \in {"P0.0", "P0.1", "P0.2", "P0.3", "P0.4", "P0.5", "P0.6", "P0.7"} |->
    CASE p = "P0.0" -> 0 [] p = "P0.1" -> 1 [] p = "P0.2" -> 2 [] p = "P0.3" -> 3 [] p = "P0.4" -> 4 [] p = "P0.5" -> 5
      [] p = "P0.6" -> 6 [] p = "P0.7" -> 7]
PinOut(sys) == IF sys = "3A" THEN PinOut3A ELSE PinOut3B
\* int(pin[3:]) and int(pin[2:]) on the pin names of the universe (-2 = ValueError); the harness re-derives both tables in Python
Bad == -2
Int3 == [p \in {"P0.1", "P0.12", "pin07", "DI5"} |-> CASE p = "P0.1" -> 1 [] p = "P0.12" -> 12 [] p = "pin07" -> 7 [] OTHER -> Bad]
Int2 == [p \in {"AI0", "AI1", "AI2", "AI10", "AIN"} |-> CASE p = "AI0" -> 0 [] p = "AI1" -> 1 [] p = "AI2" -> 2 [] p = "AI10" -> 10 [] OTHER -> Bad]

Upd(m, name, line) == [n \in DOMAIN m \cup {name} |-> IF n = name THEN line ELSE m[n]]
EmptyMap == [n \in {} |-> 0]
SRes(exc, m) == [exc |-> exc, map |-> m]

---- (* implementation layer: the dict comprehensions, one wiring entry at a time *)
RECURSIVE Fold3AB(_, _, _, _)
Fold3AB(po, w, i, m) ==                      \* {digital[pin]: pin_out[pin] for pin in digital if pin_out[pin] is not None}
    IF i > Len(w) THEN SRes("", m)
    ELSE IF w[i][1] \notin DOMAIN po THEN SRes("KeyError", EmptyMap)
    ELSE Fold3AB(po, w, i + 1, IF po[w[i][1]] = None THEN m ELSE Upd(m, w[i][2], po[w[i][1]]))
RECURSIVE FoldOther(_, _, _)
FoldOther(w, i, m) ==                        \* {digital[pin]: int(pin[3:]) for pin in digital}
    IF i > Len(w) THEN SRes("", m)
    ELSE IF Int3[w[i][1]] = Bad THEN SRes("ValueError", EmptyMap)
    ELSE FoldOther(w, i + 1, Upd(m, w[i][2], Int3[w[i][1]]))
RECURSIVE FoldAnalog(_, _, _)
FoldAnalog(w, i, m) ==                       \* sync_map.update({analog[pin]: int(pin[2:]) + 16 for pin in analog})
    IF i > Len(w) THEN SRes("", m)
    ELSE IF Int2[w[i][1]] = Bad THEN SRes("ValueError", EmptyMap)
    ELSE FoldAnalog(w, i + 1, Upd(m, w[i][2], Int2[w[i][1]] + 16))
SyncBranch(c) == IF c.sys = "none" THEN "nosystem" ELSE IF c.sys \in {"3A", "3B"} THEN "pinout" ELSE "other"
ImplSyncMap(c) ==
    LET dig == IF SyncBranch(c) = "nosystem" THEN SRes("KeyError", EmptyMap)
               ELSE IF SyncBranch(c) = "pinout"
                    THEN (IF ~c.dig.present THEN SRes("KeyError", EmptyMap) ELSE Fold3AB(PinOut(c.sys), c.dig.w, 1, EmptyMap))
                    ELSE (IF ~c.dig.present THEN SRes("TypeError", EmptyMap) ELSE FoldOther(c.dig.w, 1, EmptyMap))
    IN IF dig.exc # "" THEN dig
       ELSE IF ~c.ana.present \/ c.ana.w = <<>> THEN dig             \* `if analog:` - absent or empty
       ELSE FoldAnalog(c.ana.w, 1, dig.map)

---- (* property layer over the returned dictionary m (only calls that returned; 3A / 3B systems) *)
Wired(w) == {w[i] : i \in 1..Len(w)}
DocLine(sys, pin) == IF pin \in DOMAIN PinOut(sys) THEN PinOut(sys)[pin] ELSE None
Lines(c) == {<<x[2], DocLine(c.sys, x[1])>> : x \in {y \in Wired(c.dig.w) : DocLine(c.sys, y[1]) # None}}
            \cup {<<x[2], Int2[x[1]] + 16>> : x \in (IF c.ana.present THEN Wired(c.ana.w) ELSE {})}
SSoundP(c, m) == \A n \in DOMAIN m : <<n, m[n]>> \in Lines(c)
SCompleteP(c, m) == \A x \in Lines(c) : x[1] \in DOMAIN m
SAnalogP(c, m) == \A n \in DOMAIN m : (\E x \in (IF c.ana.present THEN Wired(c.ana.w) ELSE {}) : x[2] = n) => m[n] >= 16

SyncInit == s \in {[c |-> c, pc |-> "call", res |-> SRes("", EmptyMap)] : c \in SyncCases}
SyncNoSystem == Part = "sync" /\ s.pc = "call" /\ SyncBranch(s.c) = "nosystem" /\ s' = [s EXCEPT !.pc = "done", !.res = ImplSyncMap(s.c)]
SyncPinOut == Part = "sync" /\ s.pc = "call" /\ SyncBranch(s.c) = "pinout" /\ s' = [s EXCEPT !.pc = "done", !.res = ImplSyncMap(s.c)]
SyncOther == Part = "sync" /\ s.pc = "call" /\ SyncBranch(s.c) = "other" /\ s' = [s EXCEPT !.pc = "done", !.res = ImplSyncMap(s.c)]
SyncNext == SyncNoSystem \/ SyncPinOut \/ SyncOther
SJudged == Part = "sync" /\ s.pc = "done" /\ s.res.exc = "" /\ s.c.sys \in {"3A", "3B"}
SSound == SJudged => SSoundP(s.c, s.res.map)
SComplete == SJudged => SCompleteP(s.c, s.res.map)
SAnalog == SJudged => SAnalogP(s.c, s.res.map)

-----------------------------------------------------------------------------
(***************************************************************************)
(* 3. NP2Reconstructor(raw_ephys_path, pname, compress).process()           *)
(* A case: kind = probe version announced by the first shank folder's       *)
(* metadata, nsh = number of shanks its channel map names, k = number of    *)
(* shank folders pname* present, pre = what is in <pname>/ beforehand       *)
(* ("none" | "match": a .meta whose fileSizeBytes equals the size of the    *)
(* file that will be written | "mismatch"), compress.                       *)
(* State: the content of <pname>/ by extension, whose metadata it is, the   *)
(* status returned.                                                         *)
(***************************************************************************)
ReconStart(c) == [pc |-> "new", dir |-> c.pre # "none", files |-> IF c.pre = "none" THEN {} ELSE {"meta"},
                  meta |-> IF c.pre = "none" THEN "none" ELSE "pre", status |-> -1, exc |-> ""]
\* the step taken from a state and the state it leads to (deterministic); pc values name the method that returned
ReconStep(c, st) ==
    CASE st.pc = "new" -> [st EXCEPT !.pc = "constructed", !.dir = TRUE]                       \* __init__: probe_path.mkdir
      [] st.pc = "constructed" ->                                                               \* _prepare_files
            IF c.k = 0 THEN [st EXCEPT !.pc = "raised", !.exc = "IndexError"]                   \* folders[0]
            ELSE IF c.kind # "NP2.4" THEN [st EXCEPT !.pc = "returned", !.status = 0]
            ELSE IF c.k # c.nsh THEN [st EXCEPT !.pc = "returned", !.status = 0]
            ELSE [st EXCEPT !.pc = "prepared"]
      [] st.pc = "prepared" -> [st EXCEPT !.pc = "params"]                                      \* get_params
      [] st.pc = "params" -> [st EXCEPT !.pc = "reconstructed", !.files = @ \cup {"bin"}]       \* _reconstruct
      [] st.pc = "reconstructed" ->                                                             \* write_metadata
            IF "meta" \in st.files /\ c.pre = "match" THEN [st EXCEPT !.pc = "metadata"]
            ELSE [st EXCEPT !.pc = "metadata", !.files = @ \cup {"meta"}, !.meta = "new"]
      [] st.pc = "metadata" ->
            IF c.compress THEN [st EXCEPT !.pc = "compressed", !.files = (@ \ {"bin"}) \cup {"cbin", "ch"}]   \* compress_file
            ELSE [st EXCEPT !.pc = "returned", !.status = 1]
      [] st.pc = "compressed" -> [st EXCEPT !.pc = "returned", !.status = 1]
ReconFinal(st) == st.pc \in {"returned", "raised"}
RECURSIVE ReconRun(_, _)
ReconRun(c, st) == IF ReconFinal(st) THEN st ELSE ReconRun(c, ReconStep(c, st))

---- (* property layer on the outcome: status, exception, files of <pname>/, whose metadata *)
RNot24P(c, st) == (c.kind # "NP2.4" /\ c.k > 0) => st.exc = "" /\ st.status = 0 /\ st.files \subseteq {"meta"} /\ st.meta # "new"
RCountP(c, st) == (c.kind = "NP2.4" /\ c.k > 0 /\ c.k # c.nsh) => st.exc = "" /\ st.status = 0 /\ st.files \cap {"bin", "cbin", "ch"} = {}
RDoneP(c, st) == (c.kind = "NP2.4" /\ c.k = c.nsh) => st.exc = "" /\ st.status = 1 /\ "meta" \in st.files
RMetaP(c, st) == st.status = 1 => st.meta = (IF c.pre = "match" THEN "pre" ELSE "new")
RCompressP(c, st) == st.status = 1 => st.files \cap {"bin", "cbin", "ch"} = (IF c.compress THEN {"cbin", "ch"} ELSE {"bin"})

ReconInit == s \in {[c |-> c, st |-> ReconStart(c)] : c \in ReconCases}
\* one action per method of process() and per branch taken (the step itself is ReconStep, so that the exported paths are the same function)
RStepFrom(from) == Part = "recon" /\ s.st.pc = from
RAfter == [s EXCEPT !.st = ReconStep(s.c, s.st)]
ReconConstruct == RStepFrom("new") /\ s' = RAfter
ReconPrepareRaise == RStepFrom("constructed") /\ s.c.k = 0 /\ s' = RAfter
ReconPrepareNot24 == RStepFrom("constructed") /\ s.c.k > 0 /\ s.c.kind # "NP2.4" /\ s' = RAfter
ReconPrepareCount == RStepFrom("constructed") /\ s.c.k > 0 /\ s.c.kind = "NP2.4" /\ s.c.k # s.c.nsh /\ s' = RAfter
ReconPrepareOk == RStepFrom("constructed") /\ s.c.k > 0 /\ s.c.kind = "NP2.4" /\ s.c.k = s.c.nsh /\ s' = RAfter
ReconParams == RStepFrom("prepared") /\ s' = RAfter
ReconWrite == RStepFrom("params") /\ s' = RAfter
ReconMetaKeep == RStepFrom("reconstructed") /\ ("meta" \in s.st.files /\ s.c.pre = "match") /\ s' = RAfter
ReconMetaWrite == RStepFrom("reconstructed") /\ ~("meta" \in s.st.files /\ s.c.pre = "match") /\ s' = RAfter
ReconCompress == RStepFrom("metadata") /\ s.c.compress /\ s' = RAfter
ReconReturnPlain == RStepFrom("metadata") /\ ~s.c.compress /\ s' = RAfter
ReconReturn == RStepFrom("compressed") /\ s' = RAfter
ReconNext == ReconConstruct \/ ReconPrepareRaise \/ ReconPrepareNot24 \/ ReconPrepareCount \/ ReconPrepareOk \/ ReconParams \/ ReconWrite
             \/ ReconMetaKeep \/ ReconMetaWrite \/ ReconCompress \/ ReconReturnPlain \/ ReconReturn
RFin == Part = "recon" /\ ReconFinal(s.st)
RNot24 == RFin => RNot24P(s.c, s.st)
RCount == RFin => RCountP(s.c, s.st)
RDone == RFin => RDoneP(s.c, s.st)
RMeta == RFin => RMetaP(s.c, s.st)
RCompress == RFin => RCompressP(s.c, s.st)
\* nothing is written before the preconditions have been checked (every state, not only the last)
RNoEarlyWrite == Part = "recon" => (s.st.pc \in {"new", "constructed", "prepared", "params"} => s.st.files \subseteq {"meta"})
RRunAgrees == RFin => s.st = ReconRun(s.c, ReconStart(s.c))

-----------------------------------------------------------------------------
(***************************************************************************)
(* 4. Reader life-cycle.  h = the handle behind `_raw` ("none" | "live" |   *)
(* "closed"), raw = what the attribute `_raw` is ("unset": the attribute    *)
(* does not exist | "None" | "obj").  Calls: open close enter exit read     *)
(* isopen.  Each call gives an observation: "ok", "data", "IOError",        *)
(* "AttributeError", "True", "False"; "DANGER" = read through a closed      *)
(* handle (undefined behaviour of a closed numpy memmap: never replayed).   *)
(***************************************************************************)
Calls == {"open", "close", "enter", "exit", "read", "isopen"}
IsOpenVal(st) == IF st.raw = "unset" THEN "AttributeError" ELSE IF st.raw = "None" THEN "False" ELSE "True"
Opened(st) == [st EXCEPT !.h = "live", !.raw = "obj", !.ever = TRUE]
RdNew(kind, open) ==
    LET st0 == [h |-> "none", raw |-> IF kind = "flat" THEN "unset" ELSE "None", ever |-> FALSE]
    IN IF open THEN Opened(st0) ELSE st0
\* <<state after, observation>>
RdCall(st, a) ==
    LET io == IsOpenVal(st) IN
    CASE a = "open" -> <<Opened(st), "ok">>
      [] a \in {"close", "exit"} ->
            IF io = "AttributeError" THEN <<st, "AttributeError">>
            ELSE IF io = "False" THEN <<st, "ok">>
            ELSE <<[st EXCEPT !.h = "closed"], "ok">>          \* `_raw` keeps pointing to the closed object
      [] a = "enter" ->
            IF io = "AttributeError" THEN <<st, "AttributeError">>
            ELSE IF io = "False" THEN <<Opened(st), "ok">>
            ELSE <<st, "ok">>
      [] a = "read" ->
            IF io = "AttributeError" THEN <<st, "AttributeError">>
            ELSE IF io = "False" THEN <<st, "IOError">>
            ELSE IF st.h = "live" THEN <<st, "data">> ELSE <<st, "DANGER">>
      [] a = "isopen" -> <<st, io>>
\* read_sync / read(sync=True) -> read_sync_digital: `if not self.meta: _logger.warning("Sync trace not labeled in metadata.
\* Assuming last trace")` and then the sync columns are looked up in the (absent) metadata all the same
ImplReadSync(kind, st) ==
    IF IsOpenVal(st) = "AttributeError" THEN "AttributeError"
    ELSE IF IsOpenVal(st) = "False" THEN "IOError"
    ELSE IF st.h # "live" THEN "DANGER"
    ELSE IF kind = "flat" THEN "AttributeError" ELSE "data"
RECURSIVE RdRun(_, _, _)
RdRun(st, seq, i) ==      \* the observations of a call sequence: <<obs, h after, isopen after>> per call
    IF i > Len(seq) THEN <<>>
    ELSE LET r == RdCall(st, seq[i]) IN << <<r[2], r[1].h, IsOpenVal(r[1])>> >> \o RdRun(r[1], seq, i + 1)
RdSafe(st, seq) == \A i \in 1..Len(seq) : RdRun(st, seq, 1)[i][1] # "DANGER"

---- (* property layer on one observed call: state before (hb = handle, ever = was opened before), call, obs, state after *)
LCtorP(kind, open, h, io) == IF open THEN h = "live" /\ io = "True" ELSE h = "none" /\ (kind # "flat" => io = "False")
LNotOpenP(ever, a, obs) == (a = "read" /\ ~ever) => obs \in {"IOError", "AttributeError"}
LNotOpenStrictP(ever, a, obs) == (a = "read" /\ ~ever) => obs = "IOError"
LReleaseP(a, obs, hafter) == (a \in {"close", "exit"} /\ obs = "ok") => hafter # "live"
LTruthfulP(hafter, ioafter) == ioafter = (IF hafter = "live" THEN "True" ELSE "False")
DevStale(hafter, ioafter) == hafter = "closed" /\ ioafter = "True"
DevFlatUnset(kind, hafter, ioafter) == kind = "flat" /\ hafter = "none" /\ ioafter = "AttributeError"
LSyncP(obs) == obs = "data"           \* on an open reader, with or without metadata
DevFlatSync(kind, obs) == kind = "flat" /\ obs = "AttributeError"
LWithP(a, obs, hafter) == (a = "enter" /\ obs = "ok") => hafter = "live"

ReaderInit == s \in {[kind |-> k, open |-> o, st |-> RdNew(k, o), n |-> 0, a |-> "new", obs |-> "ok", everb |-> FALSE] :
                        k \in ReaderKinds, o \in BOOLEAN}
RdGuard == Part = "reader" /\ s.n < MaxLen /\ s.obs # "DANGER"
RdAfter(a) == LET r == RdCall(s.st, a) IN [s EXCEPT !.st = r[1], !.n = @ + 1, !.a = a, !.obs = r[2], !.everb = s.st.ever]
ReaderOpen == RdGuard /\ s' = RdAfter("open")
ReaderClose == RdGuard /\ s' = RdAfter("close")
ReaderEnter == RdGuard /\ s' = RdAfter("enter")
ReaderExit == RdGuard /\ s' = RdAfter("exit")
ReaderRead == RdGuard /\ s' = RdAfter("read")
ReaderIsOpen == RdGuard /\ s' = RdAfter("isopen")
ReaderNext == ReaderOpen \/ ReaderClose \/ ReaderEnter \/ ReaderExit \/ ReaderRead \/ ReaderIsOpen
LOn == Part = "reader" /\ s.obs # "DANGER"
LCtor == (LOn /\ s.a = "new") => LCtorP(s.kind, s.open, s.st.h, IsOpenVal(s.st))
LNotOpen == LOn => (LNotOpenStrictP(s.everb, s.a, s.obs) \/ DevFlatUnset(s.kind, s.st.h, IsOpenVal(s.st)))
LRelease == LOn => LReleaseP(s.a, s.obs, s.st.h)
LTruthful == LOn => (LTruthfulP(s.st.h, IsOpenVal(s.st)) \/ DevStale(s.st.h, IsOpenVal(s.st)) \/ DevFlatUnset(s.kind, s.st.h, IsOpenVal(s.st)))
LSync == (LOn /\ s.st.h = "live") => (LSyncP(ImplReadSync(s.kind, s.st)) \/ DevFlatSync(s.kind, ImplReadSync(s.kind, s.st)))
LWith == LOn => (LWithP(s.a, s.obs, s.st.h) \/ DevStale(s.st.h, IsOpenVal(s.st)))

-----------------------------------------------------------------------------
Init == CASE Part = "glob" -> GlobInit [] Part = "sync" -> SyncInit [] Part = "recon" -> ReconInit
          [] Part = "reader" -> ReaderInit [] OTHER -> s = 0
Next == GlobNext \/ SyncNext \/ ReconNext \/ ReaderNext
Spec == Init /\ [][Next]_s
=============================================================================
