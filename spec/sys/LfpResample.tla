----------------------------- MODULE LfpResample -----------------------------
(***************************************************************************)
(* X02 - ibldsp.voltage.resample_denoise_lfp_cbin: a third client of the    *)
(* window generator (after NP2Converter and decompress_destripe_cbin).      *)
(* Not one of the listed properties C01..C20 (DESIGN.md section 6); the     *)
(* property layer is taken from the function's docstring ("Downsamples an   *)
(* LFP file ...", the Reader recipe with fs / RESAMPLE_FACTOR).             *)
(*                                                                         *)
(* The output file is a sequence of rows; a row carries the *token* = the   *)
(* index of the input sample it was picked at.  (The harness replaces the   *)
(* three numeric stages - band-pass, destriping, FIR decimation - by their  *)
(* index skeleton "keep every F-th row", and writes the sample index into   *)
(* the data, so tokens can be read off the real output file.)  A window     *)
(* contributes one contiguous run of rows, so the file is kept as a         *)
(* sequence of segments <<first token, number of rows>> (stride F inside).  *)
(*                                                                         *)
(* Implementation layer: Construct / YieldFirst / YieldNext / Stop of       *)
(* Windows, each window followed by the code's arithmetic:                  *)
(*    rsamp       = decimate(window)        -> ceil(len / F) rows           *)
(*    first_valid = 0 | int(overlap / 2 / F)                                *)
(*    last_valid  = rows | int(rows - overlap / 2 / F)                      *)
(***************************************************************************)
EXTENDS Windows

CONSTANTS Cases       \* set of <<ns, w, ov, F>> explored (the code hard-wires w = 65536, ov = 1024; F = RESAMPLE_FACTOR, default 10)

VARIABLES F,          \* RESAMPLE_FACTOR of this run
          out,        \* output file: sequence of segments <<token of first row, rows>>
          rows        \* number of rows written so far (the code's counter `c`)

rvars == <<vars, F, out, rows>>

\* int(x) of a non-negative rational a / b
Floor(a, b) == a \div b
\* rows of one window after decimation by k: x[::k] keeps positions 0, k, 2k, ..
RLenP(k, f, l) == CeilDiv(l - f, k)
\* int(overlap / 2 / k)
FVP(k, o, f) == IF f = 0 THEN 0 ELSE Floor(o, 2 * k)
\* int(rows - overlap / 2 / k) = floor((2 k rows - ov) / (2 k)); a negative value would be Python's "from the end" (not in the boxes)
LVP(k, n, o, f, l) == IF l = n THEN RLenP(k, f, l) ELSE (2 * k * RLenP(k, f, l) - o) \div (2 * k)
KeptP(k, n, o, f, l) == IF LVP(k, n, o, f, l) > FVP(k, o, f) THEN LVP(k, n, o, f, l) - FVP(k, o, f) ELSE 0
SegP(k, n, o, f, l) == <<f + k * FVP(k, o, f), KeptP(k, n, o, f, l)>>
Kept(f, l) == KeptP(F, ns, ov, f, l)
Seg(f, l) == SegP(F, ns, ov, f, l)
\* the whole loop as one function (used for the export of expected results and cross-checked against the state machine)
RECURSIVE SegsFrom(_, _, _, _, _)
SegsFrom(k, n, ww, o, f) == LET l == Min(f + ww, n) IN
                            <<SegP(k, n, o, f, l)>> \o (IF l = n THEN <<>> ELSE SegsFrom(k, n, ww, o, f + ww - o))

RInit == /\ \E c \in Cases : ns = c[1] /\ w = c[2] /\ ov = c[3] /\ F = c[4]
         /\ ov < w /\ ns >= 1
         /\ pc = "new" /\ first = -1 /\ last = -1 /\ iw = -1 /\ nwin = 0 /\ pfirst = -1 /\ plast = -1
         /\ out = <<>> /\ rows = 0

RConstruct == Construct /\ UNCHANGED <<F, out, rows>>
RWindow == /\ (YieldFirst \/ YieldNext)
           /\ out' = Append(out, Seg(first', last'))
           /\ rows' = rows + Kept(first', last')
           /\ UNCHANGED F
RStop == Stop /\ UNCHANGED <<F, out, rows>>
RNext == RConstruct \/ RWindow \/ RStop
RSpec == RInit /\ [][RNext]_rvars

-----------------------------------------------------------------------------
(* property layer, over the observed segments `o` (and the observed row counter c)                                *)
(* D = docstring of resample_denoise_lfp_cbin, R = the Reader recipe in it (fs / RESAMPLE_FACTOR: a uniform grid) *)

Done == pc = "done"
RECURSIVE RowsOf(_)
RowsOf(o) == IF o = <<>> THEN 0 ELSE o[Len(o)][2] + RowsOf(SubSeq(o, 1, Len(o) - 1))
LastTok(k, sg) == sg[1] + k * (sg[2] - 1)
NonEmpty(o) == SelectSeq(o, LAMBDA sg : sg[2] > 0)

\* RCounter  the code's own counter is the number of rows in the file
CounterP(o, c) == c = RowsOf(o)
\* RMonotone D "Downsamples": time never runs backwards and no input sample is emitted twice
MonotoneP(k, o) == LET q == NonEmpty(o) IN \A i \in 1..(Len(q) - 1) : q[i + 1][1] > LastTok(k, q[i])
\* RUniform  R: one row every k input samples, starting at sample 0: row j is input sample k j
UniformP(k, o) == LET q == NonEmpty(o) IN \A i \in 1..Len(q) : q[i][1] = k * RowsOf(SubSeq(q, 1, i - 1))
\* RComplete D: the whole file is downsampled: ceil(ns / k) rows, the last one within k samples of the end
CompleteP(k, n, o) == /\ RowsOf(o) = CeilDiv(n, k)
                      /\ (LET q == NonEmpty(o) IN q # <<>> /\ LastTok(k, q[Len(q)]) >= n - k)

\* deviation classes of the unchanged code (named; the invariants checked are Clause \/ Dev)
\* DevSeam: the stride (w - ov) is not a multiple of F, or the margins int(ov/2/F) and rows - int(rows - ov/2/F) differ: the grid
\*          jumps at every window seam (by 12 instead of 10 input samples with the code's constants and the default factor) and the
\*          file ends up shorter than ceil(ns / F)
DevSeam == nwin > 1 /\ ((w - ov) % F # 0 \/ ov % (2 * F) # 0)
\*          Depending on the residues the step at a seam is larger than F (12 for F = 10), zero (the same input sample is
\*          written twice, F = 3) or negative (time runs backwards, large F): MonotoneP fails in the last two.

Counter == CounterP(out, rows)
Monotone == MonotoneP(F, out) \/ DevSeam
Uniform == Done => (UniformP(F, out) \/ DevSeam)
Complete == Done => (CompleteP(F, ns, out) \/ DevSeam)
\* where the deviation class does not apply the output is the uniform grid, complete
UniformWhenAligned == (Done /\ ~DevSeam) => (UniformP(F, out) /\ CompleteP(F, ns, out))
\* the state machine and the closed form agree
ClosedForm == Done => out = SegsFrom(F, ns, w, ov, 0)
\* the deviations are real (vacuity control: each must be violated in the boxes)
NoSeamJump == Done => UniformP(F, out)
NoBackward == MonotoneP(F, out)
=============================================================================
