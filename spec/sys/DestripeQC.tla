----------------------------- MODULE DestripeQC -----------------------------
(***************************************************************************)
(* X04 - the quality side files of decompress_destripe_cbin (DESIGN.md     *)
(* section 6): `_iblqc_ephysSaturation.samples.npy` (one boolean per       *)
(* sample, a memmap every worker writes into) and the rms / time rows      *)
(* (`ap_rms.bin`, `ap_time.bin`, one row per batch, each worker seeks to   *)
(* its own start row).  The module EXTENDS DestripeFile (C06): the same    *)
(* workers, the same Start / Write steps; the Write step additionally       *)
(*   - stores the flags of its WHOLE batch [first_s, last_s) - not only the *)
(*     kept rows - into the saturation memmap, and                          *)
(*   - writes the batch centre `first_s + (last_s - first_s - 1) / 2` into  *)
(*     the time row of the batch.                                           *)
(*                                                                         *)
(* What matters about the saturation flags: `saturation()` flags sample p   *)
(* when too many channels are over range at p, or when too many channels    *)
(* jump between p and p + 1 (`np.diff`, padded with a trailing 0).  The      *)
(* flag of the LAST sample of a batch therefore never carries the jump       *)
(* criterion; that sample, E(c) = LastS(c) - 1, also lies inside the next    *)
(* batch(es), whose flag for it is complete.  Consecutive batches overlap    *)
(* by 2T samples and both write the overlap, so what the file holds at E(c)  *)
(* is decided by who writes last.  satw[c] = batch that last wrote E(c).     *)
(*                                                                         *)
(* There is no listed property about the contents of these files (C06 asks  *)
(* for the entry counts only).  Property layer (ours, from the docstring:   *)
(* "a nsamples vector of booleans indicating the saturated samples"):       *)
(*   SeamKeptP    the file's flag at every E(c) comes from a batch that     *)
(*                sees the following sample (so the file equals the flags   *)
(*                of the whole recording, whatever the batching)            *)
(*   TimeOrderP / TimeInsideP  the time rows increase and row k lies inside *)
(*                the rows that batch k contributes to the output file      *)
(* SeamKeptP holds for one worker (batches in ascending order).  With       *)
(* several workers it does not: a worker's last batch c < LastB is written   *)
(* after (or concurrently with) the next worker's first batches, so a jump   *)
(* between E(c) and E(c) + 1 is lost whenever that worker finishes last.     *)
(* That is the deviation class Losable(c); the invariant is Clause \/ Dev.  *)
(***************************************************************************)
EXTENDS DestripeFile

VARIABLES satw,      \* seam c -> batch that last wrote sample E(c) (-1: never)
          wfirst,    \* worker -> first batch it processed (-1: none)
          trow       \* batch -> twice the centre written into its time row (-1: none)

qvars == <<vars, satw, wfirst, trow>>

Seams == 0..(LastB - 1)              \* batches whose last sample is not the end of the recording
E(c) == LastS(c) - 1
AllB == 0..(LastB + MaxP + 2)        \* generous index range for the time rows (the "orig" variant writes beyond LastB)

QInit == /\ Init
         /\ satw = [c \in Seams |-> -1]
         /\ wfirst = [w \in W |-> -1]
         /\ trow = [b \in AllB |-> -1]

QStart(w) == Start(w) /\ UNCHANGED <<satw, wfirst, trow>>

QWrite(w) ==
    /\ Write(w)
    /\ LET b == wb[w] IN
       IF wpc'[w] = "crashed"
       THEN UNCHANGED <<satw, wfirst, trow>>
       ELSE /\ satw' = [c \in DOMAIN satw |-> IF FirstS(b) <= E(c) /\ E(c) < LastS(b) THEN b ELSE satw[c]]
            /\ wfirst' = [wfirst EXCEPT ![w] = IF @ = -1 THEN b ELSE @]
            /\ trow' = [trow EXCEPT ![b] = 2 * FirstS(b) + (LastS(b) - FirstS(b)) - 1]

QNext == \E w \in W : QStart(w) \/ QWrite(w)
QSpec == QInit /\ [][QNext]_qvars

-----------------------------------------------------------------------------
(* property layer over the observables: sw = seam -> does the file's flag at E(c) come from a later batch;  *)
(* tr = batch -> twice the time (in samples) of its row                                                    *)
SeamKeptP(kept) == \A c \in DOMAIN kept : kept[c]
TimeOrderP(tr, n) == \A k \in 0..(n - 2) : tr[k] < tr[k + 1]
TimeInsideP(tr, n) == \A k \in 0..(n - 1) : 2 * Lo(k) <= tr[k] /\ tr[k] <= 2 * (Hi(k) - 1)

\* the deviation class: c is the last batch of a worker (and not the last batch of the recording)
Ran(w) == wfirst[w] >= 0
LastOf(w) == wb[w] - 1
Losable(c) == \E w \in W : Ran(w) /\ LastOf(w) = c /\ c < LastB

SatSeam == (Terminated /\ NoCrash) => \A c \in Seams : satw[c] > c \/ Losable(c)
SingleWorkerExact == (Terminated /\ NoCrash /\ np = 1) => SeamKeptP([c \in Seams |-> satw[c] > c])
\* a seam is only ever written by its own batch or a later one that contains it
SatWriters == \A c \in Seams : satw[c] = -1 \/ (satw[c] >= c /\ FirstS(satw[c]) <= E(c))
Times == (Terminated /\ NoCrash) => /\ \A k \in 0..LastB : trow[k] = 2 * FirstS(k) + (LastS(k) - FirstS(k)) - 1
                                    /\ TimeOrderP(trow, LastB + 1)
                                    /\ TimeInsideP(trow, LastB + 1)
                                    /\ \A k \in AllB : k > LastB => trow[k] = -1
\* vacuity control: must be violated (the deviation occurs in the box)
NoSeamLost == (Terminated /\ NoCrash) => \A c \in Seams : satw[c] > c
=============================================================================
