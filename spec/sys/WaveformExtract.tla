--------------------------- MODULE WaveformExtract ---------------------------
(***************************************************************************)
(* C13 - ibldsp.waveform_extraction.extract_wfs_cbin.                       *)
(*                                                                         *)
(* A recording of NS samples and a spike train (sequence of <<sample, unit,  *)
(* peak channel>>, sorted by sample).  Implementation layer:                 *)
(*   MakeTable    `_make_wfs_table`: per unit ANY subset of its valid spikes *)
(*                of size min(MAXWF, #valid) (the code draws it with NumPy's *)
(*                generator - the spec does not depend on the generator),    *)
(*                rows in time order, waveform_index = cluster-major rank    *)
(*   ChunkJob(c)  `write_wfs_chunk`: the rows whose sample lies in chunk c,  *)
(*                read through a snippet that starts TROUGH samples early    *)
(*                (except chunk 0), written into the memmap at               *)
(*                waveform_index; jobs run in any order / interleaving       *)
(*   Finalize     sort by (cluster, sample), index_within_clusters, channel  *)
(*                map, templates                                             *)
(* A written row is the token <<first sample of the window, peak channel>>:  *)
(* it determines the waveform (window + neighbour list of the peak).         *)
(* Variant "orig": before the fix: commit (F8) the zero-padded index table   *)
(* loses spike number 0 when it is selected.                                 *)
(***************************************************************************)
EXTENDS Integers, Sequences, FiniteSets, TLC

CONSTANTS NS, LEN, TROUGH,     \* recording length, spike_length_samples, trough_offset
          MaxWFs, Chunks,      \* sets: max_wf values, chunk sizes
          Trains,              \* set of spike trains explored
          Variant

VARIABLES train, maxwf, chunk, pc,
          table,      \* sequence of rows [sp |-> index into train, widx |-> waveform_index]
          done,       \* chunk jobs finished
          writes      \* waveform_index -> sequence of tokens written there

vars == <<train, maxwf, chunk, pc, table, done, writes>>

Min(a, b) == IF a < b THEN a ELSE b
CeilDiv(a, b) == -((-a) \div b)
S(i) == train[i][1]
U(i) == train[i][2]
P(i) == train[i][3]
Spk == DOMAIN train
Units == {U(i) : i \in Spk}
Valid(i) == TROUGH < S(i) /\ S(i) < NS - (LEN - TROUGH)
ValidOf(u) == {i \in Spk : U(i) = u /\ Valid(i)}
Quota(u) == Min(maxwf, Cardinality(ValidOf(u)))

\* ascending sequence of a set of naturals
RECURSIVE Asc(_)
Asc(X) == IF X = {} THEN <<>> ELSE LET x == CHOOSE y \in X : \A z \in X : y <= z IN <<x>> \o Asc(X \ {x})

\* waveform_index: rank of a selected spike in (unit, time) order; sel = set of selected spike indices
Widx(sel, i) == Cardinality({j \in sel : U(j) < U(i) \/ (U(j) = U(i) /\ j < i)})
TableOf(sel) == LET a == Asc(sel) IN [r \in DOMAIN a |-> [sp |-> a[r], widx |-> Widx(sel, a[r])]]

Init == /\ train \in Trains /\ maxwf \in MaxWFs /\ chunk \in Chunks
        /\ pc = "new" /\ table = <<>> /\ done = {} /\ writes = <<>>

\* the selections the code may make: one subset of the right size per unit
Selections == {sel \in SUBSET {i \in Spk : Valid(i)} : \A u \in Units : Cardinality({i \in sel : U(i) = u}) = Quota(u)}
MakeTable ==
    /\ pc = "new"
    /\ \E sel \in Selections :
         LET kept == IF Variant = "orig" THEN sel \ {1} ELSE sel      \* "remove initial zeros" drops spike number 0
         IN /\ table' = TableOf(kept)
            /\ writes' = [w \in 0..(Cardinality(kept) - 1) |-> <<>>]
    /\ pc' = "jobs" /\ UNCHANGED <<train, maxwf, chunk, done>>

NChunks == CeilDiv(NS, chunk)
\* rows of chunk c (searchsorted on the sorted sample column): c*chunk <= sample < (c+1)*chunk, last chunk to NS
RowsOf(c) == {r \in DOMAIN table : c * chunk <= S(table[r].sp) /\ (S(table[r].sp) < (c + 1) * chunk \/ c = NChunks - 1)}
\* write_wfs_chunk arithmetic for one row
Offset(c) == IF c = 0 THEN 0 ELSE TROUGH
SnipFirst(c) == c * chunk - Offset(c)
SnipLen(c) == Min((IF c = NChunks - 1 THEN NS ELSE (c + 1) * chunk) + LEN - TROUGH, NS) - SnipFirst(c)
Local(c, r) == S(table[r].sp) + Offset(c) - c * chunk
Token(c, r) == <<SnipFirst(c) + Local(c, r) - TROUGH, P(table[r].sp)>>
InSnip(c, r) == 0 <= Local(c, r) - TROUGH /\ Local(c, r) - TROUGH + LEN <= SnipLen(c)

ChunkJob(c) ==
    /\ pc = "jobs" /\ c \in (0..(NChunks - 1)) \ done
    /\ writes' = [w \in DOMAIN writes |->
                     IF \E r \in RowsOf(c) : table[r].widx = w
                     THEN writes[w] \o <<Token(c, CHOOSE r \in RowsOf(c) : table[r].widx = w)>>
                     ELSE writes[w]]
    /\ done' = done \cup {c}
    /\ UNCHANGED <<train, maxwf, chunk, pc, table>>

Finalize ==
    /\ pc = "jobs" /\ done = 0..(NChunks - 1)
    /\ pc' = "done" /\ UNCHANGED <<train, maxwf, chunk, table, done, writes>>

Next == MakeTable \/ (\E c \in 0..(NChunks - 1) : ChunkJob(c)) \/ Finalize
Spec == Init /\ [][Next]_vars

-----------------------------------------------------------------------------
(* property layer; tb = the table, wr = what the traces file holds per row *)
SelOf(tb) == {tb[r].sp : r \in DOMAIN tb}
\* each unit receives min(max_wf, #valid) distinct valid spikes
QuotaP(tb) == /\ \A r \in DOMAIN tb : Valid(tb[r].sp)
              /\ \A r1, r2 \in DOMAIN tb : r1 # r2 => tb[r1].sp # tb[r2].sp
              /\ \A u \in Units : Cardinality({r \in DOMAIN tb : U(tb[r].sp) = u}) = Quota(u)
\* table and traces agree row by row: waveform_index is the position in (cluster, sample) order
RowOrderP(tb) == /\ {tb[r].widx : r \in DOMAIN tb} = 0..(Len(tb) - 1)
                 /\ \A r1, r2 \in DOMAIN tb :
                       (U(tb[r1].sp) < U(tb[r2].sp) \/ (U(tb[r1].sp) = U(tb[r2].sp) /\ S(tb[r1].sp) < S(tb[r2].sp)))
                          => tb[r1].widx < tb[r2].widx
\* every row of the traces file was written exactly once and holds the window [sample - TROUGH, ..+LEN) around the
\* row's own peak channel - whatever the chunk size and the order of the jobs
ContentP(tb, wr) == \A r \in DOMAIN tb : wr[tb[r].widx] = << <<S(tb[r].sp) - TROUGH, P(tb[r].sp)>> >>
AtMostOnceP(wr) == \A w \in DOMAIN wr : Len(wr[w]) <= 1

Quotas == pc # "new" => QuotaP(table)
RowOrder == pc # "new" => RowOrderP(table)
AtMostOnce == AtMostOnceP(writes)
Content == pc = "done" => ContentP(table, writes)
WithinSnippet == pc # "new" => \A c \in 0..(NChunks - 1) : \A r \in RowsOf(c) : InSnip(c, r)
EveryRowInAChunk == pc # "new" => \A r \in DOMAIN table : Cardinality({c \in 0..(NChunks - 1) : r \in RowsOf(c)}) = 1
=============================================================================
